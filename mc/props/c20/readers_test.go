package c20

// Harness D: SEQUENCES OF READERS over time on one long-lived process.
//
// Harnesses A-C judge every state a reader opens on its own: open, sweep, close, next. Whether the state handed to
// a reader depends on what EARLIER readers of the same process did (a recycled scratch overlay, a memo that outlives
// the request, a closer that hands something back) is a statement about ordered sequences of reader programs, and
// the diff section that betrays such a dependence is the one the later reader's own blocks do NOT write. So this
// harness enumerates
//
//	content   the 7 sections of core.StateDiff (asserted by reflection), one item each, all about keys that exist in
//	          every canonical base or are self-contained: storage A.s0, nonce A, deployed F (+ F.s0), replaced A,
//	          declared Sierra K (+ definition), declared Cairo0 V (+ definition), migrated S1 (0.14.1
//	          migrated_compiled_classes; S1 is declared V1 by canonical block 1). Item j of rotation rho sits at
//	          position (j+rho) mod 3 of round x, positions = {block 3 tx 0, block 4 tx 0, block 4 tx 1}: over the three
//	          rotations every section occurs at every position. Round y of a slot writes one cell no round x writes.
//	writer    ONE timeline on one real ChainStorage: full(3,x); full(4,x); full(4,y) [new round replaces the tip];
//	          AdvanceTo(4) [head advanced, realigned]; AdvanceTo(3) [head reverted: chain dropped]; full(3,y) [rebuilt]
//	views     every non-empty SnapshotForBlock(q) at every stage (held by the reader from then on)
//	program   (view, block b of the view, PreConfirmedStateAt(b) | PreConfirmedStateBeforeIndexAt(b,i) for EVERY i,
//	          read stage >= the stage the view was taken at, environment = canonical chain x backend incl. base missing)
//	sequence  every ordered pair (thorough: also every ordered triple) of programs with non-decreasing read stages,
//	          in each interleaving shape of {open, sweep, close}: sequential o1 s1 c1 o2 s2 c2; nested o1 s1 o2 s2 c2 s1 c1;
//	          overlapped o1 s1 o2 s2 c1 s2 c2 - executed on ONE goroutine on a storage freshly driven through the timeline
//
// and EVERY sweep of EVERY reader in the sequence is compared with the dictionary overlay of that reader's own
// (view, block, index): all StateReader accessors incl. CompiledClassHash / CompiledClassHashV2 / Class, and the
// merged diff the state exposes (pending.State.StateDiff) section by section.
//
// Soundness does not depend on scheduling: a correct implementation gives every reader a state that is a function of
// its own (view, block, index, base) only, so nothing another goroutine or a GC does can raise an alarm; a recycled
// object that happens not to come back to the next reader is only a missed detection.

import (
	"fmt"
	"reflect"
	"runtime"
	"sort"
	"strings"
	"sync"
	"sync/atomic"
	"time"

	"verif/mc/chain"
	"verif/mc/ev"

	"github.com/NethermindEth/juno/core"
	"github.com/NethermindEth/juno/core/felt"
	"github.com/NethermindEth/juno/core/pending"
	"github.com/NethermindEth/juno/starknet"
	"github.com/NethermindEth/juno/sync/preconfirmed"
)

const (
	dVersion   = "0.14.1"
	dFirstSlot = 3
)

var dSections = []string{"StorageDiffs", "Nonces", "DeployedContracts", "DeclaredV0Classes", "DeclaredV1Classes", "ReplacedClasses", "MigratedClasses"}

// dSectionsOK: the harness places one item in every section of core.StateDiff; a section it does not know would
// silently stay outside the enumeration.
func dSectionsOK() error {
	t := reflect.TypeOf(core.StateDiff{})
	var got []string
	for i := 0; i < t.NumField(); i++ {
		got = append(got, t.Field(i).Name)
	}
	want := append([]string{}, dSections...)
	sort.Strings(got)
	sort.Strings(want)
	if strings.Join(got, ",") != strings.Join(want, ",") {
		return fmt.Errorf("core.StateDiff sections changed: %v (harness D knows %v)", got, want)
	}
	return nil
}

var dItemNames = []string{"storage", "nonce", "deployed", "replaced", "declared-v1", "declared-v0", "migrated"}

var dFresh = chain.FV(0xF2E5C)

type dTx struct {
	eff     *core.StateDiff
	classes map[felt.Felt]core.ClassDefinition
	what    []string
}

type dBlock struct {
	slot  uint64
	round int // 0 = x, 1 = y
	txs   []dTx
}

func dTxHash(slot uint64, round, k int) felt.Felt {
	return chain.FV(0xA000000 + slot*0x100 + uint64(round)*0x10 + uint64(k))
}

// dPut writes section item j (placed at position pos) into the transaction's diff.
func dPut(tx *dTx, j, pos int) {
	d := tx.eff
	A := chain.AddrA
	_, s1, _, _ := chain.Sierra(1)
	st := func(a, k felt.Felt, v uint64) {
		if d.StorageDiffs[a] == nil {
			d.StorageDiffs[a] = map[felt.Felt]*felt.Felt{}
		}
		d.StorageDiffs[a][k] = chain.F(v)
	}
	tag := uint64(pos + 1)
	switch dItemNames[j] {
	case "storage":
		st(A, chain.Slot0, 0xD000+tag)
	case "nonce":
		d.Nonces[A] = chain.F(0xD100 + tag)
	case "deployed":
		d.DeployedContracts[dFresh] = &s1
		st(dFresh, chain.Slot0, 0xD200+tag)
	case "replaced":
		d.ReplacedClasses[A] = &s1
	case "declared-v1":
		c, h, casm, _ := chain.Sierra(400)
		d.DeclaredV1Classes[h] = &casm
		tx.classes[h] = c
	case "declared-v0":
		c, h := chain.Cairo0(40)
		d.DeclaredV0Classes = append(d.DeclaredV0Classes, &h)
		tx.classes[h] = c
	case "migrated":
		// the value identifies the position (as every value of the harness does); the canonical base answers the V2 hash
		// it computed from the definition, so a migration that is in or out of the overlay is visible through BOTH accessors
		d.MigratedClasses[felt.SierraClassHash(s1)] = felt.CasmClassHash(chain.FV(0x1E4400 + tag))
	}
	tx.what = append(tx.what, dItemNames[j])
}

// dRound builds the content of (slot, round) under rotation rho.
func dRound(slot uint64, round, rho int) *dBlock {
	b := &dBlock{slot: slot, round: round}
	newTx := func() *dTx {
		d := core.EmptyStateDiff()
		b.txs = append(b.txs, dTx{eff: &d, classes: map[felt.Felt]core.ClassDefinition{}})
		return &b.txs[len(b.txs)-1]
	}
	if round == 1 {
		tx := newTx()
		tx.eff.StorageDiffs[chain.AddrA] = map[felt.Felt]*felt.Felt{chain.Slot1: chain.F(0xF000 + slot)}
		tx.what = []string{"A.s1 (round y)"}
		return b
	}
	positions := []int{0}
	if slot == dFirstSlot+1 {
		positions = []int{1, 2}
	}
	for _, pos := range positions {
		tx := newTx()
		for j := range dItemNames {
			if (j+rho)%3 == pos {
				dPut(tx, j, pos)
			}
		}
	}
	return b
}

type dOp struct {
	kind  byte // F full block, A AdvanceTo
	slot  uint64
	round int
}

var dTimeline = []dOp{{'F', 3, 0}, {'F', 4, 0}, {'F', 4, 1}, {'A', 4, 0}, {'A', 3, 0}, {'F', 3, 1}}

func (o dOp) String() string {
	if o.kind == 'A' {
		return fmt.Sprintf("advanceTo(%d)", o.slot)
	}
	return fmt.Sprintf("full(%d,%s)", o.slot, idNames[o.round])
}

// dView: one non-empty view a reader can take (stage, q) and what the harness delivered into it.
type dView struct {
	stage  int
	q      uint64
	blocks []*dBlock
}

func (v *dView) String() string {
	var s []string
	for _, b := range v.blocks {
		s = append(s, fmt.Sprintf("%d%s", b.slot, idNames[b.round]))
	}
	return fmt.Sprintf("view[%s] taken for %d after %s", strings.Join(s, ","), v.q, dTimeline[v.stage])
}

// dProg: one reader program (without its placement in time / environment).
type dProg struct {
	view int // index into dPlan.views
	bi   int // block of the view
	idx  int // -1: PreConfirmedStateAt; >= 0: PreConfirmedStateBeforeIndexAt(.., idx)

	model  *chain.State // dictionary overlay (base = canonical block q-1, identical on every straight chain); read-only
	merged *core.StateDiff
	vis    map[felt.Felt]core.ClassDefinition
}

type dPlan struct {
	rho    int
	rounds map[[2]uint64]*dBlock // (slot, round)
	views  []*dView
	stages [][]int // stages[t] = indices of the views taken at stage t
	progs  []*dProg
}

func (pl *dPlan) describe(p *dProg) string {
	v := pl.views[p.view]
	b := v.blocks[p.bi]
	if p.idx < 0 {
		return fmt.Sprintf("StateAt(%d) through %s", b.slot, v)
	}
	return fmt.Sprintf("StateBeforeIndexAt(%d,%d) through %s", b.slot, p.idx, v)
}

// dBuildPlan runs the harness's own model of the timeline: which blocks each stage's chain holds.
func dBuildPlan(rho int, baseState func(base uint64) *chain.State) (*dPlan, error) {
	pl := &dPlan{rho: rho, rounds: map[[2]uint64]*dBlock{}}
	for _, o := range dTimeline {
		if o.kind == 'F' {
			k := [2]uint64{o.slot, uint64(o.round)}
			if pl.rounds[k] == nil {
				pl.rounds[k] = dRound(o.slot, o.round, rho)
			}
		}
	}
	var cur []*dBlock
	for t, o := range dTimeline {
		switch o.kind {
		case 'F':
			b := pl.rounds[[2]uint64{o.slot, uint64(o.round)}]
			switch {
			case len(cur) == 0:
				cur = []*dBlock{b}
			case o.slot == cur[len(cur)-1].slot+1:
				cur = append(cur[:len(cur):len(cur)], b)
			case o.slot == cur[len(cur)-1].slot:
				cur = append(cur[:len(cur)-1:len(cur)-1], b)
			default:
				return nil, fmt.Errorf("timeline op %s not modelled", o)
			}
		case 'A':
			switch {
			case len(cur) == 0 || o.slot == cur[0].slot:
			case o.slot < cur[0].slot || o.slot > cur[len(cur)-1].slot:
				cur = nil
			default:
				cur = cur[o.slot-cur[0].slot:]
			}
		}
		var here []int
		for i := range cur {
			pl.views = append(pl.views, &dView{stage: t, q: cur[i].slot, blocks: cur[i:]})
			here = append(here, len(pl.views)-1)
		}
		pl.stages = append(pl.stages, here)
	}
	for vi, v := range pl.views {
		base := baseState(v.q - 1)
		for bi, b := range v.blocks {
			for idx := -1; idx <= len(b.txs); idx++ {
				p := &dProg{view: vi, bi: bi, idx: idx, vis: map[felt.Felt]core.ClassDefinition{}}
				m := base.Clone()
				merged := core.EmptyStateDiff()
				for j := 0; j <= bi; j++ {
					bb := v.blocks[j]
					n := len(bb.txs)
					if j == bi && idx >= 0 {
						n = idx
					}
					for k := 0; k < n; k++ {
						if err := m.Apply(bb.slot, dVersion, bb.txs[k].eff, bb.txs[k].classes); err != nil {
							return nil, fmt.Errorf("harness D content not protocol-valid: %v (rotation %d, %s)", err, rho, v)
						}
						mergeRef(&merged, bb.txs[k].eff)
					}
					// class definitions are registered per block (not per transaction)
					for k := range bb.txs {
						for h, c := range bb.txs[k].classes {
							p.vis[h] = c
						}
					}
				}
				p.model, p.merged = m, &merged
				pl.progs = append(pl.progs, p)
			}
		}
	}
	return pl, nil
}

// dEnv: what a reader finds below its view at read time.
type dEnv struct {
	name string
	kind byte // H head == base, T tallest straight chain (historical base), X base missing
	nb   int
}

func (e dEnv) String() string { return e.name }

// dReader: one element of a sequence.
type dReader struct {
	prog  int
	stage int // read stage (>= the view's stage)
	env   int
}

type dHarness struct {
	r      *ev.Run
	chk    *checker
	canons map[string]*canon
	envs   []dEnv
	plans  []*dPlan

	sequences, readers, sweeps, opens, refused, mergedChecks, timelineOps, viewChecks atomic.Int64
	sampled                                                                        atomic.Int32
	relations                                                                      sync.Map
}

func (h *dHarness) canonFor(e dEnv, base uint64) *canon {
	switch e.kind {
	case 'H':
		return h.canons[strings.Repeat("s", int(base)+1)]
	case 'T':
		return h.canons["ssssss"]
	default:
		return h.canons["ss"] // height 1: below every base of the timeline
	}
}

// relation names, for the violation key, how the later reader relates to the earlier one.
func (h *dHarness) relation(pl *dPlan, seq []dReader, at int) string {
	if at == 0 {
		return "first-reader"
	}
	a, b := pl.progs[seq[at-1].prog], pl.progs[seq[at].prog]
	va, vb := pl.views[a.view], pl.views[b.view]
	sa, sb := va.blocks[a.bi], vb.blocks[b.bi]
	switch {
	case a.view == b.view && sb.slot < sa.slot:
		return "lower-block-of-the-same-view"
	case a.view == b.view && sb.slot > sa.slot:
		return "higher-block-of-the-same-view"
	case a.view == b.view && a.idx == b.idx:
		return "same-state-again"
	case a.view == b.view && b.idx >= 0 && (a.idx < 0 || a.idx > b.idx):
		return "shorter-prefix-of-the-same-block"
	case a.view == b.view:
		return "longer-prefix-of-the-same-block"
	case vb.stage == va.stage:
		return "other-alignment-of-the-same-chain"
	}
	lo, hi := va.stage, vb.stage
	if lo > hi {
		lo, hi = hi, lo
	}
	kinds := map[string]bool{}
	for t := lo + 1; t <= hi; t++ {
		o := dTimeline[t]
		switch {
		case o.kind == 'A' && len(pl.stages[t]) == 0:
			kinds["drop"] = true
		case o.kind == 'A':
			kinds["realign"] = true
		case len(pl.stages[t-1]) == 0:
			kinds["rebuild"] = true
		case len(pl.stages[t]) == len(pl.stages[t-1]):
			kinds["round-replaced"] = true
		default:
			kinds["append"] = true
		}
	}
	var ks []string
	for k := range kinds {
		ks = append(ks, k)
	}
	sort.Strings(ks)
	if vb.stage > va.stage {
		return "view-taken-after-" + strings.Join(ks, "+")
	}
	return "older-view-from-before-" + strings.Join(ks, "+")
}

// dWorld: a real ChainStorage driven through the timeline, with every view taken on the way.
type dWorld struct {
	st    *preconfirmed.ChainStorage
	wb    uint64
	stage int // last executed timeline op (-1: none)
	views map[int]preconfirmed.ChainReader
}

func (h *dHarness) advance(pl *dPlan, w *dWorld, to int, check bool) error {
	for w.stage < to {
		w.stage++
		o := dTimeline[w.stage]
		h.timelineOps.Add(1)
		switch o.kind {
		case 'A':
			w.st.AdvanceTo(o.slot)
			w.wb = o.slot
		case 'F':
			b := pl.rounds[[2]uint64{o.slot, uint64(o.round)}]
			var txs, rcs, sds []string
			var cls map[felt.Felt]core.ClassDefinition
			for k := range b.txs {
				if !memoHas(fmt.Sprintf("R/%d/%d/%d", pl.rho, b.slot, b.round)) {
					t, r, d := wireTxOf(dTxHash(b.slot, b.round, k), b.slot, k, b.txs[k].eff)
					txs, rcs, sds = append(txs, t), append(rcs, r), append(sds, d)
				}
				for hh, c := range b.txs[k].classes {
					if cls == nil {
						cls = map[felt.Felt]core.ClassDefinition{}
					}
					cls[hh] = c
				}
			}
			// the wire bytes are memoised per (rotation, slot, round); every application decodes them afresh (fresh wire objects)
			js := memo(fmt.Sprintf("R/%d/%d/%d", pl.rho, b.slot, b.round), func() []byte {
				return fullJSONVer(b.slot, idString(b.slot, b.round), 8000+b.slot, strings.Join(txs, ","), strings.Join(rcs, ","), strings.Join(sds, ","), dVersion)
			})
			var u starknet.PreConfirmedUpdate
			u, _ = decode(js)
			if _, err := w.st.ApplyUpdate(u, b.slot, 0, w.wb, cls); err != nil {
				return fmt.Errorf("%s: %v", o, err)
			}
		}
		for _, vi := range pl.stages[w.stage] {
			w.views[vi] = w.st.SnapshotForBlock(pl.views[vi].q)
		}
		if check {
			for _, vi := range pl.stages[w.stage] {
				h.checkView(pl, vi, w.views[vi])
			}
			// one request on either side of the chain must come back empty
			if n := len(pl.stages[w.stage]); n > 0 {
				lo, hi := pl.views[pl.stages[w.stage][0]].q, pl.views[pl.stages[w.stage][n-1]].q
				for _, q := range []uint64{lo - 1, hi + 1} {
					if v := w.st.SnapshotForBlock(q); v.Length() != 0 {
						h.r.Violate("reader-sequence: view-not-aligned-to-requested-height", map[string]any{"asked": q, "view": describe(&v), "after": dTimeline[w.stage].String()})
					}
				}
			}
		}
	}
	return nil
}

// checkView: the view holds exactly the delivered blocks (structure, identifiers, transactions, per-tx diffs).
func (h *dHarness) checkView(pl *dPlan, vi int, v preconfirmed.ChainReader) {
	dv := pl.views[vi]
	h.viewChecks.Add(1)
	ctx := func() any { return map[string]any{"harness": "D", "rotation": pl.rho, "view": dv.String()} }
	entries, ok := h.chk.structural(&v, dv.q, ctx)
	if !ok {
		return
	}
	bad := func(why string) {
		h.r.Violate("reader-sequence: view-does-not-hold-the-delivered-blocks", map[string]any{"why": why, "view": describe(&v), "case": ctx()})
	}
	if len(entries) != len(dv.blocks) {
		bad("length")
		return
	}
	for j, e := range entries {
		b := dv.blocks[j]
		if e.Block.Number != b.slot || e.BlockIdentifier != idString(b.slot, b.round) || len(e.Block.Transactions) != len(b.txs) || len(e.TransactionStateDiffs) != len(b.txs) {
			bad(fmt.Sprintf("block %d", b.slot))
			return
		}
		sq := core.EmptyStateDiff()
		for k := range b.txs {
			want := dTxHash(b.slot, b.round, k)
			if !e.Block.Transactions[k].Hash().Equal(&want) {
				bad(fmt.Sprintf("block %d tx %d", b.slot, k))
				return
			}
			if !diffEq(e.TransactionStateDiffs[k], b.txs[k].eff) {
				h.r.Violate("reader-sequence: entry-tx-state-diff-differs-from-wire", map[string]any{"block": b.slot, "pos": k, "sections": strings.Join(b.txs[k].what, ","), "case": ctx()})
			}
			mergeRef(&sq, b.txs[k].eff)
		}
		if e.StateUpdate == nil || !diffEq(e.StateUpdate.StateDiff, &sq) {
			h.r.Violate("reader-sequence: entry-state-diff-is-not-squash-of-its-txs", map[string]any{"block": b.slot, "case": ctx()})
		}
	}
}

type dOpen struct {
	sr     core.StateReader
	closer func() error
	err    error
	cn     *canon
	tag    string
	what   string
}

// step kinds of a schedule: o open, s sweep, c close; reader index in the sequence
type dStep struct {
	kind   byte
	reader int
}

var dShapes = map[string][]dStep{
	"sequential": {{'o', 0}, {'s', 0}, {'c', 0}, {'o', 1}, {'s', 1}, {'c', 1}},
	"nested":     {{'o', 0}, {'s', 0}, {'o', 1}, {'s', 1}, {'c', 1}, {'s', 0}, {'c', 0}},
	"overlapped": {{'o', 0}, {'s', 0}, {'o', 1}, {'s', 1}, {'c', 0}, {'s', 1}, {'c', 1}},
	"sequential3": {{'o', 0}, {'s', 0}, {'c', 0}, {'o', 1}, {'s', 1}, {'c', 1}, {'o', 2}, {'s', 2}, {'c', 2}},
	"solo":       {{'o', 0}, {'s', 0}, {'c', 0}},
}

var dProbeAddrs = []felt.Felt{chain.AddrA, chain.AddrB, dFresh, chain.Sys2, chain.FV(0xDEAD)}

func dProbeClasses() []felt.Felt {
	_, c0 := chain.Cairo0(0)
	_, s1, _, _ := chain.Sierra(1)
	_, k, _, _ := chain.Sierra(400)
	_, v0 := chain.Cairo0(40)
	return []felt.Felt{c0, s1, k, v0, chain.FV(0xBADC1A55)}
}

// run executes one sequence in one shape on a freshly driven storage. check: also verify every view's structure.
func (h *dHarness) run(pl *dPlan, seq []dReader, shape string, check bool) {
	h.sequences.Add(1)
	h.readers.Add(int64(len(seq)))
	w := &dWorld{st: preconfirmed.NewChainStorage(), wb: dFirstSlot, stage: -1, views: map[int]preconfirmed.ChainReader{}}
	open := make([]*dOpen, len(seq))
	classes := dProbeClasses()
	describeSeq := func() []string {
		var out []string
		for i, rd := range seq {
			out = append(out, fmt.Sprintf("reader %d: %s, read after %s, base %s", i+1, pl.describe(pl.progs[rd.prog]), dTimeline[rd.stage], h.envs[rd.env]))
		}
		return out
	}
	defer func() {
		for _, o := range open {
			if o != nil && o.closer != nil {
				_ = o.closer()
			}
		}
	}()
	for _, stp := range dShapes[shape] {
		rd := seq[stp.reader]
		p := pl.progs[rd.prog]
		dv := pl.views[p.view]
		b := dv.blocks[p.bi]
		if stp.kind == 'o' {
			if err := h.advance(pl, w, rd.stage, check); err != nil {
				h.r.Violate("reader-sequence: writer-rejects-valid-update", map[string]any{"err": err.Error(), "rotation": pl.rho})
				return
			}
		}
		viol := func(key string, d map[string]any) {
			rel := h.relation(pl, seq, stp.reader)
			d["rotation"], d["shape"], d["sequence"], d["failing_reader"] = pl.rho, shape, describeSeq(), stp.reader+1
			d["relation_to_previous_reader"] = rel
			var sections []string
			for k := range b.txs {
				sections = append(sections, fmt.Sprintf("%d/tx%d{%s}", b.slot, k, strings.Join(b.txs[k].what, ",")))
			}
			d["content_of_the_block_read"] = sections
			// the key names what was read and whether the failing reader had a predecessor in its sequence; HOW it relates to
			// the predecessor is in the detail (a stale object that survives in the process makes every later relation fail,
			// so the relation would only multiply the keys of one defect)
			pos := "later-reader"
			if stp.reader == 0 {
				pos = "first-reader-of-its-sequence"
			}
			h.r.Violate("reader-sequence: "+key+" position="+pos, d)
		}
		switch stp.kind {
		case 'o':
			e := h.envs[rd.env]
			cn := h.canonFor(e, dv.q-1)
			v := w.views[p.view]
			o := &dOpen{cn: cn, tag: []string{"legacy", "newstate"}[e.nb], what: "state-at"}
			if p.idx < 0 {
				o.sr, o.closer, o.err = v.PreConfirmedStateAt(b.slot, cn.bc[e.nb])
			} else {
				o.what = "state-before-index"
				o.sr, o.closer, o.err = v.PreConfirmedStateBeforeIndexAt(b.slot, uint(p.idx), cn.bc[e.nb])
			}
			open[stp.reader] = o
			if o.err == nil {
				h.opens.Add(1)
			} else {
				h.refused.Add(1)
			}
		case 's':
			o := open[stp.reader]
			h.sweeps.Add(1)
			model, merged := p.model, p.merged
			if h.envs[rd.env].kind == 'X' {
				model, merged = nil, nil
			}
			h.chk.probe(viol, o.what, o.tag, o.cn, b.slot, p.idx, o.sr, o.err, model, p.vis, dProbeAddrs, classes)
			if merged != nil && o.err == nil {
				if ps, ok := o.sr.(*pending.State); ok {
					h.mergedChecks.Add(1)
					if sec := dDiffSections(ps.StateDiff(), merged); len(sec) > 0 {
						viol(o.what+"-merged-diff-differs-from-ordered-merge sections="+strings.Join(sec, "+"), map[string]any{"block": b.slot, "idx": p.idx})
					}
				}
			}
		case 'c':
			o := open[stp.reader]
			if o.closer != nil {
				_ = o.closer()
				o.closer = nil
			}
		}
	}
	if len(seq) >= 2 && h.sampled.Add(1) == 1000 {
		h.r.Sample(map[string]any{"harness": "D", "what": "one reader sequence", "rotation": pl.rho, "shape": shape, "sequence": describeSeq()})
	}
}

// dDiffSections: the sections in which two state diffs differ by content (nil and empty are the same).
func dDiffSections(got, want *core.StateDiff) (out []string) {
	if got == nil {
		return []string{"nil"}
	}
	empty := core.EmptyStateDiff()
	cmp := func(name string, g, w *core.StateDiff) {
		// one section at a time through diffEq: both sides get the empty diff's other sections
		a, b := empty, empty
		switch name {
		case "StorageDiffs":
			a.StorageDiffs, b.StorageDiffs = dropEmpty(g.StorageDiffs), dropEmpty(w.StorageDiffs)
		case "Nonces":
			a.Nonces, b.Nonces = g.Nonces, w.Nonces
		case "DeployedContracts":
			a.DeployedContracts, b.DeployedContracts = g.DeployedContracts, w.DeployedContracts
		case "DeclaredV0Classes":
			a.DeclaredV0Classes, b.DeclaredV0Classes = g.DeclaredV0Classes, w.DeclaredV0Classes
		case "DeclaredV1Classes":
			a.DeclaredV1Classes, b.DeclaredV1Classes = g.DeclaredV1Classes, w.DeclaredV1Classes
		case "ReplacedClasses":
			a.ReplacedClasses, b.ReplacedClasses = g.ReplacedClasses, w.ReplacedClasses
		case "MigratedClasses":
			a.MigratedClasses, b.MigratedClasses = g.MigratedClasses, w.MigratedClasses
		}
		if !diffEq(&a, &b) {
			out = append(out, name)
		}
	}
	for _, s := range dSections {
		cmp(s, got, want)
	}
	return
}

func dropEmpty(m map[felt.Felt]map[felt.Felt]*felt.Felt) map[felt.Felt]map[felt.Felt]*felt.Felt {
	clean := true
	for _, kv := range m {
		clean = clean && len(kv) > 0
	}
	if clean {
		return m
	}
	out := map[felt.Felt]map[felt.Felt]*felt.Felt{}
	for a, kv := range m {
		if len(kv) > 0 {
			out[a] = kv
		}
	}
	return out
}

func readersHarness(r *ev.Run, canons []*canon) {
	if err := dSectionsOK(); err != nil {
		r.Infra("%v", err)
	}
	h := &dHarness{r: r, chk: &checker{r: r, canons: canons, tallest: canons[4]}, canons: map[string]*canon{}}
	for _, cn := range canons {
		h.canons[cn.name] = cn
	}
	for _, n := range []string{"ss", "sss", "ssss", "ssssss"} {
		if h.canons[n] == nil || int(h.canons[n].height()) != len(n)-1 {
			r.Infra("harness D: canonical variant %q missing", n)
		}
	}
	_, s1, _, _ := chain.Sierra(1)
	baseState := func(base uint64) *chain.State {
		st := h.canons["ssssss"].entries[base].State
		a := st.Contracts[chain.AddrA]
		rec := st.Classes[s1]
		if a == nil || a.System || a.Class.Equal(&s1) || rec == nil || !rec.Sierra || rec.DeclaredV2 || rec.Migrated || st.Contracts[dFresh] != nil {
			r.Infra("harness D: canonical block %d does not offer the base the items need (A with a class other than S1, S1 declared V1 and unmigrated)", base)
		}
		return st
	}
	// environments: quick reads under three (one per kind, both backends used), thorough under all six
	h.envs = []dEnv{{"head==base/newstate", 'H', 1}, {"tallest-chain/legacy", 'T', 0}, {"base-missing/newstate", 'X', 1}}
	if r.Thorough() {
		h.envs = append(h.envs, dEnv{"head==base/legacy", 'H', 0}, dEnv{"tallest-chain/newstate", 'T', 1}, dEnv{"base-missing/legacy", 'X', 0})
	}
	for rho := 0; rho < 3; rho++ {
		pl, err := dBuildPlan(rho, baseState)
		if err != nil {
			r.Infra("%v", err)
		}
		h.plans = append(h.plans, pl)
	}
	// every section at every position
	{
		seen := map[string]bool{}
		for _, pl := range h.plans {
			for k, b := range pl.rounds {
				if k[1] != 0 {
					continue
				}
				for ti, tx := range b.txs {
					for _, w := range tx.what {
						seen[fmt.Sprintf("%s@%d/%d", w, b.slot, ti)] = true
					}
				}
			}
		}
		if len(seen) != len(dItemNames)*3 {
			r.Infra("harness D: %d of %d (section, position) placements generated", len(seen), len(dItemNames)*3)
		}
		r.Set("D_section_placements", int64(len(seen)))
	}
	t0 := time.Now()
	until := t0.Add(time.Duration(ev.Pick(r, 30, 420)) * time.Second)

	// placed programs: (program, read stage >= stage of its view)
	type placed struct{ prog, stage int }
	var skipped atomic.Int64
	var total int64
	for _, pl := range h.plans {
		var pp []placed
		for pi, p := range pl.progs {
			for t := pl.views[p.view].stage; t < len(dTimeline); t++ {
				// quick: a reader reads when it takes its view, or holds the view until the end of the timeline;
				// thorough: at every stage from then on
				if r.Thorough() || t == pl.views[p.view].stage || t == len(dTimeline)-1 {
					pp = append(pp, placed{pi, t})
				}
			}
		}
		sort.SliceStable(pp, func(i, j int) bool { return pp[i].stage < pp[j].stage })
		r.Set("D_views_per_rotation", int64(len(pl.views)))
		r.Set("D_programs_per_rotation", int64(len(pl.progs)))
		r.Set("D_placed_programs_per_rotation", int64(len(pp)))
		// D0: every placed program alone, under every environment, with the structural / content checks of every view
		for i := range pp {
			for e := range h.envs {
				h.run(pl, []dReader{{pp[i].prog, pp[i].stage, e}}, "solo", true)
				total++
			}
		}
		// D1: ordered pairs x environments x shapes
		type job struct {
			seq   []dReader
			shape string
		}
		var jobs []job
		shapes := []string{"sequential", "nested", "overlapped"}
		for i := range pp {
			for j := range pp {
				if pp[j].stage < pp[i].stage {
					continue
				}
				for e1 := range h.envs {
					for e2 := range h.envs {
						for _, sh := range shapes {
							if r.Thorough() {
								if sh != "sequential" && e1 != e2 {
									// thorough: readers open at the same time under every environment, both under the same one
									continue
								}
							} else {
								// quick: both readers under the same environment, or one of them refused for lack of a base next to one
								// reading with head == base (a failed open before / after a good one)
								k1, k2 := h.envs[e1].kind, h.envs[e2].kind
								if e1 != e2 && !(k1 == 'X' && k2 == 'H' || k1 == 'H' && k2 == 'X') {
									continue
								}
								if sh != "sequential" && (pp[i].stage != pp[j].stage || e1 != e2) {
									// quick: two readers that are open at the same time read at the same stage under the same base
									continue
								}
							}
							jobs = append(jobs, job{[]dReader{{pp[i].prog, pp[i].stage, e1}, {pp[j].prog, pp[j].stage, e2}}, sh})
						}
					}
				}
			}
		}
		total += int64(len(jobs))
		ev.Par(len(jobs), runtime.NumCPU(), func(i int) {
			if r.OutOfTime() || memHigh.Load() || time.Now().After(until) {
				skipped.Add(1)
				return
			}
			h.run(pl, jobs[i].seq, jobs[i].shape, false)
			h.relations.Store(h.relation(pl, jobs[i].seq, len(jobs[i].seq)-1), true)
		})
		if r.Thorough() {
			// D2: ordered triples, sequential, all three readers under one environment (head==base/new backend, tallest/legacy);
			// generated per leading pair so that the list is never materialised
			type lead struct{ i, j int }
			var leads []lead
			for i := range pp {
				for j := range pp {
					if pp[j].stage >= pp[i].stage {
						leads = append(leads, lead{i, j})
					}
				}
			}
			var triples atomic.Int64
			ev.Par(len(leads), runtime.NumCPU(), func(n int) {
				i, j := leads[n].i, leads[n].j
				for k := range pp {
					if pp[k].stage < pp[j].stage {
						continue
					}
					for e := 0; e < 2; e++ {
						triples.Add(1)
						if r.OutOfTime() || memHigh.Load() || time.Now().After(until) {
							skipped.Add(1)
							continue
						}
						h.run(pl, []dReader{{pp[i].prog, pp[i].stage, e}, {pp[j].prog, pp[j].stage, e}, {pp[k].prog, pp[k].stage, e}}, "sequential3", false)
					}
				}
			})
			total += triples.Load()
		}
	}
	if n := skipped.Load(); n > 0 {
		r.Incomplete(fmt.Sprintf("harness D: %d of %d reader sequences not run (time or memory budget)", n, total))
	}
	var rels []string
	h.relations.Range(func(k, _ any) bool { rels = append(rels, k.(string)); return true })
	sort.Strings(rels)
	for _, must := range []string{"lower-block-of-the-same-view", "shorter-prefix-of-the-same-block", "view-taken-after-round-replaced", "same-state-again"} {
		found := false
		for _, x := range rels {
			found = found || x == must
		}
		if !found && skipped.Load() == 0 {
			r.Infra("harness D: relation %q between consecutive readers not generated", must)
		}
	}
	r.Set("D_wall_ms_informational", time.Since(t0).Milliseconds())
	r.Set("D_rotations", int64(len(h.plans)))
	r.Set("D_environments", int64(len(h.envs)))
	r.Set("D_sequences_generated", total)
	r.Set("D_sequences_run", h.sequences.Load())
	r.Set("D_readers_run", h.readers.Load())
	r.Set("D_sweeps", h.sweeps.Load())
	r.Set("D_states_opened", h.opens.Load())
	r.Set("D_states_refused_no_base", h.refused.Load())
	r.Set("D_merged_diff_comparisons", h.mergedChecks.Load())
	r.Set("D_timeline_ops_executed", h.timelineOps.Load())
	r.Set("D_view_content_checks", h.viewChecks.Load())
	r.Set("D_state_reads", h.chk.stateReads.Load())
	r.Set("D_relations_between_consecutive_readers", int64(len(rels)))
	r.Set("D_relation_list", strings.Join(rels, "; "))
	r.Set("D_v2_of_view_declared_class_not_found", h.chk.v2ViewDeclaredNotFound.Load())
	r.Set("D_v2_of_view_declared_class_found", h.chk.v2ViewDeclaredFound.Load())
	r.Set("D_v2_of_class_declared_above_the_base_visible", h.chk.v2FutureClassVisible.Load())
	if h.chk.v2ViewDeclaredNotFound.Load() > 0 {
		r.Outcome("observed (not demanded): CompiledClassHashV2 of a Sierra class declared by the view itself is not found")
	}
	r.Set("D_rule", "reader SEQUENCES on one process: 3 rotations of one item per core.StateDiff section (storage, nonce, deployed, replaced, declared v1, declared v0, migrated 0.14.1) over the positions {block 3 tx0, block 4 tx0, block 4 tx1} "+
		"(every section at every position); ONE writer timeline full(3,x); full(4,x); full(4,y); advanceTo(4); advanceTo(3); full(3,y) on a real ChainStorage; every non-empty view of every stage; program = (view, block, StateAt | StateBeforeIndexAt for every index, "+
		"read stage in {stage of the view, end of the timeline} (thorough: every stage >= the view's), base environment {head==base/new backend, tallest chain/legacy, base missing/new backend} (thorough: all six chain x backend)); "+
		"every placed program alone; every ordered pair of placed programs with non-decreasing read stages, sequential open-sweep-close, under {the same environment, base missing before / after head==base} (thorough: all 36 ordered pairs of environments); "+
		"nested o1 s1 o2 s2 c2 s1 c1 and overlapped o1 s1 o2 s2 c1 s2 c2 interleavings for pairs reading at the same stage under the same environment (thorough: at any stages, under each of the six environments); "+
		"thorough: every ordered triple, sequential, under head==base/new backend and tallest/legacy; every sweep of every reader vs the dictionary overlay of its own "+
		"(view, block, index): class hash, nonce, storage, Class, CompiledClassHash, CompiledClassHashV2, and the merged diff section by section")
}
