package c20

import "verif/mc/ev"

func pollerHarness(r *ev.Run, canons []*canon) {}
