package c20

// Harness B: the REAL Poller goroutine (Run -> tick -> backfill -> apply) inside a testing/synctest bubble, fed by a
// scripted sequencer that answers like the feeder (no-change / delta / full by identifier + known tx count), on a
// real Blockchain whose head is stored / reverted between ticks AND in the middle of a tick (inside the poller's
// data-source call, i.e. after it sampled the height and realigned, before it applies). Readers everywhere: after
// every step, and in the mid-tick hook, a snapshot is taken for every head height seen so far; every view ever
// handed out is re-hashed after every later step and read through against the live canonical chain.

import (
	"context"
	"fmt"
	"runtime"
	"strings"
	"sync/atomic"
	"testing"
	"testing/synctest"
	"time"

	"verif/mc/chain"
	"verif/mc/ev"

	"github.com/NethermindEth/juno/core"
	"github.com/NethermindEth/juno/core/felt"
	"github.com/NethermindEth/juno/core/pending"
	"github.com/NethermindEth/juno/db/memory"
	"github.com/NethermindEth/juno/feed"
	"github.com/NethermindEth/juno/starknet"
	"github.com/NethermindEth/juno/sync/preconfirmed"
	"github.com/NethermindEth/juno/utils/log"
)

// environment alphabet of harness B
var bAlphabet = []string{"tick", "tick+store", "tick+revert", "addtx", "newround", "nextblock", "jump2", "store", "revert"}

type round struct{ id, cnt int }

type seqModel struct {
	latest uint64
	blocks map[uint64]round
}

type benv struct {
	r       *ev.Run
	chk     *checker
	mainCh  []*chain.Entry
	height  int // canonical head
	bc      *canon
	nb      int
	seq     seqModel
	storage *preconfirmed.ChainStorage
	seen    map[uint64]bool
	held    []root
	mid     string // head move to perform inside the next data-source call
	trace   []string
	classes map[felt.Felt]core.ClassDefinition
	stats   *bStats
}

type bStats struct {
	scenarios, steps, ticks, views, nonEmpty, rehashes, midMoves, dsCalls, storeFail atomic.Int64
}

func (e *benv) ctx() func() any {
	return func() any { return map[string]any{"harness": "B", "scenario": strings.Join(e.trace, " ; ")} }
}

// --- scripted sequencer (preconfirmed.DataSource)

func (e *benv) answer(n uint64, identifier string, txCount uint64) starknet.PreConfirmedUpdate {
	cur, ok := e.seq.blocks[n]
	if !ok {
		cur = round{0, 0}
	}
	switch {
	case identifier == idString(n, cur.id) && int(txCount) == cur.cnt:
		u, _ := decode(noChangeJSON)
		return u
	case identifier == idString(n, cur.id) && int(txCount) < cur.cnt:
		u, _ := decode(deltaJSON(n, cur.id, int(txCount), cur.cnt))
		return u
	default:
		u, _ := decode(fullJSON(n, cur.id, cur.cnt))
		return u
	}
}

func (e *benv) hook() {
	e.stats.dsCalls.Add(1)
	if e.mid == "" {
		return
	}
	m := e.mid
	e.mid = ""
	e.stats.midMoves.Add(1)
	e.headMove(m)
	e.observe("mid-tick " + m)
}

func (e *benv) PreConfirmedBlockLatest(_ context.Context, identifier string, txCount uint64) (starknet.PreConfirmedUpdate, uint64, error) {
	e.hook()
	return e.answer(e.seq.latest, identifier, txCount), e.seq.latest, nil
}

func (e *benv) PreConfirmedBlockByNumber(_ context.Context, n uint64, identifier string, txCount uint64) (starknet.PreConfirmedUpdate, error) {
	e.hook()
	return e.answer(n, identifier, txCount), nil
}

func (e *benv) Class(_ context.Context, h *felt.Felt) (core.ClassDefinition, error) {
	if c, ok := e.classes[*h]; ok {
		return c, nil
	}
	return nil, fmt.Errorf("class %s unknown to the scripted sequencer", h)
}

// --- head moves on the real blockchain

func (e *benv) headMove(m string) {
	bc := e.bc.bc[e.nb]
	switch m {
	case "store":
		if e.height+1 >= len(e.mainCh) {
			return
		}
		var parent *chain.Entry
		if e.height >= 0 {
			parent = e.mainCh[e.height]
		}
		if err := chain.StoreSync(bc, e.mainCh[e.height+1].Fresh(parent)); err != nil {
			e.stats.storeFail.Add(1)
			e.r.Infra("harness B: store canonical block %d: %v", e.height+1, err)
		}
		e.height++
	case "revert":
		if e.height <= 1 {
			return
		}
		if err := bc.RevertHead(); err != nil {
			e.r.Infra("harness B: revert head: %v", err)
		}
		e.height--
	}
	e.bc.entries = e.mainCh[:e.height+1]
	e.seen[uint64(e.height)] = true
}

// observe = all readers at this position.
func (e *benv) observe(step string) {
	// every view ever handed out is unchanged
	for i := range e.held {
		e.stats.rehashes.Add(1)
		if viewDigest(&e.held[i].view, pass{}) != e.held[i].dig {
			e.r.Violate("poller: held-view-changed-after-later-step", map[string]any{"scenario": strings.Join(e.trace, " ; "), "step": step,
				"view_now": describe(&e.held[i].view), "taken_after_steps": e.held[i].at})
			e.held[i].dig = viewDigest(&e.held[i].view, pass{})
		}
	}
	p := pass{}
	for h := range e.seen {
		q := h + 1
		v := e.storage.SnapshotForBlock(q)
		e.stats.views.Add(1)
		entries, ok := e.chk.structural(&v, q, e.ctx())
		if v.Length() == 0 || !ok {
			continue
		}
		e.stats.nonEmpty.Add(1)
		e.held = append(e.held, root{view: v, dig: viewDigest(&v, p), at: len(e.trace)})
		e.chk.functional(&v, entries, p, e.ctx())
	}
	// state through every held view against the LIVE canonical chain, at this time
	for i := range e.held {
		v := &e.held[i].view
		var entries []*pending.PreConfirmed
		for x := range v.OldestFirst() {
			entries = append(entries, x)
		}
		e.chk.liveOverlay(v, entries, e.bc, e.nb, e.ctx())
	}
}

// liveOverlay: state at every block of the view under ONE canonical chain (the scenario's live one).
func (c *checker) liveOverlay(v *preconfirmed.ChainReader, entries []*pending.PreConfirmed, cn *canon, nb int, ctx func() any) {
	viol := func(key string, d map[string]any) {
		d["view"] = describe(v)
		d["case"] = ctx()
		c.r.Violate("poller: "+key, d)
	}
	base := entries[0].Block.Number - 1
	var m *chain.State
	if cn.height() >= base {
		m = cn.entries[base].State.Clone()
	}
	probeAddrs := []felt.Felt{chain.AddrA, chain.AddrB, chain.Sys2}
	_, s1, _, _ := chain.Sierra(1)
	probeClasses := []felt.Felt{s1}
	for _, e := range entries {
		if i := idIndex(e.BlockIdentifier); i >= 0 {
			probeAddrs = append(probeAddrs, addrD(e.Block.Number, i))
			_, h, _ := classOf(e.Block.Number, i)
			probeClasses = append(probeClasses, h)
		}
	}
	tag := []string{"legacy", "newstate"}[nb]
	vis := map[felt.Felt]core.ClassDefinition{}
	// The definitions of the classes a slot declares are fetched by the poller when it re-polls / backfills the slot, i.e.
	// for every slot except the newest one (whose classes arrive with its next poll). Independently of what the
	// implementation registered: every class declared by the state diff of a slot BELOW the view's tip must have its
	// definition on that slot (otherwise Class(hash) through the view falls back to the canonical base = not found).
	// ... and the converse, for every slot: a definition registered on a slot must be that of a class the slot's own state
	// diff declares (a definition left over from a discarded round of the slot would make the view resolve a class that
	// neither the canonical base nor any state diff of the view knows).
	for _, e := range entries {
		if e.StateUpdate == nil || e.StateUpdate.StateDiff == nil {
			continue
		}
		for h := range e.NewClasses {
			_, v1 := e.StateUpdate.StateDiff.DeclaredV1Classes[h]
			v0 := false
			for _, d := range e.StateUpdate.StateDiff.DeclaredV0Classes {
				v0 = v0 || d.Equal(&h)
			}
			if !v1 && !v0 {
				viol("class definition registered on a slot whose state diff does not declare it", map[string]any{"block": e.Block.Number, "class": h.String(),
					"slot_identifier": e.BlockIdentifier})
			}
		}
	}
	for j, e := range entries {
		if j == len(entries)-1 || e.StateUpdate == nil || e.StateUpdate.StateDiff == nil {
			continue
		}
		for h := range e.StateUpdate.StateDiff.DeclaredV1Classes {
			if _, ok := e.NewClasses[h]; !ok {
				viol("class declared by a slot below the tip has no definition on the view", map[string]any{"block": e.Block.Number, "class": h.String(),
					"slot_identifier": e.BlockIdentifier, "slots_in_view": len(entries)})
			}
		}
	}
	for _, e := range entries {
		sq := core.EmptyStateDiff()
		for _, tx := range e.Block.Transactions {
			s, i, k, ok := parseTx(tx.Hash())
			if !ok {
				return // reported by functional
			}
			mergeRef(&sq, txEffect(s, i, k))
		}
		var mm *chain.State
		if m != nil {
			if err := m.Apply(e.Block.Number, pcVersion, &sq, nil); err != nil {
				c.r.Infra("harness B alphabet not protocol-valid: %v", err)
			}
			mm = m
		}
		for h, cd := range e.NewClasses {
			vis[h] = cd
		}
		sr, closer, err := v.PreConfirmedStateAt(e.Block.Number, cn.bc[nb])
		c.probe(viol, "state-at", tag, cn, e.Block.Number, -1, sr, err, mm, vis, probeAddrs, probeClasses)
		if closer != nil {
			_ = closer()
		}
	}
}

func (e *benv) seqMove(m string) {
	cur := e.seq.blocks[e.seq.latest]
	switch m {
	case "addtx":
		if cur.cnt < 4 {
			cur.cnt++
			e.seq.blocks[e.seq.latest] = cur
		}
	case "newround":
		e.seq.blocks[e.seq.latest] = round{(cur.id + 1) % 2, 1}
	case "nextblock":
		// the block left behind gets its final content (one more tx), the new one starts with one tx
		if cur.cnt < 4 {
			cur.cnt++
			e.seq.blocks[e.seq.latest] = cur
		}
		e.seq.latest++
		e.seq.blocks[e.seq.latest] = round{0, 1}
	case "jump2":
		e.seq.blocks[e.seq.latest+1] = round{1, 2}
		e.seq.latest += 2
		e.seq.blocks[e.seq.latest] = round{0, 2}
	}
}

// runScenario executes one environment sequence against a fresh node + poller in its own bubble.
func runScenario(t *testing.T, r *ev.Run, chk *checker, mainCh []*chain.Entry, classes map[felt.Felt]core.ClassDefinition, steps []string, nb int, stats *bStats, initCnt int) {
	synctest.Test(t, func(t *testing.T) {
		d := memory.New()
		bc := chain.NewNode(d, nb == 1)
		e := &benv{r: r, chk: chk, mainCh: mainCh, height: -1, nb: nb, seen: map[uint64]bool{}, classes: classes, stats: stats,
			seq: seqModel{latest: 3, blocks: map[uint64]round{3: {0, initCnt}}}}
		if initCnt != 1 {
			e.trace = append(e.trace, fmt.Sprintf("[sequencer's first block already has %d transactions: its round declares a class]", initCnt))
		}
		e.bc = &canon{name: "live"}
		e.bc.bc[nb] = bc
		for i := 0; i < 3; i++ {
			e.headMove("store")
		}
		e.storage = preconfirmed.NewChainStorage()
		out := feed.New[*pending.PreConfirmed]()
		highest := &atomic.Pointer[core.Header]{}
		highest.Store(&core.Header{Number: 0})
		p := preconfirmed.NewPoller(e, e.storage, bc, out, highest, time.Second, log.NewNopZapLogger())
		ctx, cancel := context.WithCancel(context.Background())
		done := make(chan struct{})
		go func() { p.Run(ctx); close(done) }()
		synctest.Wait()
		tick := func() {
			stats.ticks.Add(1)
			time.Sleep(time.Second)
			synctest.Wait()
		}
		// bootstrap tick so that every scenario starts with a non-empty pre-confirmed chain
		e.trace = append(e.trace, "tick")
		tick()
		e.observe("tick")
		for _, s := range steps {
			stats.steps.Add(1)
			e.trace = append(e.trace, s)
			switch s {
			case "tick":
				tick()
			case "tick+store":
				e.mid = "store"
				tick()
				e.mid = ""
			case "tick+revert":
				e.mid = "revert"
				tick()
				e.mid = ""
			case "store", "revert":
				e.headMove(s)
			default:
				e.seqMove(s)
			}
			e.observe(s)
		}
		cancel()
		<-done
		stats.scenarios.Add(1)
	})
}

func pollerHarness(t *testing.T, r *ev.Run, canons []*canon) {
	maxLen := ev.Pick(r, 3, 4)
	mainCh := buildMain()
	classes := map[felt.Felt]core.ClassDefinition{}
	for s := uint64(0); s < 24; s++ {
		for i := 0; i < 3; i++ {
			c, h, _ := classOf(s, i)
			classes[h] = c
		}
	}
	chk := &checker{r: r, canons: canons, tallest: canons[4]}
	var scen [][]string
	var gen func(prefix []string)
	gen = func(prefix []string) {
		scen = append(scen, append([]string{}, prefix...))
		if len(prefix) == maxLen {
			return
		}
		for _, a := range bAlphabet {
			gen(append(prefix, a))
		}
	}
	gen(nil)
	stats := &bStats{}
	var skipped atomic.Int64
	ev.Par(len(scen), runtime.NumCPU(), func(i int) {
		// only maximal sequences and those ending in a tick need their own run: every proper prefix is executed (and
		// observed after each step) as part of its extensions
		if len(scen[i]) < maxLen {
			return
		}
		if r.OutOfTime() || memHigh.Load() {
			skipped.Add(1)
			return
		}
		runScenario(t, r, chk, mainCh, classes, scen[i], i%2, stats, 1)
		// the same sequence with a first pre-confirmed block whose round already declares a class (tx k=1): what the
		// poller keeps / drops of a slot's classes when the slot is re-polled, replaced by a new round or left behind
		// is then exercised by the shortest sequences
		if first := scen[i][0]; first == "newround" || first == "nextblock" || first == "jump2" || r.Thorough() {
			runScenario(t, r, chk, mainCh, classes, scen[i], (i+1)%2, stats, 2)
		}
	})
	if n := skipped.Load(); n > 0 {
		r.Incomplete(fmt.Sprintf("harness B: %d of the length-%d scenarios not run (time or memory budget)", n, maxLen))
	}
	r.Set("B_scenario_length", int64(maxLen))
	r.Set("B_scenarios", stats.scenarios.Load())
	r.Set("B_steps", stats.steps.Load())
	r.Set("B_poller_ticks", stats.ticks.Load())
	r.Set("B_datasource_calls", stats.dsCalls.Load())
	r.Set("B_mid_tick_head_moves", stats.midMoves.Load())
	r.Set("B_snapshots", stats.views.Load())
	r.Set("B_nonempty_views", stats.nonEmpty.Load())
	r.Set("B_held_view_rehashes", stats.rehashes.Load())
	r.Set("B_view_contents_evaluated", chk.evalReal.Load())
	r.Set("B_state_reads", chk.stateReads.Load())
	r.Sample(map[string]any{"harness": "B", "alphabet": bAlphabet, "length": maxLen, "scenarios": stats.scenarios.Load(),
		"note": "each scenario = bootstrap tick + the sequence; the real Poller.Run goroutine is stepped by fake time inside a synctest bubble"})
}
