package c20

// Harness C: ORDERED EFFECTS ON ONE KEY inside one view.
//
// The wire alphabet of harnesses A and B (gen_test.go) gives every round (slot, identifier) its own deployed contract
// and class, so two diff SECTIONS about one address meet only in the few fixed combinations of tx k=0..3. "Overlaid
// with the state diffs of the view's blocks up to that block, IN ORDER" is, however, exactly a statement about several
// effects on one key: core.StateDiff keeps deployed / replaced / nonces / storage / declared in independent maps, so
// the order of application survives a merge only through map overwrite and through the lookup precedence of
// pending.State. This harness enumerates that space directly:
//
//	target   T in {fresh address (absent from every canonical base), chain.AddrA (exists in every base)}
//	effects  every protocol-valid sequence of <= L effects on T over
//	         {deploy, replace_class, nonce, storage slot0 := v, slot0 := 0, slot1 := v, declare a new class}
//	         (deploy only while T is absent, everything else only once it exists; every effect carries a value that
//	         identifies its position; a deploy / replace after a declare uses the class just declared)
//	placing  every consecutive pair is put in {the same transaction (only if the two effects are different cells),
//	         the next transaction of the block, the next block (thorough: also the block after an empty one)}
//	delivery every block reaches the real ChainStorage.ApplyUpdate as {one full update, full(first tx) + one delta per
//	         further tx, full(first tx) then a richer full} (thorough: also full(no tx) + deltas)
//
// and reads the resulting view (and every head-aligned suffix of it whose diffs are still protocol-valid on the
// higher base) at EVERY block and before EVERY transaction index, under the canonical variants of selectCanons, on
// both backends, against the dictionary model to which the per-transaction diffs were applied one by one.

import (
	"fmt"
	"runtime"
	"sort"
	"strings"
	"sync"
	"sync/atomic"
	"time"
	"unsafe"

	"verif/mc/chain"
	"verif/mc/ev"

	"github.com/NethermindEth/juno/core"
	"github.com/NethermindEth/juno/core/felt"
	"github.com/NethermindEth/juno/core/pending"
	"github.com/NethermindEth/juno/sync/preconfirmed"
)

const (
	oFirstSlot = 3 // the view starts above canonical block 2 (every canonical variant shares blocks 0..2)
	oKinds     = "drnsztk"
)

var oKindName = map[byte]string{'d': "deploy", 'r': "replace", 'n': "nonce", 's': "s0:=v", 'z': "s0:=0", 't': "s1:=v", 'k': "declare"}

// cell = the (section, key) an effect writes; two effects of one transaction must write different cells (one
// transaction reports one final value per cell, and never the same address as both deployed and replaced).
func oCell(k byte, pos int) string {
	switch k {
	case 'd', 'r':
		return "class"
	case 'n':
		return "nonce"
	case 's', 'z':
		return "s0"
	case 't':
		return "s1"
	default:
		return fmt.Sprintf("declare%d", pos)
	}
}

type oTx struct {
	eff     *core.StateDiff
	classes map[felt.Felt]core.ClassDefinition // definitions of the classes this transaction declares
	what    []string
	kinds   []byte
}

type oBlock struct {
	slot  uint64
	txs   []oTx
	deliv byte // F one full; D full(tx0)+deltas; R full(tx0) then full(all); Z full(no tx)+deltas
}

type oScenario struct {
	target string // "fresh" | "existing"
	addr   felt.Felt
	kinds  string
	gaps   string // between consecutive effects: m same tx, t next tx, b next block, B the block after an empty block
	blocks []oBlock
	decl   []felt.Felt // classes declared anywhere in the scenario
}

func (sc *oScenario) String() string {
	var b strings.Builder
	fmt.Fprintf(&b, "target=%s ", sc.target)
	for _, bl := range sc.blocks {
		fmt.Fprintf(&b, "| block %d (%c):", bl.slot, bl.deliv)
		if len(bl.txs) == 0 {
			b.WriteString(" no tx")
		}
		for k, tx := range bl.txs {
			fmt.Fprintf(&b, " tx%d{%s}", k, strings.Join(tx.what, ", "))
		}
		b.WriteByte(' ')
	}
	return b.String()
}

func oTxHash(slot uint64, k int) felt.Felt { return chain.FV(0x9000000 + slot*0x100 + uint64(k)) }

var oFresh = chain.FV(0xE7E57)

// oBuild lays the effect sequence out into blocks / transactions. ok=false: two effects of one transaction share a cell.
func oBuild(target string, kinds, gaps string, baseClassA felt.Felt) (sc *oScenario, ok bool) {
	sc = &oScenario{target: target, kinds: kinds, gaps: gaps, addr: oFresh}
	var cur felt.Felt // T's class right now (zero: absent)
	if target == "existing" {
		sc.addr, cur = chain.AddrA, baseClassA
	}
	_, s1, _, _ := chain.Sierra(1)
	_, c0 := chain.Cairo0(0)
	var latest *felt.Felt
	T := sc.addr
	slot := uint64(oFirstSlot)
	sc.blocks = []oBlock{{slot: slot}}
	var cells map[string]bool
	newTx := func() {
		d := core.EmptyStateDiff()
		b := &sc.blocks[len(sc.blocks)-1]
		b.txs = append(b.txs, oTx{eff: &d, classes: map[felt.Felt]core.ClassDefinition{}})
		cells = map[string]bool{}
	}
	newTx()
	for p := 0; p < len(kinds); p++ {
		if p > 0 {
			switch gaps[p-1] {
			case 't':
				newTx()
			case 'b', 'B':
				if gaps[p-1] == 'B' {
					slot++
					sc.blocks = append(sc.blocks, oBlock{slot: slot})
				}
				slot++
				sc.blocks = append(sc.blocks, oBlock{slot: slot})
				newTx()
			}
		}
		k := kinds[p]
		if c := oCell(k, p); cells[c] {
			return nil, false
		} else {
			cells[c] = true
		}
		b := &sc.blocks[len(sc.blocks)-1]
		tx := &b.txs[len(b.txs)-1]
		tx.kinds = append(tx.kinds, k)
		st := func(key felt.Felt, v uint64) {
			if tx.eff.StorageDiffs[T] == nil {
				tx.eff.StorageDiffs[T] = map[felt.Felt]*felt.Felt{}
			}
			tx.eff.StorageDiffs[T][key] = chain.F(v)
		}
		switch k {
		case 'k':
			c, h, casm, _ := chain.Sierra(300 + p)
			tx.eff.DeclaredV1Classes[h] = &casm
			tx.classes[h] = c
			latest = &h
			sc.decl = append(sc.decl, h)
			tx.what = append(tx.what, fmt.Sprintf("declare K%d", p))
		case 'd', 'r':
			var ch felt.Felt
			name := ""
			switch {
			case latest != nil && !latest.Equal(&cur):
				ch, name = *latest, "the class declared last"
			case !s1.Equal(&cur):
				ch, name = s1, "S1"
			default:
				ch, name = c0, "C0"
			}
			cur = ch
			if k == 'd' {
				tx.eff.DeployedContracts[T] = &ch
			} else {
				tx.eff.ReplacedClasses[T] = &ch
			}
			tx.what = append(tx.what, fmt.Sprintf("%s T with %s", oKindName[k], name))
		case 'n':
			tx.eff.Nonces[T] = chain.F(0x40 + uint64(p))
			tx.what = append(tx.what, fmt.Sprintf("T.nonce:=0x%x", 0x40+p))
		case 's':
			st(chain.Slot0, 0x5000+uint64(p))
			tx.what = append(tx.what, fmt.Sprintf("T.s0:=0x%x", 0x5000+p))
		case 'z':
			st(chain.Slot0, 0)
			tx.what = append(tx.what, "T.s0:=0")
		case 't':
			st(chain.Slot1, 0x6000+uint64(p))
			tx.what = append(tx.what, fmt.Sprintf("T.s1:=0x%x", 0x6000+p))
		}
	}
	return sc, true
}

type oCfg struct {
	minLen, maxLen int
	gaps           string
	deliv          string // delivery modes beyond 'F'
}

// oGenerate: every scenario of the configuration, grouped by sequence length, duplicates (same content reached by two
// orders of the effects inside one transaction) removed.
func oGenerate(cfg oCfg, baseClassA felt.Felt, pairs map[string]bool) (byLen [][]*oScenario, sequences int) {
	byLen = make([][]*oScenario, cfg.maxLen+1)
	seen := map[string]bool{}
	for _, target := range []string{"fresh", "existing"} {
		var rec func(kinds string, exists bool)
		rec = func(kinds string, exists bool) {
			if n := len(kinds); n >= cfg.minLen && n > 0 {
				sequences++
				var place func(gaps string)
				place = func(gaps string) {
					if len(gaps) < n-1 {
						for i := 0; i < len(cfg.gaps); i++ {
							place(gaps + string(cfg.gaps[i]))
						}
						return
					}
					sc, ok := oBuild(target, kinds, gaps, baseClassA)
					if !ok {
						return
					}
					// delivery modes: product over the blocks
					var deliver func(j int)
					deliver = func(j int) {
						if j == len(sc.blocks) {
							cp := *sc
							cp.blocks = append([]oBlock{}, sc.blocks...)
							sig := cp.String()
							if seen[sig] {
								return
							}
							seen[sig] = true
							byLen[n] = append(byLen[n], &cp)
							oPairs(&cp, pairs)
							return
						}
						modes := "F"
						for i := 0; i < len(cfg.deliv); i++ {
							m := cfg.deliv[i]
							if (m == 'D' || m == 'R') && len(sc.blocks[j].txs) >= 2 || m == 'Z' && len(sc.blocks[j].txs) >= 1 {
								modes += string(m)
							}
						}
						for i := 0; i < len(modes); i++ {
							sc.blocks[j].deliv = modes[i]
							deliver(j + 1)
						}
					}
					deliver(0)
				}
				place("")
				if n == cfg.maxLen {
					return
				}
			}
			for i := 0; i < len(oKinds); i++ {
				k := oKinds[i]
				switch {
				case k == 'k':
					rec(kinds+"k", exists)
				case k == 'd':
					if !exists && target == "fresh" {
						rec(kinds+"d", true)
					}
				case exists:
					rec(kinds+string(k), true)
				}
			}
		}
		rec("", target == "existing")
	}
	return
}

// oPairs records which (earlier effect, later effect, relation) triples the scenario realises.
func oPairs(sc *oScenario, pairs map[string]bool) {
	type at struct {
		kind    string
		blk, tx int
	}
	var all []at
	for bi, b := range sc.blocks {
		for ti, tx := range b.txs {
			for _, k := range tx.kinds {
				all = append(all, at{oKindName[k], bi, ti})
			}
		}
	}
	for i := range all {
		for j := i + 1; j < len(all); j++ {
			rel := "later-block"
			if all[i].blk == all[j].blk {
				rel = "later-tx"
				if all[i].tx == all[j].tx {
					rel = "same-tx"
				}
			}
			deliv := string(sc.blocks[all[j].blk].deliv)
			pairs[all[i].kind+">"+all[j].kind+" "+rel] = true
			pairs[all[i].kind+">"+all[j].kind+" "+rel+" via "+deliv] = true
		}
	}
}

type oHarness struct {
	r   *ev.Run
	chk *checker

	scenarios, updates, views, suffixViews, suffixInvalid, rehashes, entryChecks atomic.Int64
	sampled                                                                      atomic.Int32
	outcomes                                                                     sync.Map
}

func (h *oHarness) outcome(o string) {
	if _, loaded := h.outcomes.LoadOrStore(o, true); !loaded {
		h.r.Outcome("ordered-effects: " + o)
	}
}

func oTxJSON(b *oBlock, from, to int) (txs, rcs, sds string) {
	var a, bb, c []string
	for k := from; k < to; k++ {
		t, r, d := wireTxOf(oTxHash(b.slot, k), b.slot, k, b.txs[k].eff)
		a, bb, c = append(a, t), append(bb, r), append(c, d)
	}
	return strings.Join(a, ","), strings.Join(bb, ","), strings.Join(c, ",")
}

func oClasses(b *oBlock, from, to int) map[felt.Felt]core.ClassDefinition {
	var out map[felt.Felt]core.ClassDefinition
	for k := from; k < to; k++ {
		for hh, c := range b.txs[k].classes {
			if out == nil {
				out = map[felt.Felt]core.ClassDefinition{}
			}
			out[hh] = c
		}
	}
	return out
}

// run builds the scenario's view on a fresh real ChainStorage and reads it.
func (h *oHarness) run(sc *oScenario) {
	h.scenarios.Add(1)
	viol := func(key string, d map[string]any) {
		d["scenario"] = sc.String()
		d["effects"], d["placing"] = sc.kinds, sc.gaps
		// the key names the value that was read and the effects of the scenario that determine it, in order
		rel := ""
		switch {
		case strings.Contains(key, "-class-hash-"):
			rel = "dr"
		case strings.Contains(key, "-nonce-"):
			rel = "dn"
		case strings.Contains(key, "-storage-"):
			rel = "dszt"
		case strings.Contains(key, "-class-definition-"), strings.Contains(key, "-compiled-class-hash-"):
			rel = "k"
		}
		if rel != "" {
			var on []string
			for i := 0; i < len(sc.kinds); i++ {
				if strings.IndexByte(rel, sc.kinds[i]) >= 0 {
					on = append(on, oKindName[sc.kinds[i]])
				}
			}
			key += " after=" + strings.Join(on, ">")
		}
		h.r.Violate("ordered-effects: "+key+" target="+sc.target, d)
	}
	st := preconfirmed.NewChainStorage()
	inner := (*atomic.Pointer[preconfirmed.ChainReader])(unsafe.Pointer(st))
	var roots []root
	dumps := pass{}
	apply := func(b *oBlock, full bool, from, to int) bool {
		h.updates.Add(1)
		id := idString(b.slot, 0)
		var err error
		var desc string
		panicked, msg := ev.Guard(func() {
			if full {
				txs, rcs, sds := oTxJSON(b, 0, to)
				u, _ := decode(fullJSONOf(b.slot, id, 7000+b.slot, txs, rcs, sds))
				desc = fmt.Sprintf("full(%d, %d tx)", b.slot, to)
				_, err = st.ApplyUpdate(u, b.slot, 0, oFirstSlot, oClasses(b, 0, to))
			} else {
				txs, rcs, sds := oTxJSON(b, from, to)
				u, _ := decode(deltaJSONOf(b.slot, id, txs, rcs, sds))
				desc = fmt.Sprintf("delta(%d, tx %d..%d)", b.slot, from, to-1)
				_, err = st.ApplyUpdate(u, b.slot, uint64(from), oFirstSlot, oClasses(b, from, to))
			}
		})
		if panicked {
			viol("writer-panics", map[string]any{"update": desc, "panic": msg})
			return false
		}
		if err != nil {
			viol("writer-rejects-valid-update", map[string]any{"update": desc, "err": err.Error()})
			return false
		}
		if cur := inner.Load(); cur != nil {
			roots = append(roots, root{view: *cur, dig: viewDigest(cur, dumps), at: len(roots)})
		}
		return true
	}
	for i := range sc.blocks {
		b := &sc.blocks[i]
		n := len(b.txs)
		ok := true
		switch b.deliv {
		case 'D', 'R':
			ok = apply(b, true, 0, 1)
			for k := 1; ok && k < n; k++ {
				if b.deliv == 'R' {
					ok = apply(b, true, 0, n)
					break
				}
				ok = apply(b, false, k, k+1)
			}
		case 'Z':
			ok = apply(b, true, 0, 0)
			for k := 0; ok && k < n; k++ {
				ok = apply(b, false, k, k+1)
			}
		default:
			ok = apply(b, true, 0, n)
		}
		if !ok {
			return
		}
	}
	tip := sc.blocks[len(sc.blocks)-1].slot
	for q := uint64(oFirstSlot); q <= tip; q++ {
		v := st.SnapshotForBlock(q)
		ctx := func() any { return map[string]any{"harness": "C", "scenario": sc.String(), "snapshot_for": q} }
		entries, ok := h.chk.structural(&v, q, ctx)
		if !ok {
			continue
		}
		if len(entries) != int(tip-q+1) {
			viol("view-does-not-hold-the-delivered-blocks", map[string]any{"snapshot_for": q, "view": describe(&v)})
			continue
		}
		h.read(sc, &v, entries, q, viol)
	}
	// nothing ever published may have changed (later deltas / richer fulls / reads)
	p := pass{}
	for i := range roots {
		h.rehashes.Add(1)
		if viewDigest(&roots[i].view, p) != roots[i].dig {
			viol("published-view-changed-after-later-operation", map[string]any{"published_after_updates": roots[i].at + 1, "view_now": describe(&roots[i].view)})
			break
		}
	}
}

// read: the view aligned to head q-1, i.e. the scenario's blocks >= q, against the dictionary model.
func (h *oHarness) read(sc *oScenario, v *preconfirmed.ChainReader, entries []*pending.PreConfirmed, q uint64, viol func(string, map[string]any)) {
	blocks := sc.blocks[q-oFirstSlot:]
	suffix := q > oFirstSlot
	// --- entry content vs. what was delivered
	for j, e := range entries {
		b := &blocks[j]
		h.entryChecks.Add(1)
		if e.Block.Number != b.slot || len(e.Block.Transactions) != len(b.txs) || len(e.TransactionStateDiffs) != len(b.txs) || len(e.Block.Receipts) != len(b.txs) {
			viol("entry-does-not-hold-the-delivered-transactions", map[string]any{"block": b.slot, "view": describe(v)})
			return
		}
		sq := core.EmptyStateDiff()
		for k := range b.txs {
			want := oTxHash(b.slot, k)
			if !e.Block.Transactions[k].Hash().Equal(&want) {
				viol("entry-does-not-hold-the-delivered-transactions", map[string]any{"block": b.slot, "pos": k})
				return
			}
			if !diffEq(e.TransactionStateDiffs[k], b.txs[k].eff) {
				viol("entry-tx-state-diff-differs-from-wire", map[string]any{"block": b.slot, "pos": k})
			}
			mergeRef(&sq, b.txs[k].eff)
			tx, err := v.TransactionByHash(&want)
			rc, num, err2 := v.ReceiptByHash(&want)
			if err != nil || tx != e.Block.Transactions[k] || err2 != nil || rc != e.Block.Receipts[k] || num != b.slot {
				viol("lookup-misses-item-of-view", map[string]any{"block": b.slot, "pos": k, "err": fmt.Sprint(err, err2), "num": num})
			}
		}
		if e.StateUpdate == nil || !diffEq(e.StateUpdate.StateDiff, &sq) {
			viol("entry-state-diff-is-not-squash-of-its-txs", map[string]any{"block": b.slot})
		}
	}
	if suffix {
		// items of the blocks trimmed off must not be found
		for k := range sc.blocks[0].txs {
			hh := oTxHash(oFirstSlot, k)
			if _, err := v.TransactionByHash(&hh); err == nil {
				viol("tx-lookup-finds-item-outside-view", map[string]any{"hash": hh.String(), "snapshot_for": q})
			}
		}
	}
	before := viewDigest(v, pass{})

	other := chain.AddrA
	if sc.target == "existing" {
		other = oFresh
	}
	probeAddrs := []felt.Felt{sc.addr, other, chain.FV(0xDEAD)}
	_, c0 := chain.Cairo0(0)
	_, s1, _, _ := chain.Sierra(1)
	probeClasses := append([]felt.Felt{c0, s1, chain.FV(0xBADC1A55)}, sc.decl...)

	base := q - 1
	counted := false
	for _, cn := range h.chk.selectCanons(base) {
		// dictionary model: the per-transaction diffs applied one by one
		var after []*chain.State    // after[j]: state at block j of the view
		var prefix [][]*chain.State // prefix[j][idx]: state before transaction idx of block j
		valid := true
		if cn.height() >= base {
			m := cn.entries[base].State.Clone()
		build:
			for j := range blocks {
				var pj []*chain.State
				for k := range blocks[j].txs {
					pj = append(pj, m.Clone())
					if err := m.Apply(blocks[j].slot, pcVersion, blocks[j].txs[k].eff, nil); err != nil {
						if !suffix {
							h.r.Infra("harness C scenario not protocol-valid: %v (%s on %s)", err, sc, cn.name)
						}
						valid = false
						break build
					}
				}
				pj = append(pj, m.Clone())
				prefix = append(prefix, pj)
				after = append(after, m.Clone())
			}
		}
		if !valid {
			// a head-aligned suffix whose diffs refer to what the trimmed blocks did (replace / write on a contract deployed
			// below the new head's view): no canonical chain can hold this base together with this view, nothing to demand
			if !counted {
				h.suffixInvalid.Add(1)
			}
			return
		}
		if !counted {
			counted = true
			if suffix {
				h.suffixViews.Add(1)
			} else {
				h.views.Add(1)
			}
		}
		for nb := 0; nb < 2; nb++ {
			if nb == 0 && cn.height() >= base && strings.ContainsAny(cn.name, "ra") {
				continue // COST: same cut as harness A (legacy backend under the straight chains only)
			}
			tag := []string{"legacy", "newstate"}[nb]
			vis := map[felt.Felt]core.ClassDefinition{}
			for j := range blocks {
				b := &blocks[j]
				for k := range b.txs {
					for hh, cd := range b.txs[k].classes {
						vis[hh] = cd
					}
				}
				var mj *chain.State
				if after != nil {
					mj = after[j]
				}
				sr, closer, err := v.PreConfirmedStateAt(b.slot, cn.bc[nb])
				h.chk.probe(viol, "state-at", tag, cn, b.slot, -1, sr, err, mj, vis, probeAddrs, probeClasses)
				if closer != nil {
					_ = closer()
				}
				if cn.forIndex != nb+1 && !(cn.height() == base && nb == 1) {
					// before-index reads: under the two variants harness A uses for them + the new backend whose head IS the base
					continue
				}
				for idx := 0; idx <= len(b.txs)+1; idx++ {
					sr2, closer2, err2 := v.PreConfirmedStateBeforeIndexAt(b.slot, uint(idx), cn.bc[nb])
					if idx > len(b.txs) {
						if err2 == nil {
							viol("state-before-index-accepts-out-of-range-index", map[string]any{"block": b.slot, "idx": idx})
						}
					} else {
						var mp *chain.State
						if prefix != nil {
							mp = prefix[j][idx]
						}
						h.chk.probe(viol, "state-before-index", tag, cn, b.slot, idx, sr2, err2, mp, vis, probeAddrs, probeClasses)
					}
					if closer2 != nil {
						_ = closer2()
					}
				}
			}
		}
	}
	if viewDigest(v, pass{}) != before {
		viol("view-changed-by-reading-through-it", map[string]any{"snapshot_for": q})
	}
	if !suffix && len(sc.blocks) >= 2 && len(sc.kinds) >= 3 && h.sampled.Add(1) == 1 {
		h.r.Sample(map[string]any{"harness": "C", "what": "one scenario of ordered effects on one address", "scenario": sc.String(), "view": describe(v),
			"checks": "entries vs delivered wire, lookups, state at every block and before every tx index vs the dictionary model with the per-tx diffs applied in order, under the canonical variants of the base; every head-aligned suffix too; deep hash of every published chain"})
	}
}

func orderedHarness(r *ev.Run, canons []*canon) {
	// thorough = strict superset of quick: the quick space with two more placings / one more delivery mode, plus all
	// sequences of 4 effects under the quick placings and deliveries
	cfgs := []oCfg{{1, 3, "mtb", "DR"}}
	if r.Thorough() {
		cfgs = []oCfg{{1, 3, "mtbB", "DRZ"}, {4, 4, "mtb", "DR"}}
	}
	// own slice of the time budget, counted from the start of this harness (the explorers before it are cut by theirs)
	until := time.Now().Add(time.Duration(ev.Pick(r, 60, 500)) * time.Second)
	var baseA *chain.Contract
	for _, cn := range canons {
		if cn.height() < oFirstSlot-1 {
			continue
		}
		a := cn.entries[oFirstSlot-1].State.Contracts[chain.AddrA]
		if a == nil || a.System {
			r.Infra("harness C: AddrA does not exist in canonical block %d of %s", oFirstSlot-1, cn.name)
		}
		if baseA != nil && !baseA.Class.Equal(&a.Class) {
			r.Infra("harness C: canonical variants differ at block %d", oFirstSlot-1)
		}
		baseA = a
	}
	pairs := map[string]bool{}
	h := &oHarness{r: r, chk: &checker{r: r, canons: canons, tallest: canons[4]}}
	var skipped atomic.Int64
	total, sequences, maxLen := 0, 0, 0
	var spaces []string
	for _, cfg := range cfgs {
		byLen, seqs := oGenerate(cfg, baseA.Class, pairs)
		sequences += seqs
		maxLen = max(maxLen, cfg.maxLen)
		spaces = append(spaces, fmt.Sprintf("%d..%d effects x placings {%s} x deliveries F+{%s}", cfg.minLen, cfg.maxLen, cfg.gaps, cfg.deliv))
		for n := 1; n <= cfg.maxLen; n++ { // shortest sequences first, so that a reported case is a minimal one
			list := byLen[n]
			total += len(list)
			ev.Par(len(list), runtime.NumCPU(), func(i int) {
				if r.OutOfTime() || memHigh.Load() || time.Now().After(until) {
					skipped.Add(1)
					return
				}
				h.run(list[i])
			})
		}
	}
	if n := skipped.Load(); n > 0 {
		r.Incomplete(fmt.Sprintf("harness C: %d of %d ordered-effect scenarios not run (time or memory budget)", n, total))
	}
	rels := map[string]int64{}
	var bare []string
	for p := range pairs {
		if strings.Contains(p, " via ") {
			continue
		}
		bare = append(bare, p)
		rels[p[strings.IndexByte(p, ' ')+1:]]++
	}
	sort.Strings(bare)
	r.Set("C_max_effects_per_scenario", int64(maxLen))
	r.Set("C_effect_sequences", int64(sequences))
	r.Set("C_scenarios_generated", int64(total))
	r.Set("C_scenarios", h.scenarios.Load())
	r.Set("C_updates_applied", h.updates.Load())
	r.Set("C_views_read", h.views.Load())
	r.Set("C_suffix_views_read", h.suffixViews.Load())
	r.Set("C_suffix_views_not_protocol_valid_on_higher_base", h.suffixInvalid.Load())
	r.Set("C_entry_checks", h.entryChecks.Load())
	r.Set("C_published_chain_rehashes", h.rehashes.Load())
	r.Set("C_states_opened", h.chk.statesOpened.Load())
	r.Set("C_states_refused_no_base", h.chk.statesRefused.Load())
	r.Set("C_state_reads", h.chk.stateReads.Load())
	r.Set("C_ordered_pairs_same_tx", rels["same-tx"])
	r.Set("C_ordered_pairs_later_tx", rels["later-tx"])
	r.Set("C_ordered_pairs_later_block", rels["later-block"])
	r.Set("C_ordered_pairs_x_delivery", int64(len(pairs)-len(bare)))
	r.Set("C_rule", "every protocol-valid sequence of effects over {deploy, replace, nonce, s0:=v, s0:=0, s1:=v, declare} on ONE address (fresh / existing in the base), every consecutive pair placed in every way "+
		"(m same tx, t next tx, b next block, B block after an empty one), every block delivered through the real ApplyUpdate as F full or D full+deltas, R richer full, Z empty full+deltas; spaces: "+strings.Join(spaces, "; ")+
		"; the view and every protocol-valid head-aligned suffix read at every block and before every tx index vs the dictionary model (per-tx diffs applied one by one)")
	for _, must := range []string{"deploy>replace later-tx", "deploy>replace later-block", "deploy>nonce later-block", "declare>deploy later-block", "replace>replace later-block", "s0:=v>s0:=0 later-block", "s0:=v>s0:=v later-tx"} {
		if !pairs[must] {
			r.Infra("harness C: ordered pair %q not generated", must)
		}
	}
}
