#!/bin/bash
# ChainStorage publishes its chain through sync/atomic. The reader/writer interleaving enumeration (atomics_test.go)
# needs a hook before every atomic operation of sync/preconfirmed: this script regenerates, from the CURRENT
# $VERIF_REPO/sync/preconfirmed/*.go, copies in which only the import of "sync/atomic" is rewritten to
# verif/mc/schedatomic (same types, same layout, a no-op hook unless an enumeration is active), plus the
# `go build -overlay` JSON. Every edit of those files is preserved. Files that hold a POINTER to an atomic type
# (`*atomic.`: the word is owned by a caller outside the package, e.g. poller.go's highestBlockHeader) keep the real
# sync/atomic - their atomics are not part of the storage's state.
set -eu
REPO="${VERIF_REPO:-/repo}"
SUF=""
[ "$REPO" != /repo ] && SUF=".$(echo "$REPO" | tr -c 'A-Za-z0-9' '_')"
OUT="/verif/build/overlay-c20$SUF"
mkdir -p "$OUT"
JSON="$OUT/overlay.json"
printf '{"Replace":{' > "$JSON"
first=1
for f in "$REPO"/sync/preconfirmed/*.go; do
  case "$f" in *_test.go) continue;; esac
  if grep -q '^[[:space:]]*"sync/atomic"$' "$f" && ! grep -q '\*atomic\.' "$f"; then
    b=$(basename "$f")
    sed -e 's#^\([[:space:]]*\)"sync/atomic"$#\1atomic "verif/mc/schedatomic"#' "$f" > "$OUT/$b"
    [ $first -eq 1 ] || printf ',' >> "$JSON"
    printf '"%s": "%s"' "$f" "$OUT/$b" >> "$JSON"
    first=0
  fi
done
printf '}}\n' >> "$JSON"
# no file rewritten: the harness itself reports that (atomics_test.go demands >= 1 hooked operation per reader call)
echo "$JSON"
