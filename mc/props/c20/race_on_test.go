//go:build race

package c20

const raceEnabled = true
