package c20

// Secondary, NON-deciding smoke: one writer goroutine and several reader goroutines run freely on one real
// ChainStorage. Hand-offs through the explorer are happens-before edges that would blind the race detector, so this
// pass has none: readers only check what a reader can check locally (alignment, contiguity, deep hash of a held view
// unchanged after the writer made progress). When the test binary is built with -race (C20_RACE=1 go test -race
// -run TestRaceSmoke) the detector watches the same run; bin/check builds without -race.

import (
	"context"
	"fmt"
	"os"
	"os/exec"
	"strings"
	"sync"
	"sync/atomic"
	"testing"
	"time"

	"verif/mc/ev"

	"github.com/NethermindEth/juno/sync/preconfirmed"
)

func raceBody(r *ev.Run, rounds int) (views, changed int64) {
	w := newWorld()
	var stop atomic.Bool
	var wg sync.WaitGroup
	var nviews, nchanged atomic.Int64
	script := []op{
		{Kind: 'F', Slot: 3, ID: 0, Count: 1}, {Kind: 'D', Slot: 3, ID: 0, Count: 1, Cls: true}, {Kind: 'F', Slot: 4, ID: 1, Count: 2, Cls: true},
		{Kind: 'N', Slot: 4, Cls: true, Extra: true}, {Kind: 'F', Slot: 5, ID: 0, Count: 0}, {Kind: 'D', Slot: 5, ID: 0, Count: 0},
		{Kind: 'F', Slot: 4, ID: 0, Count: 1}, {Kind: 'F', Slot: 5, ID: 1, Count: 2}, {Kind: 'A', Slot: 4}, {Kind: 'D', Slot: 5, ID: 1, Count: 2},
		{Kind: 'A', Slot: 7}, {Kind: 'A', Slot: 3},
	}
	for g := 0; g < 3; g++ {
		wg.Add(1)
		go func(g int) {
			defer wg.Done()
			// a panic inside juno on a reader goroutine is a finding, never an infrastructure error: without this
			// recover it would kill the process (exit 2)
			defer func() {
				if p := recover(); p != nil {
					stop.Store(true)
					r.Violate("free-running: reader goroutine panics inside juno while the writer runs", map[string]any{"panic": fmt.Sprint(p), "reader": g})
				}
			}()
			var held []root
			for !stop.Load() {
				q := uint64(3 + g)
				v := w.st.SnapshotForBlock(q)
				nviews.Add(1)
				if _, ok := checkLocal(&v, q); !ok {
					r.Violate("free-running: view not aligned / not contiguous", map[string]any{"asked": q, "view": describe(&v)})
				}
				if v.Length() > 0 && len(held) < 64 {
					held = append(held, root{view: v, dig: viewDigest(&v, pass{})})
				}
				for i := range held {
					if viewDigest(&held[i].view, pass{}) != held[i].dig {
						nchanged.Add(1)
						r.Violate("free-running: held view changed", map[string]any{"view": describe(&held[i].view)})
						held[i].dig = viewDigest(&held[i].view, pass{})
					}
				}
				if len(held) == 64 {
					held = held[:0]
				}
			}
		}(g)
	}
	for i := 0; i < rounds && !stop.Load(); i++ {
		for _, o := range script {
			w.apply(o)
		}
	}
	stop.Store(true)
	wg.Wait()
	return nviews.Load(), nchanged.Load()
}

func checkLocal(v *preconfirmed.ChainReader, asked uint64) (n int, ok bool) {
	want := asked
	for e := range v.OldestFirst() {
		if e == nil || e.Block == nil || e.Block.Number != want {
			return n, false
		}
		want++
		n++
	}
	return n, n == v.Length()
}

func raceSmoke(r *ev.Run) {
	views, _ := raceBody(r, ev.Pick(r, 150, 1500))
	r.Set("smoke_free_running_reader_snapshots", views)
	r.Set("smoke_race_detector_pass", raceSubprocess(r))
}

// raceSubprocess builds this package with -race (works offline in this sandbox: ~20 s) and runs TestRaceSmoke in
// it. Build problems are reported in the evidence, never as a violation.
func raceSubprocess(r *ev.Run) string {
	if os.Getenv("C20_NO_RACE") != "" {
		return "skipped (C20_NO_RACE)"
	}
	suf := ""
	args := []string{"test", "-race", "-c", "-vet=off", "-tags", "verif"}
	if repo := os.Getenv("VERIF_REPO"); repo != "" && repo != "/repo" {
		var b strings.Builder
		for _, c := range repo + "\n" {
			if (c >= 'A' && c <= 'Z') || (c >= 'a' && c <= 'z') || (c >= '0' && c <= '9') {
				b.WriteRune(c)
			} else {
				b.WriteByte('_')
			}
		}
		suf = "." + b.String()
		args = append(args, "-modfile=/verif/build/go"+suf+".mod")
	}
	bin := "/verif/build/c20" + suf + ".race.test"
	args = append(args, "-o", bin, "./props/c20")
	ctx, cancel := context.WithTimeout(context.Background(), 240*time.Second)
	defer cancel()
	build := exec.CommandContext(ctx, "go", args...)
	build.Dir = "/verif/mc"
	if out, err := build.CombinedOutput(); err != nil {
		tail := string(out)
		if len(tail) > 300 {
			tail = tail[len(tail)-300:]
		}
		return "skipped: -race build failed: " + err.Error() + " " + tail
	}
	run := exec.CommandContext(ctx, bin, "-test.run", "^TestRaceSmoke$", "-test.v")
	run.Dir = "/verif/mc/props/c20"
	out, err := run.CombinedOutput()
	text := string(out)
	if strings.Contains(text, "DATA RACE") {
		i := strings.Index(text, "DATA RACE")
		end := i + 1500
		if end > len(text) {
			end = len(text)
		}
		r.Violate("free-running: data race reported by the race detector", map[string]any{"report": text[i:end]})
		return "DATA RACE reported"
	}
	if err != nil {
		if len(text) > 600 {
			text = text[len(text)-600:]
		}
		r.Violate("free-running: race-detector pass failed", map[string]any{"err": err.Error(), "output": text})
		return "failed"
	}
	if i := strings.Index(text, "free-running smoke:"); i >= 0 {
		line := text[i:]
		if j := strings.IndexByte(line, '\n'); j > 0 {
			line = line[:j]
		}
		return "clean; " + line
	}
	return "clean"
}

// TestRaceSmoke is the entry point for a -race build: `go test -race -tags verif -run TestRaceSmoke ./props/c20`.
func TestRaceSmoke(t *testing.T) {
	r := ev.Start("C20", "model_checking")
	views, changed := raceBody(r, 400)
	if r.Violations() > 0 || changed > 0 {
		t.Fatalf("free-running smoke: %d violations", r.Violations())
	}
	t.Logf("free-running smoke: %d reader snapshots, race detector enabled: %v", views, raceEnabled)
}
