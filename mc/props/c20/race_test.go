package c20

import "verif/mc/ev"

func raceSmoke(r *ev.Run) {}
