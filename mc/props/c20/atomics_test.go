package c20

// Harness E: a writer operation landing BETWEEN two atomic operations of ONE reader call.
//
// Harnesses A-D treat a reader call as one indivisible step. That is sound only if the call touches the shared word
// exactly once; here this is measured and, where a call performs several atomic operations, every interleaving of one
// (thorough: two) complete writer operations with the call is executed. sync/preconfirmed is built against
// verif/mc/schedatomic (prebuild.sh: only the import line of "sync/atomic" is rewritten), whose types call a hook
// before every Load / Store / Swap / CompareAndSwap. No goroutines are involved: the hook runs in the reader's own
// goroutine, executes the writer operation to completion on the same real ChainStorage (hook disarmed meanwhile) and
// returns, so the reader resumes with whatever it had already loaded. Deterministic, replayable, no scheduler.
//
// Space: every base state reached by a sequence of <= atomicsDepth state-changing writer operations over the reduced
// alphabet {x,y} x {0,1 txs} (+deltas, no-change, AdvanceTo); every reader call SnapshotForBlock(q), q in
// [oldest-1..tip+1]; every atomic operation k of that call (counted by a dry run; one point beyond is probed too, for an operation
// that only appears once a writer interfered); every operation of the FULL writer alphabet of harness A at that state
// (thorough: every ordered pair of writer operations at every pair of points k1 <= k2).
// Oracle: no panic in the call or while iterating its result; the view is empty or a gap-free run starting exactly at
// q whose Length equals the number of entries; and it is identical (same entry objects, same order) to what
// SnapshotForBlock(q) returns on ONE of the chains published during the call (before / between / after the injected
// writer operations) - a reader may see the old or the new chain, never a mixture.

import (
	"fmt"
	"time"

	"verif/mc/ev"
	"verif/mc/schedatomic"

	"github.com/NethermindEth/juno/core/pending"
	"github.com/NethermindEth/juno/sync/preconfirmed"
)

type injection struct {
	point int // 1-based index of the reader call's atomic operation BEFORE which the writer operation runs
	o     op
}

type atomicsStats struct {
	bases, calls, dryOps, maxOps, injected, injectedRuns, pointerMoved, nonEmpty, sawOld, sawNew, lateOps int64
	opNames                                                                                             map[string]int64
}

// entriesOf lists a view's entries oldest-first (guarded: iterating a torn view may panic).
func entriesOf(v *preconfirmed.ChainReader) (es []*pending.PreConfirmed, panicText string) {
	panicked, msg := ev.Guard(func() {
		for e := range v.OldestFirst() {
			es = append(es, e)
		}
	})
	if panicked {
		return es, msg
	}
	return es, ""
}

func sameEntries(a, b []*pending.PreConfirmed) bool {
	if len(a) != len(b) {
		return false
	}
	for i := range a {
		if a[i] != b[i] {
			return false
		}
	}
	return true
}

// snapshotUnder performs ONE reader call with the given injections; returns the view, the number of atomic operations
// the call performed, the reference views of every chain published during the call, and a panic text.
func snapshotUnder(w *world, q uint64, plan []injection, st *atomicsStats) (v preconfirmed.ChainReader, nOps int, refs [][]*pending.PreConfirmed, moved bool, panicText string) {
	busy := false
	ref := func() {
		rv := w.st.SnapshotForBlock(q)
		es, _ := entriesOf(&rv)
		refs = append(refs, es)
	}
	busy = true
	ref() // the chain published when the call starts
	busy = false
	schedatomic.SetHook(func(name string) {
		if busy {
			return
		}
		nOps++
		if st != nil && plan == nil {
			st.opNames[name]++
		}
		busy = true
		for _, in := range plan {
			if in.point == nOps {
				before := w.inner.Load()
				w.apply(in.o)
				if w.inner.Load() != before {
					moved = true
				}
				ref()
			}
		}
		busy = false
	})
	panicked, msg := ev.Guard(func() { v = w.st.SnapshotForBlock(q) })
	schedatomic.SetHook(nil)
	if panicked {
		panicText = msg
	}
	return
}

func atomicsCheckCall(r *ev.Run, w *world, path []op, q uint64, plan []injection, st *atomicsStats) {
	here, wbHere := w.inner.Load(), w.wb
	v, nOps, refs, moved, panicText := snapshotUnder(w, q, plan, st)
	w.inner.Store(here)
	w.wb = wbHere
	st.injectedRuns++
	if moved {
		st.pointerMoved++
	}
	ctx := func() map[string]any {
		inj := make([]string, len(plan))
		for i, in := range plan {
			inj[i] = fmt.Sprintf("before atomic op #%d of the call: %s", in.point, in.o)
		}
		return map[string]any{"base_path": pathString(path), "reader_call": fmt.Sprintf("SnapshotForBlock(%d)", q), "writer_lands": inj, "atomic_ops_in_call": nOps}
	}
	if panicText != "" {
		c := ctx()
		c["panic"] = panicText
		r.Violate("reader call panics when a writer operation lands between its atomic operations", c)
		return
	}
	es, itPanic := entriesOf(&v)
	if itPanic != "" {
		c := ctx()
		c["panic"] = itPanic
		c["length"] = v.Length()
		r.Violate("torn view: iterating a snapshot taken across a writer operation panics", c)
		return
	}
	if len(es) != v.Length() {
		c := ctx()
		c["length"], c["entries"] = v.Length(), len(es)
		r.Violate("torn view: snapshot taken across a writer operation is not an aligned gap-free run", c)
		return
	}
	want := q
	for i, e := range es {
		if e == nil || e.Block == nil || e.Block.Number != want {
			c := ctx()
			c["entry"], c["want_block"] = i, want
			if e != nil && e.Block != nil {
				c["got_block"] = e.Block.Number
			}
			r.Violate("torn view: snapshot taken across a writer operation is not an aligned gap-free run", c)
			return
		}
		want++
	}
	if len(es) > 0 {
		st.nonEmpty++
	}
	hit := -1
	for i := len(refs) - 1; i >= 0; i-- {
		if sameEntries(es, refs[i]) {
			hit = i
			if i == 0 {
				break
			}
		}
	}
	if hit < 0 {
		c := ctx()
		c["view"] = describe(&v)
		r.Violate("mixed view: snapshot taken across a writer operation matches none of the chains published during the call", c)
		return
	}
	if moved {
		if sameEntries(es, refs[0]) {
			st.sawOld++
		} else {
			st.sawNew++
		}
	}
}

// atomicsBases enumerates the base states: every sequence of <= depth state-changing operations (reduced alphabet),
// each rebuilt on a fresh storage.
func atomicsBases(depth int, visit func(w *world, path []op)) {
	cfg := alphaCfg{ids: 2, counts: 2, maxTx: 3}
	var rec func(path []op)
	rec = func(path []op) {
		w := replay(path)
		visit(w, path)
		if len(path) == depth {
			return
		}
		here, wbHere := w.inner.Load(), w.wb
		for _, o := range w.alphabet(cfg) {
			w.apply(o)
			changed := w.inner.Load() != here || w.wb != wbHere
			w.inner.Store(here)
			w.wb = wbHere
			if changed {
				rec(append(append([]op(nil), path...), o))
			}
		}
	}
	rec(nil)
}

func atomicsHarness(r *ev.Run) {
	t0 := time.Now()
	st := &atomicsStats{opNames: map[string]int64{}}
	depth := ev.Pick(r, 3, 4)
	full := alphaCfg{ids: 3, counts: 3, maxTx: 4}
	limit := t0.Add(time.Duration(ev.Pick(r, 40, 200)) * time.Second)
	cut := false
	atomicsBases(depth, func(w *world, path []op) {
		if cut || r.Violations() > 20 {
			return
		}
		if time.Now().After(limit) {
			cut = true
			return
		}
		st.bases++
		empty, o, t, _, _ := w.geometry()
		lo, hi := w.wb-1, w.wb+1
		if !empty {
			lo, hi = o-1, t+1
		}
		alpha := w.alphabet(full)
		here, wbHere := w.inner.Load(), w.wb
		for q := lo; q <= hi; q++ {
			st.calls++
			_, n, _, _, p := snapshotUnder(w, q, nil, st)
			if p != "" {
				r.Violate("reader call panics", map[string]any{"base_path": pathString(path), "snapshot_for": q, "panic": p})
				continue
			}
			if n == 0 {
				r.Infra("harness E: SnapshotForBlock performed no hooked atomic operation - the schedatomic overlay (props/c20/prebuild.sh) is not active in this build")
			}
			st.dryOps += int64(n)
			if int64(n) > st.maxOps {
				st.maxOps = int64(n)
			}
			// a writer may make the call perform more operations than the dry run did (a retry): probe one point beyond
			points := n + 1
			for _, a := range alpha {
				for k := 1; k <= points; k++ {
					st.injected++
					atomicsCheckCall(r, w, path, q, []injection{{k, a}}, st)
				}
				if !r.Thorough() || len(path) > 2 {
					continue
				}
				// thorough: a second writer operation, at the same or a later point
				w.apply(a)
				alpha2 := w.alphabet(full)
				w.inner.Store(here)
				w.wb = wbHere
				for _, b := range alpha2 {
					for k1 := 1; k1 <= points; k1++ {
						for k2 := k1; k2 <= points; k2++ {
							st.injected += 2
							atomicsCheckCall(r, w, path, q, []injection{{k1, a}, {k2, b}}, st)
						}
					}
				}
			}
		}
	})
	r.Set("E_base_states", st.bases)
	r.Set("E_base_depth", int64(depth))
	r.Set("E_reader_calls", st.calls)
	r.Set("E_atomic_ops_per_reader_call_max", st.maxOps)
	r.Set("E_atomic_ops_in_dry_reader_calls", st.dryOps)
	r.Set("E_interleaved_reader_calls", st.injectedRuns)
	r.Set("E_writer_ops_injected", st.injected)
	r.Set("E_calls_during_which_the_pointer_moved", st.pointerMoved)
	r.Set("E_nonempty_views_across_a_writer", st.nonEmpty)
	r.Set("E_views_equal_to_old_chain", st.sawOld)
	r.Set("E_views_equal_to_new_chain_only", st.sawNew)
	r.Set("E_completed", !cut)
	for k, n := range st.opNames {
		r.Set("E_reader_atomic_op_"+k, n)
	}
	r.Set("E_seconds", int64(time.Since(t0).Seconds()))
	r.Set("E_rule", fmt.Sprintf("reader/writer interleaving INSIDE one reader call: sync/preconfirmed built against verif/mc/schedatomic (import rewrite only); base states = all sequences of <= %d state-changing writer ops over the reduced alphabet; "+
		"reader call SnapshotForBlock(q) for every q in [oldest-1..tip+1]; before EVERY atomic operation of the call (dry-run count n, probed to n+1) EVERY operation of harness A's full writer alphabet is run to completion "+
		"(thorough, base depth <= 2: every ordered pair of writer ops at every pair of points k1<=k2); oracle: no panic, view empty or gap-free run from q with Length == entries, and identical to SnapshotForBlock(q) on one of the chains published during the call", depth))
	if cut {
		r.Outcome("harness E cut by its time cap")
	}
}
