#!/bin/bash
# db/memory guards its map with one sync.RWMutex. For the batch-atomicity schedules (atomic_test.go) that lock must be
# under the harness's cooperative scheduler: this script regenerates, from the CURRENT $VERIF_REPO/db/memory/db.go, a
# copy in which only the import of "sync" is rewritten to verif/mc/schedsync (a sync.RWMutex that behaves exactly like
# the real one unless an exploration is active), plus the `go build -overlay` JSON. Every edit of db.go is preserved.
set -eu
REPO="${VERIF_REPO:-/repo}"
SUF=""
[ "$REPO" != /repo ] && SUF=".$(echo "$REPO" | tr -c 'A-Za-z0-9' '_')"
OUT="/verif/build/overlay-c15$SUF"
mkdir -p "$OUT"
JSON="$OUT/overlay.json"
printf '{"Replace":{' > "$JSON"
first=1
for f in "$REPO"/db/memory/*.go; do
  case "$f" in *_test.go) continue;; esac
  if grep -q '^[[:space:]]*"sync"$' "$f"; then
    b=$(basename "$f")
    sed -e 's#^\([[:space:]]*\)"sync"$#\1sync "verif/mc/schedsync"#' "$f" > "$OUT/$b"
    [ $first -eq 1 ] || printf ',' >> "$JSON"
    printf '"%s": "%s"' "$f" "$OUT/$b" >> "$JSON"
    first=0
  fi
done
printf '}}\n' >> "$JSON"
[ $first -eq 0 ] || { echo "db/memory does not import sync any more" >&2; exit 1; }
echo "$JSON"
