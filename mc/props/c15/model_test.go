package c15

// The oracle of C15: a plain sorted-map model of the db.KeyValueStore contract
// (/repo/db/{database,batch,iterator,snapshot}.go), written without looking at how any backend
// implements it. Everything a backend returns is compared with what this file computes.

import (
	"encoding/hex"
	"fmt"
	"sort"
	"strings"
)

// K is the edge-case key alphabet of DESIGN §4 C15: empty key, a key that extends another key by 0x00 /
// 0xff / a letter, a sibling, and the all-0xff keys for which dbutils.UpperBound has no successor.
var K = func() []string {
	k := []string{"", "a", "a\x00", "a\xff", "ab", "b", "\xff", "\xff\xff"}
	sort.Strings(k)
	return k
}()

// V is the value alphabet (the empty value is a legal value and must not read as "absent").
var V = []string{"", "x", "y"}

// hx renders a key or value in hex; the empty string is written ” so that it stays visible.
func hx(s string) string {
	if s == "" {
		return "''"
	}
	return hex.EncodeToString([]byte(s))
}

// ---------------------------------------------------------------------------------------------
// abstract store

type state map[string]string

func (s state) clone() state {
	c := make(state, len(s))
	for k, v := range s {
		c[k] = v
	}
	return c
}

func (s state) keys() []string {
	ks := make([]string, 0, len(s))
	for k := range s {
		ks = append(ks, k)
	}
	sort.Strings(ks)
	return ks
}

func (s state) canon() string {
	var sb strings.Builder
	for _, k := range s.keys() {
		sb.WriteString(hx(k))
		sb.WriteByte('=')
		sb.WriteString(hx(s[k]))
		sb.WriteByte(' ')
	}
	return sb.String()
}

// write operation of the storage interface
type wop struct {
	kind byte // 'P' put(a,b)  'D' delete(a)  'R' delete-range [a,b)
	a, b string
}

func (o wop) String() string {
	switch o.kind {
	case 'P':
		return fmt.Sprintf("Put(%s,%s)", hx(o.a), hx(o.b))
	case 'D':
		return fmt.Sprintf("Delete(%s)", hx(o.a))
	}
	return fmt.Sprintf("DeleteRange(%s,%s)", hx(o.a), hx(o.b))
}

// apply mutates s ("Deletes a range of keys from start (inclusive) to end (exclusive)").
func (o wop) apply(s state) {
	switch o.kind {
	case 'P':
		s[o.a] = o.b
	case 'D':
		delete(s, o.a)
	case 'R':
		for k := range s {
			if k >= o.a && k < o.b {
				delete(s, k)
			}
		}
	}
}

func applyAll(s state, ops []wop) state {
	c := s.clone()
	for _, o := range ops {
		o.apply(c)
	}
	return c
}

func opsString(ops []wop) string {
	p := make([]string, len(ops))
	for i, o := range ops {
		p[i] = o.String()
	}
	return strings.Join(p, ";")
}

// batchSize is what db.Batch.Size documents ("value size of the data stored in the batch"): both pebble
// wrappers and the memory backend count len(key)+len(value) for Put and len(key) for Delete. DeleteRange
// is counted differently (memory: the keys it expands to, pebble: nothing); Size is only compared for
// batches without DeleteRange (tolerance: Size is a flush heuristic, not part of the property's list).
func batchSize(ops []wop) (int, bool) {
	n := 0
	for _, o := range ops {
		switch o.kind {
		case 'P':
			n += len(o.a) + len(o.b)
		case 'D':
			n += len(o.a)
		default:
			return 0, false
		}
	}
	return n, true
}

// ---------------------------------------------------------------------------------------------
// observations of a KeyValueReader: one line per call, "<call>=<result>"

type obs []string

func modelObserve(s state, what int) obs { return modelObserveKeys(s, K, what) }

func modelObserveKeys(s state, keys []string, what int) obs {
	var o obs
	for _, k := range keys {
		v, ok := s[k]
		if what&oGet != 0 {
			if ok {
				o = append(o, "Get("+hx(k)+")=ok:"+hx(v))
			} else {
				o = append(o, "Get("+hx(k)+")=notfound")
			}
		}
		if what&oGetFail != 0 {
			if ok {
				o = append(o, "GetCbFail("+hx(k)+")=cberr")
			} else {
				o = append(o, "GetCbFail("+hx(k)+")=notfound")
			}
		}
		if what&oHas != 0 {
			o = append(o, fmt.Sprintf("Has(%s)=%v", hx(k), ok))
		}
	}
	if what&oIter != 0 {
		var sb strings.Builder
		for _, k := range s.keys() {
			sb.WriteString(hx(k) + "=" + hx(s[k]) + " ")
		}
		o = append(o, "Iterate=["+sb.String()+"]")
	}
	return o
}

// firstDiff returns the index of the first differing line (or -1).
func firstDiff(want, got obs) int {
	n := len(want)
	if len(got) < n {
		n = len(got)
	}
	for i := 0; i < n; i++ {
		if want[i] != got[i] {
			return i
		}
	}
	if len(want) != len(got) {
		return n
	}
	return -1
}

func line(o obs, i int) string {
	if i < len(o) {
		return o[i]
	}
	return "<missing>"
}

// callOf("Get(61)=ok:78") = "Get" ; classOf(...) = "ok"
func callOf(l string) string {
	if i := strings.IndexAny(l, "(="); i >= 0 {
		return l[:i]
	}
	return l
}

func classOf(l string) string {
	i := strings.IndexByte(l, '=')
	if i < 0 {
		return l
	}
	c := l[i+1:]
	if j := strings.IndexByte(c, ':'); j >= 0 {
		c = c[:j]
	}
	if strings.HasPrefix(c, "[") {
		c = "listing"
	}
	return c
}

// ---------------------------------------------------------------------------------------------
// iterator model
//
// NewIterator(prefix, withUpperBound): the production backends (pebble) treat `prefix` as an inclusive
// LOWER bound and add the exclusive upper bound dbutils.UpperBound(prefix) only when asked
// (db/pebblev2/db.go, the parameter is even called lowerBound in db/syncbatch.go and pebblev2/batch.go;
// migration/deprecated/migration.go:933 re-checks bytes.HasPrefix itself because of that). The model
// follows that reading. UpperBound(prefix)==nil means "no successor exists" = unbounded above.

func upperBound(prefix string) (string, bool) {
	b := []byte(prefix)
	for i := len(b) - 1; i >= 0; i-- {
		if b[i] != 0xff {
			ub := append([]byte{}, b[:i+1]...)
			ub[i]++
			return string(ub), true
		}
	}
	return "", false
}

func viewKeys(s state, prefix string, withUB bool) []string {
	ub, has := "", false
	if withUB {
		ub, has = upperBound(prefix)
	}
	var ks []string
	for _, k := range s.keys() {
		if k >= prefix && (!has || k < ub) {
			ks = append(ks, k)
		}
	}
	return ks
}

// memoryViewKeys is NOT the oracle: it is the alternative reading implemented by db/memory
// (strings.HasPrefix filter always; a nil upper bound compared as ""), used only to label a divergence
// with its cause so that a new defect is not hidden behind the two already classified ones.
func memoryViewKeys(s state, prefix string, withUB bool) []string {
	ub, _ := upperBound(prefix)
	var ks []string
	for _, k := range s.keys() {
		if strings.HasPrefix(k, prefix) && (!withUB || k < ub) {
			ks = append(ks, k)
		}
	}
	return ks
}

// moves: 0 First, 1 Next, 2 Prev, 3+i Seek(K[i])
const (
	mvFirst = 0
	mvNext  = 1
	mvPrev  = 2
	mvSeek  = 3
)

var nMoves = mvSeek + len(K)

func moveName(m int) string {
	switch m {
	case mvFirst:
		return "First"
	case mvNext:
		return "Next"
	case mvPrev:
		return "Prev"
	}
	return "Seek(" + hx(K[m-mvSeek]) + ")"
}

func moveKind(m int) string {
	if m >= mvSeek {
		return "Seek"
	}
	return moveName(m)
}

func progString(p []int) string {
	s := make([]string, len(p))
	for i, m := range p {
		s[i] = moveName(m)
	}
	return strings.Join(s, ",")
}

// mIter: positions -1 (before first) .. n (after last); unpositioned until the first move.
//
// Contract scope ("core" steps). db/iterator.go defines First/Seek for every state and Next/Prev as
// "moves to the next/previous pair"; what a RELATIVE move does on an iterator that is already invalid is
// not specified, except for two patterns the repository itself relies on and tests:
//   - Next/Prev on a fresh iterator act as First (explicit code in both backends; production:
//     migration0000 and the gRPC cursor call Next on a fresh iterator);
//   - Prev directly after a Seek that found nothing lands on the last pair (db/testutil.go "Seek past
//     end then Prev lands on last key"; production: core/state/state_reader.go valueAt).
//
// A relative move in any other invalid position is outside the documented contract: its result (and
// every relative move after it, until the next First/Seek) is recorded but never a violation.
// Reading Key/Value of an invalid iterator is never compared.
type mIter struct {
	keys       []string
	vals       state
	pos        int
	positioned bool
	lastSeekKO bool // previous move was a Seek that returned false
	defined    bool // position is determined by the contract
}

func newMIter(keys []string, vals state) *mIter {
	return &mIter{keys: keys, vals: vals, defined: true}
}

func (it *mIter) valid() bool { return it.positioned && it.pos >= 0 && it.pos < len(it.keys) }

// step applies the move and returns the observation line and whether the step is within the contract.
func (it *mIter) step(m int) (string, bool) {
	core := true
	n := len(it.keys)
	wasSeekKO := it.lastSeekKO
	it.lastSeekKO = false
	switch {
	case m == mvFirst:
		it.pos, it.positioned, it.defined = 0, true, true
	case m >= mvSeek:
		k := K[m-mvSeek]
		it.pos = sort.SearchStrings(it.keys, k)
		it.positioned, it.defined = true, true
		it.lastSeekKO = it.pos >= n
	default: // relative
		if !it.positioned {
			it.pos, it.positioned = 0, true // acts as First
			break
		}
		if !(it.defined && (it.valid() || (m == mvPrev && wasSeekKO))) {
			// relative move on an exhausted iterator: the model keeps following what pebble does
			// (so that the "outside contract" bucket only collects real differences), but the step
			// and the relative moves after it are not part of the contract
			core = false
			it.defined = false
		}
		if m == mvNext && it.pos < n {
			it.pos++
		} else if m == mvPrev && it.pos > -1 {
			it.pos-- // from n (after a failed Seek) this is the last pair; n==0 -> -1
		}
	}
	v := it.valid()
	l := fmt.Sprintf("%s=%v/%v", moveName(m), v, v)
	if v {
		k := it.keys[it.pos]
		l += "/" + hx(k) + "=" + hx(it.vals[k])
	}
	return l, core
}

func modelProgram(keys []string, vals state, prog []int) (obs, []bool) {
	it := newMIter(keys, vals)
	o := make(obs, len(prog))
	c := make([]bool, len(prog))
	for i, m := range prog {
		o[i], c[i] = it.step(m)
	}
	return o, c
}

// allPrograms enumerates every move sequence of length 1..maxLen over the 12 moves.
func allPrograms(maxLen int) [][]int {
	var out [][]int
	var rec func(p []int)
	rec = func(p []int) {
		if len(p) > 0 {
			out = append(out, append([]int{}, p...))
		}
		if len(p) == maxLen {
			return
		}
		for m := 0; m < nMoves; m++ {
			rec(append(p, m))
		}
	}
	rec(nil)
	return out
}

// ---------------------------------------------------------------------------------------------
// enumeration helpers

// allStates: every map over K x V with at most maxKeys keys (used to cross-check the BFS count).
func countStates(maxKeys int) int {
	total, binom := 0, 1
	pow := 1
	for i := 0; i <= maxKeys && i <= len(K); i++ {
		total += binom * pow
		binom = binom * (len(K) - i) / (i + 1)
		pow *= len(V)
	}
	return total
}

// keySets: every subset of K with at most maxKeys keys, each key carrying a value that depends on its
// index in K (so that the empty value and equal values on neighbouring keys all occur).
func keySets(maxKeys int) []state {
	var out []state
	for mask := 0; mask < 1<<len(K); mask++ {
		s := state{}
		for i, k := range K {
			if mask&(1<<i) != 0 {
				s[k] = V[i%len(V)]
			}
		}
		if len(s) <= maxKeys {
			out = append(out, s)
		}
	}
	return out
}

func singleOps(keys []string, vals []string) []wop {
	var ops []wop
	for _, k := range keys {
		for _, v := range vals {
			ops = append(ops, wop{'P', k, v})
		}
	}
	for _, k := range keys {
		ops = append(ops, wop{'D', k, ""})
	}
	for _, a := range keys {
		for _, b := range keys {
			ops = append(ops, wop{'R', a, b}) // includes empty (a==b) and inverted (a>b) ranges: no-ops
		}
	}
	return ops
}
