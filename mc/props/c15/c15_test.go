package c15

// C15 — one storage contract for all backends (memory ≡ pebble v2 ≡ pebble v1 ≡ sorted-map model).
//
// Differential explicit-state search against the real backends (pebble on an in-memory vfs):
//   A  BFS over every reachable map (keys from K, values from V, ≤ N keys): every single write op
//      (Put / Delete / DeleteRange over ALL ordered key pairs) in every write mode (direct, batch,
//      indexed batch, *WithSize, committed or closed, Update/Write helpers with succeeding and failing
//      callback, db.SyncBatch, db.BufferBatch), observing the op results, that nothing is visible before
//      the commit, the indexed view, the final store and a snapshot taken before the op.
//   B  every batch / indexed batch holding a SEQUENCE of ops (all pairs over the full op alphabet, all
//      triples over a reduced one), read-your-writes after every op, and single-op batches interleaved
//      with a direct write by "another writer" between the batch op and the commit.
//   C  every iterator positioning program of ≤ L moves over {First,Next,Prev,Seek(k∈K)} for every
//      (prefix∈K, withUpperBound) on every key set, read from the db, from a snapshot whose db was
//      rewritten afterwards, from an indexed batch whose pending writes produce the key set, and from the
//      db with a rewriting commit injected between two moves.
//   D  use after Close (documented as invalid): only "error or panic, never silent success".
//   E  (durable_test.go) histories from the empty store whose alphabet also holds the durable / LSM-level
//      operations of the production backends: flush, flush+compact, close+reopen on the same MemFS, after every
//      write group in every committing write mode, with the full observer programme after each of them
//      (A–C read every version out of pebble's memtable; E reads them out of sstables and a replayed WAL).
//   F  (views_test.go) histories whose alphabet holds the LIFETIME events of several simultaneously live views of one
//      store (open / close snapshots, held iterators on the db / a snapshot / an indexed batch, indexed batches with a
//      pending op, in every order) interleaved with writes; the store and every open view are read after every event.
//   G  (directops_test.go, with atomic_test.go) schedules BELOW operation granularity on the in-memory backend: every
//      interleaving of the lock acquisitions of one write operation (batch commit; direct Put / Delete / DeleteRange /
//      Update / Write on the store) with a consistent reader, an atomic batch or another direct call; the outcome must
//      be that of some serial order of the two (serial orders executed on both Pebble backends).
// Sections A-F enumerate schedules at operation granularity, which is sound only if every backend call is one
// indivisible step (memory takes its RWMutex, pebble commits atomically) - that is what G checks for the memory
// backend; accesses outside the lock (data races proper) are not part of this check.

import (
	"errors"
	"fmt"
	"os"
	"runtime"
	"runtime/debug"
	"runtime/pprof"
	"sort"
	"strconv"
	"strings"
	"sync"
	"sync/atomic"
	"testing"
	"time"

	"verif/mc/ev"

	"github.com/NethermindEth/juno/db"
	"github.com/NethermindEth/juno/db/memory"
	pebblev1 "github.com/NethermindEth/juno/db/pebble"
	"github.com/NethermindEth/juno/db/pebblev2"
	p1 "github.com/cockroachdb/pebble"
	p2 "github.com/cockroachdb/pebble/v2"
	vfs2 "github.com/cockroachdb/pebble/v2/vfs"
	vfs1 "github.com/cockroachdb/pebble/vfs"
)

// ---------------------------------------------------------------------------------------------
// backends

type quiet struct{}

func (quiet) Infof(string, ...any)  {}
func (quiet) Errorf(string, ...any) {}
func (quiet) Fatalf(f string, a ...any) {
	panic(fmt.Sprintf("pebble fatal: "+f, a...))
}

type backend struct {
	name string
	open func() db.KeyValueStore
}

var backends = []*backend{
	{"memory", func() db.KeyValueStore { return memory.New() }},
	{"pebblev2", func() db.KeyValueStore {
		// the path does not exist on the real filesystem (upgradeFormatIfNeeded peeks there and finds
		// nothing); all files live in the private MemFS
		d, err := pebblev2.New("/nonexistent-verif-c15/v2", func(o *p2.Options) error {
			o.FS = vfs2.NewMem()
			o.Logger = quiet{}
			return nil
		})
		if err != nil {
			panic("open pebblev2: " + err.Error())
		}
		return d
	}},
	{"pebble", func() db.KeyValueStore {
		d, err := pebblev1.New("/nonexistent-verif-c15/v1", func(o *p1.Options) error {
			o.FS = vfs1.NewMem()
			o.Logger = quiet{}
			return nil
		})
		if err != nil {
			panic("open pebble v1: " + err.Error())
		}
		return d
	}},
}

var errCB = errors.New("c15: callback failed on purpose")

func cls(err error) string {
	switch {
	case err == nil:
		return "ok"
	case errors.Is(err, db.ErrKeyNotFound):
		return "notfound"
	case errors.Is(err, errCB):
		return "cberr"
	}
	return "error:" + err.Error()
}

func guardStr(f func() string) (s string) {
	defer func() {
		if x := recover(); x != nil {
			s = "panic:" + fmt.Sprint(x)
		}
	}()
	return f()
}

type rw interface {
	db.KeyValueWriter
	db.KeyValueRangeDeleter
}

func (o wop) on(w rw) error {
	switch o.kind {
	case 'P':
		return w.Put([]byte(o.a), []byte(o.b))
	case 'D':
		return w.Delete([]byte(o.a))
	}
	return w.DeleteRange([]byte(o.a), []byte(o.b))
}

func prefixBytes(p string) []byte {
	if p == "" {
		return nil // production passes nil for "everything"
	}
	return []byte(p)
}

// what an observation consists of (the model mirrors it exactly)
const (
	oGet     = 1 << iota // Get of every key with a succeeding callback
	oGetFail             // Get of every key with a failing callback
	oHas                 // Has of every key
	oIter                // full listing through NewIterator(nil,false) First/Next
	oAll     = oGet | oGetFail | oHas | oIter
	oRead    = oGet | oHas | oIter
)

// observe performs the selected reads on a reader; one line per call.
func observe(r db.KeyValueReader, what int) obs { return observeKeys(r, K, what) }

// observeKeys: the point reads go over `keys` (section F uses the few keys its histories can touch).
func observeKeys(r db.KeyValueReader, keys []string, what int) obs {
	o := make(obs, 0, 3*len(keys)+1)
	for _, k := range keys {
		kb := []byte(k)
		if what&oGet != 0 {
			o = append(o, "Get("+hx(k)+")="+guardStr(func() string {
				var got []byte
				called := 0
				err := r.Get(kb, func(v []byte) error { called++; got = append([]byte{}, v...); return nil })
				if err == nil {
					if called != 1 {
						return fmt.Sprintf("ok-but-callback-called-%d-times", called)
					}
					return "ok:" + hx(string(got))
				}
				if called != 0 {
					return "callback-called-and-" + cls(err)
				}
				return cls(err)
			}))
		}
		if what&oGetFail != 0 {
			o = append(o, "GetCbFail("+hx(k)+")="+guardStr(func() string {
				return cls(r.Get(kb, func([]byte) error { return errCB }))
			}))
		}
		if what&oHas != 0 {
			o = append(o, "Has("+hx(k)+")="+guardStr(func() string {
				ok, err := r.Has(kb)
				if err != nil {
					return cls(err)
				}
				return fmt.Sprint(ok)
			}))
		}
	}
	if what&oIter != 0 {
		o = append(o, "Iterate="+guardStr(func() string {
			it, err := r.NewIterator(nil, false)
			if err != nil {
				return cls(err)
			}
			var sb strings.Builder
			n := 0
			for ok := it.First(); ok; ok = it.Next() {
				v, err := it.Value()
				if err != nil {
					it.Close()
					return "value-" + cls(err)
				}
				sb.WriteString(hx(string(it.Key())) + "=" + hx(string(v)) + " ")
				if n++; n > 4*len(K) {
					it.Close()
					return "runaway"
				}
			}
			if err := it.Close(); err != nil {
				return "close-" + cls(err)
			}
			return "[" + sb.String() + "]"
		}))
	}
	return o
}

func prefixed(stage string, o obs) obs {
	out := make(obs, len(o))
	for i, l := range o {
		out[i] = stage + "|" + l
	}
	return out
}

func stageOf(l string) (stage, rest string) {
	if i := strings.IndexByte(l, '|'); i >= 0 {
		return l[:i], l[i+1:]
	}
	if i := strings.IndexByte(l, '='); i >= 0 {
		return l[:i], l
	}
	return l, l
}

// ---------------------------------------------------------------------------------------------
// representative of an abstract state on a backend

type rep struct {
	be     *backend
	d      db.KeyValueStore
	cur    state
	writes int
	bad    bool
	opens  int64
	limit  int // re-open after this many writes (0: maxWritesPerDB)
}

const maxWritesPerDB = 400 // re-open before version chains / tombstones make pebble iteration slow

func (p *rep) drop() {
	if p.d != nil {
		d := p.d
		ev.Guard(func() { d.Close() })
		p.d = nil
	}
}

// ensure makes the backend hold exactly s (canonical construction: direct Puts on a fresh store, or the
// minimal direct Put/Delete difference from the previous, model-agreed content).
func (p *rep) ensure(s state) {
	limit := p.limit
	if limit == 0 {
		limit = maxWritesPerDB
	}
	if p.d == nil || p.bad || p.writes > limit {
		p.drop()
		p.d = p.be.open()
		p.opens++
		p.cur, p.writes, p.bad = state{}, 0, false
	}
	for k := range p.cur {
		if _, ok := s[k]; !ok {
			must(p.d.Delete([]byte(k)))
			p.writes++
		}
	}
	for k, v := range s {
		if ov, ok := p.cur[k]; !ok || ov != v {
			must(p.d.Put([]byte(k), []byte(v)))
			p.writes++
		}
	}
	p.cur = s.clone()
}

func must(err error) {
	if err != nil {
		panic("c15 infra: " + err.Error())
	}
}

// ---------------------------------------------------------------------------------------------
// findings

type finding struct {
	rank   int64
	detail any
	count  int64
}

type collector struct {
	mu sync.Mutex
	m  map[string]*finding
}

func newCollector() *collector { return &collector{m: map[string]*finding{}} }

func (c *collector) add(key string, rank int64, detail func() any) {
	c.mu.Lock()
	defer c.mu.Unlock()
	f := c.m[key]
	if f == nil {
		c.m[key] = &finding{rank: rank, detail: detail(), count: 1}
		return
	}
	f.count++
	if rank < f.rank {
		f.rank, f.detail = rank, detail()
	}
}

type checker struct {
	secDeadline time.Time // the running section must stop here so that the later sections get their share
	r           *ev.Run
	viol        *collector // divergences inside the contract
	ext         *collector // divergences outside the documented contract (recorded, never a violation)
	out         sync.Map   // outcome label -> *int64
	procs       int
}

func (c *checker) outOfTime() bool {
	return c.r.OutOfTime() || (!c.secDeadline.IsZero() && time.Now().After(c.secDeadline))
}

func (c *checker) outcome(l string, n int64) {
	v, ok := c.out.Load(l)
	if !ok {
		v, _ = c.out.LoadOrStore(l, new(int64))
	}
	atomic.AddInt64(v.(*int64), n)
}

// diffLines compares two observation lists line by line. One already classified defect class is
// stepped over so that it cannot mask anything else: Has() of a missing key on a pebble snapshot
// returns the raw pebble.ErrNotFound instead of (false, nil). It is reported under its own coarse key
// and the comparison continues with the next line; the first other difference is returned.
func (c *checker) diffLines(be *backend, want, got obs, rank int64, ctx func() map[string]any) int {
	n := len(want)
	if len(got) > n {
		n = len(got)
	}
	for i := 0; i < n; i++ {
		wl, gl := line(want, i), line(got, i)
		if wl == gl {
			continue
		}
		stage, wrest := stageOf(wl)
		gstage, grest := stageOf(gl)
		if stage == gstage && strings.HasPrefix(stage, "snapshot") && callOf(wrest) == "Has" &&
			classOf(wrest) == "false" && strings.Contains(grest, "=error:") {
			c.viol.add("snapshot-has-missing-key-returns-error "+be.name, rank, func() any {
				d := ctx()
				d["model"], d["backend_returned"], d["backend"] = wl, gl, be.name
				return d
			})
			continue
		}
		return i
	}
	return -1
}

// gotClass is the class of what the backend returned, made distinguishable when only the payload differs.
func gotClass(wrest, grest string) string {
	g := classOf(grest)
	if g == classOf(wrest) {
		return "different-" + g
	}
	return g
}

// ---------------------------------------------------------------------------------------------
// section A: single write ops in every mode

type wmode struct {
	name     string
	batch    bool // goes through a batch object
	indexed  bool // the batch can be read
	commits  bool
	pdOnly   bool // only Put/Delete (db.BufferBatch panics on everything else by design)
	helper   string
	failing  bool
	withSize bool
	wrap     string
}

var wmodes = []wmode{
	{name: "direct", commits: true},
	{name: "batch-commit", batch: true, commits: true},
	{name: "batch-close", batch: true},
	{name: "batchsize-commit", batch: true, commits: true, withSize: true},
	{name: "ibatch-commit", batch: true, indexed: true, commits: true},
	{name: "ibatch-close", batch: true, indexed: true},
	{name: "ibatchsize-commit", batch: true, indexed: true, commits: true, withSize: true},
	{name: "update-ok", batch: true, indexed: true, commits: true, helper: "Update"},
	{name: "update-fail", batch: true, indexed: true, helper: "Update", failing: true},
	{name: "write-ok", batch: true, commits: true, helper: "Write"},
	{name: "write-fail", batch: true, helper: "Write", failing: true},
	{name: "syncbatch-commit", batch: true, indexed: true, commits: true, wrap: "sync"},
	{name: "bufferbatch-commit", batch: true, indexed: true, commits: true, wrap: "buffer", pdOnly: true},
}

// Reads per stage (kept small: a pebble Get costs ~1µs of CPU and there are millions of transitions):
// before the commit only the listing of the store; the indexed view with Get+Has+listing; the final
// store with Get+Has+listing (plus Get with a failing callback in mode "direct"); the snapshot taken
// before the op with Has+listing (its Get / failing-callback Get are exercised in section C).
func viewWhat(m wmode) int {
	if m.wrap == "buffer" {
		return oGet | oGetFail // db.BufferBatch panics on Has/NewIterator by design
	}
	return oRead
}

func afterWhat(m wmode) int {
	if !m.batch {
		return oAll
	}
	return oRead
}

func modelTransition(s state, m wmode, op wop) (obs, state) {
	after := s.clone()
	op.apply(after)
	var o obs
	o = append(o, "op=ok")
	post := s
	if m.commits {
		post = after
	}
	if m.batch {
		if m.wrap != "buffer" {
			if n, ok := batchSize([]wop{op}); ok {
				o = append(o, fmt.Sprintf("size=%d", n))
			}
		}
		o = append(o, prefixed("before-commit", modelObserve(s, oIter))...)
		if m.indexed {
			o = append(o, prefixed("view", modelObserve(after, viewWhat(m)))...)
		}
		if m.failing {
			o = append(o, "end=cberr")
		} else {
			o = append(o, "end=ok")
		}
	}
	o = append(o, prefixed("after", modelObserve(post, afterWhat(m)))...)
	o = append(o, prefixed("snapshot", modelObserve(s, oHas|oIter))...)
	o = append(o, "snapshot-close=ok")
	return o, post
}

func execTransition(d db.KeyValueStore, m wmode, op wop) (o obs) {
	defer func() {
		if x := recover(); x != nil {
			o = append(o, "panic="+fmt.Sprint(x))
		}
	}()
	snap := d.NewSnapshot()
	inBatch := func(b rw, reader db.KeyValueReader, sizer interface{ Size() int }) {
		o = append(o, "op="+cls(op.on(b)))
		if sizer != nil {
			if _, ok := batchSize([]wop{op}); ok {
				o = append(o, fmt.Sprintf("size=%d", sizer.Size()))
			}
		}
		o = append(o, prefixed("before-commit", observe(d, oIter))...)
		if reader != nil {
			o = append(o, prefixed("view", observe(reader, viewWhat(m)))...)
		}
	}
	switch {
	case !m.batch:
		o = append(o, "op="+cls(op.on(d)))
	case m.helper == "Update":
		err := d.Update(func(b db.IndexedBatch) error {
			inBatch(b, b, b)
			if m.failing {
				return errCB
			}
			return nil
		})
		o = append(o, "end="+cls(err))
	case m.helper == "Write":
		err := d.Write(func(b db.Batch) error {
			inBatch(b, nil, b)
			if m.failing {
				return errCB
			}
			return nil
		})
		o = append(o, "end="+cls(err))
	case m.wrap == "sync":
		b := db.NewSyncBatch(d.NewIndexedBatch())
		inBatch(b, b, b)
		o = append(o, "end="+cls(b.Write()))
	case m.wrap == "buffer":
		b := db.NewBufferBatch(d.NewIndexedBatch())
		o = append(o, "op="+cls(func() error {
			if op.kind == 'P' {
				return b.Put([]byte(op.a), []byte(op.b))
			}
			return b.Delete([]byte(op.a))
		}()))
		o = append(o, prefixed("before-commit", observe(d, oIter))...)
		o = append(o, prefixed("view", observe(b, viewWhat(m)))...)
		o = append(o, "end="+cls(b.Write()))
	default:
		var b db.Batch
		var reader db.KeyValueReader
		switch {
		case m.indexed && m.withSize:
			ib := d.NewIndexedBatchWithSize(64)
			b, reader = ib, ib
		case m.indexed:
			ib := d.NewIndexedBatch()
			b, reader = ib, ib
		case m.withSize:
			b = d.NewBatchWithSize(64)
		default:
			b = d.NewBatch()
		}
		inBatch(b, reader, b)
		if m.commits {
			o = append(o, "end="+cls(b.Write()))
		} else {
			o = append(o, "end="+cls(b.Close()))
		}
	}
	o = append(o, prefixed("after", observe(d, afterWhat(m)))...)
	o = append(o, prefixed("snapshot", observe(snap, oHas|oIter))...)
	o = append(o, "snapshot-close="+cls(snap.Close()))
	return o
}

// sectionA expands every reachable map with ≤ fullKeys keys, and of the maps with fullKeys < n ≤ repKeys
// keys one representative per key set (the value of a key fixed by its index in K). Successors outside
// that set are still produced, executed and compared as transition targets; they are just not expanded.
func (c *checker) sectionA(fullKeys, repKeys int) {
	expand := func(st state) bool {
		return len(st) <= fullKeys || (len(st) <= repKeys && isRepresentative(st))
	}
	expected := countStates(fullKeys)
	for _, ks := range keySets(repKeys) {
		if len(ks) > fullKeys {
			expected++
		}
	}
	r := c.r
	ops := singleOps(K, V)
	var pdOps []wop
	for _, op := range ops {
		if op.kind != 'R' {
			pdOps = append(pdOps, op)
		}
	}
	seen := map[string]int{"": 0}
	frontier := []state{{}}
	var mu sync.Mutex
	depth := 0
	stateIdx := int64(0)
	var transitions, execs, opens, beyond int64
	for len(frontier) > 0 {
		base := stateIdx
		var next []state
		cut := int64(0)
		ev.Par(len(frontier), c.procs, func(i int) {
			if c.outOfTime() {
				atomic.AddInt64(&cut, 1)
				return
			}
			s := frontier[i]
			rankBase := (base + int64(i)) << 24
			type want struct {
				m    wmode
				op   wop
				o    obs
				post state
			}
			var wants []want
			succ := map[string]state{}
			for _, m := range wmodes {
				mops := ops
				if m.pdOnly {
					mops = pdOps
				}
				for _, op := range mops {
					o, post := modelTransition(s, m, op)
					wants = append(wants, want{m, op, o, post})
					succ[post.canon()] = post
					changed := "unchanged"
					if post.canon() != s.canon() {
						changed = "changed"
					}
					c.outcome(fmt.Sprintf("A %c %s", op.kind, changed), 1)
				}
			}
			atomic.AddInt64(&transitions, int64(len(wants)))
			for _, be := range backends {
				p := &rep{be: be}
				for wi, w := range wants {
					p.ensure(s)
					got := execTransition(p.d, w.m, w.op)
					atomic.AddInt64(&execs, 1)
					p.writes += 2
					if base+int64(i) == 2 && w.m.name == "ibatch-commit" && w.op.kind == 'R' && w.op.a == "" && w.op.b == "b" {
						r.Sample(map[string]any{"section": "A", "backend": be.name, "state": s.canon(), "mode": w.m.name, "op": w.op.String(),
							"lines_compared": len(w.o), "identical": firstDiff(w.o, got) < 0,
							"model_excerpt": []string(w.o[:2]), "backend_excerpt": []string(got[:2]), "backend_final_listing": got[len(got)-12]})
					}
					actx := func() map[string]any {
						return map[string]any{"state": s.canon(), "mode": w.m.name, "op": w.op.String()}
					}
					if di := c.diffLines(be, w.o, got, rankBase+int64(wi), actx); di >= 0 {
						p.bad = true
						wl, gl := line(w.o, di), line(got, di)
						stage, wrest := stageOf(wl)
						gstage, grest := stageOf(gl)
						if gstage != stage {
							grest = gl
						}
						key := fmt.Sprintf("write-divergence %s mode=%s op=%c stage=%s call=%s expected=%s got=%s",
							be.name, w.m.name, w.op.kind, stage, callOf(wrest), classOf(wrest), gotClass(wrest, grest))
						c.viol.add(key, rankBase+int64(wi), func() any {
							return map[string]any{"state": s.canon(), "mode": w.m.name, "op": w.op.String(),
								"backend": be.name, "first_differing_line": di, "model": wl, "backend_returned": gl,
								"note": "state/keys/values are hex; the store is built by direct Puts of `state` on a fresh backend"}
						})
					} else {
						p.cur = w.post.clone()
					}
				}
				atomic.AddInt64(&opens, p.opens)
				p.drop()
			}
			mu.Lock()
			for cn, st := range succ {
				if _, ok := seen[cn]; ok {
					continue
				}
				if !expand(st) {
					beyond++
					seen[cn] = -1
					continue
				}
				seen[cn] = depth + 1
				next = append(next, st)
			}
			mu.Unlock()
		})
		stateIdx += int64(len(frontier))
		if cut > 0 {
			r.Incomplete(fmt.Sprintf("section A: %d states of BFS depth %d not expanded (time budget)", cut, depth))
			break
		}
		sort.Slice(next, func(i, j int) bool { return next[i].canon() < next[j].canon() })
		frontier = next
		depth++
	}
	reach := 0
	for _, d := range seen {
		if d >= 0 {
			reach++
		}
	}
	r.Add("states", int64(reach))
	r.Add("transitions", transitions)
	r.Add("traces_validated_against_impl", execs)
	r.Set("A_states_reachable", int64(reach))
	r.Set("A_states_expected", int64(expected))
	r.Set("A_states_beyond_bound_seen_not_expanded", beyond)
	r.Set("A_bfs_depth", int64(depth))
	r.Set("A_transitions", transitions)
	r.Set("A_backend_executions", execs)
	r.Set("A_backend_opens", opens)
	r.Set("A_all_maps_up_to_keys", int64(fullKeys))
	r.Set("A_one_map_per_key_set_up_to_keys", int64(repKeys))
	if reach != expected && len(frontier) == 0 {
		r.Infra("BFS reached %d states, expected %d", reach, expected)
	}
}

// ---------------------------------------------------------------------------------------------
// section B: op sequences inside one batch, read-your-writes, interleaved direct writer

type bcase struct {
	class   string // "pair" | "triple" | "extern"
	indexed bool
	ops     []wop
	extern  *wop // direct write by another writer after the ops were recorded, before the commit
}

func (b bcase) label() string {
	kinds := ""
	for _, o := range b.ops {
		kinds += string(o.kind)
	}
	kind := "batch"
	if b.indexed {
		kind = "ibatch"
	}
	ex := "none"
	if b.extern != nil {
		ex = string(b.extern.kind)
	}
	return fmt.Sprintf("kind=%s ops=%s extern=%s", kind, kinds, ex)
}

// read-your-writes: listing after every op, Get+Has+listing after the last one
func bViewWhat(i, n int) int {
	if i == n-1 {
		return oRead
	}
	return oIter
}

func modelBatch(s state, b bcase) (obs, state) {
	var o obs
	cur := s.clone() // the store
	for i := range b.ops {
		o = append(o, fmt.Sprintf("op%d=ok", i))
		if b.indexed {
			o = append(o, prefixed(fmt.Sprintf("view%d", i), modelObserve(applyAll(cur, b.ops[:i+1]), bViewWhat(i, len(b.ops))))...)
		}
	}
	if n, ok := batchSize(b.ops); ok {
		o = append(o, fmt.Sprintf("size=%d", n))
	}
	if b.extern != nil {
		o = append(o, "extern=ok")
		b.extern.apply(cur)
		if b.indexed {
			// an indexed batch reads "from the batch and the disk": the disk as it is now
			o = append(o, prefixed("view-after-extern", modelObserve(applyAll(cur, b.ops), oRead))...)
		}
	}
	o = append(o, prefixed("before-commit", modelObserve(cur, oIter))...)
	o = append(o, "end=ok")
	post := applyAll(cur, b.ops) // the batch is an ordered log applied atomically at commit time
	o = append(o, prefixed("after", modelObserve(post, oGet|oIter))...)
	return o, post
}

func execBatch(d db.KeyValueStore, b bcase) (o obs) {
	defer func() {
		if x := recover(); x != nil {
			o = append(o, "panic="+fmt.Sprint(x))
		}
	}()
	var bt db.Batch
	var reader db.KeyValueReader
	if b.indexed {
		ib := d.NewIndexedBatch()
		bt, reader = ib, ib
	} else {
		bt = d.NewBatch()
	}
	for i, op := range b.ops {
		o = append(o, fmt.Sprintf("op%d=%s", i, cls(op.on(bt))))
		if reader != nil {
			o = append(o, prefixed(fmt.Sprintf("view%d", i), observe(reader, bViewWhat(i, len(b.ops))))...)
		}
	}
	if _, ok := batchSize(b.ops); ok {
		o = append(o, fmt.Sprintf("size=%d", bt.Size()))
	}
	if b.extern != nil {
		o = append(o, "extern="+cls(b.extern.on(d)))
		if reader != nil {
			o = append(o, prefixed("view-after-extern", observe(reader, oRead))...)
		}
	}
	o = append(o, prefixed("before-commit", observe(d, oIter))...)
	o = append(o, "end="+cls(bt.Write()))
	o = append(o, prefixed("after", observe(d, oGet|oIter))...)
	return o
}

// sectionB: from every base state, every batch case whose class (all pairs over the full op alphabet /
// all triples over the reduced alphabet / one op + interleaved direct write) is allowed from that state.
func (c *checker) sectionB(states []state, allow func(class string, s state) bool, tripleKeys, tripleVals []string) {
	r := c.r
	full := singleOps(K, V)
	small := singleOps(tripleKeys, tripleVals)
	var cases []bcase
	for _, indexed := range []bool{false, true} {
		for _, a := range full {
			for _, b := range full {
				cases = append(cases, bcase{indexed: indexed, ops: []wop{a, b}, class: "pair"})
			}
		}
		for _, a := range small {
			for _, b := range small {
				for _, d := range small {
					cases = append(cases, bcase{indexed: indexed, ops: []wop{a, b, d}, class: "triple"})
				}
			}
		}
		// one recorded op, then another writer commits directly, then the batch commits
		for _, a := range full {
			for _, k := range K {
				for _, x := range []wop{{'P', k, "y"}, {'D', k, ""}} {
					x := x
					cases = append(cases, bcase{indexed: indexed, ops: []wop{a}, extern: &x, class: "extern"})
				}
			}
		}
	}
	var execs, opens, cut, ncases int64
	perClass := map[string]*int64{"pair": new(int64), "triple": new(int64), "extern": new(int64)}
	ev.Par(len(states), c.procs, func(i int) {
		if c.outOfTime() {
			atomic.AddInt64(&cut, 1)
			return
		}
		s := states[i]
		wants := make([]obs, len(cases))
		posts := make([]state, len(cases))
		for ci, bc := range cases {
			if !allow(bc.class, s) {
				continue
			}
			atomic.AddInt64(perClass[bc.class], 1)
			wants[ci], posts[ci] = modelBatch(s, bc)
			atomic.AddInt64(&ncases, 1)
			c.outcome("B "+bc.label(), 1)
		}
		for _, be := range backends {
			p := &rep{be: be}
			for ci, bc := range cases {
				if wants[ci] == nil {
					continue
				}
				p.ensure(s)
				got := execBatch(p.d, bc)
				p.writes += len(bc.ops) + 1
				atomic.AddInt64(&execs, 1)
				bctx := func() map[string]any {
					return map[string]any{"state": s.canon(), "batch_ops_in_order": opsString(bc.ops), "indexed": bc.indexed}
				}
				if di := c.diffLines(be, wants[ci], got, int64(i)<<24+int64(ci), bctx); di >= 0 {
					p.bad = true
					wl, gl := line(wants[ci], di), line(got, di)
					stage, wrest := stageOf(wl)
					gstage, grest := stageOf(gl)
					if gstage != stage {
						grest = gl
					}
					key := fmt.Sprintf("batch-divergence %s %s stage=%s call=%s expected=%s got=%s",
						be.name, bc.label(), stage, callOf(wrest), classOf(wrest), gotClass(wrest, grest))
					c.viol.add(key, int64(i)<<24+int64(ci), func() any {
						d := map[string]any{"state": s.canon(), "batch_ops_in_order": opsString(bc.ops), "indexed": bc.indexed,
							"backend": be.name, "model": wl, "backend_returned": gl}
						if bc.extern != nil {
							d["direct_write_between_ops_and_commit"] = bc.extern.String()
						}
						return d
					})
				} else {
					p.cur = posts[ci].clone()
				}
			}
			atomic.AddInt64(&opens, p.opens)
			p.drop()
		}
	})
	if cut > 0 {
		r.Incomplete(fmt.Sprintf("section B: %d of %d base states skipped (time budget)", cut, len(states)))
	}
	r.Add("transitions", ncases)
	r.Set("B_batch_cases", ncases)
	r.Set("B_cases_all_pairs_full_alphabet", *perClass["pair"])
	r.Set("B_cases_all_triples_reduced_alphabet", *perClass["triple"])
	r.Set("B_cases_one_op_plus_interleaved_direct_write", *perClass["extern"])
	r.Set("B_ops_full_alphabet", int64(len(full)))
	r.Set("B_ops_reduced_alphabet", int64(len(small)))
	r.Add("traces_validated_against_impl", execs)
	r.Set("B_base_states", int64(len(states)))
	r.Set("B_batch_cases_per_state", int64(len(cases)))
	r.Set("B_backend_executions", execs)
	r.Set("B_backend_opens", opens)
}

// ---------------------------------------------------------------------------------------------
// section C: iterator programs

// runProgram executes the moves on a real iterator; between executes an action before move `at`.
func runProgram(newIt func() (db.Iterator, error), prog []int, at int, between func()) (o obs) {
	o = make(obs, 0, len(prog))
	var it db.Iterator
	defer func() {
		if x := recover(); x != nil {
			o = append(o, "panic="+fmt.Sprint(x))
		}
		if it != nil {
			ev.Guard(func() { it.Close() })
		}
	}()
	var err error
	it, err = newIt()
	if err != nil {
		it = nil
		return append(o, "NewIterator="+cls(err))
	}
	for i, m := range prog {
		if between != nil && i == at {
			between()
		}
		var ret bool
		switch {
		case m == mvFirst:
			ret = it.First()
		case m == mvNext:
			ret = it.Next()
		case m == mvPrev:
			ret = it.Prev()
		default:
			ret = it.Seek([]byte(K[m-mvSeek]))
		}
		v := it.Valid()
		l := fmt.Sprintf("%s=%v/%v", moveName(m), ret, v)
		if v {
			k := it.Key()
			val, err := it.Value()
			uv, uerr := it.UncopiedValue()
			switch {
			case err != nil:
				l += "/" + hx(string(k)) + "=value-" + cls(err)
			case uerr != nil || string(uv) != string(val):
				l += "/" + hx(string(k)) + "=uncopied-value-differs"
			default:
				l += "/" + hx(string(k)) + "=" + hx(string(val))
			}
		}
		o = append(o, l)
	}
	return o
}

// splitForBatch builds a store `base` and pending batch writes whose combination is exactly s.
func splitForBatch(s state) (state, []wop) {
	base := state{}
	var pending []wop
	for i, k := range K {
		if v, ok := s[k]; ok {
			switch i % 3 {
			case 0:
				pending = append(pending, wop{'P', k, v})
			case 1:
				base[k] = "old"
				pending = append(pending, wop{'P', k, v})
			default:
				base[k] = v
			}
		} else {
			base[k] = "q"
			if i%2 == 0 {
				pending = append(pending, wop{'D', k, ""})
			} else {
				pending = append(pending, wop{'R', k, k + "\x00"}) // [k, k\x00) holds exactly k
			}
		}
	}
	if applyAll(base, pending).canon() != s.canon() {
		panic("c15 infra: splitForBatch")
	}
	return base, pending
}

func scrambleOps(s state) (scramble, restore []wop) {
	for _, k := range K {
		if v, ok := s[k]; ok {
			scramble = append(scramble, wop{'D', k, ""})
			restore = append(restore, wop{'P', k, v})
		} else {
			scramble = append(scramble, wop{'P', k, "z"})
			restore = append(restore, wop{'D', k, ""})
		}
	}
	return
}

func commit(d db.KeyValueStore, ops []wop) {
	b := d.NewBatch()
	for _, o := range ops {
		must(o.on(b))
	}
	must(b.Write())
}

func situation(keys []string, vals state, prog []int, i int) string {
	it := newMIter(keys, vals)
	for _, m := range prog[:i] {
		it.step(m)
	}
	where := "valid"
	switch {
	case !it.defined:
		where = "after-an-undefined-move"
	case len(it.keys) == 0:
		where = "empty-range"
	case it.pos < 0:
		where = "before-first"
	case it.pos >= len(it.keys):
		where = "after-last"
	}
	return moveKind(prog[i]) + "@" + where
}

func (c *checker) sectionC(sets []state, maxLen, maxLenViews, maxLenWrite int) {
	r := c.r
	progs := allPrograms(maxLen)
	var wprogs [][]int
	for _, p := range progs {
		if len(p) <= maxLenWrite {
			wprogs = append(wprogs, p)
		}
	}
	type cfg struct {
		prefix string
		ub     bool
	}
	var cfgs []cfg
	for _, p := range K {
		cfgs = append(cfgs, cfg{p, false}, cfg{p, true})
	}
	var execs, programs, coreSteps, extSteps, cut int64
	ev.Par(len(sets), c.procs, func(si int) {
		if c.outOfTime() {
			atomic.AddInt64(&cut, 1)
			return
		}
		s := sets[si]
		_, s1 := s["a"]
		_, s2 := s["ab"]
		_, s3 := s["b"]
		isSampleSet := len(s) == 3 && s1 && s2 && s3
		base, pending := splitForBatch(s)
		scramble, restore := scrambleOps(s)
		type source struct {
			name   string
			reader db.KeyValueReader
		}
		type bsetup struct {
			be      *backend
			sources []source
			wdb     *rep
			closers []func()
		}
		var setups []*bsetup
		for _, be := range backends {
			bs := &bsetup{be: be}
			// db
			d1 := be.open()
			commit(d1, applyPuts(s))
			bs.sources = append(bs.sources, source{"db", d1})
			// snapshot of s, then the store is rewritten
			d2 := be.open()
			commit(d2, applyPuts(s))
			snap := d2.NewSnapshot()
			commit(d2, scramble)
			bs.sources = append(bs.sources, source{"snapshot", snap})
			// indexed batch whose pending writes over `base` give s
			d3 := be.open()
			commit(d3, applyPuts(base))
			ib := d3.NewIndexedBatch()
			for _, o := range pending {
				must(o.on(ib))
			}
			bs.sources = append(bs.sources, source{"ibatch", ib})
			bs.closers = []func(){func() { d1.Close() }, func() { snap.Close(); d2.Close() }, func() { ib.Close(); d3.Close() }}
			bs.wdb = &rep{be: be}
			setups = append(setups, bs)
			// point reads on the three views
			want := modelObserve(s, oAll)
			for _, src := range bs.sources {
				got := observe(src.reader, oAll)
				atomic.AddInt64(&execs, 1)
				cctx := func() map[string]any {
					return map[string]any{"view_contents": s.canon(), "source": src.name}
				}
				if di := c.diffLines(be, prefixed(src.name, want), prefixed(src.name, got), int64(si)<<32, cctx); di >= 0 {
					wl, gl := line(want, di), line(got, di)
					key := fmt.Sprintf("read-divergence %s src=%s call=%s expected=%s got=%s", be.name, src.name, callOf(wl), classOf(wl), gotClass(wl, gl))
					c.viol.add(key, int64(si)<<32, func() any {
						return map[string]any{"view_contents": s.canon(), "source": src.name, "backend": be.name, "model": wl, "backend_returned": gl,
							"how": "db: direct; snapshot: NewSnapshot() then the store is rewritten by a batch; ibatch: pending " + opsString(pending) + " over store " + base.canon()}
					})
				}
			}
		}
		rank := int64(si) << 32
		compare := func(be *backend, src string, cf cfg, keys []string, prog []int, want obs, core []bool, got obs) {
			atomic.AddInt64(&execs, 1)
			rank++
			rk := rank
			reportedExt := false
			for i := range prog {
				if line(got, i) == want[i] && len(got) >= len(want) {
					continue
				}
				if !core[i] {
					if !reportedExt {
						reportedExt = true
						c.ext.add(fmt.Sprintf("%s %s", be.name, situation(keys, s, prog, i)), rk, func() any {
							return map[string]any{"keys_in_range": hexList(keys), "program": progString(prog), "step": i,
								"pebble_semantics": want[i], "backend_returned": line(got, i), "source": src}
						})
					}
					continue
				}
				// a step inside the contract differs
				cause := ""
				mk := memoryViewKeys(s, cf.prefix, cf.ub)
				if strings.Join(mk, "\x01") != strings.Join(keys, "\x01") || len(mk) != len(keys) {
					alt, altCore := modelProgram(mk, s, prog)
					explained := true
					for j := range prog { // the whole program must agree with the alternative reading
						if altCore[j] && line(got, j) != alt[j] {
							explained = false
						}
					}
					if explained {
						if cf.ub {
							cause = "upper-bound-nil-read-as-empty-string(range-is-empty)"
						} else {
							cause = "prefix-used-as-filter-although-no-upper-bound-was-requested"
						}
					}
				}
				var key string
				if cause != "" {
					key = fmt.Sprintf("iter-divergence %s-vs-model explained-by=%s src=%s", be.name, cause, src)
				} else {
					key = fmt.Sprintf("iter-divergence %s-vs-model unexplained src=%s prefix=%s upper=%v",
						be.name, src, hx(cf.prefix), cf.ub)
				}
				c.viol.add(key, rk, func() any {
					return map[string]any{"view_contents": s.canon(), "prefix": hx(cf.prefix), "withUpperBound": cf.ub,
						"program": progString(prog), "first_differing_step": i, "model": []string(want), "backend_returned": []string(got),
						"backend": be.name, "source": src, "model_keys_in_range": hexList(keys), "situation_of_first_differing_step": situation(keys, s, prog, i)}
				})
				return
			}
		}
		for _, cf := range cfgs {
			keys := viewKeys(s, cf.prefix, cf.ub)
			pb := prefixBytes(cf.prefix)
			for _, prog := range progs {
				want, core := modelProgram(keys, s, prog)
				atomic.AddInt64(&programs, 1)
				for _, cr := range core {
					if cr {
						atomic.AddInt64(&coreSteps, 1)
					} else {
						atomic.AddInt64(&extSteps, 1)
					}
				}
				for _, bs := range setups {
					for _, src := range bs.sources {
						if src.name != "db" && len(prog) > maxLenViews {
							continue
						}
						rd := src.reader
						got := runProgram(func() (db.Iterator, error) { return rd.NewIterator(pb, cf.ub) }, prog, -1, nil)
						compare(bs.be, src.name, cf, keys, prog, want, core, got)
						if isSampleSet && src.name == "db" && cf.prefix == "a" && cf.ub && len(prog) == 3 &&
							prog[0] == mvSeek+len(K)-1 && prog[1] == mvPrev && prog[2] == mvPrev {
							r.Sample(map[string]any{"section": "C", "backend": bs.be.name, "view_contents": s.canon(), "prefix": hx(cf.prefix),
								"withUpperBound": cf.ub, "program": progString(prog), "model": []string(want), "backend_returned": []string(got)})
						}
					}
				}
			}
			// iterator created, j moves, another writer rewrites the store, remaining moves
			for _, bs := range setups {
				p := bs.wdb
				p.bad = true // fresh store per configuration
				for _, prog := range wprogs {
					want, core := modelProgram(keys, s, prog)
					for j := 0; j < len(prog); j++ {
						p.ensure(s)
						d := p.d
						got := runProgram(func() (db.Iterator, error) { return d.NewIterator(pb, cf.ub) }, prog, j, func() { commit(d, scramble) })
						commit(d, restore)
						p.writes += 2 * len(K)
						compare(bs.be, "db+rewrite-between-moves", cf, keys, prog, want, core, got)
					}
				}
			}
		}
		for _, bs := range setups {
			for _, cl := range bs.closers {
				ev.Guard(cl)
			}
			bs.wdb.drop()
		}
		last, _ := modelProgram(viewKeys(s, "", false), s, []int{mvFirst})
		c.outcome("C keyset-size-"+fmt.Sprint(len(s))+" "+classOf(last[0]), 1)
	})
	if cut > 0 {
		r.Incomplete(fmt.Sprintf("section C: %d of %d key sets skipped (time budget)", cut, len(sets)))
	}
	r.Add("traces_validated_against_impl", execs)
	r.Set("C_key_sets", int64(len(sets)))
	r.Set("C_iterator_configs", int64(len(cfgs)))
	r.Set("C_programs_per_config", int64(len(progs)))
	r.Set("C_max_moves_db_source", int64(maxLen))
	r.Set("C_max_moves_snapshot_and_ibatch_sources", int64(maxLenViews))
	r.Set("C_max_moves_with_injected_write", int64(maxLenWrite))
	r.Set("C_programs_with_injected_write_per_config", int64(countWriteRuns(wprogs)))
	r.Set("C_model_programs", programs)
	r.Set("C_backend_program_runs", execs)
	r.Set("C_steps_inside_contract", coreSteps)
	r.Set("C_steps_outside_contract", extSteps)
}

func countWriteRuns(p [][]int) int {
	n := 0
	for _, x := range p {
		n += len(x)
	}
	return n
}

func applyPuts(s state) []wop {
	var ops []wop
	for _, k := range s.keys() {
		ops = append(ops, wop{'P', k, s[k]})
	}
	return ops
}

func hexList(ks []string) []string {
	out := make([]string, len(ks))
	for i, k := range ks {
		out[i] = hx(k)
	}
	return out
}

// ---------------------------------------------------------------------------------------------
// section D: use after Close — documented as invalid; only "error or panic, no silent success"

func (c *checker) sectionD() {
	type probe struct {
		name string
		f    func() error
	}
	silent := func(be *backend, object string, probes []probe) {
		for _, p := range probes {
			var err error
			panicked, _ := ev.Guard(func() { err = p.f() })
			c.r.Add("D_use_after_close_probes", 1)
			if p.name == "Put" || p.name == "Next" {
				c.r.Sample(map[string]any{"section": "D", "backend": be.name, "call": object + "." + p.name, "panicked": panicked, "error": fmt.Sprint(err)})
			}
			switch {
			case panicked:
				c.outcome("D panic", 1)
			case err != nil:
				c.outcome("D error", 1)
			default:
				c.outcome("D silent-success", 1)
				c.viol.add(fmt.Sprintf("use-after-close-silent-success %s %s.%s", be.name, object, p.name), 0, func() any {
					return map[string]any{"backend": be.name, "object": object, "call": p.name}
				})
			}
		}
	}
	k, v := []byte("a"), []byte("x")
	nop := func([]byte) error { return nil }
	for _, be := range backends {
		for _, how := range []string{"Write", "Close"} {
			d := be.open()
			must(d.Put(k, v))
			b := d.NewIndexedBatch()
			must(b.Put(k, v))
			if how == "Write" {
				must(b.Write())
			} else {
				must(b.Close())
			}
			silent(be, "batch-after-"+how, []probe{
				{"Put", func() error { return b.Put(k, v) }},
				{"Delete", func() error { return b.Delete(k) }},
				{"DeleteRange", func() error { return b.DeleteRange(k, v) }},
				{"Get", func() error { return b.Get(k, nop) }},
				{"Has", func() error { _, err := b.Has(k); return err }},
				{"NewIterator", func() error { _, err := b.NewIterator(nil, false); return err }},
				{"Write", func() error { return b.Write() }},
				{"Close", func() error { return b.Close() }},
			})
			d.Close()
		}
		d := be.open()
		must(d.Put(k, v))
		it, err := d.NewIterator(nil, false)
		must(err)
		it.First()
		must(it.Close())
		asErr := func(f func() bool) func() error {
			return func() error { f(); return nil }
		}
		silent(be, "iterator-after-Close", []probe{
			{"Valid", asErr(it.Valid)}, {"First", asErr(it.First)}, {"Next", asErr(it.Next)}, {"Prev", asErr(it.Prev)},
			{"Seek", asErr(func() bool { return it.Seek(k) })},
			{"Value", func() error { _, err := it.Value(); return err }},
			{"UncopiedValue", func() error { _, err := it.UncopiedValue(); return err }},
			{"Close", func() error { return it.Close() }},
		})
		snap := d.NewSnapshot()
		must(snap.Close())
		silent(be, "snapshot-after-Close", []probe{
			{"Get", func() error { return snap.Get(k, nop) }},
			{"Has", func() error { _, err := snap.Has(k); return err }},
			{"NewIterator", func() error { _, err := snap.NewIterator(nil, false); return err }},
		})
		must(d.Close())
		silent(be, "db-after-Close", []probe{
			{"Get", func() error { return d.Get(k, nop) }},
			{"Has", func() error { _, err := d.Has(k); return err }},
			{"Put", func() error { return d.Put(k, v) }},
			{"Delete", func() error { return d.Delete(k) }},
			{"DeleteRange", func() error { return d.DeleteRange(k, v) }},
			{"NewIterator", func() error { _, err := d.NewIterator(nil, false); return err }},
			{"Update", func() error { return d.Update(func(db.IndexedBatch) error { return nil }) }},
			{"Write", func() error { return d.Write(func(db.Batch) error { return nil }) }},
			{"NewBatch.Put.Write", func() error { b := d.NewBatch(); _ = b.Put(k, v); return b.Write() }},
			{"NewSnapshot.Get", func() error { return d.NewSnapshot().Get(k, nop) }},
		})
	}
}

// ---------------------------------------------------------------------------------------------

func TestCheck(t *testing.T) {
	// the live heap is tiny and the garbage rate huge (pebble's Get allocates); a rare GC halves the CPU cost
	debug.SetGCPercent(1600)
	r := ev.Start("C15", "model_checking")
	c := &checker{r: r, viol: newCollector(), ext: newCollector(), procs: runtime.NumCPU()}
	budget := ev.Pick(r, 170, 1740)
	if b, err := strconv.Atoi(os.Getenv("VERIF_BUDGET_S")); err == nil {
		budget = b
	}
	r.SetBudget(budget)
	start := time.Now()
	// Section F (view lifetimes, views_test.go) runs first and may use up to reservedF of the budget: it is small (a few
	// seconds on an idle machine) and must never be the part a loaded machine cuts. Sections A-E then divide what is
	// left at that moment by cumulative shares proportional to their measured CPU cost:
	// quick A 30% B 62% C 80% E 100%; thorough A 11% B 41% C(≤3 moves) 50% C(≤4 moves) 70% E 100%
	reservedF := ev.Pick(r, 0.35, 0.20)
	until := func(f float64) { c.secDeadline = start.Add(time.Duration(f * float64(budget) * float64(time.Second))) }
	usedByF := 0.0
	share := func(f float64) { until(usedByF + (1-usedByF)*f) }

	if pf := os.Getenv("C15_PROF"); pf != "" { // development only
		f, _ := os.Create(pf)
		pprof.StartCPUProfile(f)
		defer pprof.StopCPUProfile()
	}
	// development knob only (bin/check never sets it): restrict to some sections
	only := os.Getenv("C15_SECTIONS")
	want := func(x string) bool { return only == "" || strings.Contains(only, x) }
	if only != "" {
		r.Incomplete("C15_SECTIONS=" + only)
	}

	if want("F") {
		until(reservedF)
		c.sectionF(viewsConfig(r.Quick()))
		usedByF = min(reservedF, time.Since(start).Seconds()/float64(budget))
	}
	if want("A") {
		// quick: all maps with ≤ 2 keys + one map per 3-key set; thorough: all maps with ≤ 3 keys + one
		// map per key set of 4..8 keys
		share(ev.Pick(r, 0.30, 0.11))
		c.sectionA(ev.Pick(r, 2, 3), ev.Pick(r, 3, len(K)))
	}

	// B: base states; quick: key sets of ≤ 2 keys, thorough: every map of ≤ 2 keys
	var bStates []state
	if r.Quick() {
		bStates = keySets(2)
	} else {
		bStates = allMaps(2)
	}
	tk, tv := []string{"a", "a\xff", "b"}, []string{"x"}
	if r.Thorough() {
		tk, tv = []string{"a", "ab", "a\xff", "b"}, []string{"x", "y"}
	}
	if want("B") {
		// quick: pairs and triples from the 9 key sets with ≤ 1 key, interleavings from all 37 key sets;
		// thorough: pairs and interleavings from all 277 maps, triples (28-op alphabet) from the 37 key sets
		allow := func(class string, s state) bool {
			if r.Quick() {
				return class == "extern" || len(s) <= 1
			}
			return class != "triple" || isRepresentative(s)
		}
		share(ev.Pick(r, 0.62, 0.41))
		c.sectionB(bStates, allow, tk, tv)
	}

	// C: quick: key sets of ≤ 3 keys, programs ≤ 3 moves (≤ 2 with an injected write);
	//    thorough: all 256 key sets with ≤ 3 moves, then key sets of ≤ 3 keys with ≤ 4 moves
	if !want("C") {
	} else if r.Quick() {
		share(0.80)
		c.sectionC(keySets(3), 3, 2, 2)
	} else {
		share(0.50)
		c.sectionC(keySets(len(K)), 3, 3, 3)
		share(0.70)
		c.sectionC4(keySets(3))
	}
	if want("E") {
		share(1)
		c.sectionE(durableFamilies(r.Quick()))
	}
	if want("D") {
		c.sectionD()
	}

	// report
	outcomeCounts := map[string]int64{}
	c.out.Range(func(k, v any) bool {
		r.Outcome(k.(string))
		outcomeCounts[k.(string)] = atomic.LoadInt64(v.(*int64))
		return true
	})
	r.Set("outcome_counts", outcomeCounts)
	extKeys := map[string]any{}
	for k, f := range c.ext.m {
		extKeys[k] = map[string]any{"runs": f.count, "example": f.detail}
	}
	r.Set("outside_contract_divergences", extKeys)
	r.Set("outside_contract_divergence_classes", int64(len(extKeys)))
	vkeys := make([]string, 0, len(c.viol.m))
	for k := range c.viol.m {
		vkeys = append(vkeys, k)
	}
	sort.Strings(vkeys)
	counts := map[string]int64{}
	for _, k := range vkeys {
		f := c.viol.m[k]
		counts[k] = f.count
		r.Violate(k, f.detail)
	}
	r.Set("divergent_runs_per_key", counts)
	tG := time.Now()
	if want("G") {
		directAtomicity(r)
	}
	r.Set("G_seconds", time.Since(tG).Seconds())
	tG = time.Now()
	procs := runtime.GOMAXPROCS(1) // cooperative scheduler: see directAtomicity
	batchAtomicity(r)
	runtime.GOMAXPROCS(procs)
	r.Set("atomicity_seconds", time.Since(tG).Seconds())
	r.Assume = append(r.Assume,
		"pebble runs on vfs.NewMem(); the on-disk format/FS layer is trusted",
		"sections A-C: a backend state is a function of the abstract map: every representative is built by direct Puts (and re-used across ≤400 writes), not by replaying the BFS path; "+
			"section E drops that assumption for histories of ≤3 (thorough: ≤4) write ops from the empty store with flush / flush+compact / reopen in the alphabet "+
			"(its stores share one block cache per engine version and use a 64 KiB memtable arena; automatic background compactions are left on, so the LSM shape between maintenance operations is pebble's choice)",
		"differential search: schedules are interleavings of whole interface calls; below that granularity every write operation of the in-memory backend is scheduled (atomic_test.go: commit of a batch; directops_test.go, section G: direct Put / Delete / DeleteRange / Update / Write on the store; "+
			"every interleaving of the lock acquisitions of the operation with a consistent reader, an atomic batch or another direct call, db/memory's RWMutex replaced by verif/mc/schedsync through a build overlay); two threads over keys {a,b}; unsynchronised accesses (data races proper) are out of scope",
		"relative moves (Next/Prev) on an exhausted iterator other than Prev-after-failed-Seek and the first move of a fresh iterator are outside the documented contract: recorded under outside_contract_divergences, never a violation",
		"Batch.Size() is compared only for batches without DeleteRange",
		"section F: view lifetimes are well nested (a snapshot / indexed batch is not closed or committed while an iterator created from it is open); "+
			"one write mode per history; an indexed-batch view holds one pending Put or Delete (a pending DeleteRange plus a later direct write is the known finding of section B)")
	pprof.StopCPUProfile()
	r.Finish()
}

// thorough only: programs of ≤ 4 moves on key sets of ≤ 3 keys, db source only would lose the other
// views, so all sources are kept but without the injected-write variant.
func (c *checker) sectionC4(sets []state) {
	saveSet := func(k string) int64 { return c.r.Get(k) }
	prev := map[string]int64{}
	for _, k := range []string{"C_key_sets", "C_programs_per_config", "C_model_programs", "C_backend_program_runs", "C_steps_inside_contract", "C_steps_outside_contract", "C_programs_with_injected_write_per_config", "C_iterator_configs",
		"C_max_moves_db_source", "C_max_moves_snapshot_and_ibatch_sources", "C_max_moves_with_injected_write"} {
		prev[k] = saveSet(k)
	}
	c.sectionC(sets, 4, 4, 0)
	for k, v := range prev {
		c.r.Set("C4_"+strings.TrimPrefix(k, "C_"), c.r.Get(k))
		c.r.Set(k, v)
	}
}

// isRepresentative: the one map per key set produced by keySets (value fixed by the key's index in K).
func isRepresentative(st state) bool {
	for i, k := range K {
		if v, ok := st[k]; ok && v != V[i%len(V)] {
			return false
		}
	}
	return true
}

// allMaps: every map over K x V with at most maxKeys keys.
func allMaps(maxKeys int) []state {
	out := []state{{}}
	var rec func(start int, cur state)
	rec = func(start int, cur state) {
		if len(cur) == maxKeys {
			return
		}
		for i := start; i < len(K); i++ {
			for _, v := range V {
				n := cur.clone()
				n[K[i]] = v
				out = append(out, n)
				rec(i+1, n)
			}
		}
	}
	rec(0, state{})
	return out
}
