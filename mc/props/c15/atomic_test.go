package c15

// Batch atomicity under concurrency ("concurrent readers with a writer"): exhaustive schedule enumeration on the real
// in-memory backend. db/memory's one RWMutex is replaced (build overlay, see prebuild.sh) by verif/mc/schedsync, whose
// lock acquisitions are scheduling points of a cooperative, replayable scheduler. Enumerated: every initial store over
// {a,b}, every batch of 2..3 operations over {Put a, Put b, Delete a, Delete b, DeleteRange [a,c)} committed by a writer
// thread (plain batch Write, indexed batch Write, the Update helper), against
//   - a reader thread that takes ONE consistent view (snapshot, iterator) and lists it: the listing must be the store
//     before the batch or the store after it, never anything in between;
//   - a second writer thread committing another batch: the final store must be one of the two serial orders.
// Every interleaving of the threads' lock acquisitions is executed (depth-first over the scheduler's choice points,
// each schedule re-run from scratch). Pebble commits batches atomically by construction and is not scheduled here.

import (
	"fmt"
	"sort"
	"strings"

	"verif/mc/ev"
	"verif/mc/schedsync"

	"github.com/NethermindEth/juno/db"
	"github.com/NethermindEth/juno/db/memory"
)

type aop struct {
	kind byte // 'P' put, 'D' delete, 'R' delete range [a,c)
	key  string
	val  string
}

func (o aop) String() string {
	switch o.kind {
	case 'P':
		return "put(" + o.key + "=" + o.val + ")"
	case 'D':
		return "del(" + o.key + ")"
	}
	return "delrange[a,c)"
}

func applyModel(m map[string]string, ops []aop) map[string]string {
	out := map[string]string{}
	for k, v := range m {
		out[k] = v
	}
	for _, o := range ops {
		switch o.kind {
		case 'P':
			out[o.key] = o.val
		case 'D':
			delete(out, o.key)
		case 'R':
			for k := range out {
				if k >= "a" && k < "c" {
					delete(out, k)
				}
			}
		}
	}
	return out
}

func showMap(m map[string]string) string {
	var ks []string
	for k := range m {
		ks = append(ks, k)
	}
	sort.Strings(ks)
	var parts []string
	for _, k := range ks {
		parts = append(parts, k+"="+m[k])
	}
	return "{" + strings.Join(parts, ",") + "}"
}

func stage(b db.Batch, ops []aop) error {
	for _, o := range ops {
		var err error
		switch o.kind {
		case 'P':
			err = b.Put([]byte(o.key), []byte(o.val))
		case 'D':
			err = b.Delete([]byte(o.key))
		case 'R':
			err = b.DeleteRange([]byte("a"), []byte("c"))
		}
		if err != nil {
			return err
		}
	}
	return nil
}

func listView(it db.Iterator) map[string]string {
	out := map[string]string{}
	for ok := it.First(); ok; ok = it.Next() {
		v, _ := it.Value()
		out[string(it.Key())] = string(v)
	}
	it.Close()
	return out
}

func batchAtomicity(r *ev.Run) {
	alphabet := func(tag string) []aop {
		return []aop{{'P', "a", tag + "1"}, {'P', "b", tag + "2"}, {'D', "a", ""}, {'D', "b", ""}, {'R', "", ""}}
	}
	var seqs func(al []aop, n int) [][]aop
	seqs = func(al []aop, n int) [][]aop {
		if n == 0 {
			return [][]aop{nil}
		}
		var out [][]aop
		for _, s := range seqs(al, n-1) {
			for _, o := range al {
				out = append(out, append(append([]aop{}, s...), o))
			}
		}
		return out
	}
	inits := []map[string]string{{}, {"a": "0"}, {"b": "0"}, {"a": "0", "b": "0"}}
	newStore := func(init map[string]string) *memory.Database {
		d := memory.New()
		for k, v := range init {
			d.Put([]byte(k), []byte(v))
		}
		return d
	}
	writerModes := []string{"batch", "indexed-batch", "update-helper"}
	commit := func(d *memory.Database, mode string, ops []aop) error {
		switch mode {
		case "batch":
			b := d.NewBatch()
			if err := stage(b, ops); err != nil {
				return err
			}
			return b.Write()
		case "indexed-batch":
			b := d.NewIndexedBatch()
			if err := stage(b, ops); err != nil {
				return err
			}
			return b.Write()
		}
		return d.Update(func(b db.IndexedBatch) error { return stage(b, ops) })
	}
	var schedules, scenarios, points int64
	maxLen := ev.Pick(r, 2, 3)
	var batches [][]aop
	for n := 2; n <= maxLen; n++ {
		batches = append(batches, seqs(alphabet("w"), n)...)
	}
	// ---- writer vs one consistent reader ----
	for _, init := range inits {
		for _, ops := range batches {
			pre, post := showMap(init), showMap(applyModel(init, ops))
			if pre == post {
				continue
			}
			for _, wm := range writerModes {
				for _, reader := range []string{"snapshot", "iterator"} {
					scenarios++
					var view map[string]string
					var werr error
					st, err := schedsync.Explore(func(s *schedsync.Sched) func([]string) {
						d := newStore(init)
						view = nil
						s.Go("writer", func() { werr = commit(d, wm, ops) })
						s.Go("reader", func() {
							if reader == "snapshot" {
								sn := d.NewSnapshot()
								it, err := sn.NewIterator(nil, false)
								if err == nil {
									view = listView(it)
								}
							} else {
								it, err := d.NewIterator(nil, false)
								if err == nil {
									view = listView(it)
								}
							}
						})
						return func(trace []string) {
							r.Add("evaluations", 1)
							got := showMap(view)
							if werr != nil {
								r.Violate("atomicity: commit fails under concurrency memory mode="+wm, map[string]any{"err": werr.Error(), "batch": fmt.Sprint(ops)})
								return
							}
							if got != pre && got != post {
								r.Violate(fmt.Sprintf("atomicity: reader sees a half-applied batch memory mode=%s reader=%s", wm, reader), map[string]any{
									"initial": pre, "batch": fmt.Sprint(ops), "after_batch": post, "reader_saw": got, "schedule": strings.Join(trace, " ")})
							} else if got == pre {
								r.Outcome("atomicity: reader saw the store before the batch")
							} else {
								r.Outcome("atomicity: reader saw the store after the batch")
							}
						}
					})
					if err != nil {
						r.Infra("schedule exploration: %v", err)
					}
					schedules += int64(st.Schedules)
					points += int64(st.Points)
				}
			}
		}
	}
	// ---- two writers ---- (point operations only: a DeleteRange staged while another writer commits runs into the known
	// finding "the in-memory batch expands a range delete when it is staged", which is not a question of commit atomicity)
	points4 := func(tag string) []aop { return alphabet(tag)[:4] }
	w2 := seqs(points4("x"), 2)
	for _, init := range inits {
		for _, o1 := range seqs(points4("w"), 2) {
			for _, o2 := range w2 {
				a := showMap(applyModel(applyModel(init, o1), o2))
				b := showMap(applyModel(applyModel(init, o2), o1))
				for _, wm := range ev.Pick(r, writerModes[:1], writerModes) {
					scenarios++
					var d *memory.Database
					st, err := schedsync.Explore(func(s *schedsync.Sched) func([]string) {
						d = newStore(init)
						s.Go("writer-1", func() { commit(d, wm, o1) })
						s.Go("writer-2", func() { commit(d, wm, o2) })
						return func(trace []string) {
							r.Add("evaluations", 1)
							it, err := d.NewIterator(nil, false)
							if err != nil {
								return
							}
							got := showMap(listView(it))
							if got != a && got != b {
								r.Violate("atomicity: two concurrent batches end in a store that is neither serial order memory mode="+wm, map[string]any{
									"initial": showMap(init), "batch_1": fmt.Sprint(o1), "batch_2": fmt.Sprint(o2), "1_then_2": a, "2_then_1": b, "got": got, "schedule": strings.Join(trace, " ")})
							} else {
								r.Outcome("atomicity: two writers end in a serial order")
							}
						}
					})
					if err != nil {
						r.Infra("schedule exploration: %v", err)
					}
					schedules += int64(st.Schedules)
					points += int64(st.Points)
				}
			}
		}
	}
	r.Set("atomicity_scenarios", scenarios)
	r.Set("atomicity_schedules_executed", schedules)
	r.Set("atomicity_scheduling_points", points)
}
