package c15

// Section E — histories with the DURABLE / LSM-level operations of the production backends in the alphabet.
//
// Sections A–C build every backend state "by direct Puts from the abstract map" and read it back while all
// versions of all keys still sit in pebble's memtable. What an LSM does with shadowed versions and tombstones
// when the memtable is written out (flush), when sstables are merged (compaction) and when the write-ahead log is
// replayed (close + open on the same directory) is invisible there: the backend state is NOT a function of the
// abstract map but of the history. Here the history alphabet is
//
//	write group  = 1..n write ops over a small key alphabet (Put with a value that is fresh per position, Delete,
//	               DeleteRange over every ordered pair of the alphabet ∪ {end}), committed through ONE write mode
//	               (direct calls / batch / indexed batch / *WithSize / Update / Write / SyncBatch / BufferBatch)
//	maintenance  = none | flush | flush+compact(whole key space) | reopen (Close, then open the same MemFS dir)
//
// and EVERY history "group maintenance group maintenance …" with exactly n write ops in total (all compositions of
// n into groups, every maintenance after every group; a family may bound the number of real maintenance operations
// before the last group, the one after the last group is always fully enumerated) is executed from an empty store
// on memory, pebble v2 and pebble v1 and compared with the map model: Get/Has/listing of the db after every group,
// and after every maintenance operation the observer programme: on the db Get, Get with failing callback, Has,
// forward listing, backward listing through Seek-past-end/Prev, Seek(k) for every k of K; on a fresh snapshot Has
// and both listings; on a fresh, empty indexed batch Get and the listing (its reads go through pebble's
// batch-over-db merging iterator). Histories with fewer ops are prefixes (observed at the intermediate points).
// For the memory backend and the model flush/compact are no-ops and reopen is Copy()+Close (the restart idiom of
// this repository's tests). "pinned" histories additionally hold a snapshot taken before every group across the
// group's write and its maintenance (compactions must keep what a live snapshot sees) and read it afterwards; they
// are separate histories because a live snapshot changes what a flush may drop.
//
// Sharing: the last maintenance of a history is executed as the chain  observe, flush, observe, compact, observe
// (one run = the three leaf histories ending in none / flush / compact; compact IS flush+compact) or as
// observe, reopen, observe; so #runs = #histories / 2.

import (
	"context"
	"fmt"
	"sort"
	"strings"
	"sync/atomic"

	"verif/mc/ev"

	"github.com/NethermindEth/juno/db"
	"github.com/NethermindEth/juno/db/memory"
	pebblev1 "github.com/NethermindEth/juno/db/pebble"
	"github.com/NethermindEth/juno/db/pebblev2"
	p1 "github.com/cockroachdb/pebble"
	p2 "github.com/cockroachdb/pebble/v2"
	vfs2 "github.com/cockroachdb/pebble/v2/vfs"
	vfs1 "github.com/cockroachdb/pebble/vfs"
)

const (
	mNone = iota
	mFlush
	mCompact // flush + manual compaction of the whole key space
	mReopen  // Close + open again on the same filesystem
)

var maintNames = []string{"none", "flush", "compact", "reopen"}

// dvals: the value written by the i-th op of a history (all distinct, so that every version of a key is
// recognisable; the empty value is a legal value and must not read as "absent" after a flush either).
var dvals = []string{"x", "y", "", "xy", "yx"}

// ---------------------------------------------------------------------------------------------
// a backend instance that can be re-opened on the same (private, in-memory) filesystem

type dstore struct {
	be     *backend
	d      db.KeyValueStore
	reopen func() db.KeyValueStore // nil: memory
}

// Section E opens a few hundred thousand stores that hold a handful of keys each: one block cache per engine
// version shared by all of them (instead of a fresh 8 MiB cache per Open) and a 64 KiB memtable arena (instead of
// 256 KiB zeroed per Open and per flush). Neither changes what a store returns; everything else is what
// pebblev2.New / pebble.New configure.
var (
	sharedCache2 = p2.NewCache(16 << 20)
	sharedCache1 = p1.NewCache(16 << 20)
)

const smallMemTable = 64 << 10

func openDurable(be *backend) *dstore {
	s := &dstore{be: be}
	switch be.name {
	case "memory":
		s.d = memory.New()
	case "pebblev2":
		fs := vfs2.NewMem()
		s.reopen = func() db.KeyValueStore {
			d, err := pebblev2.New("/nonexistent-verif-c15/v2", func(o *p2.Options) error {
				o.FS = fs
				o.Logger = quiet{}
				o.Cache = sharedCache2
				o.MemTableSize = smallMemTable
				return nil
			})
			if err != nil {
				panic("open pebblev2: " + err.Error())
			}
			return d
		}
		s.d = s.reopen()
	case "pebble":
		fs := vfs1.NewMem()
		s.reopen = func() db.KeyValueStore {
			d, err := pebblev1.New("/nonexistent-verif-c15/v1", func(o *p1.Options) error {
				o.FS = fs
				o.Logger = quiet{}
				o.Cache = sharedCache1
				o.MemTableSize = smallMemTable
				return nil
			})
			if err != nil {
				panic("open pebble v1: " + err.Error())
			}
			return d
		}
		s.d = s.reopen()
	default:
		panic("c15 infra: unknown backend " + be.name)
	}
	return s
}

var wholeKeySpaceEnd = []byte{0xff, 0xff, 0xff, 0xff}

// maintain performs the maintenance operation through what the juno wrapper exposes (Impl() = the *pebble.DB;
// Close + New). An error of the engine is reported as an observation line, it is not an infrastructure error.
func (s *dstore) maintain(m int) string {
	switch m {
	case mFlush, mCompact:
		switch x := s.d.Impl().(type) {
		case *p2.DB:
			if err := x.Flush(); err != nil {
				return "flush-" + cls(err)
			}
			if m == mCompact {
				if err := x.Compact(context.Background(), nil, wholeKeySpaceEnd, false); err != nil {
					return "compact-" + cls(err)
				}
			}
		case *p1.DB:
			if err := x.Flush(); err != nil {
				return "flush-" + cls(err)
			}
			if m == mCompact {
				if err := x.Compact(nil, wholeKeySpaceEnd, false); err != nil {
					return "compact-" + cls(err)
				}
			}
		default: // memory: there is nothing below the map
		}
	case mReopen:
		if s.reopen == nil {
			old := s.d.(*memory.Database)
			cp := old.Copy()
			if err := old.Close(); err != nil {
				return "close-" + cls(err)
			}
			s.d = cp
		} else {
			if err := s.d.Close(); err != nil {
				return "close-" + cls(err)
			}
			s.d = s.reopen()
		}
	}
	return "ok"
}

// ---------------------------------------------------------------------------------------------
// observations

// observeOrder: backward listing (Seek past the last possible key fails, then Prev walks down: the pattern
// documented in db/testutil.go and used by core/state) and Seek(k) for every k of K.
func observeOrder(r db.KeyValueReader, seeks bool) obs {
	var o obs
	o = append(o, "IterateBack="+guardStr(func() string {
		it, err := r.NewIterator(nil, false)
		if err != nil {
			return cls(err)
		}
		defer func() { ev.Guard(func() { it.Close() }) }()
		if it.Seek(wholeKeySpaceEnd) {
			return "seek-past-end-found-" + hx(string(it.Key()))
		}
		var sb strings.Builder
		n := 0
		for ok := it.Prev(); ok; ok = it.Prev() {
			v, err := it.Value()
			if err != nil {
				return "value-" + cls(err)
			}
			sb.WriteString(hx(string(it.Key())) + "=" + hx(string(v)) + " ")
			if n++; n > 4*len(K) {
				return "runaway"
			}
		}
		return "[" + sb.String() + "]"
	}))
	if !seeks {
		return o
	}
	o = append(o, "Seeks="+guardStr(func() string {
		it, err := r.NewIterator(nil, false)
		if err != nil {
			return cls(err)
		}
		defer func() { ev.Guard(func() { it.Close() }) }()
		var sb strings.Builder
		for _, k := range K {
			if !it.Seek([]byte(k)) {
				sb.WriteString(hx(k) + ">end ")
				continue
			}
			v, err := it.Value()
			if err != nil {
				return "value-" + cls(err)
			}
			sb.WriteString(hx(k) + ">" + hx(string(it.Key())) + "=" + hx(string(v)) + " ")
		}
		return "[" + sb.String() + "]"
	}))
	return o
}

func modelObserveOrder(s state, seeks bool) obs {
	var o obs
	ks := s.keys()
	var sb strings.Builder
	for i := len(ks) - 1; i >= 0; i-- {
		sb.WriteString(hx(ks[i]) + "=" + hx(s[ks[i]]) + " ")
	}
	o = append(o, "IterateBack=["+sb.String()+"]")
	if !seeks {
		return o
	}
	sb.Reset()
	for _, k := range K {
		i := sort.SearchStrings(ks, k)
		if i >= len(ks) {
			sb.WriteString(hx(k) + ">end ")
			continue
		}
		sb.WriteString(hx(k) + ">" + hx(ks[i]) + "=" + hx(s[ks[i]]) + " ")
	}
	o = append(o, "Seeks=["+sb.String()+"]")
	return o
}

// ---------------------------------------------------------------------------------------------
// the two worlds a history is run in

type dworld interface {
	write(ops []wop) string
	maintain(m int) string
	obsDB(full bool) obs   // full: the whole observer programme; else Get+Has+listing
	obsFreshSnapshot() obs // NewSnapshot, read, Close
	obsFreshIBatch() obs   // NewIndexedBatch with nothing pending, read, Close
	pin()                  // take the snapshot that is held across the next group
	obsPinned() obs
	unpin() string
	done()
}

type modelWorld struct {
	cur, pinned state
	cache       map[string]obs
}

func (w *modelWorld) memo(tag string, s state, f func() obs) obs {
	k := tag + "\x00" + s.canon()
	if o, ok := w.cache[k]; ok {
		return o
	}
	o := f()
	w.cache[k] = o
	return o
}

func (w *modelWorld) write(ops []wop) string {
	w.cur = applyAll(w.cur, ops)
	return "ok"
}
func (w *modelWorld) maintain(int) string { return "ok" }
func (w *modelWorld) obsDB(full bool) obs {
	if !full {
		return w.memo("r", w.cur, func() obs { return modelObserve(w.cur, oRead) })
	}
	return w.memo("f", w.cur, func() obs { return append(modelObserve(w.cur, oAll), modelObserveOrder(w.cur, true)...) })
}
func (w *modelWorld) obsFreshSnapshot() obs {
	return w.memo("s", w.cur, func() obs {
		return append(append(modelObserve(w.cur, oHas|oIter), modelObserveOrder(w.cur, false)...), "close=ok")
	})
}
func (w *modelWorld) obsFreshIBatch() obs {
	return w.memo("i", w.cur, func() obs { return append(modelObserve(w.cur, oGet|oIter), "close=ok") })
}
func (w *modelWorld) pin() { w.pinned = w.cur }
func (w *modelWorld) obsPinned() obs {
	return w.memo("p", w.pinned, func() obs { return append(modelObserve(w.pinned, oRead), modelObserveOrder(w.pinned, false)...) })
}
func (w *modelWorld) unpin() string { w.pinned = nil; return "ok" }
func (w *modelWorld) done()         {}

type realWorld struct {
	st   *dstore
	mode wmode
	snap db.Snapshot
}

func (w *realWorld) write(ops []wop) string {
	d := w.st.d
	m := w.mode
	all := func(b rw) error {
		for _, op := range ops {
			if err := op.on(b); err != nil {
				return err
			}
		}
		return nil
	}
	switch {
	case !m.batch:
		return cls(all(d))
	case m.helper == "Update":
		return cls(d.Update(func(b db.IndexedBatch) error { return all(b) }))
	case m.helper == "Write":
		return cls(d.Write(func(b db.Batch) error { return all(b) }))
	case m.wrap == "sync":
		b := db.NewSyncBatch(d.NewIndexedBatch())
		if err := all(b); err != nil {
			return cls(err)
		}
		return cls(b.Write())
	case m.wrap == "buffer":
		b := db.NewBufferBatch(d.NewIndexedBatch())
		for _, op := range ops {
			var err error
			if op.kind == 'P' {
				err = b.Put([]byte(op.a), []byte(op.b))
			} else {
				err = b.Delete([]byte(op.a))
			}
			if err != nil {
				return cls(err)
			}
		}
		return cls(b.Write())
	}
	var b db.Batch
	switch {
	case m.indexed && m.withSize:
		b = d.NewIndexedBatchWithSize(64)
	case m.indexed:
		b = d.NewIndexedBatch()
	case m.withSize:
		b = d.NewBatchWithSize(64)
	default:
		b = d.NewBatch()
	}
	if err := all(b); err != nil {
		return cls(err)
	}
	return cls(b.Write())
}
func (w *realWorld) maintain(m int) string { return w.st.maintain(m) }
func (w *realWorld) obsDB(full bool) obs {
	if !full {
		return observe(w.st.d, oRead)
	}
	return append(observe(w.st.d, oAll), observeOrder(w.st.d, true)...)
}
func (w *realWorld) obsFreshSnapshot() obs {
	s := w.st.d.NewSnapshot()
	o := append(observe(s, oHas|oIter), observeOrder(s, false)...)
	return append(o, "close="+cls(s.Close()))
}
func (w *realWorld) obsFreshIBatch() obs {
	b := w.st.d.NewIndexedBatch()
	o := observe(b, oGet|oIter)
	return append(o, "close="+cls(b.Close()))
}
func (w *realWorld) pin() { w.snap = w.st.d.NewSnapshot() }
func (w *realWorld) obsPinned() obs {
	return append(observe(w.snap, oRead), observeOrder(w.snap, false)...)
}
func (w *realWorld) unpin() string {
	s := w.snap
	w.snap = nil
	return cls(s.Close())
}
func (w *realWorld) done() {
	if w.snap != nil {
		s := w.snap
		ev.Guard(func() { s.Close() })
	}
	if w.st.d != nil {
		d := w.st.d
		ev.Guard(func() { d.Close() })
	}
}

// ---------------------------------------------------------------------------------------------
// one run

type dplan struct {
	groups [][]wop // the op sequence cut into groups
	maint  []int   // maintenance after group i (i < len(groups)-1)
	tail   int     // 0: observe, flush, observe, compact, observe;  1: observe, reopen, observe
	pinned bool
}

func (p dplan) String() string {
	var sb strings.Builder
	for i, g := range p.groups {
		sb.WriteString("{" + opsString(g) + "}")
		switch {
		case i < len(p.groups)-1:
			sb.WriteString(" " + maintNames[p.maint[i]] + " ")
		case p.tail == 0:
			sb.WriteString(" [read] flush [read] compact [read]")
		default:
			sb.WriteString(" [read] reopen [read]")
		}
	}
	if p.pinned {
		sb.WriteString(" (a snapshot taken before each group is held across the group and its maintenance)")
	}
	return sb.String()
}

// runPlan drives one world through the plan. Lines are "<stage>|<call>=<result>"; group[i] = the group after
// which line i was produced.
func runPlan(w dworld, p dplan) (o obs, group []int) {
	gi := 0
	emit := func(ls ...string) {
		for _, l := range ls {
			o = append(o, l)
			group = append(group, gi)
		}
	}
	defer func() {
		if x := recover(); x != nil {
			emit("panic=" + fmt.Sprint(x))
		}
		w.done()
	}()
	pinnedNow := false
	checkpoint := func(m int) {
		name := maintNames[m]
		if pinnedNow && m == mReopen { // a store cannot be closed under a live snapshot
			emit(prefixed("snapshot-pinned-before-"+name, w.obsPinned())...)
			emit("snapshot-pinned-close=" + w.unpin())
			pinnedNow = false
		}
		emit(name + "=" + w.maintain(m))
		emit(prefixed("db-after-"+name, w.obsDB(true))...)
		emit(prefixed("snapshot-after-"+name, w.obsFreshSnapshot())...)
		emit(prefixed("ibatch-after-"+name, w.obsFreshIBatch())...)
		if pinnedNow {
			emit(prefixed("snapshot-pinned-across-"+name, w.obsPinned())...)
		}
	}
	for gi = 0; gi < len(p.groups); gi++ {
		if p.pinned {
			w.pin()
			pinnedNow = true
		}
		emit("write=" + w.write(p.groups[gi]))
		emit(prefixed("db-after-write", w.obsDB(false))...)
		switch {
		case gi < len(p.groups)-1:
			if m := p.maint[gi]; m != mNone {
				checkpoint(m)
			}
		case p.tail == 0:
			checkpoint(mFlush)
			checkpoint(mCompact)
		default:
			checkpoint(mReopen)
		}
		if pinnedNow {
			emit("snapshot-pinned-close=" + w.unpin())
			pinnedNow = false
		}
	}
	return o, group
}

// ---------------------------------------------------------------------------------------------
// enumeration

// durableOps: Put(k) for every key (the value is filled in per position), Delete(k), and DeleteRange(a,b) for every
// a<b over keys ∪ {end} (end is never written: ranges up to it cover the last key).
func durableOps(keys []string, end string) []wop {
	var ops []wop
	for _, k := range keys {
		ops = append(ops, wop{'P', k, ""})
	}
	for _, k := range keys {
		ops = append(ops, wop{'D', k, ""})
	}
	bounds := append(append([]string{}, keys...), end)
	for _, a := range keys {
		for _, b := range bounds {
			if a < b {
				ops = append(ops, wop{'R', a, b})
			}
		}
	}
	return ops
}

// compositions of n into ordered positive parts
func compositions(n int) [][]int {
	if n == 0 {
		return [][]int{nil}
	}
	var out [][]int
	for first := 1; first <= n; first++ {
		for _, rest := range compositions(n - first) {
			out = append(out, append([]int{first}, rest...))
		}
	}
	return out
}

type dfamily struct {
	name   string
	keys   []string
	end    string
	n      int      // write ops per history
	modes  []string // names of committing write modes (wmodes)
	pinned []string // modes for which the pinned variant is run as well
	// maxInner bounds the number of maintenance operations (other than none) BEFORE the last group; the maintenance
	// after the last group is always fully enumerated. <0: unbounded.
	maxInner int
}

// durableFamilies: what section E enumerates per tier (thorough ⊋ quick: every quick history is a history of the
// first thorough family).
func durableFamilies(quick bool) []dfamily {
	if quick {
		return []dfamily{{name: "2keys-3ops-1inner", keys: []string{"a", "ab"}, end: "b", n: 3, maxInner: 1,
			modes: []string{"direct", "batch-commit", "ibatch-commit", "update-ok", "write-ok"}}}
	}
	all := []string{"direct", "batch-commit", "batchsize-commit", "ibatch-commit", "ibatchsize-commit", "update-ok", "write-ok",
		"syncbatch-commit", "bufferbatch-commit"}
	return []dfamily{
		// ⊋ quick: same keys and length, every committing mode, any number of maintenance operations, pinned variants
		{name: "2keys-3ops", keys: []string{"a", "ab"}, end: "b", n: 3, maxInner: -1, modes: all,
			pinned: []string{"direct", "batch-commit", "update-ok"}},
		{name: "3keys-3ops-1inner", keys: []string{"a", "ab", "a\xff"}, end: "b", n: 3, maxInner: 1, modes: []string{"direct", "update-ok"}},
		{name: "2keys-4ops-1inner", keys: []string{"a", "ab"}, end: "b", n: 4, maxInner: 1, modes: []string{"direct"}},
	}
}

func modeByName(n string) wmode {
	for _, m := range wmodes {
		if m.name == n {
			if !m.commits {
				panic("c15 infra: section E needs committing modes")
			}
			return m
		}
	}
	panic("c15 infra: no write mode " + n)
}

func kindsOf(ops []wop) string {
	b := make([]byte, len(ops))
	for i, o := range ops {
		b[i] = o.kind
	}
	return string(b)
}

func (c *checker) sectionE(fams []dfamily) {
	r := c.r
	type item struct {
		fam    int
		mode   wmode
		pinned bool
		seq    []wop
	}
	var items []item
	famInfo := make([]map[string]any, len(fams))
	famHist := make([]int64, len(fams))
	famRuns := make([]int64, len(fams))
	for fi, f := range fams {
		ops := durableOps(f.keys, f.end)
		var pd []wop
		for _, o := range ops {
			if o.kind != 'R' {
				pd = append(pd, o)
			}
		}
		isPinned := map[string]bool{}
		for _, m := range f.pinned {
			isPinned[m] = true
		}
		nseq := 0
		for _, mn := range f.modes {
			m := modeByName(mn)
			alpha := ops
			if m.pdOnly {
				alpha = pd
			}
			idx := make([]int, f.n)
			for {
				seq := make([]wop, f.n)
				for i, x := range idx {
					seq[i] = alpha[x]
					if seq[i].kind == 'P' {
						seq[i].b = dvals[i]
					}
				}
				items = append(items, item{fi, m, false, seq})
				if isPinned[mn] {
					items = append(items, item{fi, m, true, seq})
				}
				nseq++
				j := f.n - 1
				for ; j >= 0; j-- {
					if idx[j]++; idx[j] < len(alpha) {
						break
					}
					idx[j] = 0
				}
				if j < 0 {
					break
				}
			}
		}
		famInfo[fi] = map[string]any{"family": f.name, "keys": hexList(f.keys), "range_end": hx(f.end), "write_ops_per_history": f.n,
			"op_alphabet": len(ops), "modes": f.modes, "modes_also_with_pinned_snapshot": f.pinned, "op_sequences_x_modes": nseq,
			"max_maintenance_ops_before_last_group": f.maxInner}
	}
	var cut, runs, hist, lines, execs int64
	var maintCount [4]int64
	exampleDone := int32(0)
	ev.Par(len(items), c.procs, func(ii int) {
		if c.outOfTime() {
			atomic.AddInt64(&cut, 1)
			return
		}
		it := items[ii]
		f := fams[it.fam]
		var comps [][]int
		if it.mode.batch {
			comps = compositions(f.n)
		} else {
			comps = [][]int{make([]int, f.n)} // direct calls: one op per group
			for i := range comps[0] {
				comps[0][i] = 1
			}
		}
		mw := &modelWorld{cache: map[string]obs{}}
		ri := 0
		for _, comp := range comps {
			groups := make([][]wop, len(comp))
			at := 0
			for gi, sz := range comp {
				groups[gi] = it.seq[at : at+sz]
				at += sz
			}
			inner := len(comp) - 1
			nAssign := 1
			for i := 0; i < inner; i++ {
				nAssign *= 4
			}
			for a := 0; a < nAssign; a++ {
				maint := make([]int, inner)
				x := a
				real := 0
				for i := range maint {
					maint[i] = x % 4
					x /= 4
					if maint[i] != mNone {
						real++
					}
				}
				if f.maxInner >= 0 && real > f.maxInner {
					continue
				}
				for tail := 0; tail < 2; tail++ {
					p := dplan{groups: groups, maint: maint, tail: tail, pinned: it.pinned}
					mw.cur, mw.pinned = state{}, nil
					want, _ := runPlan(mw, p)
					atomic.AddInt64(&runs, 1)
					atomic.AddInt64(&famRuns[it.fam], 1)
					leaves := int64(1)
					if tail == 0 {
						leaves = 3 // … none | … flush | … compact
					}
					atomic.AddInt64(&hist, leaves)
					atomic.AddInt64(&famHist[it.fam], leaves)
					for _, m := range maint {
						atomic.AddInt64(&maintCount[m], 1)
					}
					if tail == 0 {
						atomic.AddInt64(&maintCount[mFlush], 1)
						atomic.AddInt64(&maintCount[mCompact], 1)
					} else {
						atomic.AddInt64(&maintCount[mReopen], 1)
					}
					tailName := "flush,compact"
					if tail == 1 {
						tailName = "reopen"
					}
					c.outcome(fmt.Sprintf("E ops=%s tail=%s final-keys=%d", kindsOf(it.seq), tailName, len(mw.cur)), 1)
					rank := int64(ii)<<16 + int64(ri)
					ri++
					for _, be := range backends {
						got, where := runPlan(&realWorld{st: openDurable(be), mode: it.mode}, p)
						atomic.AddInt64(&execs, 1)
						atomic.AddInt64(&lines, int64(len(want)))
						ectx := func() map[string]any {
							return map[string]any{"history": p.String(), "mode": it.mode.name}
						}
						if it.fam == 0 && be.name == "pebblev2" && it.mode.name == "update-ok" && !it.pinned && len(comp) == f.n && a == 0 && tail == 0 &&
							kindsOf(it.seq) == "PPD" && it.seq[0].a == f.keys[0] && it.seq[1].a == f.keys[0] && it.seq[2].a == f.keys[0] &&
							atomic.CompareAndSwapInt32(&exampleDone, 0, 1) {
							r.Set("E_example", map[string]any{"backend": be.name, "mode": it.mode.name, "history": p.String(),
								"lines_compared": len(want), "identical": firstDiff(want, got) < 0,
								"model_after_flush": pick(want, "db-after-flush|Iterate"), "backend_after_flush": pick(got, "db-after-flush|Iterate")})
						}
						di := c.diffLines(be, want, got, rank, ectx)
						if di < 0 {
							continue
						}
						wl, gl := line(want, di), line(got, di)
						stage, wrest := stageOf(wl)
						gstage, grest := stageOf(gl)
						if gstage != stage {
							grest = gl
						}
						key := fmt.Sprintf("durable-divergence %s mode=%s stage=%s call=%s expected=%s got=%s",
							be.name, it.mode.name, stage, callOf(wrest), classOf(wrest), gotClass(wrest, grest))
						c.viol.add(key, rank, func() any {
							g := -1
							if di < len(where) {
								g = where[di]
							}
							return map[string]any{"backend": be.name, "mode": it.mode.name, "history_from_empty_store": p.String(),
								"first_differing_line": di, "after_group": g, "model": wl, "backend_returned": gl,
								"note": "keys/values are hex; every group is committed through `mode`; flush = (*pebble.DB).Flush via Impl(), " +
									"compact = Flush + Compact(whole key space), reopen = Close + New on the same MemFS (memory: Copy + Close)"}
						})
					}
				}
			}
		}
	})
	if cut > 0 {
		r.Incomplete(fmt.Sprintf("section E: %d of %d (mode, op sequence) items skipped (time budget)", cut, len(items)))
	}
	for fi := range fams {
		famInfo[fi]["histories"] = famHist[fi]
		famInfo[fi]["runs_per_backend"] = famRuns[fi]
	}
	r.Add("transitions", hist)
	r.Add("traces_validated_against_impl", execs)
	r.Set("E_families", famInfo)
	r.Set("E_histories", hist)
	r.Set("E_runs_per_backend", runs)
	r.Set("E_backend_runs", execs)
	r.Set("E_observation_lines_compared", lines)
	r.Set("E_maintenance_flush", maintCount[mFlush]*int64(len(backends)))
	r.Set("E_maintenance_flush_compact", maintCount[mCompact]*int64(len(backends)))
	r.Set("E_maintenance_reopen", maintCount[mReopen]*int64(len(backends)))
}

func pick(o obs, prefix string) string {
	for _, l := range o {
		if strings.HasPrefix(l, prefix) {
			return l
		}
	}
	return "<none>"
}
