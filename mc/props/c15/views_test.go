package c15

// Section F — LIFETIMES of several live views of one store.
//
// Sections A–E hold at most one snapshot (or one iterator, or one indexed batch) at a time and never close a view
// while another one is still in use. A backend that shares state between the store and its views (copy-on-write maps,
// reference counts, "is somebody still looking" flags, pooled buffers) can get exactly that wrong: the lifetime event
// of ONE view (opening a second one, closing the first one) changes what a SIBLING view or the store shows after the
// next write. Here the view-lifetime operations are part of the history alphabet:
//
//	open   S    db.NewSnapshot()                                  content = the map at this moment, for ever
//	       I    db.NewIterator(nil,false), kept open              content = the map at this moment
//	       J(i) NewIterator on the open snapshot / indexed batch in slot i, kept open
//	                                                              content = what slot i shows at this moment
//	       B(p) db.NewIndexedBatch() with one pending op p        content = the CURRENT map with p applied on top
//	close  C(i) Close of the view in slot i (an indexed batch is discarded)
//	commit M(i) Write of the indexed batch in slot i (a write to the store; the view is gone afterwards)
//	write  w    Put (value fresh per position) / Delete / DeleteRange over a small key alphabet, committed through the
//	            history's write mode (direct calls, batch, indexed batch, Update/Write helpers, …)
//
// and EVERY event sequence of length ≤ L with at most W views open simultaneously is executed from every base
// state on memory, pebble v2 and pebble v1 and compared with the map model. A new view takes the lowest free slot
// (slots are interchangeable). Lifetimes are well nested: a snapshot / indexed batch is not closed or committed while
// an iterator created from it is still open (pebble frees a batch's memory on Close; nothing documents that an
// iterator may outlive its parent), everything else is allowed in every order.
//
// Reads are not events but observations, in two disciplines so that a read can neither be missing nor "heal" anything:
//   - every-step: after EVERY event the store and every open view are read (Get of every key + listing through a
//     short-lived iterator for stores, snapshots and indexed batches; forward listing and backward listing through
//     Seek-past-end/Prev for held iterators), for every history of exactly L events (shorter ones are its prefixes);
//   - last-step: the same reads plus Has of every key, only after the last event, for every history of 1..L events.
//
// At the end every view still open is closed (iterators first) and the store is read once more: closing a view must
// not change what the store shows either.

import (
	"fmt"
	"os"
	"sort"
	"strings"
	"sync/atomic"
	"time"

	"verif/mc/ev"

	"github.com/NethermindEth/juno/db"
)

const (
	evOpenSnap   = 'S'
	evOpenIter   = 'I'
	evOpenIterOn = 'J'
	evOpenIBatch = 'B'
	evClose      = 'C'
	evCommit     = 'M'
	evWrite      = 'w'
)

const (
	vkSnap      = "snapshot"
	vkIterDB    = "iter-db"
	vkIBatch    = "ibatch"
	vkIterSnap  = "iter-snapshot"
	vkIterBatch = "iter-ibatch"
)

// fvals: the value written by a Put at position i of a history (distinct per position and distinct from the base
// values and from the pending Put of an indexed-batch view, so that every version is recognisable).
var fvals = []string{"x", "y", "", "xy", "yx", "xx", "yy", "xyx"}

type vevent struct {
	kind byte
	slot int // J, C, M: the slot concerned
	op   int // w: index into vcfg.writes; B: index into vcfg.pending
}

type vcfg struct {
	name    string
	L, W    int
	keys    []string // keys the histories can touch (all of them are read back)
	writes  []wop
	pending []wop
	bases   []state
	modes   []string
}

func viewsConfig(quick bool) vcfg {
	keys, end := []string{"a", "ab"}, "b"
	c := vcfg{
		keys:    keys, // every key a history can write is read back; a stray key would show in the listings
		writes:  durableOps(keys, end),
		pending: []wop{{'P', "a", "z"}, {'D', "a", ""}},
		bases:   []state{{}, {"a": "q", "ab": "r"}},
	}
	if quick {
		c.name, c.L, c.W = "quick", 4, 3
		c.modes = []string{"direct", "batch-commit", "update-ok"}
		return c
	}
	// ⊋ quick: one more event, one more view, one more base state, the write modes of section E's quick tier
	c.name, c.L, c.W = "thorough", 5, 4
	c.bases = append(c.bases, state{"a": "q"})
	c.modes = []string{"direct", "batch-commit", "ibatch-commit", "update-ok", "write-ok"}
	return c
}

// ---------------------------------------------------------------------------------------------
// model

type mview struct {
	kind     string
	parent   int
	frozen   state // snapshots and iterators
	pending  []wop // indexed batch
	children int
}

type vmodel struct {
	cfg   *vcfg
	cur   state
	slots []*mview
}

func newVModel(cfg *vcfg, base state) *vmodel {
	return &vmodel{cfg: cfg, cur: base.clone(), slots: make([]*mview, cfg.W)}
}

func (m *vmodel) content(i int) state {
	v := m.slots[i]
	if v.kind == vkIBatch {
		return applyAll(m.cur, v.pending) // "reads from the batch and the database": the database as it is now
	}
	return v.frozen
}

func (m *vmodel) free() int {
	for i, v := range m.slots {
		if v == nil {
			return i
		}
	}
	return -1
}

// enabled: the events possible now, in a fixed order. It depends on the shape of the open views only.
func (m *vmodel) enabled() []vevent {
	var out []vevent
	for i := range m.cfg.writes {
		out = append(out, vevent{kind: evWrite, op: i})
	}
	if m.free() >= 0 {
		out = append(out, vevent{kind: evOpenSnap}, vevent{kind: evOpenIter})
		for i, v := range m.slots {
			if v != nil && (v.kind == vkSnap || v.kind == vkIBatch) {
				out = append(out, vevent{kind: evOpenIterOn, slot: i})
			}
		}
		for i := range m.cfg.pending {
			out = append(out, vevent{kind: evOpenIBatch, op: i})
		}
	}
	for i, v := range m.slots {
		if v == nil || v.children > 0 {
			continue
		}
		out = append(out, vevent{kind: evClose, slot: i})
		if v.kind == vkIBatch {
			out = append(out, vevent{kind: evCommit, slot: i})
		}
	}
	return out
}

func (m *vmodel) writeOp(e vevent, pos int) wop {
	op := m.cfg.writes[e.op]
	if op.kind == 'P' {
		op.b = fvals[pos]
	}
	return op
}

// apply performs the event; name is the coarse event name used in keys, desc the replayable description.
func (m *vmodel) apply(e vevent, pos int) (name, desc string) {
	switch e.kind {
	case evWrite:
		op := m.writeOp(e, pos)
		op.apply(m.cur)
		return "write", op.String()
	case evOpenSnap:
		i := m.free()
		m.slots[i] = &mview{kind: vkSnap, parent: -1, frozen: m.cur.clone()}
		return "open-" + vkSnap, fmt.Sprintf("v%d := db.NewSnapshot()", i)
	case evOpenIter:
		i := m.free()
		m.slots[i] = &mview{kind: vkIterDB, parent: -1, frozen: m.cur.clone()}
		return "open-" + vkIterDB, fmt.Sprintf("v%d := db.NewIterator(nil,false)", i)
	case evOpenIterOn:
		i := m.free()
		p := m.slots[e.slot]
		kind := vkIterSnap
		if p.kind == vkIBatch {
			kind = vkIterBatch
		}
		m.slots[i] = &mview{kind: kind, parent: e.slot, frozen: m.content(e.slot).clone()}
		p.children++
		return "open-" + kind, fmt.Sprintf("v%d := v%d.NewIterator(nil,false)", i, e.slot)
	case evOpenIBatch:
		i := m.free()
		p := m.cfg.pending[e.op]
		m.slots[i] = &mview{kind: vkIBatch, parent: -1, pending: []wop{p}}
		return "open-" + vkIBatch, fmt.Sprintf("v%d := db.NewIndexedBatch(); v%d.%s", i, i, p)
	case evClose:
		v := m.slots[e.slot]
		if v.parent >= 0 {
			m.slots[v.parent].children--
		}
		m.slots[e.slot] = nil
		return "close-" + v.kind, fmt.Sprintf("v%d.Close()", e.slot)
	case evCommit:
		v := m.slots[e.slot]
		m.cur = applyAll(m.cur, v.pending)
		m.slots[e.slot] = nil
		return "commit-" + v.kind, fmt.Sprintf("v%d.Write()", e.slot)
	}
	panic("c15 infra: unknown view event")
}

func modelListHeld(s state) obs {
	fwd := modelObserveKeys(s, nil, oIter)[0]
	back := modelObserveOrder(s, false)[0]
	return obs{"List=" + strings.TrimPrefix(fwd, "Iterate="), "ListBack=" + strings.TrimPrefix(back, "IterateBack=")}
}

// closeOrder: iterators (they may have a parent) first, then the rest, each in slot order.
func closeOrder(kinds []string) []int {
	var first, rest []int
	for i, k := range kinds {
		switch {
		case k == "":
		case strings.HasPrefix(k, "iter-"):
			first = append(first, i)
		default:
			rest = append(rest, i)
		}
	}
	return append(first, rest...)
}

// ---------------------------------------------------------------------------------------------
// real backend

type rview struct {
	kind   string
	parent int
	snap   db.Snapshot
	it     db.Iterator
	ib     db.IndexedBatch
}

type vreal struct {
	cfg   *vcfg
	d     db.KeyValueStore
	w     *realWorld
	slots []*rview
}

func (r *vreal) reader(i int) db.KeyValueReader {
	v := r.slots[i]
	if v.kind == vkSnap {
		return v.snap
	}
	return v.ib
}

func (r *vreal) closeView(v *rview) error {
	switch {
	case v.it != nil:
		return v.it.Close()
	case v.snap != nil:
		return v.snap.Close()
	}
	return v.ib.Close()
}

// exec performs the event; a new view goes into slot `target` (the slot the model assigned).
func (r *vreal) exec(e vevent, op wop, target int) string {
	return guardStr(func() string {
		switch e.kind {
		case evWrite:
			return r.w.write([]wop{op})
		case evOpenSnap:
			r.slots[target] = &rview{kind: vkSnap, parent: -1, snap: r.d.NewSnapshot()}
			return "ok"
		case evOpenIter:
			it, err := r.d.NewIterator(nil, false)
			if err != nil {
				return cls(err)
			}
			r.slots[target] = &rview{kind: vkIterDB, parent: -1, it: it}
			return "ok"
		case evOpenIterOn:
			kind := vkIterSnap
			if r.slots[e.slot].kind == vkIBatch {
				kind = vkIterBatch
			}
			it, err := r.reader(e.slot).NewIterator(nil, false)
			if err != nil {
				return cls(err)
			}
			r.slots[target] = &rview{kind: kind, parent: e.slot, it: it}
			return "ok"
		case evOpenIBatch:
			ib := r.d.NewIndexedBatch()
			r.slots[target] = &rview{kind: vkIBatch, parent: -1, ib: ib}
			return cls(r.cfg.pending[e.op].on(ib))
		case evClose:
			v := r.slots[e.slot]
			r.slots[e.slot] = nil
			return cls(r.closeView(v))
		case evCommit:
			v := r.slots[e.slot]
			r.slots[e.slot] = nil
			return cls(v.ib.Write())
		}
		panic("c15 infra: unknown view event")
	})
}

// listHeld reads a held iterator without closing it: forward through First/Next, backward through a failed Seek past
// the last possible key followed by Prev (both inside the documented contract, see model_test.go).
func listHeld(it db.Iterator) obs {
	walk := func(start func() bool, step func() bool) string {
		return guardStr(func() string {
			var sb strings.Builder
			n := 0
			for ok := start(); ok; ok = step() {
				v, err := it.Value()
				if err != nil {
					return "value-" + cls(err)
				}
				sb.WriteString(hx(string(it.Key())) + "=" + hx(string(v)) + " ")
				if n++; n > 4*len(K) {
					return "runaway"
				}
			}
			return "[" + sb.String() + "]"
		})
	}
	return obs{
		"List=" + walk(it.First, it.Next),
		"ListBack=" + walk(func() bool {
			if it.Seek(wholeKeySpaceEnd) {
				panic("seek-past-end-found-" + hx(string(it.Key())))
			}
			return it.Prev()
		}, it.Prev),
	}
}

// ---------------------------------------------------------------------------------------------
// one run: the model pass produces the expected lines and the plan (which slot a new view takes, what is open after
// every event); the backend pass follows the plan and produces its lines in the same order

type vline struct {
	stage string // kind of the object read ("db", "snapshot", "iter-db", …) or "event"
	after int    // index of the last event executed before this line (len(history): the final closes)
	slot  int    // -1: the store / an event
	event string // coarse name of the last executed event
}

type vstep struct {
	e       vevent
	op      wop
	target  int
	name    string
	observe bool
	open    []int  // slots open after the event
	isIter  []bool // … and whether the view is a held iterator
}

type vplan struct {
	steps      []vstep
	finalClose []int
	finalNames []string
	what       int // point reads / listing performed on stores, snapshots and indexed batches
	want       obs
	meta       []vline
	descs      []string
	final      state
}

// every-step runs read Get + listing (Has is left to the last-step runs: it would add a third to the cost of the
// section without another view of the same content), last-step runs read Get, Has and the listing.
func modelViews(cfg *vcfg, base state, h []vevent, everyStep bool) *vplan {
	p := &vplan{what: oRead}
	if everyStep {
		p.what = oGet | oIter
	}
	m := newVModel(cfg, base)
	lastEvent := "none"
	emit := func(stage string, after, slot int, w ...string) {
		for _, l := range w {
			p.want = append(p.want, l)
			p.meta = append(p.meta, vline{stage, after, slot, lastEvent})
		}
	}
	for pos, e := range h {
		st := vstep{e: e, target: m.free()}
		if e.kind == evWrite {
			st.op = m.writeOp(e, pos)
		}
		var desc string
		st.name, desc = m.apply(e, pos)
		p.descs = append(p.descs, desc)
		lastEvent = st.name
		emit("event", pos, -1, st.name+"=ok")
		if everyStep || pos == len(h)-1 {
			st.observe = true
			emit("db", pos, -1, modelObserveKeys(m.cur, cfg.keys, p.what)...)
			for i, v := range m.slots {
				if v == nil {
					continue
				}
				iter := strings.HasPrefix(v.kind, "iter-")
				st.open, st.isIter = append(st.open, i), append(st.isIter, iter)
				if iter {
					emit(v.kind, pos, i, modelListHeld(v.frozen)...)
				} else {
					emit(v.kind, pos, i, modelObserveKeys(m.content(i), cfg.keys, p.what)...)
				}
			}
		}
		p.steps = append(p.steps, st)
	}
	// close what is still open, then the store once more
	kinds := make([]string, len(m.slots))
	for i, v := range m.slots {
		if v != nil {
			kinds[i] = v.kind
		}
	}
	for _, i := range closeOrder(kinds) {
		lastEvent = "final-close-" + kinds[i]
		p.finalClose, p.finalNames = append(p.finalClose, i), append(p.finalNames, lastEvent)
		emit("event", len(h), i, lastEvent+"=ok")
	}
	emit("db-after-all-closed", len(h), -1, modelObserveKeys(m.cur, cfg.keys, p.what)...)
	p.final = m.cur
	return p
}

func linesPerReader(cfg *vcfg, what int) int {
	n := 0
	for _, bit := range []int{oGet, oGetFail, oHas} {
		if what&bit != 0 {
			n += len(cfg.keys)
		}
	}
	if what&oIter != 0 {
		n++
	}
	return n
}

func realViews(cfg *vcfg, p *vplan, real *vreal) (got obs) {
	got = make(obs, 0, len(p.want))
	missing := func(n int) {
		for ; n > 0; n-- {
			got = append(got, "<view-is-not-open>")
		}
	}
	for _, st := range p.steps {
		got = append(got, st.name+"="+real.exec(st.e, st.op, st.target))
		if !st.observe {
			continue
		}
		got = append(got, observeKeys(real.d, cfg.keys, p.what)...)
		for k, i := range st.open {
			v := real.slots[i]
			switch {
			case st.isIter[k] && v != nil && v.it != nil:
				got = append(got, listHeld(v.it)...)
			case st.isIter[k]:
				missing(2)
			case v != nil && v.it == nil:
				got = append(got, observeKeys(real.reader(i), cfg.keys, p.what)...)
			default:
				missing(linesPerReader(cfg, p.what))
			}
		}
	}
	for k, i := range p.finalClose {
		res := "view-is-not-open"
		if v := real.slots[i]; v != nil {
			real.slots[i] = nil
			res = guardStr(func() string { return cls(real.closeView(v)) })
		}
		got = append(got, p.finalNames[k]+"="+res)
	}
	return append(got, observeKeys(real.d, cfg.keys, p.what)...)
}

// ---------------------------------------------------------------------------------------------
// enumeration

// viewHistories: every event sequence of 1..L events (depth-first, fixed order).
func viewHistories(cfg *vcfg) [][]vevent {
	var out [][]vevent
	var rec func(m *vmodel, h []vevent)
	rec = func(m *vmodel, h []vevent) {
		if len(h) > 0 {
			out = append(out, append([]vevent{}, h...))
		}
		if len(h) == cfg.L {
			return
		}
		for _, e := range m.enabled() {
			// replay (the model is tiny; cloning it would need a deep copy of the slots anyway)
			n := newVModel(cfg, state{})
			for pos, x := range append(h, e) {
				n.apply(x, pos)
			}
			rec(n, append(h, e))
		}
	}
	rec(newVModel(cfg, state{}), nil)
	return out
}

func shapeOf(h []vevent) string {
	b := make([]byte, len(h))
	for i, e := range h {
		b[i] = e.kind
	}
	return string(b)
}

func (c *checker) sectionF(cfg vcfg) {
	r := c.r
	const repLimit = 60 // writes after which a worker replaces its store (see below)
	if cfg.L > len(fvals) {
		r.Infra("section F: history length %d needs more fresh values", cfg.L)
		return
	}
	hs := viewHistories(&cfg)
	byLen := map[string]int64{}
	for _, h := range hs {
		byLen[fmt.Sprint(len(h))]++
	}
	const chunk = 192
	type item struct {
		base, mode int
		lo, hi     int
	}
	var items []item
	// chunks outermost: if the time budget cuts the section, every base and mode has seen the same histories
	for lo := 0; lo < len(hs); lo += chunk {
		hi := lo + chunk
		if hi > len(hs) {
			hi = len(hs)
		}
		for bi := range cfg.bases {
			for mi := range cfg.modes {
				items = append(items, item{bi, mi, lo, hi})
			}
		}
	}
	var cut, runs, execs, events, lines, opens, maxOpenSeen int64
	exampleDone := int32(0)
	started := time.Now()
	ev.Par(len(items), c.procs, func(ii int) {
		if c.outOfTime() {
			atomic.AddInt64(&cut, 1)
			return
		}
		it := items[ii]
		base := cfg.bases[it.base]
		mode := modeByName(cfg.modes[it.mode])
		reps := make([]*rep, len(backends))
		for i, be := range backends {
			be := be
			// stores as in section E (one shared block cache per engine, 64 KiB memtable): cheap to open, so that they
			// can be replaced before the range tombstones of earlier histories pile up in the memtable
			reps[i] = &rep{be: &backend{name: be.name, open: func() db.KeyValueStore { return openDurable(be).d }}, limit: repLimit}
		}
		ri := int64(0)
		for hi := it.lo; hi < it.hi; hi++ {
			h := hs[hi]
			for _, everyStep := range []bool{true, false} {
				if everyStep && len(h) < cfg.L {
					continue // a prefix of a longer every-step history
				}
				disc := "last-step"
				if everyStep {
					disc = "every-step"
				}
				atomic.AddInt64(&runs, 1)
				rank := int64(ii)<<20 + ri
				ri++
				var open, most, nw, ncl int
				for _, e := range h {
					switch e.kind {
					case evWrite:
						nw++
					case evClose, evCommit:
						open--
						ncl++
					default:
						open++
					}
					if open > most {
						most = open
					}
				}
				for {
					old := atomic.LoadInt64(&maxOpenSeen)
					if int64(most) <= old || atomic.CompareAndSwapInt64(&maxOpenSeen, old, int64(most)) {
						break
					}
				}
				c.outcome(fmt.Sprintf("F obs=%s len=%d max-open=%d writes=%d closed-or-committed=%d", disc, len(h), most, nw, ncl), 1)
				plan := modelViews(&cfg, base, h, everyStep)
				want, meta, descs := plan.want, plan.meta, plan.descs
				history := func() string {
					return fmt.Sprintf("store %s; %s  [writes through mode %s; reads: %s]", "{"+strings.TrimSpace(base.canon())+"}", strings.Join(descs, "; "), mode.name, disc)
				}
				for bi, be := range backends {
					p := reps[bi]
					p.ensure(base)
					real := &vreal{cfg: &cfg, d: p.d, w: &realWorld{st: &dstore{be: be, d: p.d}, mode: mode}, slots: make([]*rview, cfg.W)}
					got := realViews(&cfg, plan, real)
					for _, v := range real.slots { // only after a panic in the middle of a run
						if v != nil {
							v := v
							ev.Guard(func() { real.closeView(v) })
						}
					}
					p.writes += len(h)
					atomic.AddInt64(&execs, 1)
					atomic.AddInt64(&events, int64(len(h)))
					atomic.AddInt64(&lines, int64(len(want)))
					if be.name == "memory" && it.base == 0 && it.mode == 0 && everyStep && strings.HasPrefix(shapeOf(h), "SSCw") &&
						h[2].slot == 0 && cfg.writes[h[3].op].kind == 'P' && atomic.CompareAndSwapInt32(&exampleDone, 0, 1) {
						r.Set("F_example", map[string]any{"backend": be.name, "history": history(), "lines_compared": len(want),
							"identical": firstDiff(want, got) < 0, "model_last_lines": []string(want[max(0, len(want)-4):]), "backend_last_lines": []string(got[max(0, len(got)-4):])})
					}
					di := firstDiff(want, got)
					if di < 0 {
						p.cur = plan.final.clone()
						continue
					}
					p.bad = true
					wl, gl := line(want, di), line(got, di)
					ml := vline{stage: "end", after: len(h), slot: -1, event: "end"}
					if di < len(meta) {
						ml = meta[di]
					}
					// which kinds of views had been closed (or committed) before the differing read: names the class
					// "a sibling's end of life changed what this view shows"
					closedSet := map[string]bool{}
					{
						mm := newVModel(&cfg, base)
						for pos, e := range h {
							if pos > ml.after {
								break
							}
							if e.kind == evClose || e.kind == evCommit {
								closedSet[mm.slots[e.slot].kind] = true
							}
							mm.apply(e, pos)
						}
					}
					var closed []string
					for k := range closedSet {
						closed = append(closed, k)
					}
					sort.Strings(closed)
					if len(closed) == 0 {
						closed = []string{"none"}
					}
					key := fmt.Sprintf("view-lifetime-divergence %s mode=%s view=%s after=%s views-closed-earlier=%s call=%s expected=%s got=%s",
						be.name, mode.name, ml.stage, ml.event, strings.Join(closed, "+"), callOf(wl), classOf(wl), gotClass(wl, gl))
					c.viol.add(key, rank, func() any {
						return map[string]any{"backend": be.name, "mode": mode.name, "history": history(), "reads": disc,
							"first_differing_line": di, "after_event_index": ml.after, "slot_read": ml.slot, "object_read": ml.stage, "model": wl, "backend_returned": gl,
							"note": "keys/values are hex; vN = the view in slot N (a new view takes the lowest free slot); every Put writes a value that is fresh for its position; " +
								"a snapshot / held iterator must keep showing the map of the moment it was opened, an indexed batch the current map plus its pending op"}
					})
				}
			}
		}
		for _, p := range reps {
			atomic.AddInt64(&opens, p.opens)
			p.drop()
		}
	})
	if cut > 0 {
		r.Incomplete(fmt.Sprintf("section F: %d of %d (history chunk, base, mode) items skipped (time budget)", cut, len(items)))
	}
	var bases []string
	for _, b := range cfg.bases {
		bases = append(bases, "{"+strings.TrimSpace(b.canon())+"}")
	}
	r.Add("transitions", runs)
	r.Add("traces_validated_against_impl", execs)
	r.Set("F_history_length", int64(cfg.L))
	r.Set("F_max_views_open", int64(cfg.W))
	r.Set("F_max_views_open_reached", maxOpenSeen)
	r.Set("F_event_sequences", int64(len(hs)))
	r.Set("F_event_sequences_by_length", byLen)
	r.Set("F_write_ops", int64(len(cfg.writes)))
	r.Set("F_base_states", bases)
	r.Set("F_modes", cfg.modes)
	r.Set("F_histories", runs) // (sequence, base, mode, read discipline)
	r.Set("F_backend_runs", execs)
	r.Set("F_events_executed", events)
	r.Set("F_observation_lines_compared", lines)
	r.Set("F_backend_opens", opens)
	if os.Getenv("C15_SECTIONS") != "" { // development only
		fmt.Fprintf(os.Stderr, "section F: %d items, %d backend runs, %v\n", len(items), execs, time.Since(started))
	}
}
