package c15

// Atomicity of EVERY write operation of the in-memory backend under concurrency (section G). atomic_test.go schedules
// the commit of a batch only; a store also has write operations that do not go through a caller-visible batch: Put,
// Delete, DeleteRange called on the store itself, and the Update / Write helpers. The interface promises that each of
// them is one indivisible step too (Pebble: one sequence number per call, a range delete is one tombstone), so two
// concurrent operations must leave the store - and show every consistent reader - exactly what SOME serial order of
// the two leaves / shows.
//
// Enumerated (db/memory's RWMutex under the cooperative scheduler of verif/mc/schedsync, every interleaving of the
// two threads' lock acquisitions, each schedule re-run from scratch):
//   thread 1 "op":    one direct call on the store: Put a / Put b / Delete a / Delete b / DeleteRange over each of
//                     [a,c) [a,b) [b,c), or Update(fn) / Write(fn) whose callback stages a sequence of point operations;
//   thread 2 "other": one atomic batch of point operations over {a,b} (every sequence within the bound, so among them
//                     the ones that overwrite an existing key and create a new key inside the other thread's range),
//                     or another direct call of the same alphabet, or a reader taking ONE consistent view (snapshot,
//                     iterator on the store, iterator of an empty indexed batch) and listing it;
//   initial store:    every subset of {a,b}.
// Oracle: both calls return nil; two writers -> the final store is the result of op;other or of other;op; a reader ->
// its listing is the store before or after the op, and the final store is the store after the op. The two serial
// results are not taken from the map model alone: each serial order is executed on pebble v2 and pebble v1 (the
// reference for which outcomes exist) and on the model, and the three must agree.
//
// Staged DeleteRange is left out of batches and helper callbacks (the in-memory batch expands a range delete when it
// is staged: known finding of section B, not a question of atomicity); DeleteRange as a DIRECT call is in.

import (
	"fmt"
	"runtime"
	"sort"
	"strings"
	"time"

	"verif/mc/ev"
	"verif/mc/schedsync"

	"github.com/NethermindEth/juno/db"
	"github.com/NethermindEth/juno/db/memory"
	pebblev1 "github.com/NethermindEth/juno/db/pebble"
	"github.com/NethermindEth/juno/db/pebblev2"
	p1 "github.com/cockroachdb/pebble"
	p2 "github.com/cockroachdb/pebble/v2"
	vfs2 "github.com/cockroachdb/pebble/v2/vfs"
	vfs1 "github.com/cockroachdb/pebble/vfs"
)

// xop: one primitive write. kind 'P' put key=val, 'D' delete key, 'R' delete range [key,end).
type xop struct {
	kind          byte
	key, val, end string
}

func (o xop) String() string {
	switch o.kind {
	case 'P':
		return "Put(" + o.key + "=" + o.val + ")"
	case 'D':
		return "Delete(" + o.key + ")"
	}
	return "DeleteRange[" + o.key + "," + o.end + ")"
}

func (o xop) kindName() string {
	switch o.kind {
	case 'P':
		return "Put"
	case 'D':
		return "Delete"
	}
	return "DeleteRange"
}

func (o xop) model(m map[string]string) {
	switch o.kind {
	case 'P':
		m[o.key] = o.val
	case 'D':
		delete(m, o.key)
	case 'R':
		for k := range m {
			if k >= o.key && k < o.end {
				delete(m, k)
			}
		}
	}
}

type xwriter interface {
	Put(key, value []byte) error
	Delete(key []byte) error
	DeleteRange(start, end []byte) error
}

func (o xop) on(w xwriter) error {
	switch o.kind {
	case 'P':
		return w.Put([]byte(o.key), []byte(o.val))
	case 'D':
		return w.Delete([]byte(o.key))
	}
	return w.DeleteRange([]byte(o.key), []byte(o.end))
}

func xstage(w xwriter, ops []xop) error {
	for _, o := range ops {
		if err := o.on(w); err != nil {
			return err
		}
	}
	return nil
}

// party: what one thread does. A writer has ops (its atomic effect) and run; a reader has view.
type party struct {
	class string // coarse, for violation keys and per-class counts: "Put", "DeleteRange", "Update", "batch", "snapshot"...
	label string // exact, replayable
	ops   []xop
	run   func(d db.KeyValueStore) error
	view  func(d db.KeyValueStore) (map[string]string, error) // reader only
}

func directParty(o xop) party {
	return party{class: o.kindName(), label: "direct " + o.String(), ops: []xop{o}, run: func(d db.KeyValueStore) error { return o.on(d) }}
}

func committerParty(mode string, ops []xop) party {
	p := party{class: mode, label: mode + " " + fmt.Sprint(ops), ops: ops}
	switch mode {
	case "Update":
		p.run = func(d db.KeyValueStore) error {
			return d.Update(func(b db.IndexedBatch) error { return xstage(b, ops) })
		}
	case "Write":
		p.run = func(d db.KeyValueStore) error { return d.Write(func(b db.Batch) error { return xstage(b, ops) }) }
	case "batch":
		p.run = func(d db.KeyValueStore) error {
			b := d.NewBatch()
			if err := xstage(b, ops); err != nil {
				return err
			}
			return b.Write()
		}
	case "indexed-batch":
		p.run = func(d db.KeyValueStore) error {
			b := d.NewIndexedBatch()
			if err := xstage(b, ops); err != nil {
				return err
			}
			return b.Write()
		}
	default:
		panic("c15 infra: committer mode " + mode)
	}
	return p
}

func listStore(d db.KeyValueStore) (map[string]string, error) {
	it, err := d.NewIterator(nil, false)
	if err != nil {
		return nil, err
	}
	return listView(it), nil
}

func readerParty(kind string) party {
	p := party{class: kind, label: "reader " + kind}
	switch kind {
	case "snapshot":
		p.view = func(d db.KeyValueStore) (map[string]string, error) {
			sn := d.NewSnapshot()
			it, err := sn.NewIterator(nil, false)
			if err != nil {
				return nil, err
			}
			return listView(it), nil
		}
	case "iterator":
		p.view = listStore
	case "indexed-batch-iterator":
		p.view = func(d db.KeyValueStore) (map[string]string, error) {
			b := d.NewIndexedBatch()
			it, err := b.NewIterator(nil, false)
			if err != nil {
				return nil, err
			}
			return listView(it), nil
		}
	default:
		panic("c15 infra: reader kind " + kind)
	}
	return p
}

func xseqs(al []xop, n int) [][]xop {
	if n == 0 {
		return [][]xop{nil}
	}
	var out [][]xop
	for _, s := range xseqs(al, n-1) {
		for _, o := range al {
			out = append(out, append(append([]xop{}, s...), o))
		}
	}
	return out
}

func cloneMap(m map[string]string) map[string]string {
	out := make(map[string]string, len(m))
	for k, v := range m {
		out[k] = v
	}
	return out
}

// serialRef executes "first; second" from init on the two Pebble backends and on the map model and returns the final
// store. A disagreement between them is reported (it would be a finding of sections A/B, not of this one).
type serialRef struct {
	r      *ev.Run
	stores []db.KeyValueStore
	names  []string
	runs   int64
}

func newSerialRef(r *ev.Run) *serialRef {
	s := &serialRef{r: r}
	// opened as in section E: juno's constructors on a private MemFS, shared block cache, small memtable arena
	v2, err := pebblev2.New("/nonexistent-verif-c15/v2", func(o *p2.Options) error {
		o.FS, o.Logger, o.Cache, o.MemTableSize = vfs2.NewMem(), quiet{}, sharedCache2, smallMemTable
		return nil
	})
	if err != nil {
		panic("open pebblev2: " + err.Error())
	}
	v1, err := pebblev1.New("/nonexistent-verif-c15/v1", func(o *p1.Options) error {
		o.FS, o.Logger, o.Cache, o.MemTableSize = vfs1.NewMem(), quiet{}, sharedCache1, smallMemTable
		return nil
	})
	if err != nil {
		panic("open pebble v1: " + err.Error())
	}
	s.stores = []db.KeyValueStore{v2, v1}
	s.names = []string{"pebblev2", "pebble"}
	return s
}

func (s *serialRef) close() {
	for _, d := range s.stores {
		d.Close()
	}
}

func (s *serialRef) final(init map[string]string, first, second party) string {
	m := cloneMap(init)
	for _, o := range first.ops {
		o.model(m)
	}
	for _, o := range second.ops {
		o.model(m)
	}
	want := showMap(m)
	for i, d := range s.stores {
		s.runs++
		// reset to init with point writes (thousands of whole-key-space range tombstones in one memtable would make
		// every later read of the reference store crawl)
		var err error
		for _, k := range []string{"a", "b"} {
			if err != nil {
			} else if v, ok := init[k]; ok {
				err = d.Put([]byte(k), []byte(v))
			} else {
				err = d.Delete([]byte(k))
			}
		}
		if err == nil {
			err = first.run(d)
		}
		if err == nil && second.run != nil {
			err = second.run(d)
		}
		var got map[string]string
		if err == nil {
			got, err = listStore(d)
		}
		if err != nil {
			s.r.Infra("direct-op atomicity: serial reference run on %s failed: %v", s.names[i], err)
		}
		if g := showMap(got); g != want {
			s.r.Violate("atomicity-reference: "+s.names[i]+" and the map model disagree on a serial execution of two write operations", map[string]any{
				"initial": showMap(init), "first": first.label, "second": second.label, "model": want, s.names[i]: g})
		}
	}
	return want
}

func directAtomicity(r *ev.Run) {
	point := func(tag string) []xop {
		return []xop{{'P', "a", tag + "1", ""}, {'P', "b", tag + "2", ""}, {'D', "a", "", ""}, {'D', "b", "", ""}}
	}
	singles := func(tag string) []xop {
		return append(point(tag), xop{'R', "a", "", "c"}, xop{'R', "a", "", "b"}, xop{'R', "b", "", "c"})
	}
	seqsOf := func(tag string, lo, hi int) [][]xop {
		var out [][]xop
		for n := lo; n <= hi; n++ {
			out = append(out, xseqs(point(tag), n)...)
		}
		return out
	}

	// thread 1: every direct write operation of the store (helper callbacks stage 2, thorough 2..3, point operations)
	var t1 []party
	for _, o := range singles("x") {
		t1 = append(t1, directParty(o))
	}
	for _, mode := range []string{"Update", "Write"} {
		for _, s := range seqsOf("x", 2, ev.Pick(r, 2, 3)) {
			t1 = append(t1, committerParty(mode, s))
		}
	}
	// thread 2: an atomic batch (quick: plain batch of 2 operations; thorough: of 2..3 operations, and the other three
	// ways of committing 2 operations atomically), another direct operation, or a consistent reader
	var t2 []party
	for _, s := range seqsOf("w", 2, ev.Pick(r, 2, 3)) {
		t2 = append(t2, committerParty("batch", s))
	}
	if r.Thorough() {
		for _, mode := range []string{"indexed-batch", "Update", "Write"} {
			for _, s := range seqsOf("w", 2, 2) {
				t2 = append(t2, committerParty(mode, s))
			}
		}
	}
	for _, o := range singles("w") {
		t2 = append(t2, directParty(o))
	}
	for _, k := range []string{"snapshot", "iterator", "indexed-batch-iterator"} {
		t2 = append(t2, readerParty(k))
	}
	inits := []map[string]string{{}, {"a": "0"}, {"b": "0"}, {"a": "0", "b": "0"}}

	// phase 1: the legal outcomes of every scenario (serial executions on the Pebble backends and the model)
	tRef := time.Now()
	type scen struct{ ii, i1, i2 int }
	var scens []scen
	for ii := range inits {
		for i1 := range t1 {
			for i2 := range t2 {
				scens = append(scens, scen{ii, i1, i2})
			}
		}
	}
	legal := make([][2]string, len(scens))
	workers := min(8, runtime.NumCPU())
	pool := make(chan *serialRef, workers)
	for range workers {
		pool <- newSerialRef(r)
	}
	const chunk = 64
	ev.Par((len(scens)+chunk-1)/chunk, workers, func(c int) {
		ref := <-pool
		for n := c * chunk; n < min(len(scens), (c+1)*chunk); n++ {
			init, p1, p2 := inits[scens[n].ii], t1[scens[n].i1], t2[scens[n].i2]
			if p2.view != nil {
				legal[n] = [2]string{ref.final(init, p1, party{}), ""}
			} else {
				legal[n] = [2]string{ref.final(init, p1, p2), ref.final(init, p2, p1)}
			}
		}
		pool <- ref
	})
	var refRuns int64
	for range workers {
		ref := <-pool
		refRuns += ref.runs
		ref.close()
	}
	r.Set("G_reference_seconds", time.Since(tRef).Seconds())
	// phase 2: the schedules. The cooperative scheduler has exactly one runnable goroutine at any time and every
	// scheduling point is a channel hand-off: with one P a hand-off stays inside the Go scheduler (no OS thread
	// wake-up), which keeps this phase cheap on a loaded machine. Nothing else runs at this moment.
	defer runtime.GOMAXPROCS(runtime.GOMAXPROCS(1))
	var scenarios, schedules, points, differ, multi int64
	perClass := map[string]int64{}
	sampled := false
	for ii, init := range inits {
		pre := showMap(init)
		for i1, p1 := range t1 {
			for i2, p2 := range t2 {
				lg := legal[(ii*len(t1)+i1)*len(t2)+i2]
				scenarios++
				perClass[p1.class+" | "+p2.class]++
				var d *memory.Database
				var err1, err2 error
				var view map[string]string
				setup := func(s *schedsync.Sched) {
					d = memory.New()
					for k, v := range init {
						d.Put([]byte(k), []byte(v))
					}
					err1, err2, view = nil, nil, nil
					s.Go("op", func() { err1 = p1.run(d) })
				}
				fail := func(trace []string) bool {
					if err1 == nil && err2 == nil {
						return false
					}
					r.Violate("atomicity: a write operation fails under concurrency memory op="+p1.class+" other="+p2.class, map[string]any{
						"initial": pre, "op": p1.label, "other": p2.label, "op_err": fmt.Sprint(err1), "other_err": fmt.Sprint(err2), "schedule": strings.Join(trace, " ")})
					return true
				}
				var st schedsync.Stats
				var err error
				if p2.view != nil {
					// ---- direct operation vs one consistent reader ----
					post := lg[0]
					if pre != post {
						differ++
					}
					st, err = schedsync.Explore(func(s *schedsync.Sched) func([]string) {
						setup(s)
						s.Go("reader", func() { view, err2 = p2.view(d) })
						return func(trace []string) {
							r.Add("evaluations", 1)
							if fail(trace) {
								return
							}
							got := showMap(view)
							fin, _ := listStore(d)
							switch {
							case got != pre && got != post:
								r.Violate("atomicity: reader sees a half-applied direct operation memory op="+p1.class+" reader="+p2.class, map[string]any{
									"initial": pre, "op": p1.label, "after_op": post, "reader_saw": got, "schedule": strings.Join(trace, " ")})
							case showMap(fin) != post:
								r.Violate("atomicity: direct operation concurrent with a reader ends in the wrong store memory op="+p1.class+" reader="+p2.class, map[string]any{
									"initial": pre, "op": p1.label, "after_op": post, "final_store": showMap(fin), "schedule": strings.Join(trace, " ")})
							case pre == post:
								r.Outcome("direct-op atomicity: reader saw the (unchanged) store")
							case got == pre:
								r.Outcome("direct-op atomicity: reader saw the store before the operation")
							default:
								r.Outcome("direct-op atomicity: reader saw the store after the operation")
							}
						}
					})
				} else {
					// ---- direct operation vs an atomic batch / another direct operation ----
					ab, ba := lg[0], lg[1]
					if ab != ba {
						differ++
					}
					st, err = schedsync.Explore(func(s *schedsync.Sched) func([]string) {
						setup(s)
						s.Go("other", func() { err2 = p2.run(d) })
						return func(trace []string) {
							r.Add("evaluations", 1)
							if fail(trace) {
								return
							}
							fin, _ := listStore(d)
							got := showMap(fin)
							switch {
							case got != ab && got != ba:
								r.Violate("atomicity: two concurrent write operations end in a store that no serial order of the two produces memory op="+p1.class+" other="+p2.class, map[string]any{
									"initial": pre, "op": p1.label, "other": p2.label, "op_then_other": ab, "other_then_op": ba, "got": got, "schedule": strings.Join(trace, " ")})
							case ab == ba:
								r.Outcome("direct-op atomicity: final store = the one serial result")
							case got == ab:
								r.Outcome("direct-op atomicity: final store = op, then other")
							default:
								r.Outcome("direct-op atomicity: final store = other, then op")
							}
						}
					})
					if !sampled && ab != ba && p1.ops[0].kind == 'R' && len(p2.ops) > 1 {
						sampled = true
						r.Sample(map[string]any{"section": "G direct-op atomicity", "initial": pre, "op": p1.label, "other": p2.label,
							"op_then_other": ab, "other_then_op": ba, "schedules_executed": st.Schedules})
					}
				}
				if err != nil {
					r.Infra("direct-op schedule exploration (%s | %s): %v", p1.label, p2.label, err)
				}
				schedules += int64(st.Schedules)
				points += int64(st.Points)
				if st.Schedules > 1 {
					multi++
				}
			}
		}
	}
	classes := make([]string, 0, len(perClass))
	for k := range perClass {
		classes = append(classes, k)
	}
	sort.Strings(classes)
	r.Set("G_direct_atomicity_scenarios", scenarios)
	r.Set("G_direct_atomicity_scenarios_per_class_pair", perClass)
	r.Set("G_direct_atomicity_class_pairs", int64(len(classes)))
	r.Set("G_direct_atomicity_scenarios_whose_serial_orders_differ", differ)
	r.Set("G_direct_atomicity_scenarios_with_more_than_one_schedule", multi)
	r.Set("G_direct_atomicity_schedules_executed", schedules)
	r.Set("G_direct_atomicity_scheduling_points", points)
	r.Set("G_direct_atomicity_pebble_serial_reference_runs", refRuns)
	r.Set("G_direct_atomicity_ops", int64(len(t1)))
	r.Set("G_direct_atomicity_others", int64(len(t2)))
}
