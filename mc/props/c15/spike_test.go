package c15

import (
	"fmt"
	"testing"
	"time"

	"github.com/NethermindEth/juno/db"
	"github.com/NethermindEth/juno/db/memory"
	pebblev1 "github.com/NethermindEth/juno/db/pebble"
	"github.com/NethermindEth/juno/db/pebblev2"
	p1 "github.com/cockroachdb/pebble"
	vfs1 "github.com/cockroachdb/pebble/vfs"
	p2 "github.com/cockroachdb/pebble/v2"
	vfs2 "github.com/cockroachdb/pebble/v2/vfs"
)

func openV2() db.KeyValueStore {
	d, err := pebblev2.New("/nonexistent-c15/v2", func(o *p2.Options) error { o.FS = vfs2.NewMem(); return nil })
	if err != nil {
		panic(err)
	}
	return d
}
func openV1() db.KeyValueStore {
	d, err := pebblev1.New("/nonexistent-c15/v1", func(o *p1.Options) error { o.FS = vfs1.NewMem(); return nil })
	if err != nil {
		panic(err)
	}
	return d
}

func TestSpike(t *testing.T) {
	for name, open := range map[string]func() db.KeyValueStore{"mem": func() db.KeyValueStore { return memory.New() }, "v1": openV1, "v2": openV2} {
		t0 := time.Now()
		for i := 0; i < 100; i++ {
			d := open()
			d.Close()
		}
		fmt.Println(name, "open+close", time.Since(t0)/100)
		d := open()
		t0 = time.Now()
		for i := 0; i < 10000; i++ {
			d.Put([]byte("a"), []byte("x"))
		}
		fmt.Println(name, "put", time.Since(t0)/10000)
		t0 = time.Now()
		for i := 0; i < 10000; i++ {
			it, _ := d.NewIterator([]byte("a"), true)
			it.First()
			it.Next()
			it.Prev()
			it.Close()
		}
		fmt.Println(name, "iter3", time.Since(t0)/10000)
		t0 = time.Now()
		for i := 0; i < 3000; i++ {
			d.DeleteRange([]byte("a"), []byte("b"))
			d.Put([]byte("a"), []byte("x"))
			it, _ := d.NewIterator([]byte("a"), true)
			it.First()
			it.Close()
		}
		fmt.Println(name, "delrange+put+iter", time.Since(t0)/3000)
		t0 = time.Now()
		for i := 0; i < 3000; i++ {
			b := d.NewIndexedBatch()
			b.Put([]byte("a"), []byte("x"))
			b.DeleteRange([]byte("a"), []byte("b"))
			b.Write()
		}
		fmt.Println(name, "ibatch", time.Since(t0)/3000)
		// behaviours
		d.Put([]byte("b"), []byte("y"))
		d.Put([]byte("a"), []byte("x"))
		prog := func(p string, mv ...string) {
			it, _ := d.NewIterator([]byte(p), false)
			s := ""
			for _, m := range mv {
				var r bool
				switch m {
				case "F":
					r = it.First()
				case "N":
					r = it.Next()
				case "P":
					r = it.Prev()
				default:
					r = it.Seek([]byte(m[1:]))
				}
				v, err := it.Value()
				s += fmt.Sprintf(" %s=%v/%v/%q/%q,%v", m, r, it.Valid(), it.Key(), v, err)
			}
			it.Close()
			fmt.Println(name, p, s)
		}
		prog("", "F", "P", "P")
		prog("", "F", "P", "N")
		prog("", "Sz", "P")
		prog("", "Sz", "N", "P")
		prog("", "F", "N", "N", "N", "P")
		prog("", "P")
		prog("", "N", "P", "P", "N")
		prog("b", "F", "P", "P")
		fmt.Println(name, "inverted delrange", d.DeleteRange([]byte("b"), []byte("a")))
		prog("", "F", "N", "N")
		fmt.Println(name, "equal delrange", d.DeleteRange([]byte("a"), []byte("a")))
		prog("", "F", "N", "N")
		fmt.Println(name, "empty key put", d.Put([]byte(""), []byte("e")), d.Put(nil, nil))
		prog("", "F", "N", "N")
		d.Close()
	}
}
