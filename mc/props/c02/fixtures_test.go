package c02

// Real-network fixture chains of older block formats (the feeder test data shipped with juno):
// sepolia 0..6 (0.12.3, post-0.7 Pedersen hash, transaction hashes verified) and mainnet 0..2 (pre-0.7 hash,
// no version string, transaction hashes not recomputable). The same oracles as for the synthetic chains, with
// the catalogue restricted to the fields those formats commit.

import (
	"context"
	"fmt"
	"os"
	"strings"
	"sync"
	"testing"

	"verif/mc/chain"
	"verif/mc/ev"

	"github.com/NethermindEth/juno/blockchain"
	"github.com/NethermindEth/juno/blockchain/networks"
	"github.com/NethermindEth/juno/clients/feeder"
	"github.com/NethermindEth/juno/core"
	"github.com/NethermindEth/juno/db/memory"
	adaptfeeder "github.com/NethermindEth/juno/starknetdata/feeder"
)

type fixtureChain struct {
	name   string
	net    *networks.Network
	blocks int
	// which tamper classes this format commits (prefix match on the class name)
	commits          []string
	txHashesVerified bool
}

var fixtureChains = []fixtureChain{
	{"sepolia-0.12.3", &networks.Sepolia, 7, []string{
		"header.number", "header.parent-hash", "header.state-root", "header.sequencer", "header.timestamp", "header.tx-count",
		"header.event-count", "header.hash", "update.", "txs.", "receipts.swap-first-two-only", "receipts.drop-last-only",
		"tx.", "receipt.tx-hash", "receipt.event", "diff.storage", "diff.nonce", "diff.deployed", "diff.replaced", "diff.declared-v1",
	}, true},
	{"mainnet-pre-0.7", &networks.Mainnet, 3, []string{
		"header.number", "header.parent-hash", "header.state-root", "header.tx-count", "header.hash", "update.", "txs.",
		"receipts.swap-first-two-only", "receipts.drop-last-only", "tx.hash", "tx.signature", "receipt.tx-hash",
		"diff.storage", "diff.nonce", "diff.deployed", "diff.replaced",
	}, false},
}

func (f *fixtureChain) allows(class string) bool {
	if class == "receipt.event-moved-to-other-tx" {
		// before 0.13.2 the event commitment covers the flattened event list only: which transaction emitted an
		// event is not committed, so moving an event to the neighbouring receipt can leave every hash unchanged
		return false
	}
	for _, p := range f.commits {
		if strings.HasPrefix(class, p) {
			return true
		}
	}
	return false
}

var (
	gwMu  sync.Mutex
	gwMap = map[string]*adaptfeeder.Feeder{}
)

// loadFixture parses the fixture afresh on every call (so that callers may mutate the result); one shared
// test client per network, serialised.
func loadFixture(t *testing.T, f *fixtureChain, n uint64) *chain.Entry {
	gwMu.Lock()
	defer gwMu.Unlock()
	gw, ok := gwMap[f.name]
	if !ok {
		gw = adaptfeeder.New(feeder.NewTestClient(t, f.net))
		gwMap[f.name] = gw
	}
	b, err := gw.BlockByNumber(context.Background(), n)
	if err != nil {
		t.Fatalf("fixture %s block %d: %v", f.name, n, err)
	}
	su, err := gw.StateUpdate(context.Background(), n)
	if err != nil {
		t.Fatalf("fixture %s state update %d: %v", f.name, n, err)
	}
	return &chain.Entry{Block: b, SU: su, Classes: nil, State: chain.NewState()}
}

func storeOn(bc *blockchain.Blockchain, e *chain.Entry) error {
	cm, err := bc.SanityCheckNewHeight(e.Block, e.SU, e.Classes)
	if err != nil {
		return err
	}
	return bc.Store(e.Block, cm, e.SU, e.Classes)
}

func rehashFixture(f *fixtureChain, e *chain.Entry, txs bool) bool {
	if txs && f.txHashesVerified {
		for i, tx := range e.Block.Transactions {
			h, err := core.TransactionHash(tx, f.net)
			if err != nil {
				continue
			}
			switch t := tx.(type) {
			case *core.InvokeTransaction:
				t.TransactionHash = &h
			case *core.DeclareTransaction:
				if !t.Version.Is(0) {
					t.TransactionHash = &h
				}
			case *core.DeployAccountTransaction:
				t.TransactionHash = &h
			case *core.L1HandlerTransaction:
				t.TransactionHash = &h
			}
			if i < len(e.Block.Receipts) {
				e.Block.Receipts[i].TransactionHash = tx.Hash()
			}
		}
	}
	return true
}

func runFixtures(t *testing.T, r *ev.Run, tampers []tamper, distinct map[string]bool, mu *sync.Mutex) {
	// juno's test feeder looks for clients/feeder/testdata upwards from the working directory
	if wd, err := os.Getwd(); err == nil {
		defer os.Chdir(wd)
	}
	if err := os.Chdir(ev.Repo()); err != nil {
		r.Infra("chdir to the juno tree: %v", err)
	}
	for fi := range fixtureChains {
		f := &fixtureChains[fi]
		for _, newState := range []bool{false, true} {
			// base images
			bases := make([]*memory.Database, f.blocks+1)
			d := memory.New()
			bc := blockchain.New(d, f.net, blockchain.WithNewState(newState))
			ok := true
			for n := 0; n < f.blocks; n++ {
				bases[n] = d.Copy()
				if err := storeOn(bc, loadFixture(t, f, uint64(n))); err != nil {
					r.Violate(fmt.Sprintf("fixture-block-rejected %s%s", f.name, backendName(newState)), map[string]any{"block": n, "err": err.Error()})
					ok = false
					break
				}
			}
			if !ok {
				continue
			}
			bases[f.blocks] = d.Copy()
			type job struct {
				pos   int
				tm    tamper
				level string
			}
			var jobs []job
			for pos := 0; pos < f.blocks; pos++ {
				for _, tm := range tampers {
					if !f.allows(tamperClass(tm.name)) {
						continue
					}
					jobs = append(jobs, job{pos, tm, "raw"})
					if tm.txLevel && f.txHashesVerified {
						jobs = append(jobs, job{pos, tm, "tx-rehashed"})
					}
					if tm.rehash {
						jobs = append(jobs, job{pos, tm, "block-rehashed"})
					}
				}
			}
			label := f.name + backendName(newState)
			ev.Par(len(jobs), 14, func(ji int) {
				if r.OutOfTime() {
					r.Incomplete("fixture tamper jobs " + label)
					return
				}
				j := jobs[ji]
				e := loadFixture(t, f, uint64(j.pos))
				before := chain.Dump([]any{e.Block, e.SU})
				if !j.tm.apply(e) || chain.Dump([]any{e.Block, e.SU}) == before {
					return
				}
				if pan, _ := ev.Guard(func() {
					if j.level != "raw" {
						rehashFixture(f, e, true)
					}
				}); pan {
					return // the tampered transaction is not a well-formed value of its type: not a block anyone could send
				}
				switch j.level {
				case "block-rehashed":
					if len(e.Block.Transactions) != len(e.Block.Receipts) {
						return
					}
					h, _, err := core.BlockHash(e.Block, e.SU.StateDiff, f.net, nil, core.TrieBackend)
					if err != nil {
						return
					}
					e.Block.Hash = &h
					e.SU.BlockHash = &h
				}
				db := bases[j.pos].Copy()
				node := blockchain.New(db, f.net, blockchain.WithNewState(newState))
				img := chain.ImageHash(db)
				detail := map[string]any{"fixture": f.name, "new_state": newState, "position": j.pos, "tamper": j.tm.name, "level": j.level}
				var err error
				pan, pm := ev.Guard(func() { err = storeOn(node, e) })
				r.Add("evaluations", 1)
				r.Add("fixture_cases", 1)
				mu.Lock()
				distinct[fmt.Sprintf("%s/%d/%s/%s", f.name, j.pos, j.tm.name, j.level)] = true
				mu.Unlock()
				cls := tamperClass(j.tm.name)
				switch {
				case pan:
					r.Violate(fmt.Sprintf("tampered-block-panics %s level=%s fixture", cls, j.level), map[string]any{"case": detail, "panic": pm})
					return
				case err == nil:
					r.Outcome("ACCEPTED")
					r.Violate(fmt.Sprintf("tampered-block-accepted %s level=%s %s", cls, j.level, label), detail)
					return
				}
				r.Outcome("rejected")
				if chain.ImageHash(db) != img {
					r.Violate(fmt.Sprintf("rejected-block-changed-the-store %s level=%s %s", cls, j.level, label), detail)
					return
				}
				if err := storeOn(node, loadFixture(t, f, uint64(j.pos))); err != nil {
					r.Violate(fmt.Sprintf("genuine-block-refused-after-rejection %s level=%s %s", cls, j.level, label), map[string]any{"case": detail, "err": err.Error()})
					return
				}
				if chain.ImageHash(db) != chain.ImageHash(bases[j.pos+1]) {
					// The legacy trie stores optional cached child hashes whose presence depends on the code path and on the
					// scheduling of its concurrent sub-trie updates (see C01), so bytes may differ between two correct stores
					// of the same block. What must agree is everything a reader can observe.
					probe := &chain.Probe{}
					for n := 0; n <= j.pos; n++ {
						probe.AddEntry(loadFixture(t, f, uint64(n)))
					}
					twin := blockchain.New(bases[j.pos+1].Copy(), f.net, blockchain.WithNewState(newState))
					if diff := chain.DiffObs(chain.Observe(node, probe, false), chain.Observe(twin, probe, false)); len(diff) > 0 {
						r.Violate(fmt.Sprintf("store-after-rejection-differs-from-twin %s level=%s %s", cls, j.level, label), map[string]any{"case": detail, "differing": diff})
					} else {
						r.Outcome("fixture: bytes differ from twin, observations identical")
					}
				}
			})
			r.Sample(map[string]any{"fixture": label, "jobs": len(jobs)})
		}
	}
}
