package c02

// Part L - long blocks x parallelism.
//
// The chains of the main part carry at most 6 transactions per block, so "is item i of the block verified" was only ever
// asked for i < 6 and only under the parallelism the test process happened to run with. Verification that walks a list
// in chunks / batches / worker pools can depend on the POSITION of the item, on the LENGTH of the list and on the
// machine's parallelism. This part enumerates exactly that space:
//
//	for every parallelism p of a stated set (runtime.GOMAXPROCS(p), restored afterwards; run alone, never next to
//	  another part, because GOMAXPROCS is process-wide)
//	  for every transaction count N in 1..2p+3 (straddles p and 2p) plus a few larger ones
//	    for every index i < N
//	      for every per-item tamper kind (quick: a hashed transaction field with the declared hash kept; the declared
//	        hash itself; a signature element; receipt fee; message payload; event data - thorough: every transaction /
//	        receipt / event / message tamper of the main catalogue, field tampers also with the hash recomputed)
//	        the valid N-transaction block (block 1 on top of block 0 of the main chain) with that one item tampered
//	        must be rejected by SanityCheckNewHeight+Store, the KV image must stay byte-identical, and the same node
//	        object must afterwards store the genuine block.
//
// Acceptances are reported once per (tamper class, level, format); the key says whether the same tamper is rejected at
// other (p, N, i) of the sweep, i.e. whether verification depends on position / count / parallelism.
//
// Blocks are cheap: small transactions, one event and one message each; the kinds cycle over the positions.

import (
	"fmt"
	"runtime"
	"sort"
	"strings"
	"sync"
	"sync/atomic"
	"time"

	"verif/mc/chain"
	"verif/mc/ev"

	"github.com/NethermindEth/juno/core"
	"github.com/NethermindEth/juno/core/felt"
	"github.com/NethermindEth/juno/db/memory"
)

// transaction kinds whose hash juno recomputes from the fields: with these at every position EVERY per-item tamper kind
// applies at EVERY index (deploy v0 / declare v0 carry no recomputable hash; family "all12" adds them)
var lbVerifiableKinds = []string{"invoke0", "invoke1", "invoke3", "declare1", "declare2", "declare3", "deployacc1", "deployacc3", "l1handler0", "invoke3proof"}

type lbFamily struct {
	name  string
	kinds []string
}

type lbConfig struct {
	version  string
	newState bool
}

// quick: one sharp representative per verification path of an item (tamper classes of the main catalogue):
// a hashed field with the declared hash kept (only the per-transaction hash recomputation sees it; the first of
// calldata / nonce / class-hash that the kind has), the declared hash alone and a signature element (transaction
// commitment), the fee and a message payload (receipt commitment), event data (event commitment).
// thorough: the whole per-item catalogue, field tampers also with the hash recomputed.
var (
	lbQuickFieldReps = []string{"tx.calldata", "tx.nonce", "tx.class-hash"}
	lbQuickRaw       = []string{"tx.hash", "tx.signature", "receipt.fee", "receipt.message-payload", "receipt.event-data"}
)

func lbSpec(version string, fam lbFamily, n int) chain.BlockSpec {
	d := core.EmptyStateDiff()
	d.StorageDiffs[chain.AddrA] = map[felt.Felt]*felt.Felt{chain.Slot1: chain.F(uint64(0x1000 + n))}
	d.Nonces[chain.AddrA] = chain.F(2)
	txs := make([]chain.TxSpec, n)
	for i := range txs {
		ev := chain.EvSpec{From: chain.AddrA, Keys: []felt.Felt{chain.Key1}, Data: []felt.Felt{chain.FV(uint64(i))}}
		if i%2 == 1 {
			ev = chain.EvSpec{From: chain.AddrB, Keys: []felt.Felt{chain.Key2, chain.Key1}, Data: []felt.Felt{chain.FV(uint64(i)), chain.FV(7)}}
		}
		txs[i] = chain.TxSpec{Kind: fam.kinds[i%len(fam.kinds)], Salt: uint64(1000 + i), Events: []chain.EvSpec{ev}, Msgs: 1, Reverted: i%5 == 4}
	}
	return chain.BlockSpec{Version: version, Timestamp: 2000 + uint64(n), Diff: &d, Txs: txs}
}

// lbCounts: every N in 1..2p+3, then a few larger ones that are not multiples of p.
func lbCounts(p int, larger []int, maxN int) []int {
	var out []int
	for n := 1; n <= 2*p+3; n++ {
		out = append(out, n)
	}
	for _, m := range larger {
		if n := m*p + m - 2; n > 2*p+3 && n <= maxN { // 3p+1, 4p+2, ...
			out = append(out, n)
		}
	}
	return out
}

type lbCase struct {
	P, N, I       int
	Tamper, Level string
	Family        string
}

func runLongBlocks(r *ev.Run, distinct map[string]bool, mu *sync.Mutex) {
	ambient := runtime.GOMAXPROCS(0)
	defer runtime.GOMAXPROCS(ambient)
	pset := ev.Pick(r, []int{1, 2, 3, 4, 7, 16}, []int{1, 2, 3, 4, 5, 6, 7, 8, 12, 16})
	pset = append(pset, ambient) // the parallelism this machine really runs with
	sort.Ints(pset)
	pset = uniqInts(pset)
	larger := ev.Pick(r, []int{3}, []int{3, 4})
	maxN := ev.Pick(r, 40, 1<<30) // quick keeps the blocks below 40 transactions (cost of one attempt grows with N)
	families := ev.Pick(r, []lbFamily{{"verifiable10", lbVerifiableKinds}}, []lbFamily{{"verifiable10", lbVerifiableKinds}, {"all12", chain.TxKinds}})
	// rejection of a per-item tamper happens in SanityCheckNewHeight, before the state backend is reached, so each
	// version is paired with one backend (alternating)
	configs := ev.Pick(r, []lbConfig{{"0.13.2", false}, {"0.14.1", true}},
		[]lbConfig{{"0.13.2", false}, {"0.13.4", true}, {"0.14.0", false}, {"0.14.1", true}})
	// thorough: the whole per-item catalogue at both levels for family verifiable10, the representative list for all12
	fullCatalogue := func(fam lbFamily) bool { return r.Thorough() && fam.name == "verifiable10" }
	// this part runs first (GOMAXPROCS is process-wide); it may use at most 45% of the tier's time budget
	deadline := time.Now().Add(time.Duration(ev.Pick(r, 90, 1080)) * time.Second)

	// base: block 0 of the main chain stored, per config
	parents := map[string]*chain.Entry{}
	bases := make([]*memory.Database, len(configs))
	baseHash := make([]string, len(configs))
	for ci, c := range configs {
		if _, ok := parents[c.version]; !ok {
			parents[c.version] = buildChain(c.version)[0]
		}
		d := memory.New()
		if err := chain.StoreSync(chain.NewNode(d, c.newState), parents[c.version].Fresh(nil)); err != nil {
			r.Infra("long blocks: base block of %s: %v", c.version, err)
		}
		bases[ci], baseHash[ci] = d, chain.ImageHash(d)
	}
	// genuine long blocks, built once per (version, family, N)
	var gmu sync.Mutex
	genuine := map[string]*chain.Entry{}
	genuineOf := func(version string, fam lbFamily, n int) *chain.Entry {
		k := fmt.Sprintf("%s/%s/%d", version, fam.name, n)
		gmu.Lock()
		defer gmu.Unlock()
		if e, ok := genuine[k]; ok {
			return e
		}
		e, err := chain.Build(parents[version], lbSpec(version, fam, n))
		if err != nil {
			r.Infra("long blocks: build %s: %v", k, err)
		}
		genuine[k] = e
		return e
	}
	// per-item tampers of index i: (tamper, level) pairs
	type tl struct {
		tm    tamper
		level string
	}
	itemTampers := func(i int, full bool) []tl {
		var out []tl
		all := append(txTampers(i), receiptTampers(i)...)
		if full {
			for _, tm := range all {
				out = append(out, tl{tm, "raw"})
				if tm.txLevel {
					out = append(out, tl{tm, "tx-rehashed"})
				}
			}
			return out
		}
		byClass := map[string]tamper{}
		for _, tm := range all {
			byClass[tamperClass(tm.name)] = tm
		}
		for _, c := range lbQuickFieldReps {
			out = append(out, tl{byClass[c], "raw-first"})
		}
		for _, c := range lbQuickRaw {
			out = append(out, tl{byClass[c], "raw"})
		}
		return out
	}

	type job struct {
		ci, fi, n, i int
	}
	type group struct{ accepted, rejected []lbCase }
	groups := map[string]*group{}
	var cases, pairs, blocks int64
	var nRanges []string
	var cut atomic.Bool
	for _, p := range pset {
		runtime.GOMAXPROCS(p)
		counts := lbCounts(p, larger, maxN)
		nRanges = append(nRanges, fmt.Sprintf("p=%d: N=1..%d%s", p, 2*p+3, strings.ReplaceAll(fmt.Sprint(counts[2*p+3:]), " ", ",")))
		var jobs []job
		for ci := range configs {
			for fi := range families {
				for _, n := range counts {
					blocks++
					for i := 0; i < n; i++ {
						jobs = append(jobs, job{ci, fi, n, i})
					}
				}
			}
		}
		pairs += int64(len(jobs))
		ev.Par(len(jobs), 14, func(ji int) {
			if r.OutOfTime() || time.Now().After(deadline) {
				cut.Store(true)
				return
			}
			j := jobs[ji]
			c, fam := configs[j.ci], families[j.fi]
			parent := parents[c.version]
			gen := genuineOf(c.version, fam, j.n)
			label := fmt.Sprintf("%s%s", c.version, backendName(c.newState))
			d := bases[j.ci].Copy()
			bc := chain.NewNode(d, c.newState)
			fieldDone := false
			var spare *chain.Entry // a tamper that does not apply returns false before touching the entry: reuse it
			for _, t := range itemTampers(j.i, fullCatalogue(fam)) {
				level := t.level
				if level == "raw-first" {
					if fieldDone {
						continue
					}
					level = "raw"
				}
				if spare == nil {
					spare = cloneEntry(gen)
					spare.State = parent.State
				}
				if !t.tm.apply(spare) {
					continue
				}
				e := spare
				spare = nil
				if t.level == "raw-first" {
					fieldDone = true
				}
				if level == "tx-rehashed" {
					rehashTxs(e)
				}
				cls := tamperClass(t.tm.name)
				cs := lbCase{p, j.n, j.i, t.tm.name, level, fam.name}
				detail := map[string]any{"gomaxprocs": p, "version": c.version, "new_state": c.newState, "position": 1, "transactions": j.n,
					"kinds": "position k carries kind " + fam.name + "[k mod " + fmt.Sprint(len(fam.kinds)) + "]", "index": j.i, "tamper": t.tm.name, "level": level}
				var err error
				pan, pm := ev.Guard(func() { err = chain.StoreSync(bc, e) })
				r.Add("evaluations", 1)
				gk := cls + " level=" + level + " " + label
				mu.Lock()
				cases++
				distinct[fmt.Sprintf("long/%s/%s/p%d/n%d/%s/%s", c.version, fam.name, p, j.n, t.tm.name, level)] = true
				g := groups[gk]
				if g == nil {
					g = &group{}
					groups[gk] = g
				}
				if !pan && err == nil {
					g.accepted = append(g.accepted, cs)
				} else if !pan && (len(g.rejected) == 0 || lbLess(cs, g.rejected[0])) {
					g.rejected = []lbCase{cs} // one (the smallest) rejected case of the same tamper, for the report
				}
				mu.Unlock()
				switch {
				case pan:
					r.Violate(fmt.Sprintf("long-block: tampered-block-panics %s level=%s", cls, level), map[string]any{"case": detail, "panic": pm})
					d = bases[j.ci].Copy()
					bc = chain.NewNode(d, c.newState)
				case err == nil:
					r.Outcome("long-block: ACCEPTED")
					d = bases[j.ci].Copy() // the node now holds the tampered block: continue on a fresh one
					bc = chain.NewNode(d, c.newState)
				default:
					r.Outcome("long-block: rejected")
					if chain.ImageHash(d) != baseHash[j.ci] {
						r.Violate(fmt.Sprintf("long-block: rejected-block-changed-the-store %s level=%s %s", cls, level, label),
							map[string]any{"case": detail, "diff": chain.DiffImages(chain.Image(bases[j.ci]), chain.Image(d))})
						d = bases[j.ci].Copy()
						bc = chain.NewNode(d, c.newState)
					}
				}
			}
			// the same node object, after all the rejections, must store the genuine long block
			var err error
			pan, pm := ev.Guard(func() { err = chain.StoreSync(bc, cloneEntry(gen)) })
			if pan || err != nil {
				r.Violate(fmt.Sprintf("long-block: genuine-block-refused %s", label), map[string]any{"gomaxprocs": p, "version": c.version, "new_state": c.newState,
					"transactions": j.n, "family": fam.name, "after_tampers_of_index": j.i, "panic": pm, "err": fmt.Sprint(err)})
				return
			}
			r.Outcome("long-block: genuine block stored after the rejections")
		})
		if cut.Load() {
			r.Incomplete(fmt.Sprintf("long-block jobs (cut at gomaxprocs=%d)", p))
			break
		}
	}
	runtime.GOMAXPROCS(ambient)

	// the shared originals must be untouched (cloneEntry hands juno private copies; this is the cross-check)
	var gkeys []string
	for k := range genuine {
		gkeys = append(gkeys, k)
	}
	sort.Strings(gkeys)
	ev.Par(len(gkeys), 14, func(i int) {
		e := genuine[gkeys[i]]
		if f := e.Fresh(parents[e.Spec.Version]); chain.Dump([]any{e.Block, e.SU}) != chain.Dump([]any{f.Block, f.SU}) {
			r.Infra("long blocks: the reference copy of %s was modified during the sweeps", gkeys[i])
		}
	})

	// one violation per (tamper class, level, format): the key says whether acceptance depends on where the item sits /
	// how many workers there are (the same tamper is rejected elsewhere in the sweep) or not
	var keys []string
	for k := range groups {
		keys = append(keys, k)
	}
	sort.Strings(keys)
	for _, k := range keys {
		g := groups[k]
		if len(g.accepted) == 0 {
			continue
		}
		sort.Slice(g.accepted, func(a, b int) bool { return lbLess(g.accepted[a], g.accepted[b]) })
		show := g.accepted
		if len(show) > 12 {
			show = show[:12]
		}
		kind := "long-block: tampered-block-accepted"
		if len(g.rejected) > 0 {
			kind = "long-block: tampered-block-accepted depending on item position / transaction count / GOMAXPROCS"
		}
		r.Violate(kind+" "+k, map[string]any{"accepted_cases": len(g.accepted), "first_accepted (P=gomaxprocs, N=transactions in block 1, I=tampered index)": show,
			"same_tamper_rejected_elsewhere_eg": g.rejected, "replay": "block 1 = lbSpec(version, family, N) on block 0 of buildChain(version); runtime.GOMAXPROCS(P); tamper item I; SanityCheckNewHeight+Store"})
	}
	r.Set("long_block_gomaxprocs_set", pset)
	r.Set("long_block_ambient_gomaxprocs", int64(ambient))
	r.Set("long_block_tx_counts", nRanges)
	r.Set("long_block_blocks", blocks)
	r.Set("long_block_item_positions", pairs)
	r.Set("long_block_tamper_cases", cases)
	r.Sample(map[string]any{"part": "long blocks", "gomaxprocs": pset[len(pset)-1], "transactions": 2*pset[len(pset)-1] + 3, "index": 2*pset[len(pset)-1] + 2, "tamper": "tx[i].calldata", "level": "raw"})
}

func lbLess(x, y lbCase) bool {
	if x.P != y.P {
		return x.P < y.P
	}
	if x.N != y.N {
		return x.N < y.N
	}
	if x.I != y.I {
		return x.I < y.I
	}
	if x.Family != y.Family {
		return x.Family < y.Family
	}
	return x.Tamper < y.Tamper
}

func uniqInts(s []int) []int {
	var out []int
	for i, v := range s {
		if i == 0 || v != s[i-1] {
			out = append(out, v)
		}
	}
	return out
}
