package c02

// C02 — a block is stored only if hash, linkage, transaction hashes and state root all verify; any
// single-field tampering of a committed field is rejected and leaves the node exactly as it was.

import (
	"fmt"
	"os"
	"sync"
	"testing"
	"time"

	"verif/mc/chain"
	"verif/mc/ev"

	"github.com/NethermindEth/juno/blockchain"
	"github.com/NethermindEth/juno/core"
	"github.com/NethermindEth/juno/core/felt"
	"github.com/NethermindEth/juno/db/memory"
)

type tamper struct {
	name string
	// apply mutates the (fresh, private) entry; false = not applicable to this block
	apply func(e *chain.Entry) bool
	// rehash: the tampering contradicts the NODE's state (linkage, root, diff content), so it must be rejected
	// even when transaction hashes, commitments and the block hash are recomputed consistently
	rehash bool
	// txLevel: a transaction field; also tried with the transaction hash recomputed (block hash left stale)
	txLevel bool
}

func bump(f *felt.Felt) *felt.Felt { return new(felt.Felt).Add(f, chain.F(1)) }

func headerTampers() []tamper {
	return []tamper{
		{"header.number+1", func(e *chain.Entry) bool { e.Block.Number++; return true }, true, false},
		{"header.number-1", func(e *chain.Entry) bool {
			if e.Block.Number == 0 {
				return false
			}
			e.Block.Number--
			return true
		}, true, false},
		{"header.parent-hash", func(e *chain.Entry) bool { e.Block.ParentHash = bump(e.Block.ParentHash); return true }, true, false},
		{"header.state-root", func(e *chain.Entry) bool { e.Block.GlobalStateRoot = bump(e.Block.GlobalStateRoot); return true }, true, false},
		{"header.state-root+update.new-root", func(e *chain.Entry) bool {
			e.Block.GlobalStateRoot = bump(e.Block.GlobalStateRoot)
			e.SU.NewRoot = e.Block.GlobalStateRoot
			return true
		}, true, false},
		{"header.sequencer", func(e *chain.Entry) bool { e.Block.SequencerAddress = bump(e.Block.SequencerAddress); return true }, false, false},
		{"header.timestamp", func(e *chain.Entry) bool { e.Block.Timestamp++; return true }, false, false},
		{"header.tx-count", func(e *chain.Entry) bool { e.Block.TransactionCount++; return true }, false, false},
		{"header.event-count", func(e *chain.Entry) bool { e.Block.EventCount++; return true }, false, false},
		{"header.version-string", func(e *chain.Entry) bool {
			// stay inside the same hashing regime: only the string committed in the hash changes
			switch e.Block.ProtocolVersion {
			case "0.13.2":
				e.Block.ProtocolVersion = "0.13.3"
			case "0.13.4":
				e.Block.ProtocolVersion = "0.13.5"
			case "0.14.0":
				e.Block.ProtocolVersion = "0.14.0.1"
			default:
				e.Block.ProtocolVersion += ".1"
			}
			return true
		}, false, false},
		{"header.l1-gas-price-wei", func(e *chain.Entry) bool { e.Block.L1GasPriceETH = bump(e.Block.L1GasPriceETH); return true }, false, false},
		{"header.l1-gas-price-fri", func(e *chain.Entry) bool { e.Block.L1GasPriceSTRK = bump(e.Block.L1GasPriceSTRK); return true }, false, false},
		{"header.l1-data-gas-price-wei", func(e *chain.Entry) bool {
			e.Block.L1DataGasPrice = &core.GasPrice{PriceInWei: bump(e.Block.L1DataGasPrice.PriceInWei), PriceInFri: e.Block.L1DataGasPrice.PriceInFri}
			return true
		}, false, false},
		{"header.l1-data-gas-price-fri", func(e *chain.Entry) bool {
			e.Block.L1DataGasPrice = &core.GasPrice{PriceInWei: e.Block.L1DataGasPrice.PriceInWei, PriceInFri: bump(e.Block.L1DataGasPrice.PriceInFri)}
			return true
		}, false, false},
		{"header.l2-gas-price-wei", func(e *chain.Entry) bool {
			if !chainGE(e.Block.ProtocolVersion, "0.13.4") {
				return false // not committed before 0.13.4
			}
			e.Block.L2GasPrice = &core.GasPrice{PriceInWei: bump(e.Block.L2GasPrice.PriceInWei), PriceInFri: e.Block.L2GasPrice.PriceInFri}
			return true
		}, false, false},
		{"header.l2-gas-price-fri", func(e *chain.Entry) bool {
			if !chainGE(e.Block.ProtocolVersion, "0.13.4") {
				return false
			}
			e.Block.L2GasPrice = &core.GasPrice{PriceInWei: e.Block.L2GasPrice.PriceInWei, PriceInFri: bump(e.Block.L2GasPrice.PriceInFri)}
			return true
		}, false, false},
		{"header.da-mode", func(e *chain.Entry) bool {
			if e.Block.L1DAMode == core.Blob {
				e.Block.L1DAMode = core.Calldata
			} else {
				e.Block.L1DAMode = core.Blob
			}
			return true
		}, false, false},
		{"header.hash", func(e *chain.Entry) bool { e.Block.Hash = bump(e.Block.Hash); return true }, false, false},
		{"header.hash+update.block-hash", func(e *chain.Entry) bool {
			e.Block.Hash = bump(e.Block.Hash)
			e.SU.BlockHash = e.Block.Hash
			return true
		}, false, false},
		{"update.block-hash", func(e *chain.Entry) bool { e.SU.BlockHash = bump(e.SU.BlockHash); return true }, false, false},
		{"update.new-root", func(e *chain.Entry) bool { e.SU.NewRoot = bump(e.SU.NewRoot); return true }, true, false},
		{"update.old-root", func(e *chain.Entry) bool { e.SU.OldRoot = bump(e.SU.OldRoot); return true }, true, false},
		// distinguished replacement values (a guard that special-cases "empty" or compares the wrong pair of roots
		// survives a +1): zero, and the other root of the same update
		{"update.old-root:=0", func(e *chain.Entry) bool {
			if e.SU.OldRoot.IsZero() {
				return false
			}
			e.SU.OldRoot = new(felt.Felt)
			return true
		}, true, false},
		{"update.old-root:=new-root", func(e *chain.Entry) bool {
			if e.SU.OldRoot.Equal(e.SU.NewRoot) {
				return false
			}
			e.SU.OldRoot = new(felt.Felt).Set(e.SU.NewRoot)
			return true
		}, true, false},
		{"update.new-root:=old-root", func(e *chain.Entry) bool {
			if e.SU.OldRoot.Equal(e.SU.NewRoot) {
				return false
			}
			e.SU.NewRoot = new(felt.Felt).Set(e.SU.OldRoot)
			return true
		}, true, false},
		{"update.new-root:=0", func(e *chain.Entry) bool {
			if e.SU.NewRoot.IsZero() {
				return false
			}
			e.SU.NewRoot = new(felt.Felt)
			return true
		}, true, false},
		{"header.state-root:=0+update.new-root:=0", func(e *chain.Entry) bool {
			if e.SU.NewRoot.IsZero() {
				return false
			}
			e.SU.NewRoot, e.Block.GlobalStateRoot = new(felt.Felt), new(felt.Felt)
			return true
		}, true, false},
		{"header.parent-hash:=0", func(e *chain.Entry) bool {
			if e.Block.ParentHash.IsZero() {
				return false
			}
			e.Block.ParentHash = new(felt.Felt)
			return true
		}, true, false},
	}
}

func chainGE(v, than string) bool {
	a, _ := core.ParseBlockVersion(v)
	b, _ := core.ParseBlockVersion(than)
	return a.GreaterThanEqual(b)
}

func listTampers() []tamper {
	return []tamper{
		{"txs.drop-last", func(e *chain.Entry) bool {
			n := len(e.Block.Transactions)
			if n == 0 {
				return false
			}
			e.Block.Transactions, e.Block.Receipts = e.Block.Transactions[:n-1], e.Block.Receipts[:n-1]
			return true
		}, false, false},
		{"txs.drop-last+count", func(e *chain.Entry) bool {
			n := len(e.Block.Transactions)
			if n == 0 {
				return false
			}
			e.Block.EventCount -= uint64(len(e.Block.Receipts[n-1].Events))
			e.Block.Transactions, e.Block.Receipts = e.Block.Transactions[:n-1], e.Block.Receipts[:n-1]
			e.Block.TransactionCount--
			return true
		}, false, false},
		{"txs.duplicate-last", func(e *chain.Entry) bool {
			n := len(e.Block.Transactions)
			if n == 0 {
				return false
			}
			e.Block.Transactions = append(e.Block.Transactions, e.Block.Transactions[n-1])
			e.Block.Receipts = append(e.Block.Receipts, e.Block.Receipts[n-1])
			e.Block.TransactionCount++
			e.Block.EventCount += uint64(len(e.Block.Receipts[n-1].Events))
			return true
		}, false, false},
		{"txs.swap-first-two", func(e *chain.Entry) bool {
			if len(e.Block.Transactions) < 2 {
				return false
			}
			t, r := e.Block.Transactions, e.Block.Receipts
			t[0], t[1] = t[1], t[0]
			r[0], r[1] = r[1], r[0]
			return true
		}, false, false},
		{"receipts.swap-first-two-only", func(e *chain.Entry) bool {
			if len(e.Block.Receipts) < 2 {
				return false
			}
			r := e.Block.Receipts
			r[0], r[1] = r[1], r[0]
			return true
		}, false, false},
		{"receipts.drop-last-only", func(e *chain.Entry) bool {
			n := len(e.Block.Receipts)
			if n == 0 {
				return false
			}
			e.Block.Receipts = e.Block.Receipts[:n-1]
			return true
		}, false, false},
	}
}

// txTampers: one tamper per hashed field of transaction #idx (kind-specific).
func txTampers(idx int) []tamper {
	mk := func(name string, f func(tx core.Transaction) bool) tamper {
		return tamper{fmt.Sprintf("tx[%d].%s", idx, name), func(e *chain.Entry) bool {
			if idx >= len(e.Block.Transactions) {
				return false
			}
			return f(e.Block.Transactions[idx])
		}, false, true}
	}
	bf := func(p **felt.Felt) bool {
		if *p == nil {
			return false
		}
		*p = bump(*p)
		return true
	}
	bs := func(s *[]felt.Felt) bool {
		if len(*s) == 0 {
			*s = []felt.Felt{chain.FV(1)}
			return true
		}
		c := append([]felt.Felt{}, *s...)
		c[len(c)-1] = *bump(&c[len(c)-1])
		*s = c
		return true
	}
	rb := func(m map[core.Resource]core.ResourceBounds, res core.Resource, price bool) bool {
		b, ok := m[res]
		if !ok {
			return false
		}
		if price {
			b.MaxPricePerUnit = bump(b.MaxPricePerUnit)
		} else {
			b.MaxAmount++
		}
		m[res] = b
		return true
	}
	inv := func(tx core.Transaction) *core.InvokeTransaction { t, _ := tx.(*core.InvokeTransaction); return t }
	dec := func(tx core.Transaction) *core.DeclareTransaction { t, _ := tx.(*core.DeclareTransaction); return t }
	dpa := func(tx core.Transaction) *core.DeployAccountTransaction {
		t, _ := tx.(*core.DeployAccountTransaction)
		return t
	}
	l1h := func(tx core.Transaction) *core.L1HandlerTransaction {
		t, _ := tx.(*core.L1HandlerTransaction)
		return t
	}
	v3 := func(tx core.Transaction) bool { return tx.TxVersion().Is(3) }
	out := []tamper{
		// the committed hash itself (all kinds, incl. deploy v0 / declare v0 whose field hashes are not recomputable)
		{fmt.Sprintf("tx[%d].hash", idx), func(e *chain.Entry) bool {
			if idx >= len(e.Block.Transactions) {
				return false
			}
			switch t := e.Block.Transactions[idx].(type) {
			case *core.InvokeTransaction:
				t.TransactionHash = bump(t.TransactionHash)
			case *core.DeclareTransaction:
				t.TransactionHash = bump(t.TransactionHash)
			case *core.DeployTransaction:
				t.TransactionHash = bump(t.TransactionHash)
			case *core.DeployAccountTransaction:
				t.TransactionHash = bump(t.TransactionHash)
			case *core.L1HandlerTransaction:
				t.TransactionHash = bump(t.TransactionHash)
			}
			return true
		}, false, false},
		{fmt.Sprintf("tx[%d].hash+receipt-hash", idx), func(e *chain.Entry) bool {
			if idx >= len(e.Block.Transactions) {
				return false
			}
			var h *felt.Felt
			switch t := e.Block.Transactions[idx].(type) {
			case *core.InvokeTransaction:
				t.TransactionHash = bump(t.TransactionHash)
				h = t.TransactionHash
			case *core.DeclareTransaction:
				t.TransactionHash = bump(t.TransactionHash)
				h = t.TransactionHash
			case *core.DeployTransaction:
				t.TransactionHash = bump(t.TransactionHash)
				h = t.TransactionHash
			case *core.DeployAccountTransaction:
				t.TransactionHash = bump(t.TransactionHash)
				h = t.TransactionHash
			case *core.L1HandlerTransaction:
				t.TransactionHash = bump(t.TransactionHash)
				h = t.TransactionHash
			}
			e.Block.Receipts[idx].TransactionHash = h
			return true
		}, false, false},
		{fmt.Sprintf("tx[%d].signature", idx), func(e *chain.Entry) bool {
			if idx >= len(e.Block.Transactions) {
				return false
			}
			switch t := e.Block.Transactions[idx].(type) {
			case *core.InvokeTransaction:
				return bs(&t.TransactionSignature)
			case *core.DeclareTransaction:
				return bs(&t.TransactionSignature)
			case *core.DeployAccountTransaction:
				return bs(&t.TransactionSignature)
			}
			return false
		}, false, false},
		mk("version", func(tx core.Transaction) bool {
			// a different but existing version of the same kind
			switch t := tx.(type) {
			case *core.InvokeTransaction:
				if t.Version.Is(1) {
					t.Version = new(core.TransactionVersion).SetUint64(0)
					t.EntryPointSelector = chain.F(1)
					if t.ContractAddress == nil { // keep the tampered transaction well-formed for its new version
						t.ContractAddress = t.SenderAddress
					}
					if t.MaxFee == nil {
						t.MaxFee = chain.F(0)
					}
					return true
				}
			case *core.DeclareTransaction:
				if t.Version.Is(1) {
					t.Version = new(core.TransactionVersion).SetUint64(2)
					t.CompiledClassHash = chain.F(5)
					return true
				}
			}
			return false
		}),
		mk("calldata", func(tx core.Transaction) bool {
			if t := inv(tx); t != nil {
				return bs(&t.CallData)
			}
			if t := l1h(tx); t != nil {
				return bs(&t.CallData)
			}
			return false
		}),
		mk("sender", func(tx core.Transaction) bool {
			if t := inv(tx); t != nil && !t.Version.Is(0) {
				return bf(&t.SenderAddress)
			}
			if t := dec(tx); t != nil && !t.Version.Is(0) {
				return bf(&t.SenderAddress)
			}
			return false
		}),
		mk("contract-address", func(tx core.Transaction) bool {
			if t := inv(tx); t != nil && t.Version.Is(0) {
				return bf(&t.ContractAddress)
			}
			if t := l1h(tx); t != nil {
				return bf(&t.ContractAddress)
			}
			if t := dpa(tx); t != nil {
				return bf(&t.ContractAddress)
			}
			return false
		}),
		mk("selector", func(tx core.Transaction) bool {
			if t := inv(tx); t != nil && t.Version.Is(0) {
				return bf(&t.EntryPointSelector)
			}
			if t := l1h(tx); t != nil {
				return bf(&t.EntryPointSelector)
			}
			return false
		}),
		mk("max-fee", func(tx core.Transaction) bool {
			if t := inv(tx); t != nil && !v3(tx) {
				return bf(&t.MaxFee)
			}
			if t := dec(tx); t != nil && !v3(tx) && !t.Version.Is(0) {
				return bf(&t.MaxFee)
			}
			if t := dpa(tx); t != nil && !v3(tx) {
				return bf(&t.MaxFee)
			}
			return false
		}),
		mk("nonce", func(tx core.Transaction) bool {
			if t := inv(tx); t != nil && !t.Version.Is(0) {
				return bf(&t.Nonce)
			}
			if t := dec(tx); t != nil && !t.Version.Is(0) {
				return bf(&t.Nonce)
			}
			if t := dpa(tx); t != nil {
				return bf(&t.Nonce)
			}
			if t := l1h(tx); t != nil {
				return bf(&t.Nonce)
			}
			return false
		}),
		mk("class-hash", func(tx core.Transaction) bool {
			if t := dec(tx); t != nil && !t.Version.Is(0) {
				return bf(&t.ClassHash)
			}
			if t := dpa(tx); t != nil {
				return bf(&t.ClassHash)
			}
			return false
		}),
		mk("compiled-class-hash", func(tx core.Transaction) bool {
			if t := dec(tx); t != nil && (t.Version.Is(2) || t.Version.Is(3)) {
				return bf(&t.CompiledClassHash)
			}
			return false
		}),
		mk("salt", func(tx core.Transaction) bool {
			if t := dpa(tx); t != nil {
				return bf(&t.ContractAddressSalt)
			}
			return false
		}),
		mk("constructor-calldata", func(tx core.Transaction) bool {
			if t := dpa(tx); t != nil {
				return bs(&t.ConstructorCallData)
			}
			return false
		}),
		mk("tip", func(tx core.Transaction) bool {
			if !v3(tx) {
				return false
			}
			switch t := tx.(type) {
			case *core.InvokeTransaction:
				t.Tip++
			case *core.DeclareTransaction:
				t.Tip++
			case *core.DeployAccountTransaction:
				t.Tip++
			}
			return true
		}),
		mk("paymaster-data", func(tx core.Transaction) bool {
			if !v3(tx) {
				return false
			}
			switch t := tx.(type) {
			case *core.InvokeTransaction:
				return bs(&t.PaymasterData)
			case *core.DeclareTransaction:
				return bs(&t.PaymasterData)
			case *core.DeployAccountTransaction:
				return bs(&t.PaymasterData)
			}
			return false
		}),
		mk("account-deployment-data", func(tx core.Transaction) bool {
			if !v3(tx) {
				return false
			}
			switch t := tx.(type) {
			case *core.InvokeTransaction:
				return bs(&t.AccountDeploymentData)
			case *core.DeclareTransaction:
				return bs(&t.AccountDeploymentData)
			}
			return false
		}),
		mk("proof-facts", func(tx core.Transaction) bool {
			if t := inv(tx); t != nil && len(t.ProofFacts) > 0 {
				return bs(&t.ProofFacts)
			}
			return false
		}),
		mk("nonce-da-mode", func(tx core.Transaction) bool {
			if !v3(tx) {
				return false
			}
			switch t := tx.(type) {
			case *core.InvokeTransaction:
				t.NonceDAMode ^= 1
			case *core.DeclareTransaction:
				t.NonceDAMode ^= 1
			case *core.DeployAccountTransaction:
				t.NonceDAMode ^= 1
			}
			return true
		}),
		mk("fee-da-mode", func(tx core.Transaction) bool {
			if !v3(tx) {
				return false
			}
			switch t := tx.(type) {
			case *core.InvokeTransaction:
				t.FeeDAMode ^= 1
			case *core.DeclareTransaction:
				t.FeeDAMode ^= 1
			case *core.DeployAccountTransaction:
				t.FeeDAMode ^= 1
			}
			return true
		}),
	}
	for _, res := range []core.Resource{core.ResourceL1Gas, core.ResourceL2Gas, core.ResourceL1DataGas} {
		for _, price := range []bool{false, true} {
			res, price := res, price
			out = append(out, mk(fmt.Sprintf("bound-%s-%v", res.String(), map[bool]string{false: "amount", true: "price"}[price]), func(tx core.Transaction) bool {
				if !v3(tx) {
					return false
				}
				switch t := tx.(type) {
				case *core.InvokeTransaction:
					return rb(t.ResourceBounds, res, price)
				case *core.DeclareTransaction:
					return rb(t.ResourceBounds, res, price)
				case *core.DeployAccountTransaction:
					return rb(t.ResourceBounds, res, price)
				}
				return false
			}))
		}
	}
	return out
}

func receiptTampers(idx int) []tamper {
	mk := func(name string, f func(r *core.TransactionReceipt, e *chain.Entry) bool) tamper {
		return tamper{fmt.Sprintf("receipt[%d].%s", idx, name), func(e *chain.Entry) bool {
			if idx >= len(e.Block.Receipts) {
				return false
			}
			return f(e.Block.Receipts[idx], e)
		}, false, false}
	}
	return []tamper{
		mk("tx-hash", func(r *core.TransactionReceipt, _ *chain.Entry) bool {
			r.TransactionHash = bump(r.TransactionHash)
			return true
		}),
		mk("fee", func(r *core.TransactionReceipt, _ *chain.Entry) bool { r.Fee = bump(r.Fee); return true }),
		mk("reverted-flag", func(r *core.TransactionReceipt, _ *chain.Entry) bool {
			r.Reverted = !r.Reverted
			if r.Reverted {
				r.RevertReason = "x"
			}
			return true
		}),
		mk("reverted-flag-only", func(r *core.TransactionReceipt, _ *chain.Entry) bool {
			// the execution status alone (reason left as it is, possibly empty)
			r.Reverted = !r.Reverted
			return true
		}),
		mk("revert-reason-cleared", func(r *core.TransactionReceipt, _ *chain.Entry) bool {
			if !r.Reverted || r.RevertReason == "" {
				return false
			}
			r.RevertReason = ""
			return true
		}),
		mk("revert-reason", func(r *core.TransactionReceipt, _ *chain.Entry) bool {
			if !r.Reverted {
				return false
			}
			r.RevertReason += "!"
			return true
		}),
		mk("l1-gas-consumed", func(r *core.TransactionReceipt, _ *chain.Entry) bool {
			g := *r.ExecutionResources.TotalGasConsumed
			g.L1Gas++
			r.ExecutionResources.TotalGasConsumed = &g
			return true
		}),
		mk("l1-data-gas-consumed", func(r *core.TransactionReceipt, _ *chain.Entry) bool {
			g := *r.ExecutionResources.TotalGasConsumed
			g.L1DataGas++
			r.ExecutionResources.TotalGasConsumed = &g
			return true
		}),
		mk("event-from", func(r *core.TransactionReceipt, _ *chain.Entry) bool {
			if len(r.Events) == 0 {
				return false
			}
			ev := *r.Events[0]
			ev.From = bump(ev.From)
			r.Events[0] = &ev
			return true
		}),
		mk("event-key", func(r *core.TransactionReceipt, _ *chain.Entry) bool {
			if len(r.Events) == 0 || len(r.Events[0].Keys) == 0 {
				return false
			}
			ev := *r.Events[0]
			ev.Keys = append([]felt.Felt{}, ev.Keys...)
			ev.Keys[0] = *bump(&ev.Keys[0])
			r.Events[0] = &ev
			return true
		}),
		mk("event-key-moved-to-data", func(r *core.TransactionReceipt, _ *chain.Entry) bool {
			if len(r.Events) == 0 || len(r.Events[0].Keys) == 0 {
				return false
			}
			ev := *r.Events[0]
			n := len(ev.Keys)
			ev.Data = append([]felt.Felt{ev.Keys[n-1]}, ev.Data...)
			ev.Keys = append([]felt.Felt{}, ev.Keys[:n-1]...)
			r.Events[0] = &ev
			return true
		}),
		mk("event-data", func(r *core.TransactionReceipt, _ *chain.Entry) bool {
			if len(r.Events) == 0 {
				return false
			}
			ev := *r.Events[0]
			ev.Data = append(append([]felt.Felt{}, ev.Data...), chain.FV(9))
			r.Events[0] = &ev
			return true
		}),
		mk("event-added", func(r *core.TransactionReceipt, e *chain.Entry) bool {
			r.Events = append(append([]*core.Event{}, r.Events...), &core.Event{From: &chain.AddrA, Keys: []felt.Felt{chain.Key1}, Data: []felt.Felt{}})
			return true
		}),
		mk("event-added+count", func(r *core.TransactionReceipt, e *chain.Entry) bool {
			r.Events = append(append([]*core.Event{}, r.Events...), &core.Event{From: &chain.AddrA, Keys: []felt.Felt{chain.Key1}, Data: []felt.Felt{}})
			e.Block.EventCount++
			return true
		}),
		mk("event-dropped+count", func(r *core.TransactionReceipt, e *chain.Entry) bool {
			if len(r.Events) == 0 {
				return false
			}
			r.Events = r.Events[:len(r.Events)-1]
			e.Block.EventCount--
			return true
		}),
		mk("events-reordered", func(r *core.TransactionReceipt, _ *chain.Entry) bool {
			if len(r.Events) < 2 || chain.Dump(r.Events[0]) == chain.Dump(r.Events[1]) {
				return false // swapping two identical events changes nothing
			}
			ev := append([]*core.Event{}, r.Events...)
			ev[0], ev[1] = ev[1], ev[0]
			r.Events = ev
			return true
		}),
		mk("event-moved-to-other-tx", func(r *core.TransactionReceipt, e *chain.Entry) bool {
			if len(r.Events) == 0 || len(e.Block.Receipts) < 2 {
				return false
			}
			o := e.Block.Receipts[(idx+1)%len(e.Block.Receipts)]
			o.Events = append(append([]*core.Event{}, o.Events...), r.Events[len(r.Events)-1])
			r.Events = r.Events[:len(r.Events)-1]
			return true
		}),
		mk("message-to", func(r *core.TransactionReceipt, _ *chain.Entry) bool {
			if len(r.L2ToL1Message) == 0 {
				return false
			}
			m := *r.L2ToL1Message[0]
			m.To[0] ^= 1
			r.L2ToL1Message[0] = &m
			return true
		}),
		mk("message-from", func(r *core.TransactionReceipt, _ *chain.Entry) bool {
			if len(r.L2ToL1Message) == 0 {
				return false
			}
			m := *r.L2ToL1Message[0]
			m.From = bump(m.From)
			r.L2ToL1Message[0] = &m
			return true
		}),
		mk("message-payload", func(r *core.TransactionReceipt, _ *chain.Entry) bool {
			if len(r.L2ToL1Message) == 0 {
				return false
			}
			m := *r.L2ToL1Message[0]
			m.Payload = append(append([]felt.Felt{}, m.Payload...), chain.FV(1))
			r.L2ToL1Message[0] = &m
			return true
		}),
		mk("message-dropped", func(r *core.TransactionReceipt, _ *chain.Entry) bool {
			if len(r.L2ToL1Message) == 0 {
				return false
			}
			r.L2ToL1Message = r.L2ToL1Message[:len(r.L2ToL1Message)-1]
			return true
		}),
		mk("message-added", func(r *core.TransactionReceipt, _ *chain.Entry) bool {
			r.L2ToL1Message = append(append([]*core.L2ToL1Message{}, r.L2ToL1Message...), &core.L2ToL1Message{From: &chain.AddrB, Payload: []felt.Felt{}})
			return true
		}),
	}
}

func diffTampers() []tamper {
	cp := func(e *chain.Entry) *core.StateDiff {
		// e.Fresh() shares the spec's diff object: copy before mutating
		d := core.EmptyStateDiff()
		o := e.SU.StateDiff
		for a, m := range o.StorageDiffs {
			d.StorageDiffs[a] = map[felt.Felt]*felt.Felt{}
			for k, v := range m {
				d.StorageDiffs[a][k] = v
			}
		}
		for a, v := range o.Nonces {
			d.Nonces[a] = v
		}
		for a, v := range o.DeployedContracts {
			d.DeployedContracts[a] = v
		}
		for a, v := range o.ReplacedClasses {
			d.ReplacedClasses[a] = v
		}
		for a, v := range o.DeclaredV1Classes {
			d.DeclaredV1Classes[a] = v
		}
		d.DeclaredV0Classes = append([]*felt.Felt{}, o.DeclaredV0Classes...)
		if o.MigratedClasses != nil {
			d.MigratedClasses = map[felt.SierraClassHash]felt.CasmClassHash{}
			for a, v := range o.MigratedClasses {
				d.MigratedClasses[a] = v
			}
		}
		e.SU.StateDiff = &d
		return &d
	}
	firstAddr := func(m map[felt.Felt]*felt.Felt) (felt.Felt, bool) {
		var best felt.Felt
		found := false
		for a := range m {
			if !found || a.Cmp(&best) < 0 {
				best, found = a, true
			}
		}
		return best, found
	}
	return []tamper{
		{"diff.storage-value", func(e *chain.Entry) bool {
			d := cp(e)
			for a, m := range d.StorageDiffs {
				for k, v := range m {
					d.StorageDiffs[a][k] = bump(v)
					return true
				}
			}
			return false
		}, true, false},
		{"diff.storage-entry-added", func(e *chain.Entry) bool {
			d := cp(e)
			for a := range d.StorageDiffs {
				d.StorageDiffs[a][chain.FV(0x777)] = chain.F(1)
				return true
			}
			if _, ok := e.State.Contracts[chain.AddrA]; ok {
				d.StorageDiffs[chain.AddrA] = map[felt.Felt]*felt.Felt{chain.FV(0x777): chain.F(1)}
				return true
			}
			return false
		}, true, false},
		{"diff.storage-entry-removed", func(e *chain.Entry) bool {
			d := cp(e)
			for a, m := range d.StorageDiffs {
				for k, v := range m {
					if v.IsZero() {
						continue // removing a no-op write changes only the diff hash/length, covered below
					}
					delete(m, k)
					if len(m) == 0 {
						delete(d.StorageDiffs, a)
					}
					return true
				}
			}
			return false
		}, true, false},
		{"diff.noop-zero-write-removed", func(e *chain.Entry) bool {
			d := cp(e)
			for a, m := range d.StorageDiffs {
				for k, v := range m {
					if v.IsZero() {
						if c, ok := e.State.Contracts[a]; ok {
							if _, set := c.Storage[k]; set {
								continue
							}
						}
						delete(m, k)
						if len(m) == 0 {
							delete(d.StorageDiffs, a)
						}
						return true
					}
				}
			}
			return false
		}, false, false}, // same resulting state: only the committed diff hash / length distinguishes it
		{"diff.empty-storage-entry-added", func(e *chain.Entry) bool {
			// an entry without slots for an existing contract: legal on the wire, changes no state, but it is part of the
			// committed state diff (contract count and [address, 0] element)
			d := cp(e)
			for _, a := range []felt.Felt{chain.AddrA, chain.AddrB, chain.AddrC} {
				if _, ok := e.State.Contracts[a]; !ok {
					continue
				}
				if _, has := d.StorageDiffs[a]; has {
					continue
				}
				d.StorageDiffs[a] = map[felt.Felt]*felt.Felt{}
				return true
			}
			return false
		}, false, false},
		{"diff.nonce-value", func(e *chain.Entry) bool {
			d := cp(e)
			if a, ok := firstAddr(d.Nonces); ok {
				d.Nonces[a] = bump(d.Nonces[a])
				return true
			}
			return false
		}, true, false},
		{"diff.nonce-removed", func(e *chain.Entry) bool {
			d := cp(e)
			if a, ok := firstAddr(d.Nonces); ok {
				delete(d.Nonces, a)
				return true
			}
			return false
		}, true, false},
		{"diff.nonce-added", func(e *chain.Entry) bool {
			d := cp(e)
			for _, a := range []felt.Felt{chain.AddrA, chain.AddrB} {
				if _, dep := e.State.Contracts[a]; dep {
					if _, has := d.Nonces[a]; !has {
						d.Nonces[a] = chain.F(0x4444)
						return true
					}
				}
			}
			return false
		}, true, false},
		{"diff.deployed-class", func(e *chain.Entry) bool {
			d := cp(e)
			if a, ok := firstAddr(d.DeployedContracts); ok {
				d.DeployedContracts[a] = bump(d.DeployedContracts[a])
				return true
			}
			return false
		}, true, false},
		{"diff.deployed-removed", func(e *chain.Entry) bool {
			d := cp(e)
			if a, ok := firstAddr(d.DeployedContracts); ok {
				delete(d.DeployedContracts, a)
				delete(d.StorageDiffs, a)
				delete(d.Nonces, a)
				return true
			}
			return false
		}, true, false},
		{"diff.deployed-added", func(e *chain.Entry) bool {
			d := cp(e)
			_, h0 := chain.Cairo0(0)
			d.DeployedContracts[chain.FV(0xFEED)] = &h0
			return true
		}, true, false},
		{"diff.deployed-moved-to-replaced", func(e *chain.Entry) bool {
			d := cp(e)
			if a, ok := firstAddr(d.DeployedContracts); ok {
				d.ReplacedClasses[a] = d.DeployedContracts[a]
				delete(d.DeployedContracts, a)
				return true
			}
			return false
		}, true, false},
		{"diff.replaced-class", func(e *chain.Entry) bool {
			d := cp(e)
			if a, ok := firstAddr(d.ReplacedClasses); ok {
				d.ReplacedClasses[a] = bump(d.ReplacedClasses[a])
				return true
			}
			return false
		}, true, false},
		{"diff.replaced-removed", func(e *chain.Entry) bool {
			d := cp(e)
			if a, ok := firstAddr(d.ReplacedClasses); ok {
				delete(d.ReplacedClasses, a)
				return true
			}
			return false
		}, true, false},
		{"diff.declared-v1-casm", func(e *chain.Entry) bool {
			d := cp(e)
			if a, ok := firstAddr(d.DeclaredV1Classes); ok {
				d.DeclaredV1Classes[a] = bump(d.DeclaredV1Classes[a])
				return true
			}
			return false
		}, true, false},
		{"diff.declared-v1-removed", func(e *chain.Entry) bool {
			d := cp(e)
			if a, ok := firstAddr(d.DeclaredV1Classes); ok {
				delete(d.DeclaredV1Classes, a)
				return true
			}
			return false
		}, true, false},
		{"diff.declared-v0-removed", func(e *chain.Entry) bool {
			d := cp(e)
			if len(d.DeclaredV0Classes) == 0 {
				return false
			}
			d.DeclaredV0Classes = d.DeclaredV0Classes[1:]
			return true
		}, false, false}, // cairo-0 declarations are not in the state commitment: only the diff hash commits them
		{"diff.declared-v0-added", func(e *chain.Entry) bool {
			d := cp(e)
			d.DeclaredV0Classes = append(d.DeclaredV0Classes, chain.F(0xC0FFEE))
			return true
		}, false, false},
		{"diff.migrated-casm", func(e *chain.Entry) bool {
			d := cp(e)
			for k, v := range d.MigratedClasses {
				f := felt.Felt(v)
				d.MigratedClasses[k] = felt.CasmClassHash(*bump(&f))
				return true
			}
			return false
		}, true, false},
		{"diff.migrated-removed", func(e *chain.Entry) bool {
			d := cp(e)
			for k := range d.MigratedClasses {
				delete(d.MigratedClasses, k)
				return true
			}
			return false
		}, true, false},
		{"classes.sierra-definition-changed", func(e *chain.Entry) bool {
			for h, c := range e.Classes {
				if sc, ok := c.(*core.SierraClass); ok {
					cp := *sc
					cp.ProgramHash = bump(cp.ProgramHash)
					m := map[felt.Felt]core.ClassDefinition{}
					for k, v := range e.Classes {
						m[k] = v
					}
					m[h] = &cp
					e.Classes = m
					return true
				}
			}
			return false
		}, true, false},
		{"classes.sierra-definition-missing", func(e *chain.Entry) bool {
			for h, c := range e.Classes {
				if _, ok := c.(*core.SierraClass); ok {
					m := map[felt.Felt]core.ClassDefinition{}
					for k, v := range e.Classes {
						if k != h {
							m[k] = v
						}
					}
					e.Classes = m
					return true
				}
			}
			return false
		}, true, false},
	}
}

// ---- chains under test -----------------------------------------------------------------------

func buildChain(version string) []*chain.Entry {
	mig := version == "0.14.1"
	var out []*chain.Entry
	add := func(spec chain.BlockSpec) {
		var p *chain.Entry
		if len(out) > 0 {
			p = out[len(out)-1]
		}
		e, err := chain.Build(p, spec)
		if err != nil {
			panic(err)
		}
		out = append(out, e)
	}
	c0, h0 := chain.Cairo0(0)
	s1, sh1, c1v1, c1v2 := chain.Sierra(1)
	s2, sh2, c2v1, c2v2 := chain.Sierra(2)
	casm1, casm2 := c1v1, c2v1
	firstVersion := version
	if mig {
		firstVersion = "0.14.0" // declare under V1 hashing first so that block 2 can migrate
	}
	if chainGE(firstVersion, "0.14.1") {
		casm1, casm2 = c1v2, c2v2
	}
	evA := chain.EvSpec{From: chain.AddrA, Keys: []felt.Felt{chain.Key1, chain.Key2}, Data: []felt.Felt{chain.FV(1)}}
	evB := chain.EvSpec{From: chain.AddrB, Keys: []felt.Felt{chain.Key2}, Data: []felt.Felt{chain.FV(2), chain.FV(3)}}
	tx := func(kind string, salt uint64, evs []chain.EvSpec, msgs int, rev bool) chain.TxSpec {
		return chain.TxSpec{Kind: kind, Salt: salt, Events: evs, Msgs: msgs, Reverted: rev}
	}
	d0 := core.EmptyStateDiff()
	d0.DeclaredV0Classes = []*felt.Felt{&h0}
	d0.DeclaredV1Classes[sh1] = &casm1
	d0.DeployedContracts[chain.AddrA] = &h0
	d0.DeployedContracts[chain.AddrB] = &sh1
	d0.StorageDiffs[chain.AddrA] = map[felt.Felt]*felt.Felt{chain.Slot0: chain.F(5), chain.Slot1: chain.F(0)}
	d0.Nonces[chain.AddrA] = chain.F(1)
	add(chain.BlockSpec{Version: firstVersion, Timestamp: 1000, Diff: &d0, Classes: map[felt.Felt]core.ClassDefinition{h0: c0, sh1: s1},
		Txs: []chain.TxSpec{tx("invoke0", 1, []chain.EvSpec{evA, evB}, 1, false), tx("invoke1", 2, nil, 0, true), tx("declare0", 3, nil, 0, false),
			tx("declare2", 4, []chain.EvSpec{evB}, 2, false), tx("deploy0", 5, nil, 0, false), tx("deployacc1", 6, []chain.EvSpec{evA}, 0, false)}})
	d1 := core.EmptyStateDiff()
	d1.StorageDiffs[chain.AddrA] = map[felt.Felt]*felt.Felt{chain.Slot0: chain.F(0), chain.Slot1: chain.F(7)}
	d1.StorageDiffs[chain.Sys1] = map[felt.Felt]*felt.Felt{chain.FV(1): chain.F(0xB10C)}
	d1.Nonces[chain.AddrA] = chain.F(2)
	d1.Nonces[chain.AddrB] = chain.F(1)
	d1.ReplacedClasses[chain.AddrA] = &sh1
	add(chain.BlockSpec{Version: firstVersion, Timestamp: 1010, Diff: &d1, Blob: true,
		Txs: []chain.TxSpec{tx("invoke3", 7, []chain.EvSpec{evA}, 1, false), tx("declare1", 8, nil, 0, false), tx("declare3", 9, []chain.EvSpec{evB, evA}, 0, true),
			tx("deployacc3", 10, nil, 1, false), tx("l1handler0", 11, []chain.EvSpec{evB}, 0, false), tx("invoke3proof", 12, nil, 0, false)}})
	d2 := core.EmptyStateDiff()
	d2.DeclaredV1Classes[sh2] = &casm2
	d2.DeployedContracts[chain.AddrC] = &sh2
	d2.StorageDiffs[chain.AddrC] = map[felt.Felt]*felt.Felt{chain.Slot0: chain.F(3)}
	d2.StorageDiffs[chain.Sys2] = map[felt.Felt]*felt.Felt{chain.FV(7): chain.F(1)}
	if mig {
		d2 = core.EmptyStateDiff()
		d2.MigratedClasses = map[felt.SierraClassHash]felt.CasmClassHash{felt.SierraClassHash(sh1): felt.CasmClassHash(c1v2)}
		d2.DeclaredV1Classes[sh2] = &c2v2
		d2.StorageDiffs[chain.AddrA] = map[felt.Felt]*felt.Felt{chain.Slot0: chain.F(4)}
	}
	add(chain.BlockSpec{Version: version, Timestamp: 1020, Diff: &d2, Classes: map[felt.Felt]core.ClassDefinition{sh2: s2},
		Txs: []chain.TxSpec{tx("invoke3", 13, []chain.EvSpec{evB}, 0, false)}})
	d3 := core.EmptyStateDiff()
	add(chain.BlockSpec{Version: version, Timestamp: 1030, Diff: &d3, Txs: []chain.TxSpec{tx("invoke1", 14, []chain.EvSpec{evA, evA}, 0, false), tx("l1handler0", 15, nil, 1, true)}})
	d4 := core.EmptyStateDiff()
	add(chain.BlockSpec{Version: version, Timestamp: 1040, Diff: &d4}) // empty block
	return out
}

func rehashTxs(e *chain.Entry) {
	for i, tx := range e.Block.Transactions {
		h, err := core.TransactionHash(tx, chain.Net)
		if err != nil {
			continue
		}
		switch t := tx.(type) {
		case *core.InvokeTransaction:
			t.TransactionHash = &h
		case *core.DeclareTransaction:
			if !t.Version.Is(0) {
				t.TransactionHash = &h
			}
		case *core.DeployAccountTransaction:
			t.TransactionHash = &h
		case *core.L1HandlerTransaction:
			t.TransactionHash = &h
		}
		if i < len(e.Block.Receipts) {
			e.Block.Receipts[i].TransactionHash = tx.Hash()
		}
	}
}

func rehashBlock(e *chain.Entry) bool {
	if len(e.Block.Transactions) != len(e.Block.Receipts) {
		return false
	}
	e.Block.EventsBloom = core.EventsBloom(e.Block.Receipts)
	h, _, err := core.BlockHash(e.Block, e.SU.StateDiff, chain.Net, nil, core.TrieBackend)
	if err != nil {
		return false
	}
	e.Block.Hash = &h
	e.SU.BlockHash = &h
	return true
}

func TestCheck(t *testing.T) {
	r0 := time.Now()
	r := ev.Start("C02", "exploration")
	versions := ev.Pick(r, []string{"0.13.2", "0.14.0", "0.14.1"}, []string{"0.13.2", "0.13.4", "0.14.0", "0.14.1"})
	var tampers []tamper
	tampers = append(tampers, headerTampers()...)
	tampers = append(tampers, listTampers()...)
	for i := 0; i < 6; i++ {
		tampers = append(tampers, txTampers(i)...)
		tampers = append(tampers, receiptTampers(i)...)
	}
	tampers = append(tampers, diffTampers()...)
	r.Set("catalogue_size", int64(len(tampers)))
	type job struct {
		version  string
		newState bool
		pos      int
		tm       tamper
		level    string
	}
	var jobs []job
	chains := map[string][]*chain.Entry{}
	for _, v := range versions {
		chains[v] = buildChain(v)
		for _, ns := range []bool{false, true} {
			for pos := range chains[v] {
				for _, tm := range tampers {
					jobs = append(jobs, job{v, ns, pos, tm, "raw"})
					if tm.txLevel {
						jobs = append(jobs, job{v, ns, pos, tm, "tx-rehashed"})
					}
					if tm.rehash {
						jobs = append(jobs, job{v, ns, pos, tm, "block-rehashed"})
					}
				}
			}
		}
	}
	// base images: node with blocks < pos stored, per (version, backend)
	type baseKey struct {
		v   string
		ns  bool
		pos int
	}
	bases := map[baseKey]*memory.Database{}
	for _, v := range versions {
		for _, ns := range []bool{false, true} {
			d := memory.New()
			bc := chain.NewNode(d, ns)
			for pos, e := range chains[v] {
				bases[baseKey{v, ns, pos}] = d.Copy()
				var p *chain.Entry
				if pos > 0 {
					p = chains[v][pos-1]
				}
				if err := chain.StoreSync(bc, e.Fresh(p)); err != nil {
					r.Infra("base chain %s block %d: %v", v, pos, err)
				}
			}
		}
	}
	var mu sync.Mutex
	distinct := map[string]bool{}
	applicable := map[string]bool{}
	// part L (long blocks x GOMAXPROCS) switches the process-wide parallelism: it runs alone, before anything else
	// part N (network configurations) is cheap and runs first of all, so that it is never cut by the time budget
	part := os.Getenv("VERIF_C02_PART") // development aid: N | L | I = that part only
	// (it does not consult the deadline; the budget of the other parts is installed afterwards and extended by the time
	// part N took - at most 90 s - so that under load it does not eat their share)
	tN := time.Now()
	if part == "" || part == "N" {
		runNetConfigs(t, r, tampers, chains, distinct, &mu)
	}
	r.Set("netcfg_part_seconds", int64(time.Since(tN).Seconds()))
	r.SetBudget(ev.Pick(r, 200, 2400) + int(min(time.Since(r0), 90*time.Second).Seconds()))
	if part == "" || part == "L" {
		runLongBlocks(r, distinct, &mu)
	}
	if part != "" {
		jobs = nil
		r.Incomplete("VERIF_C02_PART=" + part + ": only that part ran")
	}
	ev.Par(len(jobs), 14, func(ji int) {
		if r.OutOfTime() {
			r.Incomplete("tamper jobs")
			return
		}
		j := jobs[ji]
		ch := chains[j.version]
		var parent *chain.Entry
		if j.pos > 0 {
			parent = ch[j.pos-1]
		}
		e := ch[j.pos].Fresh(parent)
		e.State = parent2state(parent)
		if !j.tm.apply(e) {
			return
		}
		switch j.level {
		case "tx-rehashed":
			rehashTxs(e)
		case "block-rehashed":
			rehashTxs(e)
			if !rehashBlock(e) {
				return
			}
		}
		base := bases[baseKey{j.version, j.newState, j.pos}]
		d := base.Copy()
		bc := chain.NewNode(d, j.newState)
		if j.pos > 0 { // make the in-memory event filter live before the attempt
			if ef, err := bc.EventFilter(nil, nil, nil); err == nil {
				ef.Events(nil, 10)
				ef.Close()
			}
		}
		before := chain.ImageHash(d)
		label := fmt.Sprintf("%s%s", j.version, backendName(j.newState))
		detail := map[string]any{"version": j.version, "new_state": j.newState, "position": j.pos, "tamper": j.tm.name, "level": j.level}
		var err error
		pan, pm := ev.Guard(func() { err = chain.StoreSync(bc, e) })
		r.Add("evaluations", 1)
		mu.Lock()
		distinct[fmt.Sprintf("%s/%d/%s/%s", j.version, j.pos, j.tm.name, j.level)] = true
		applicable[j.tm.name] = true
		mu.Unlock()
		cls := tamperClass(j.tm.name)
		if pan {
			r.Violate(fmt.Sprintf("tampered-block-panics %s level=%s", cls, j.level), map[string]any{"case": detail, "panic": pm})
			return
		}
		if err == nil {
			r.Outcome("ACCEPTED")
			r.Violate(fmt.Sprintf("tampered-block-accepted %s level=%s %s", cls, j.level, label), detail)
			return
		}
		r.Outcome("rejected")
		if chain.ImageHash(d) != before {
			r.Violate(fmt.Sprintf("rejected-block-changed-the-store %s level=%s %s", cls, j.level, label), map[string]any{"case": detail, "diff": chain.DiffImages(chain.Image(base), chain.Image(d))})
			return
		}
		// the SAME node object must still accept the genuine block and end up identical to the never-tampered twin
		if err := chain.StoreSync(bc, ch[j.pos].Fresh(parent)); err != nil {
			r.Violate(fmt.Sprintf("genuine-block-refused-after-rejection %s level=%s %s", cls, j.level, label), map[string]any{"case": detail, "err": err.Error()})
			return
		}
		if j.pos+1 < len(ch) {
			if chain.ImageHash(d) != chain.ImageHash(bases[baseKey{j.version, j.newState, j.pos + 1}]) {
				r.Violate(fmt.Sprintf("store-after-rejection-differs-from-twin %s level=%s %s", cls, j.level, label), detail)
				return
			}
		}
		// in-memory state (running event filter) must not remember the rejected block
		probe := &chain.Probe{}
		for i := 0; i <= j.pos; i++ {
			probe.AddEntry(ch[i])
		}
		twin := chain.NewNode(d.Copy(), j.newState)
		if diff := chain.DiffObs(chain.Observe(bc, probe, false), chain.Observe(twin, probe, false)); len(diff) > 0 {
			r.Violate(fmt.Sprintf("memory-differs-from-disk-after-rejection %s level=%s %s", cls, j.level, label), map[string]any{"case": detail, "differing": diff})
		}
	})
	if part == "" {
		runFixtures(t, r, tampers, distinct, &mu)
	}
	if part == "" || part == "I" {
		runIsolated(t, r, tampers)
	}
	r.Set("distinct_nontrivial", int64(len(distinct)))
	r.Set("catalogue_applicable", int64(len(applicable)))
	var na []string
	for _, tm := range tampers {
		if !applicable[tm.name] {
			na = append(na, tm.name)
		}
	}
	r.Set("catalogue_never_applicable", na)
	r.Set("rule", "cases = (protocol version, state backend, chain position 0..4, tamper of the frozen catalogue, consistency level raw | tx hash recomputed | tx hashes+commitments+block hash recomputed); a case counts when the tamper applies to that block (changes a committed field); every case must be rejected by SanityCheckNewHeight->Store, leave the KV image byte-identical, and the same node object must then store the genuine block and equal the never-tampered twin on disk and through the Reader API; part L (long blocks): cases = (GOMAXPROCS p of long_block_gomaxprocs_set, set with runtime.GOMAXPROCS and restored, (version, backend) pair, transaction count N of block 1 in 1..2p+3 and the larger counts listed in long_block_tx_counts, EVERY item index i<N, per-item tamper: a hashed transaction field keeping the declared hash | the declared hash | a signature element | receipt fee | message payload | event data [thorough: the whole per-item catalogue, also with the hash recomputed]); each must be rejected with the KV image byte-identical and the same node must then store the genuine N-transaction block; part N (network configurations): cases = (chain of netcfg_chains, custom network = the chain's own network with BlockHashMetaInfo replaced: unverifiable range nil or any pair [a,b] over {0..H, 2^63, 2^64-1} incl. a>b | First07Block | fallback sequencer address, chain position, representative tamper [thorough: whole catalogue], level); a case counts when the tamper applies; a block contradicting the node's state must be rejected under every configuration, any other tamper whenever the block number is outside the declared range (a<=n<=b), with the image byte-identical; the genuine block must then be stored")
	r.Sample(map[string]any{"version": versions[0], "position": 1, "tamper": "receipt[0].l1-data-gas-consumed", "level": "raw"})
	r.Sample(map[string]any{"version": versions[len(versions)-1], "position": 2, "tamper": "diff.migrated-casm", "level": "block-rehashed"})
	r.Sample(map[string]any{"catalogue": len(tampers), "jobs": len(jobs)})
	r.Assume = append(r.Assume, "part N varies only BlockHashMetaInfo of the chain's built-in network; unverifiable ranges have exactly two elements or are nil; tampered blocks inside a declared range are not judged unless they contradict the node's own state")
	r.Assume = append(r.Assume, "part L pairs each protocol version with one state backend (a per-item tamper is refused by SanityCheckNewHeight, before the backend is reached) and uses the transaction kinds whose hash juno recomputes (thorough adds the family with deploy v0 / declare v0 in the cycle); its transaction counts go up to 2*GOMAXPROCS+3 for the listed GOMAXPROCS values only")
	r.Assume = append(r.Assume, "catalogue of committed fields is hand-written from the protocol hash definitions (fields the protocol does not commit - events bloom, header signatures, L2 gas in receipts, VM resource counters, deploy v0 / declare v0 body fields - are deliberately absent)",
		"synthetic valid blocks come from mc/chain (roots from the independent reftrie); older formats are covered by the feeder fixture chains sepolia 0..6 (0.12.3) and mainnet 0..2 (pre-0.7) with the catalogue restricted to what those formats commit")
	r.Finish()
}

func parent2state(p *chain.Entry) *chain.State {
	if p == nil {
		return chain.NewState()
	}
	return p.State
}

func backendName(ns bool) string {
	if ns {
		return " [new-state]"
	}
	return " [legacy-state]"
}

// tamperClass removes the index so that keys name the field class, not the position.
func tamperClass(name string) string {
	out := []byte{}
	skip := false
	for i := 0; i < len(name); i++ {
		c := name[i]
		if c == '[' {
			skip = true
			continue
		}
		if c == ']' {
			skip = false
			continue
		}
		if !skip {
			out = append(out, c)
		}
	}
	return string(out)
}

var _ = blockchain.New
