package c02

// Part N - network configurations.
//
// Block verification is parameterised by the network: networks.BlockHashMetaInfo{UnverifiableRange, First07Block,
// FallBackSequencerAddress}. Every other part of this check runs on juno's built-in networks only, i.e. on three fixed
// points of that parameter space (no range / Goerli's / Integration's). A node can be started on a CUSTOM network
// (flags --cn-*, where a two-element --cn-unverifiable-range is mandatory, or a network built in code), so the
// configuration is an input of the property like the block itself. This part enumerates a grid of configurations around
// the heights of the chain under test:
//
//	for every chain (synthetic 0.13.2 / 0.14.1 [thorough: four formats x both backends], fixture chains sepolia-0.12.3 and
//	  mainnet-pre-0.7, both backends), H = number of blocks, V = {0..H, 2^63, 2^64-1}
//	  for every configuration = the chain's own network with only BlockHashMetaInfo replaced:
//	      range grid    : UnverifiableRange in {nil} + every pair [a,b] of V x V  (a<b, a=b AND a>b, the empty interval)
//	      first-0.7 grid: First07Block in {0..H, 2^64-1} x range in {nil,[1,0]}    (thorough: x the whole range grid)
//	      fallback grid : FallBackSequencerAddress in {nil, an unrelated address} x range in {nil,[1,0]} (thorough: ditto)
//	    one long-lived node on that network walks the chain; at every position
//	      for every tamper of a representative list (one per verification stage; thorough: the whole catalogue) and level
//	        reference model: block n is exempt from hash verification iff the range has two elements and a <= n <= b.
//	        - a tamper that contradicts the node's own state (number, parent, roots, state-diff content, class
//	          definitions) must be rejected under EVERY configuration, exempt or not;
//	        - any other tamper of a committed field must be rejected whenever the block is NOT exempt;
//	        - exempt blocks with such a tamper are not judged (juno skips the hash check there by design); the outcome
//	          histogram records that exemption was really observed.
//	        a rejection must leave the KV image byte-identical;
//	      then the same node must store the genuine block (whenever the configuration keeps the block in the hash regime it
//	      was produced under) and end up with the image / observations of the node that ran on the built-in network.
//
// Violations are grouped per (chain, shape of the range: none | first<=last | first>last): the key names the class,
// the detail lists the exact cases.

import (
	"fmt"
	"math"
	"os"
	"sort"
	"strings"
	"sync"
	"testing"
	"time"

	"verif/mc/chain"
	"verif/mc/ev"
	"verif/mc/poisondb"

	"github.com/NethermindEth/juno/blockchain"
	"github.com/NethermindEth/juno/blockchain/networks"
	"github.com/NethermindEth/juno/core"
	"github.com/NethermindEth/juno/core/felt"
	"github.com/NethermindEth/juno/db"
	"github.com/NethermindEth/juno/db/memory"
)

type ncConfig struct {
	Grid     string   `json:"grid"`
	UR       []uint64 `json:"unverifiable_range"` // nil = the network declares none
	F07      uint64   `json:"first_07_block"`
	Fallback string   `json:"fallback_sequencer_address"` // "own" | "nil" | "other"
}

// exempt is the reference model of "the network declares block n unverifiable" (both ends inclusive).
func (c ncConfig) exempt(n uint64) bool { return len(c.UR) == 2 && c.UR[0] <= n && n <= c.UR[1] }

func (c ncConfig) shape() string {
	switch {
	case c.UR == nil:
		return "no unverifiable range"
	case c.UR[0] <= c.UR[1]:
		return "range first<=last"
	default:
		return "range first>last (empty interval)"
	}
}

func (c ncConfig) String() string {
	ur := "nil"
	if c.UR != nil {
		ur = fmt.Sprintf("[%d,%d]", c.UR[0], c.UR[1])
	}
	return fmt.Sprintf("range=%s first07=%d fallback=%s", ur, c.F07, c.Fallback)
}

func (c ncConfig) network(base *networks.Network) *networks.Network {
	n := *base
	n.Name = "verif-custom-" + base.Name
	mi := &networks.BlockHashMetaInfo{First07Block: c.F07}
	if c.UR != nil {
		mi.UnverifiableRange = []uint64{c.UR[0], c.UR[1]}
	}
	switch c.Fallback {
	case "own":
		mi.FallBackSequencerAddress = base.BlockHashMetaInfo.FallBackSequencerAddress
	case "other":
		mi.FallBackSequencerAddress = new(felt.Felt).SetUint64(0xbadbadbad)
	}
	n.BlockHashMetaInfo = mi
	return &n
}

type ncChain struct {
	label            string
	base             *networks.Network
	newState         bool
	poison           bool
	genuine          []*chain.Entry // reference copies, never handed to juno
	states           []*chain.State // the state the diff tampers look at (state before the block)
	allows           func(class string) bool
	txHashesVerified bool
	fixture          bool
	refImages        []string // image hash after block i on the chain's own built-in network
	refDBs           []*memory.Database
}

func (c *ncChain) node(d *memory.Database, net *networks.Network) *blockchain.Blockchain {
	var kv db.KeyValueStore = d
	if c.poison && os.Getenv("VERIF_NO_POISON") == "" {
		kv = poisondb.Wrap(d)
	}
	return blockchain.New(kv, net, blockchain.WithNewState(c.newState))
}

func (c *ncChain) entry(pos int) *chain.Entry {
	e := cloneEntry(c.genuine[pos])
	e.State = c.states[pos]
	return e
}

// ncValues: V = {0..H, 2^63, 2^64-1}
func ncValues(h int) []uint64 {
	var v []uint64
	for i := 0; i <= h; i++ {
		v = append(v, uint64(i))
	}
	return append(v, 1<<63, math.MaxUint64)
}

func ncConfigs(r *ev.Run, h int, ownF07 uint64) []ncConfig {
	v := ncValues(h)
	ranges := [][]uint64{nil}
	for _, a := range v {
		for _, b := range v {
			ranges = append(ranges, []uint64{a, b})
		}
	}
	few := [][]uint64{nil, {1, 0}}
	var out []ncConfig
	for _, ur := range ranges {
		out = append(out, ncConfig{"range", ur, ownF07, "own"})
	}
	side := ev.Pick(r, few, ranges)
	for i := 0; i <= h+1; i++ {
		f := uint64(i)
		if i == h+1 {
			f = math.MaxUint64
		}
		if f == ownF07 {
			continue
		}
		for _, ur := range side {
			out = append(out, ncConfig{"first07", ur, f, "own"})
		}
	}
	for _, fb := range []string{"nil", "other"} {
		for _, ur := range side {
			out = append(out, ncConfig{"fallback", ur, ownF07, fb})
		}
	}
	return out
}

// representative tamper classes of the quick tier: one per verification stage.
// not state-contradicting (only the hash / transaction-hash / commitment checks can see them): a hashed header field, the
// declared block hash (consistently in header and state update), a hashed transaction field with the declared hash kept
// (transaction-hash recomputation), the declared transaction hash (transaction commitment), the fee (receipt commitment),
// event data (event commitment)
var ncQuickVerifyStage = []string{
	"header.timestamp", "header.tx-count", "header.hash+update.block-hash", "tx.calldata", "tx.hash+receipt-hash", "receipt.fee", "receipt.event-data",
}

// state-contradicting (must be rejected on every network): number, parent, root, diff content
var ncQuickStateStage = []string{
	"header.number+1", "header.parent-hash", "header.state-root+update.new-root", "diff.storage-value",
}

type ncCase struct {
	Chain    string   `json:"chain"`
	Config   ncConfig `json:"network_config"`
	Position int      `json:"position"`
	Exempt   bool     `json:"block_inside_declared_range"`
	Tamper   string   `json:"tamper"`
	Level    string   `json:"level"`
}

func ncRehashTxs(e *chain.Entry, net *networks.Network) {
	for i, tx := range e.Block.Transactions {
		h, err := core.TransactionHash(tx, net)
		if err != nil {
			continue
		}
		switch t := tx.(type) {
		case *core.InvokeTransaction:
			t.TransactionHash = &h
		case *core.DeclareTransaction:
			if !t.Version.Is(0) {
				t.TransactionHash = &h
			}
		case *core.DeployAccountTransaction:
			t.TransactionHash = &h
		case *core.L1HandlerTransaction:
			t.TransactionHash = &h
		}
		if i < len(e.Block.Receipts) {
			e.Block.Receipts[i].TransactionHash = tx.Hash()
		}
	}
}

func ncRehashBlock(e *chain.Entry, net *networks.Network) bool {
	if len(e.Block.Transactions) != len(e.Block.Receipts) {
		return false
	}
	e.Block.EventsBloom = core.EventsBloom(e.Block.Receipts)
	h, _, err := core.BlockHash(e.Block, e.SU.StateDiff, net, nil, core.TrieBackend)
	if err != nil {
		return false
	}
	e.Block.Hash = &h
	e.SU.BlockHash = &h
	return true
}

// ncCheckImage: after a run of rejected blocks the KV image must still be the one from before the first of them.
func ncCheckImage(r *ev.Run, c *ncChain, cfg ncConfig, d, base *memory.Database, before string, rejected []ncCase) {
	if len(rejected) == 0 || chain.ImageHash(d) == before {
		return
	}
	r.Violate(fmt.Sprintf("netcfg: rejected-block-changed-the-store [%s] %s", cfg.shape(), c.label),
		map[string]any{"rejected_cases_since_last_identical_image": rejected, "diff": chain.DiffImages(chain.Image(base), chain.Image(d))})
}

func runNetConfigs(t *testing.T, r *ev.Run, tampers []tamper, synth map[string][]*chain.Entry, distinct map[string]bool, dmu *sync.Mutex) {
	// ---- chains ------------------------------------------------------------------------------------
	var chains []*ncChain
	type sv struct {
		version  string
		newState bool
	}
	svs := ev.Pick(r, []sv{{"0.13.2", false}, {"0.14.1", true}},
		[]sv{{"0.13.2", false}, {"0.13.2", true}, {"0.13.4", false}, {"0.13.4", true}, {"0.14.0", false}, {"0.14.0", true}, {"0.14.1", false}, {"0.14.1", true}})
	for _, s := range svs {
		ch, ok := synth[s.version]
		if !ok {
			ch = buildChain(s.version)
		}
		c := &ncChain{label: s.version + backendName(s.newState), base: chain.Net, newState: s.newState, poison: true, genuine: ch,
			allows: func(string) bool { return true }, txHashesVerified: true}
		for pos := range ch {
			var p *chain.Entry
			if pos > 0 {
				p = ch[pos-1]
			}
			c.states = append(c.states, parent2state(p))
		}
		chains = append(chains, c)
	}
	// fixture chains (older formats); juno's test feeder looks for clients/feeder/testdata upwards from the cwd
	if wd, err := os.Getwd(); err == nil {
		defer os.Chdir(wd)
	}
	if err := os.Chdir(ev.Repo()); err != nil {
		r.Infra("chdir to the juno tree: %v", err)
	}
	for fi := range fixtureChains {
		f := &fixtureChains[fi]
		n := f.blocks
		if !r.Thorough() && n > 4 {
			n = 4 // quick: the first four blocks of the fixture chain
		}
		var gen []*chain.Entry
		var sts []*chain.State
		for i := 0; i < n; i++ {
			gen = append(gen, loadFixture(t, f, uint64(i)))
			sts = append(sts, chain.NewState())
		}
		// quick pairs each fixture chain with one backend (alternating), thorough runs both
		for _, ns := range ev.Pick(r, []bool{fi%2 == 1}, []bool{false, true}) {
			chains = append(chains, &ncChain{label: f.name + backendName(ns), base: f.net, newState: ns, genuine: gen, states: sts,
				allows: f.allows, txHashesVerified: f.txHashesVerified, fixture: true})
		}
	}
	// reference run of every chain on its own built-in network
	for _, c := range chains {
		d := memory.New()
		bc := c.node(d, c.base)
		for pos := range c.genuine {
			if err := chain.StoreSync(bc, c.entry(pos)); err != nil {
				r.Infra("network configurations: reference chain %s block %d: %v", c.label, pos, err)
			}
			c.refImages = append(c.refImages, chain.ImageHash(d))
			c.refDBs = append(c.refDBs, d.Copy())
		}
	}

	// ---- tamper cases per chain --------------------------------------------------------------------
	type tl struct {
		tm    tamper
		level string
	}
	byClass := map[string][]tamper{}
	for _, tm := range tampers {
		byClass[tamperClass(tm.name)] = append(byClass[tamperClass(tm.name)], tm)
	}
	// quick: per representative class the catalogue tampers of that class in index order; the first that applies to the
	// block is used ("first" marks the group). thorough: every tamper of the catalogue.
	type group struct {
		class  string
		levels []string
		tms    []tamper
	}
	groupsOf := func(c *ncChain, full bool) []group {
		var out []group
		add := func(class string, tms []tamper) {
			if !c.allows(class) || len(tms) == 0 {
				return
			}
			lv := []string{"raw"}
			if full && tms[0].txLevel && c.txHashesVerified {
				lv = append(lv, "tx-rehashed")
			}
			if tms[0].rehash && (full || class == "header.parent-hash" || class == "diff.storage-value") {
				// consistent re-hashing: quick keeps it for one linkage and one state-diff representative
				lv = append(lv, "block-rehashed")
			}
			out = append(out, group{class, lv, tms})
		}
		if full {
			for _, tm := range tampers {
				add(tamperClass(tm.name), []tamper{tm})
			}
			return out
		}
		for _, cl := range append(append([]string{}, ncQuickVerifyStage...), ncQuickStateStage...) {
			add(cl, byClass[cl])
		}
		return out
	}

	// ---- jobs: (chain, configuration) --------------------------------------------------------------
	type job struct {
		c   *ncChain
		cfg ncConfig
	}
	var jobs []job
	nConfigs := map[string]int64{}
	for _, c := range chains {
		for _, cfg := range ncConfigs(r, len(c.genuine), c.base.BlockHashMetaInfo.First07Block) {
			jobs = append(jobs, job{c, cfg})
			nConfigs[cfg.Grid]++
		}
	}
	type vgroup struct{ cases []ncCase }
	var vmu sync.Mutex
	viol := map[string]*vgroup{}
	report := func(key string, cs ncCase) {
		vmu.Lock()
		defer vmu.Unlock()
		g := viol[key]
		if g == nil {
			g = &vgroup{}
			viol[key] = g
		}
		g.cases = append(g.cases, cs)
	}
	var cases, outside, insideState, insideNotJudged, genuineStores, notInRegime int64
	var cmu sync.Mutex
	count := func(p *int64) { cmu.Lock(); *p++; cmu.Unlock() }

	// quick: never cut (this part runs first and is cheap); thorough: its own share of the budget
	limit := time.Now().Add(time.Duration(ev.Pick(r, 3600, 900)) * time.Second)
	ev.Par(len(jobs), 14, func(ji int) {
		if time.Now().After(limit) {
			r.Incomplete("network configuration jobs")
			return
		}
		j := jobs[ji]
		c, cfg := j.c, j.cfg
		net := cfg.network(c.base)
		full := r.Thorough() && cfg.Grid == "range"
		groups := groupsOf(c, full)
		d := memory.New()
		bc := c.node(d, net)
		for pos := range c.genuine {
			// does the configuration keep this block in the hash regime it was produced under? (only blocks older than
			// 0.13.2 depend on First07Block; the sequencer address of every block used here is in its header)
			n := uint64(pos)
			inRegime := !c.fixture || (n < cfg.F07) == (n < c.base.BlockHashMetaInfo.First07Block)
			if !inRegime {
				count(&notInRegime)
				r.Outcome("netcfg: genuine block is not a block of this configuration's hash regime (chain walk stops, not judged)")
				return
			}
			base := d.Copy()
			before := chain.ImageHash(d)
			var spare *chain.Entry
			var rejected []ncCase // rejections since the node was last (re)built from the image `before`
			for _, g := range groups {
				for _, level := range g.levels {
					for _, tm := range g.tms {
						if spare == nil {
							spare = c.entry(pos)
						}
						var dump string
						if c.fixture {
							dump = chain.Dump([]any{spare.Block, spare.SU})
						}
						ok := false
						if pan, _ := ev.Guard(func() { ok = tm.apply(spare) }); pan {
							spare = nil
							continue
						}
						if !ok {
							continue
						}
						e := spare
						spare = nil
						if c.fixture && chain.Dump([]any{e.Block, e.SU}) == dump {
							continue // no committed field changed
						}
						wellFormed := true
						if pan, _ := ev.Guard(func() {
							switch level {
							case "tx-rehashed":
								ncRehashTxs(e, net)
							case "block-rehashed":
								if c.txHashesVerified {
									ncRehashTxs(e, net)
								}
								wellFormed = ncRehashBlock(e, net)
							}
						}); pan || !wellFormed {
							continue // not a block anyone could send
						}
						exempt := cfg.exempt(e.Block.Number)
						cs := ncCase{c.label, cfg, pos, exempt, tm.name, level}
						// the rejections so far must have left the store byte-identical: checked before every attempt that the
						// configuration allows to succeed (an exempt block) and once before the genuine block is stored
						if exempt && !tm.rehash {
							ncCheckImage(r, c, cfg, d, base, before, rejected)
							rejected = nil
						}
						var err error
						pan, pm := ev.Guard(func() { err = chain.StoreSync(bc, e) })
						r.Add("evaluations", 1)
						count(&cases)
						dmu.Lock()
						distinct[fmt.Sprintf("netcfg/%s/%s/%d/%s/%s", c.label, cfg, pos, tm.name, level)] = true
						dmu.Unlock()
						reset := func() {
							d = base.Copy()
							bc = c.node(d, net)
							rejected = nil
						}
						switch {
						case tm.rehash && exempt:
							count(&insideState)
						case exempt:
							count(&insideNotJudged)
						default:
							count(&outside)
						}
						switch {
						case pan:
							r.Violate(fmt.Sprintf("netcfg: tampered-block-panics %s level=%s [%s] %s", g.class, level, cfg.shape(), c.label), map[string]any{"case": cs, "panic": pm})
							reset()
						case err == nil && tm.rehash:
							r.Outcome("netcfg: ACCEPTED state-contradicting block")
							report(fmt.Sprintf("netcfg: block contradicting the node's state (number / parent / root / diff) accepted on a custom network [%s] %s", cfg.shape(), c.label), cs)
							reset()
						case err == nil && !exempt:
							r.Outcome("netcfg: ACCEPTED outside the declared range")
							report(fmt.Sprintf("netcfg: tampered-block-accepted OUTSIDE the network's declared unverifiable range [%s] %s", cfg.shape(), c.label), cs)
							reset()
						case err == nil:
							r.Outcome("netcfg: tampered block inside the declared unverifiable range accepted (exempt by configuration, not judged)")
							reset()
						default:
							if exempt {
								r.Outcome("netcfg: rejected (block inside the declared range)")
							} else {
								r.Outcome("netcfg: rejected (block outside the declared range)")
							}
							rejected = append(rejected, cs)
						}
						break // quick: the first tamper of the class that applies
					}
				}
			}
			ncCheckImage(r, c, cfg, d, base, before, rejected)
			// the same node, after all the rejections, must store the genuine block
			var err error
			pan, pm := ev.Guard(func() { err = chain.StoreSync(bc, c.entry(pos)) })
			count(&genuineStores)
			if pan || err != nil {
				report(fmt.Sprintf("netcfg: genuine-block-refused on a custom network [%s] %s", cfg.shape(), c.label),
					ncCase{c.label, cfg, pos, cfg.exempt(n), "(none: the genuine block) " + pm + " " + fmt.Sprint(err), "-"})
				return
			}
			r.Outcome("netcfg: genuine block stored after the rejections")
			if chain.ImageHash(d) != c.refImages[pos] {
				// legacy trie: optional cached child hashes depend on scheduling (see C01); what must agree is everything a
				// reader can observe
				probe := &chain.Probe{}
				for i := 0; i <= pos; i++ {
					probe.AddEntry(c.genuine[i])
				}
				twin := c.node(c.refDBs[pos].Copy(), c.base)
				if diff := chain.DiffObs(chain.Observe(bc, probe, false), chain.Observe(twin, probe, false)); len(diff) > 0 {
					r.Violate(fmt.Sprintf("netcfg: chain-on-custom-network-differs-from-built-in-network [%s] %s", cfg.shape(), c.label),
						map[string]any{"network_config": cfg, "position": pos, "differing": diff})
					return
				}
				r.Outcome("netcfg: bytes differ from the built-in-network twin, observations identical")
			}
		}
	})

	// the shared reference copies must be untouched
	for _, c := range chains {
		if c.fixture {
			continue
		}
		for pos, e := range c.genuine {
			var p *chain.Entry
			if pos > 0 {
				p = c.genuine[pos-1]
			}
			if f := e.Fresh(p); chain.Dump([]any{e.Block, e.SU}) != chain.Dump([]any{f.Block, f.SU}) {
				r.Infra("network configurations: the reference copy of %s block %d was modified", c.label, pos)
			}
		}
	}

	var keys []string
	for k := range viol {
		keys = append(keys, k)
	}
	sort.Strings(keys)
	for _, k := range keys {
		g := viol[k]
		sort.Slice(g.cases, func(a, b int) bool {
			x, y := g.cases[a], g.cases[b]
			if x.Config.String() != y.Config.String() {
				return x.Config.String() < y.Config.String()
			}
			if x.Position != y.Position {
				return x.Position < y.Position
			}
			return x.Tamper+x.Level < y.Tamper+y.Level
		})
		classes := map[string]bool{}
		cfgs := map[string]bool{}
		for _, cs := range g.cases {
			classes[tamperClass(cs.Tamper)] = true
			cfgs[cs.Config.String()] = true
		}
		var cl, cf []string
		for s := range classes {
			cl = append(cl, s)
		}
		for s := range cfgs {
			cf = append(cf, s)
		}
		sort.Strings(cl)
		sort.Strings(cf)
		if len(cf) > 24 {
			cf = append(cf[:24], fmt.Sprintf("... %d more", len(cf)-24))
		}
		show := g.cases
		if len(show) > 12 {
			show = show[:12]
		}
		r.Violate(k, map[string]any{"accepted_cases": len(g.cases), "tamper_classes": strings.Join(cl, " "), "network_configurations": cf, "first_cases": show,
			"replay": "network = the chain's built-in network with BlockHashMetaInfo replaced as in network_config; store the genuine blocks below position; SanityCheckNewHeight+Store the block at position with the tamper applied"})
	}
	lens := map[string]int{}
	for _, c := range chains {
		lens[c.label] = len(c.genuine)
	}
	r.Set("netcfg_chains", lens)
	r.Set("netcfg_configurations_x_chains", nConfigs)
	r.Set("netcfg_tamper_cases", cases)
	r.Set("netcfg_cases_block_outside_range", outside)
	r.Set("netcfg_cases_block_inside_range_state_contradicting", insideState)
	r.Set("netcfg_cases_block_inside_range_not_judged", insideNotJudged)
	r.Set("netcfg_genuine_stores", genuineStores)
	r.Set("netcfg_chain_walks_stopped_other_hash_regime", notInRegime)
	r.Sample(map[string]any{"part": "network configurations", "chain": chains[0].label, "network_config": ncConfig{"range", []uint64{2, 1}, 0, "own"}, "position": 3, "tamper": "header.timestamp", "level": "raw"})
}
