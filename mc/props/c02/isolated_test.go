package c02

// Isolated real-network fixture blocks (everything under clients/feeder/testdata/<network>/block that verifies on its own):
// blocks of formats and eras the contiguous fixture chains do not reach - mainnet 833 / 1059 / 2889 / ... (post-0.7
// Pedersen hash computed with the zero or the network's fallback sequencer address because the header of that era
// carries none), goerli, integration. They cannot be stored (their parents are not in the test data), so the oracle is
// the verification step every block passes before Store: SanityCheckNewHeight must accept the genuine block and reject
// every header / transaction / receipt tamper of the catalogue that the block's format commits, at the raw level
// (declared hashes left as they are).

import (
	"context"
	"fmt"
	"os"
	"sort"
	"strings"
	"sync"
	"testing"

	"verif/mc/chain"
	"verif/mc/ev"

	"github.com/NethermindEth/juno/blockchain"
	"github.com/NethermindEth/juno/blockchain/networks"
	"github.com/NethermindEth/juno/clients/feeder"
	"github.com/NethermindEth/juno/core"
	"github.com/NethermindEth/juno/core/felt"
	"github.com/NethermindEth/juno/db/memory"
	adaptfeeder "github.com/NethermindEth/juno/starknetdata/feeder"
)

var isolatedNets = []struct {
	dir string
	net *networks.Network
}{
	{"mainnet", &networks.Mainnet}, {"goerli", &networks.Goerli}, {"goerli2", &networks.Goerli2},
	{"integration", &networks.Integration}, {"sepolia", &networks.Sepolia}, {"sepolia-integration", &networks.SepoliaIntegration},
}

// classes every post-0.7 pre-0.13.2 header commits, and the pre-0.7 ones
var (
	isolatedPost07 = []string{"header.number", "header.parent-hash", "header.state-root", "header.sequencer", "header.timestamp", "header.tx-count",
		"header.event-count", "header.hash", "txs.", "receipts.swap-first-two-only", "receipts.drop-last-only", "tx.hash", "receipt.tx-hash", "receipt.event"}
	isolatedPre07 = []string{"header.number", "header.parent-hash", "header.state-root", "header.tx-count", "header.hash", "txs.",
		"receipts.swap-first-two-only", "receipts.drop-last-only", "tx.hash", "receipt.tx-hash"}
)

func runIsolated(t *testing.T, r *ev.Run, tampers []tamper) {
	if wd, err := os.Getwd(); err == nil {
		defer os.Chdir(wd)
	}
	if err := os.Chdir(ev.Repo()); err != nil {
		r.Infra("chdir to the juno tree: %v", err)
	}
	// one more value tamper for headers that carry no sequencer address: the field appears
	extra := tamper{"header.sequencer:=other", func(e *chain.Entry) bool {
		other := new(felt.Felt).SetUint64(0xbadbadbad)
		if e.Block.SequencerAddress != nil && e.Block.SequencerAddress.Equal(other) {
			return false
		}
		e.Block.SequencerAddress = other
		return true
	}, false, false}
	all := append(append([]tamper{}, tampers...), extra)
	var mu sync.Mutex
	var blocks, cases, cfgCases int64
	for _, nw := range isolatedNets {
		ents, err := os.ReadDir("clients/feeder/testdata/" + nw.dir + "/block")
		if err != nil {
			continue
		}
		var nums []uint64
		for _, e := range ents {
			var n uint64
			if _, err := fmt.Sscanf(e.Name(), "%d.json", &n); err == nil && fmt.Sprintf("%d.json", n) == e.Name() {
				nums = append(nums, n)
			}
		}
		sort.Slice(nums, func(i, j int) bool { return nums[i] < nums[j] })
		// several independent test clients (a client is not safe for concurrent use): blocks are checked in parallel
		const nClients = 8
		gws := make([]*adaptfeeder.Feeder, nClients)
		gmus := make([]sync.Mutex, nClients)
		for i := range gws {
			gws[i] = adaptfeeder.New(feeder.NewTestClient(t, nw.net))
		}
		loadWith := func(ci int, n uint64) (*chain.Entry, error) {
			gmus[ci].Lock()
			defer gmus[ci].Unlock()
			b, err := gws[ci].BlockByNumber(context.Background(), n)
			if err != nil {
				return nil, err
			}
			d := core.EmptyStateDiff()
			return &chain.Entry{Block: b, SU: &core.StateUpdate{BlockHash: b.Hash, NewRoot: b.GlobalStateRoot, OldRoot: &felt.Zero, StateDiff: &d}, State: chain.NewState()}, nil
		}
		bc := blockchain.New(memory.New(), nw.net)
		ev.Par(len(nums), nClients, func(bi int) {
			n := nums[bi]
			load := func(n uint64) (*chain.Entry, error) { return loadWith(bi%nClients, n) }
			e, err := load(n)
			if err != nil {
				r.Outcome("isolated: fixture does not load")
				return
			}
			if ur := nw.net.BlockHashMetaInfo.UnverifiableRange; len(ur) == 2 && n >= ur[0] && n <= ur[1] {
				// by design: the network declares a range of blocks whose hash cannot be recomputed; juno skips the
				// hash check there (first reported by this check as "tampered block passes", which was a false alarm)
				r.Outcome("isolated: block inside the network's declared unverifiable range (skipped)")
				return
			}
			if chainGE(e.Block.ProtocolVersion, "0.13.2") {
				r.Outcome("isolated: 0.13.2+ block skipped (hash commits the state diff, which the test data lacks)")
				return
			}
			if _, err := bc.SanityCheckNewHeight(e.Block, e.SU, nil); err != nil {
				r.Outcome("isolated: genuine fixture does not verify on its own (skipped)")
				return
			}
			pre07 := n < nw.net.BlockHashMetaInfo.First07Block
			commits := isolatedPost07
			era := "post-0.7"
			if pre07 {
				commits, era = isolatedPre07, "pre-0.7"
			}
			if e.Block.SequencerAddress == nil {
				era += " header-without-sequencer"
			}
			mu.Lock()
			blocks++
			mu.Unlock()
			label := fmt.Sprintf("%s %s", nw.dir, era)
			for _, tm := range all {
				ok := false
				for _, p := range commits {
					ok = ok || strings.HasPrefix(tamperClass(tm.name), p)
				}
				if !ok || tamperClass(tm.name) == "receipt.event-moved-to-other-tx" {
					continue
				}
				te, err := load(n)
				if err != nil {
					continue
				}
				before := chain.Dump([]any{te.Block})
				var applied bool
				if pan, _ := ev.Guard(func() { applied = tm.apply(te) }); pan || !applied || chain.Dump([]any{te.Block}) == before {
					continue
				}
				var verr error
				pan, msg := ev.Guard(func() { _, verr = bc.SanityCheckNewHeight(te.Block, te.SU, nil) })
				mu.Lock()
				cases++
				mu.Unlock()
				r.Add("evaluations", 1)
				switch {
				case pan:
					r.Violate("isolated: verification-panics "+tamperClass(tm.name)+" "+label, map[string]any{"block": n, "tamper": tm.name, "panic": msg})
				case verr == nil:
					r.Violate("isolated: tampered-block-passes-verification "+tamperClass(tm.name)+" "+label, map[string]any{"network": nw.dir, "block": n, "tamper": tm.name})
				default:
					r.Outcome("isolated: tampered block rejected")
				}
			}
			// part N on the isolated blocks: the block's own network with an unverifiable range declared just below / just
			// above / as an empty interval around THIS block's number (these blocks have large numbers and the older hash
			// formats), and with another fallback sequencer address. The block is outside every one of these ranges, so
			// whenever the genuine block verifies under the configuration every tamper must be refused.
			for _, cfg := range ncIsolatedConfigs(r, n, nw.net.BlockHashMetaInfo.First07Block) {
				if cfg.exempt(n) {
					continue
				}
				cbc := blockchain.New(memory.New(), cfg.network(nw.net))
				ge, err := load(n)
				if err != nil {
					continue
				}
				if _, err := cbc.SanityCheckNewHeight(ge.Block, ge.SU, nil); err != nil {
					if cfg.Fallback == "own" {
						r.Violate(fmt.Sprintf("isolated: genuine-block-refused on a custom network [%s] %s", cfg.shape(), label), map[string]any{"network": nw.dir, "block": n, "network_config": cfg, "err": err.Error()})
					} else {
						r.Outcome("isolated: genuine block does not verify with another fallback sequencer address (not judged)")
					}
					continue
				}
				done := map[string]bool{}
				for _, tm := range all {
					cls := tamperClass(tm.name)
					ok := cls != "receipt.event-moved-to-other-tx"
					if ok {
						ok = false
						for _, p := range commits {
							ok = ok || strings.HasPrefix(cls, p)
						}
					}
					if !ok || (!r.Thorough() && (!ncIsolatedQuick[cls] || done[cls])) {
						continue
					}
					te, err := load(n)
					if err != nil {
						continue
					}
					before := chain.Dump([]any{te.Block})
					var applied bool
					if pan, _ := ev.Guard(func() { applied = tm.apply(te) }); pan || !applied || chain.Dump([]any{te.Block}) == before {
						continue
					}
					done[cls] = true
					var verr error
					pan, msg := ev.Guard(func() { _, verr = cbc.SanityCheckNewHeight(te.Block, te.SU, nil) })
					mu.Lock()
					cfgCases++
					mu.Unlock()
					r.Add("evaluations", 1)
					switch {
					case pan:
						r.Violate("isolated: verification-panics on a custom network "+cls+" "+label, map[string]any{"block": n, "tamper": tm.name, "network_config": cfg, "panic": msg})
					case verr == nil:
						// one key per (range shape, network): the tamper class and the era are in the detail
						r.Violate(fmt.Sprintf("isolated: tampered-block-passes-verification OUTSIDE the network's declared unverifiable range [%s] %s", cfg.shape(), nw.dir),
							map[string]any{"network": nw.dir, "era": era, "block": n, "tamper": tm.name, "network_config": cfg})
					default:
						r.Outcome("isolated: tampered block rejected on a custom network")
					}
				}
			}
		})
	}
	r.Set("isolated_fixture_blocks", blocks)
	r.Set("isolated_fixture_tamper_cases", cases)
	r.Set("isolated_fixture_netcfg_tamper_cases", cfgCases)
}

// quick: one representative per verification stage of the older formats (first index that applies)
var ncIsolatedQuick = map[string]bool{"header.timestamp": true, "header.tx-count": true, "header.hash": true, "tx.hash+receipt-hash": true,
	"header.sequencer:=other": true, "receipt.event-data": true}

// ncIsolatedConfigs: ranges that do NOT contain block n - quick: the empty interval [n+1,n]; thorough: also the one-block
// ranges just above and just below n, [0,n-1], [n+1,2^64-1], the empty intervals [2^64-1,0] and [n,n-1], no range, all
// with the network's own fallback sequencer address, and [n+1,n] / no range without / with another fallback address.
func ncIsolatedConfigs(r *ev.Run, n, f07 uint64) []ncConfig {
	const max = ^uint64(0)
	if !r.Thorough() {
		// quick: the tight empty interval only (loading and dumping the real blocks dominates the cost of this part)
		return []ncConfig{{"isolated-range", []uint64{n + 1, n}, f07, "own"}}
	}
	rs := [][]uint64{{n + 1, n}, {n + 1, n + 1}, {n + 1, max}, {max, 0}, nil}
	if n > 0 {
		rs = append(rs, []uint64{n - 1, n - 1}, []uint64{0, n - 1}, []uint64{n, n - 1})
	}
	var out []ncConfig
	for _, ur := range rs {
		out = append(out, ncConfig{"isolated-range", ur, f07, "own"})
	}
	for _, fb := range []string{"nil", "other"} {
		out = append(out, ncConfig{"isolated-fallback", []uint64{n + 1, n}, f07, fb}, ncConfig{"isolated-fallback", nil, f07, fb})
	}
	return out
}
