package c02

import (
	"maps"

	"verif/mc/chain"

	"github.com/NethermindEth/juno/core"
	"github.com/NethermindEth/juno/core/felt"
)

// cloneEntry copies a built entry deeply enough that (a) every tamper of the catalogue and (b) anything juno does to the
// block it is handed stays private to the copy: header, state update, every transaction / receipt / event / message
// object and every slice and map inside them are new; only immutable felt values behind pointers are shared. Part L
// uses it instead of Entry.Fresh (which recomputes every hash of the block: as expensive as the verification under
// test) and cross-checks at the end of every sweep that the originals still dump like a fresh build.
func cloneEntry(e *chain.Entry) *chain.Entry {
	cf := func(s []felt.Felt) []felt.Felt {
		if s == nil {
			return nil
		}
		return append(make([]felt.Felt, 0, len(s)), s...)
	}
	h := *e.Block.Header
	if h.L1DataGasPrice != nil {
		g := *h.L1DataGasPrice
		h.L1DataGasPrice = &g
	}
	if h.L2GasPrice != nil {
		g := *h.L2GasPrice
		h.L2GasPrice = &g
	}
	b := &core.Block{Header: &h, Transactions: make([]core.Transaction, len(e.Block.Transactions)), Receipts: make([]*core.TransactionReceipt, len(e.Block.Receipts))}
	for i, tx := range e.Block.Transactions {
		switch t := tx.(type) {
		case *core.InvokeTransaction:
			c := *t
			c.CallData, c.TransactionSignature, c.PaymasterData = cf(t.CallData), cf(t.TransactionSignature), cf(t.PaymasterData)
			c.AccountDeploymentData, c.ProofFacts, c.ResourceBounds = cf(t.AccountDeploymentData), cf(t.ProofFacts), maps.Clone(t.ResourceBounds)
			b.Transactions[i] = &c
		case *core.DeclareTransaction:
			c := *t
			c.TransactionSignature, c.PaymasterData, c.AccountDeploymentData = cf(t.TransactionSignature), cf(t.PaymasterData), cf(t.AccountDeploymentData)
			c.ResourceBounds = maps.Clone(t.ResourceBounds)
			b.Transactions[i] = &c
		case *core.DeployTransaction:
			c := *t
			c.ConstructorCallData = cf(t.ConstructorCallData)
			b.Transactions[i] = &c
		case *core.DeployAccountTransaction:
			c := *t
			c.ConstructorCallData, c.TransactionSignature, c.PaymasterData = cf(t.ConstructorCallData), cf(t.TransactionSignature), cf(t.PaymasterData)
			c.ResourceBounds = maps.Clone(t.ResourceBounds)
			b.Transactions[i] = &c
		case *core.L1HandlerTransaction:
			c := *t
			c.CallData = cf(t.CallData)
			b.Transactions[i] = &c
		default:
			panic("cloneEntry: unknown transaction type")
		}
	}
	for i, rc := range e.Block.Receipts {
		c := *rc
		c.Events = make([]*core.Event, len(rc.Events))
		for k, ev := range rc.Events {
			x := *ev
			x.Keys, x.Data = cf(ev.Keys), cf(ev.Data)
			c.Events[k] = &x
		}
		c.L2ToL1Message = make([]*core.L2ToL1Message, len(rc.L2ToL1Message))
		for k, m := range rc.L2ToL1Message {
			x := *m
			x.Payload = cf(m.Payload)
			c.L2ToL1Message[k] = &x
		}
		if rc.L1ToL2Message != nil {
			x := *rc.L1ToL2Message
			x.Payload = cf(x.Payload)
			c.L1ToL2Message = &x
		}
		if rc.ExecutionResources != nil {
			x := *rc.ExecutionResources
			if x.DataAvailability != nil {
				y := *x.DataAvailability
				x.DataAvailability = &y
			}
			if x.TotalGasConsumed != nil {
				y := *x.TotalGasConsumed
				x.TotalGasConsumed = &y
			}
			c.ExecutionResources = &x
		}
		b.Receipts[i] = &c
	}
	su := *e.SU
	return &chain.Entry{Spec: e.Spec, Block: b, SU: &su, Classes: e.Classes, State: e.State}
}
