package c03

import (
	"fmt"

	"verif/mc/chain"

	"github.com/NethermindEth/juno/core"
	"github.com/NethermindEth/juno/core/felt"
)

// mismatch is one answer of a state reader that differs from the dictionary state. id identifies the question
// (kind + address/slot/class), so that the answers of two readers for the same block can be compared.
type mismatch struct {
	kind, id string
	detail   map[string]any
}

// sweep asks the reader every question of the universe (every contract x {class hash, nonce, every slot}, every class
// x {definition, casm hash v1/v2}) and returns the answers that differ from the dictionary state `want`, plus the
// number of questions asked.
func sweep(reader core.StateReader, want *chain.State) (ms []mismatch, q int) {
	add := func(kind, what string, detail map[string]any) {
		ms = append(ms, mismatch{kind, kind + " " + what, detail})
	}
	for _, a := range universeAddrs {
		a := a
		c, exists := want.Contracts[a]
		ch, err := reader.ContractClassHash(&a)
		q++
		switch {
		case exists && !c.System:
			if err != nil || !ch.Equal(&c.Class) {
				add("class-hash-wrong", a.String(), map[string]any{"addr": a.String(), "got": ch.String(), "err": fmt.Sprint(err), "want": c.Class.String()})
			}
		case !exists && !isSys(&a):
			if err == nil {
				add("undeployed-contract-has-class-hash", a.String(), map[string]any{"addr": a.String(), "got": ch.String()})
			}
		default: // system contracts: error or zero
			if err == nil && !ch.IsZero() {
				add("system-contract-class-hash-nonzero", a.String(), map[string]any{"addr": a.String(), "got": ch.String()})
			}
		}
		nc, err := reader.ContractNonce(&a)
		q++
		switch {
		case exists && !c.System:
			if err != nil || !nc.Equal(&c.Nonce) {
				add("nonce-wrong", a.String(), map[string]any{"addr": a.String(), "got": nc.String(), "err": fmt.Sprint(err), "want": c.Nonce.String()})
			}
		case !exists && !isSys(&a):
			if err == nil {
				add("undeployed-contract-has-nonce", a.String(), map[string]any{"addr": a.String(), "got": nc.String()})
			}
		default:
			if err == nil && !nc.IsZero() {
				add("system-contract-nonce-nonzero", a.String(), map[string]any{"addr": a.String()})
			}
		}
		for _, s := range universeSlots {
			s := s
			val, err := reader.ContractStorage(&a, &s)
			q++
			var wantV felt.Felt
			if exists {
				wantV = c.Storage[s]
			}
			if exists {
				if err != nil || !val.Equal(&wantV) {
					add("storage-wrong", a.String()+"/"+s.String(), map[string]any{"addr": a.String(), "slot": s.String(), "got": val.String(), "err": fmt.Sprint(err), "want": wantV.String()})
				}
			} else if err == nil && !val.IsZero() {
				// a contract that does not exist (yet / any more): not-found error or zero are both acceptable here
				add("storage-of-nonexistent-contract-nonzero", a.String()+"/"+s.String(), map[string]any{"addr": a.String(), "slot": s.String(), "got": val.String()})
			}
		}
	}
	for _, h := range classHashes() {
		h := h
		rec, declared := want.Classes[h]
		dc, err := reader.Class(&h)
		q++
		if declared {
			if err != nil || dc == nil {
				add("declared-class-not-found", h.String(), map[string]any{"class": h.String(), "err": fmt.Sprint(err)})
			} else {
				if dc.At != rec.At {
					add("class-declared-at-wrong", h.String(), map[string]any{"class": h.String(), "got": dc.At, "want": rec.At})
				}
				if _, isSierra := dc.Class.(*core.SierraClass); isSierra != rec.Sierra {
					add("class-kind-wrong", h.String(), map[string]any{"class": h.String()})
				} else if isSierra {
					if gh, e := dc.Class.Hash(); e != nil || !gh.Equal(&h) {
						add("class-definition-wrong", h.String(), map[string]any{"class": h.String()})
					}
				}
			}
		} else if err == nil {
			add("undeclared-class-found", h.String(), map[string]any{"class": h.String(), "at": dc.At})
		}
		sh := felt.SierraClassHash(h)
		casm, err := reader.CompiledClassHash(&sh)
		q++
		if declared && rec.Sierra {
			wantC := rec.Casm()
			if err != nil || !(*felt.Felt)(&casm).Equal(&wantC) {
				add("casm-hash-wrong", h.String(), map[string]any{"class": h.String(), "got": (*felt.Felt)(&casm).String(), "err": fmt.Sprint(err), "want": wantC.String()})
			}
			c2, err := reader.CompiledClassHashV2(&sh)
			q++
			if err != nil || !(*felt.Felt)(&c2).Equal(&rec.CasmV2) {
				add("casm-hash-v2-wrong", h.String(), map[string]any{"class": h.String(), "got": (*felt.Felt)(&c2).String(), "err": fmt.Sprint(err)})
			}
		} else if !declared && err == nil {
			add("undeclared-class-has-casm-hash", h.String(), map[string]any{"class": h.String()})
		}
	}
	return ms, q
}
