package c03

// ROOT-NEUTRAL BLOCKS. A block is root-neutral when its state diff leaves the state commitment where it was:
// an empty diff, a storage write of the value already there (incl. zero to a never-written slot), a nonce entry equal
// to the current nonce, a replace with the class the contract already has, a (re-)declaration of a Cairo-0 class
// (Cairo-0 classes are in no trie) - or any mix of those. For such a block "old root == new root" tells an
// implementation nothing about whether there is something to write / to undo: class records, history logs and
// declared-at heights still have to follow the block on store AND on revert.
//
// The shared block alphabet (mc/chain/alphabet.go) has `empty` and the same-value storage writes, but its only Cairo-0
// declaration rides on `deployA` (which moves the root) and it has no no-op nonce / replace entries. The alphabet is
// extended here, locally to C03 (the other users of mc/chain are not affected):
//
//	declareC0        Cairo-0 class declared with its definition and NOTHING else (while undeclared)
//	redeclareC0      the same declaration while the class is already declared (first declaration wins)
//	A.nonce=same     nonce entry equal to the current nonce of A
//	A.replace->same  replace entry with the class A already has
//	neutral-mix      all of the above plus a same-value storage write, in one block
//
// Whether a block is root-neutral is decided by the dictionary model (root before == root after), not by its name, so
// the alphabet's own `empty`, `A.s0=<current value>`, `sys2.write` (second time) ... count as well.
//
// Enumerated (family "root-neutral reorg"), with blocks drawn from the extended alphabet:
//
//	S . U . revert^|U| . V
//	S  every store-only history of length <= 1                        (thorough: <= 2 in the mixed-version config)
//	U  every branch n or x.n ending in a root-neutral block n          (thorough: also n.x, i.e. every branch of
//	   length 1..2 that CONTAINS a root-neutral block)
//	V  every branch of length 1..2 after |U|=1, of length 1 after |U|=2
//
// so that a root-neutral block is reverted and the same / another block is applied at the same height (V[0]), one above
// (V[1], U of length 1) or one below (V[0], U = x.n) the height it was reverted at. Executed like the BFS (fresh
// Blockchain per operation = restart, prefixes shared through store copies); after EVERY operation from U[0] on the full
// read sweep of checkNode runs: every retained block (by number, by hash) and the head x every contract x {class hash,
// nonce, every slot} and every class x {definition + declared-at, casm hash v1/v2} of the universe against the
// dictionary state - incl. "not found" for a class whose only declaration was reverted, and for blocks below the
// height of a later re-declaration.

import (
	"fmt"
	"sort"
	"sync"

	"verif/mc/chain"
	"verif/mc/ev"
	"verif/mc/hist"

	"github.com/NethermindEth/juno/core"
	"github.com/NethermindEth/juno/core/felt"
	"github.com/NethermindEth/juno/db/memory"
)

// alphabetX: the shared alphabet plus the root-neutral entries described above.
func alphabetX(st *chain.State, number uint64, version string) []chain.Named {
	out := chain.Alphabet(st, number, version)
	if st == nil {
		st = chain.NewState()
	}
	add := func(name string, d core.StateDiff, classes map[felt.Felt]core.ClassDefinition) {
		i := len(out)
		var txs []chain.TxSpec
		if (i+int(number))%2 == 1 {
			txs = []chain.TxSpec{{Kind: "invoke3", Salt: number*16 + 9, Events: []chain.EvSpec{{From: chain.AddrA, Keys: []felt.Felt{chain.Key1}, Data: []felt.Felt{chain.FV(0xDA7A)}}}}}
		}
		out = append(out, chain.Named{Name: name, Spec: chain.BlockSpec{Version: version, Timestamp: 1000 + number*10, Txs: txs, Diff: &d, Classes: classes}})
	}
	c0, h0 := chain.Cairo0(0)
	_, hasC0 := st.Classes[h0]
	a, hasA := st.Contracts[chain.AddrA]
	declare := func(d *core.StateDiff) map[felt.Felt]core.ClassDefinition {
		d.DeclaredV0Classes = []*felt.Felt{&h0}
		return map[felt.Felt]core.ClassDefinition{h0: c0}
	}
	{
		d := core.EmptyStateDiff()
		cl := declare(&d)
		if hasC0 {
			add("redeclareC0", d, cl)
		} else {
			add("declareC0", d, cl)
		}
	}
	if hasA {
		nonce, class := a.Nonce, a.Class
		d := core.EmptyStateDiff()
		d.Nonces[chain.AddrA] = &nonce
		add("A.nonce=same", d, nil)
		d2 := core.EmptyStateDiff()
		d2.ReplacedClasses[chain.AddrA] = &class
		add("A.replace->same", d2, nil)
		d3 := core.EmptyStateDiff()
		cl := declare(&d3)
		nonce3, class3, cur := a.Nonce, a.Class, a.Storage[chain.Slot0]
		d3.Nonces[chain.AddrA] = &nonce3
		d3.ReplacedClasses[chain.AddrA] = &class3
		d3.StorageDiffs[chain.AddrA] = map[felt.Felt]*felt.Felt{chain.Slot0: &cur}
		add("neutral-mix", d3, cl)
	}
	return out
}

// rootOf: the state commitment after e (zero for "no block yet").
func rootOf(e *chain.Entry) felt.Felt {
	if e == nil {
		return felt.Zero
	}
	return *e.Block.GlobalStateRoot
}

type rnNode struct {
	db       *memory.Database
	chain    []*chain.Entry
	reverted []*chain.Entry
	path     []string
}

func (n *rnNode) head() *chain.Entry {
	if len(n.chain) == 0 {
		return nil
	}
	return n.chain[len(n.chain)-1]
}

// next: the extended alphabet on top of n, built.
func (n *rnNode) next(at func(uint64) string) (names []string, entries []*chain.Entry) {
	var st *chain.State
	var num uint64
	if h := n.head(); h != nil {
		st, num = h.State, h.Block.Number+1
	}
	for _, nm := range alphabetX(st, num, at(num)) {
		e, err := chain.Build(n.head(), nm.Spec)
		if err != nil {
			continue
		}
		names, entries = append(names, nm.Name), append(entries, e)
	}
	return
}

// store / revert: one operation on a copy of the image with a fresh Blockchain (= restart), like mc/hist.
func (n *rnNode) store(newState bool, name string, e *chain.Entry) (*rnNode, error) {
	d := n.db.Copy()
	if err := chain.StoreSync(chain.NewNode(d, newState), e.Fresh(n.head())); err != nil {
		return nil, err
	}
	return &rnNode{db: d, chain: append(append([]*chain.Entry{}, n.chain...), e), reverted: n.reverted,
		path: append(append([]string{}, n.path...), "store:"+name)}, nil
}

func (n *rnNode) revert(newState bool) (*rnNode, error) {
	d := n.db.Copy()
	if err := chain.NewNode(d, newState).RevertHead(); err != nil {
		return nil, err
	}
	return &rnNode{db: d, chain: append([]*chain.Entry{}, n.chain[:len(n.chain)-1]...),
		reverted: append(append([]*chain.Entry{}, n.reverted...), n.head()), path: append(append([]string{}, n.path...), "revert")}, nil
}

// rootNeutralReorgs runs the family for one backend / version configuration and returns the number of operations
// executed (transitions) and of complete histories S.U.revert^|U|.V.
func rootNeutralReorgs(r *ev.Run, newState bool, at func(uint64) string, label string) (transitions, histories int64) {
	// (the mixed-version configuration is recognised by at(0) != at(2))
	base := label
	label += " [root-neutral reorg]"
	stemDepth := 1
	if r.Thorough() && at(0) != at(2) {
		stemDepth = 2 // thorough: deeper base states in the mixed-version configuration
	}
	stems := []*rnNode{{db: memory.New()}}
	for lvl, frontier := 0, stems; lvl < stemDepth; lvl++ {
		var nextLvl []*rnNode
		for _, s := range frontier {
			names, entries := s.next(at)
			for i, e := range entries {
				if c, err := s.store(newState, names[i], e); err == nil {
					nextLvl = append(nextLvl, c)
				} else {
					r.Outcome("root-neutral family: valid block rejected (reported by C01): " + names[i])
				}
			}
		}
		stems = append(stems, nextLvl...)
		frontier = nextLvl
	}
	type job struct {
		stem  *rnNode
		names []string
		u     []*chain.Entry
	}
	var jobs []job
	var mu sync.Mutex
	kinds := map[string]int64{}
	neutral := func(parent *chain.Entry, e *chain.Entry) bool {
		pr, nr := rootOf(parent), rootOf(e)
		return pr.Equal(&nr)
	}
	for _, s := range stems {
		n1, e1 := s.next(at)
		for i, u1 := range e1 {
			if neutral(s.head(), u1) {
				jobs = append(jobs, job{s, []string{n1[i]}, []*chain.Entry{u1}})
				kinds[n1[i]]++
			}
			mid := &rnNode{chain: append(append([]*chain.Entry{}, s.chain...), u1)}
			n2, e2 := mid.next(at)
			for k, u2 := range e2 {
				// quick: the root-neutral block is the LAST of U (reverted first, V[0] lands one below it)
				if neutral(u1, u2) || (!r.Quick() && neutral(s.head(), u1)) {
					jobs = append(jobs, job{s, []string{n1[i], n2[k]}, []*chain.Entry{u1, u2}})
					if neutral(u1, u2) {
						kinds[n2[k]]++
					}
				}
			}
		}
	}
	var sweeps int64
	look := func(n *rnNode) {
		hn := &hist.Node{DB: n.db, Chain: n.chain, Reverted: n.reverted, Path: n.path}
		lbl := label
		if hn.Exotic() != "" {
			// histories that clear system contract 0x1 keep the key of the BFS (one known finding is recorded under it)
			lbl = base
		}
		q := checkNode(r, hn, chain.NewNode(n.db.Copy(), newState), lbl)
		r.Add("evaluations", int64(q))
		mu.Lock()
		sweeps++
		mu.Unlock()
	}
	ev.Par(len(jobs), 8, func(i int) {
		if r.OutOfTime() {
			r.Incomplete("root-neutral reorgs " + label)
			return
		}
		j := jobs[i]
		var ops, done int64
		defer func() {
			mu.Lock()
			transitions += ops
			histories += done
			mu.Unlock()
		}()
		cur := j.stem
		for k, e := range j.u {
			c, err := cur.store(newState, j.names[k], e)
			if err != nil {
				r.Outcome("root-neutral family: valid block rejected (reported by C01): " + j.names[k])
				return
			}
			ops++
			cur = c
			if len(j.u) == 1 || k == 1 {
				look(cur) // (the state after U[0] of a two-block U is the end of another job or not root-neutral related)
			}
		}
		for range j.u {
			c, err := cur.revert(newState)
			if err != nil {
				r.Outcome("revert-head-fails (reported by C04)")
				return
			}
			ops++
			cur = c
			look(cur)
		}
		maxV := 2
		if len(j.u) == 2 {
			maxV = 1
		}
		var walk func(n *rnNode, left int)
		walk = func(n *rnNode, left int) {
			names, entries := n.next(at)
			for k, e := range entries {
				c, err := n.store(newState, names[k], e)
				if err != nil {
					r.Outcome("root-neutral family: valid block rejected (reported by C01): " + names[k])
					continue
				}
				ops++
				look(c)
				if left > 1 {
					walk(c, left-1)
				} else {
					done++
				}
			}
		}
		walk(cur, maxV)
	})
	r.Add("root_neutral_branches_reverted", int64(len(jobs)))
	r.Add("root_neutral_sweeps", sweeps)
	var ks []string
	for k, v := range kinds {
		ks = append(ks, fmt.Sprintf("%s x%d", k, v))
	}
	sort.Strings(ks)
	r.Set("root_neutral"+label, map[string]any{"stems": len(stems), "branches_with_a_root_neutral_block": len(jobs), "root_neutral_blocks_by_name": ks,
		"histories": histories, "operations": transitions, "read_sweeps": sweeps})
	return transitions, histories
}
