package c03

// C03 — head and historical state reads equal the dictionary state as of the requested block, after any
// interleaving of block additions and head reverts, for both state backends.

import (
	"errors"
	"fmt"
	"github.com/NethermindEth/juno/db/memory"
	"testing"

	"verif/mc/chain"
	"verif/mc/ev"
	"verif/mc/hist"

	"github.com/NethermindEth/juno/blockchain"
	"github.com/NethermindEth/juno/core"
	"github.com/NethermindEth/juno/core/felt"
)

type vcfg struct {
	name string
	at   func(uint64) string
}

var versionConfigs = []vcfg{
	{"0.13.2", func(uint64) string { return "0.13.2" }},
	{"0.14.0", func(uint64) string { return "0.14.0" }},
	{"0.14.0->0.14.1@2", func(n uint64) string {
		if n < 2 {
			return "0.14.0"
		}
		return "0.14.1"
	}},
	{"0.14.1", func(uint64) string { return "0.14.1" }},
}

func TestCheck(t *testing.T) {
	r := ev.Start("C03", "model_checking")
	r.SetBudget(ev.Pick(r, 170, 2400))
	depth := ev.Pick(r, 3, 5)
	var queries, states, transitions int64
	distinct := map[string]bool{}
	for _, newState := range []bool{false, true} {
		for _, vc := range versionConfigs {
			d := depth
			if r.Quick() && vc.name == "0.14.0->0.14.1@2" {
				d = 4 // the mixed-version configuration (the only one with CASM migration) goes one level deeper
			}
			label := vc.name + hist.Backend(newState)
			st := hist.Explore(hist.Config{
				NewState: newState, Depth: d, VersionAt: vc.at, Run: r, Label: label,
				Visit: func(n *hist.Node, bc *blockchain.Blockchain) {
					q := checkNode(r, n, bc, label)
					r.Add("evaluations", int64(q))
					abandoned(r, n, newState, vc.at, label)
					// the same history on one long-lived node (no restart between the operations)
					if len(n.Ops) >= 2 {
						lbc, ld, err := n.ReplayLongLived(newState)
						if err != nil {
							r.Violate("history-fails-on-long-lived-node "+label+n.Exotic(), map[string]any{"path": n.PathString(), "err": err.Error()})
							return
						}
						if chain.ImageHash(ld) != n.Key {
							r.Outcome("long-lived image differs from restart-per-op image")
						}
						q := checkNode(r, n, lbc, label+" [long-lived]")
						r.Add("evaluations", int64(q))
						r.Add("long_lived_replays", 1)
					}
				},
			})
			states += int64(st.States)
			transitions += int64(st.Transitions)
			distinct[label] = true
			r.Sample(map[string]any{"config": label, "states": st.States, "transitions": st.Transitions, "per_depth": st.PerDepth})
		}
	}
	// deep reorgs: the BFS bound (3-5 operations) is below the six operations of "two blocks stored, both reverted, another
	// block stored" on top of a non-empty state. That family is enumerated on its own: S (every state of depth <= 1),
	// every branch x1,x2, two reverts, every y - on one long-lived node - then the full read sweep against the dictionary.
	for _, newState := range []bool{false, true} {
		for vi, vc := range versionConfigs {
			if r.Quick() && vi != 0 && vc.name != "0.14.0->0.14.1@2" {
				continue
			}
			n := deepReorgs(r, newState, vc.at, vc.name+hist.Backend(newState))
			transitions += n
			r.Add("deep_reorg_histories", n)
		}
	}
	queries = r.Get("evaluations")
	r.Set("states", states)
	r.Set("transitions", transitions)
	r.Set("traces_validated_against_impl", states)
	r.Set("distinct_nontrivial", states)
	r.Set("queries", queries)
	r.Set("rule", fmt.Sprintf("BFS over {store(block alphabet), revertHead} to depth %d (quick: 4 for the mixed-version config) on the real Blockchain (fresh instance per op = restart), state = concrete KV image; "+
		"in every distinct state every retained block x {by number, by hash, head} x every (contract, slot) / nonce / class hash / class / casm hash of the universe is read and compared with the dictionary state", depth))
	r.Assume = append(r.Assume, "block alphabet of mc/chain/alphabet.go; Pedersen/Poseidon primitives trusted", "go map iteration order inside juno not controlled")
	r.Finish()
}

// deepReorgs: see TestCheck.
func deepReorgs(r *ev.Run, newState bool, at func(uint64) string, label string) int64 {
	type stem struct {
		names []string
		chain []*chain.Entry
	}
	stems := []stem{{}}
	for _, nm := range chain.Alphabet(nil, 0, at(0)) {
		if e, err := chain.Build(nil, nm.Spec); err == nil {
			stems = append(stems, stem{[]string{"store:" + nm.Name}, []*chain.Entry{e}})
		}
	}
	type job struct {
		st         stem
		x1, x2, y  *chain.Entry
		n1, n2, ny string
	}
	var jobs []job
	for _, st := range stems {
		var head *chain.Entry
		var hs *chain.State
		var num uint64
		if len(st.chain) > 0 {
			head = st.chain[len(st.chain)-1]
			hs, num = head.State, head.Block.Number+1
		}
		al := chain.Alphabet(hs, num, at(num))
		for _, a1 := range al {
			x1, err := chain.Build(head, a1.Spec)
			if err != nil {
				continue
			}
			for _, a2 := range chain.Alphabet(x1.State, num+1, at(num+1)) {
				x2, err := chain.Build(x1, a2.Spec)
				if err != nil {
					continue
				}
				for _, ay := range al {
					if ay.Name == a1.Name {
						continue
					}
					y, err := chain.Build(head, ay.Spec)
					if err != nil {
						continue
					}
					jobs = append(jobs, job{st, x1, x2, y, a1.Name, a2.Name, ay.Name})
				}
			}
		}
	}
	ev.Par(len(jobs), 14, func(i int) {
		if r.OutOfTime() {
			r.Incomplete("deep reorgs " + label)
			return
		}
		j := jobs[i]
		d := memory.New()
		bc := chain.NewNode(d, newState)
		var parent *chain.Entry
		for _, e := range j.st.chain {
			if err := chain.StoreSync(bc, e.Fresh(parent)); err != nil {
				return // owned by C01
			}
			parent = e
		}
		stemHead := parent
		for _, e := range []*chain.Entry{j.x1, j.x2} {
			if err := chain.StoreSync(bc, e.Fresh(parent)); err != nil {
				return
			}
			parent = e
		}
		for k := 0; k < 2; k++ {
			if err := bc.RevertHead(); err != nil {
				return // owned by C04
			}
		}
		if err := chain.StoreSync(bc, j.y.Fresh(stemHead)); err != nil {
			return
		}
		n := &hist.Node{DB: d, Chain: append(append([]*chain.Entry{}, j.st.chain...), j.y),
			Path: append(append([]string{}, j.st.names...), "store:"+j.n1, "store:"+j.n2, "revert", "revert", "store:"+j.ny)}
		q := checkNode(r, n, bc, label+" [deep reorg]")
		r.Add("evaluations", int64(q))
	})
	return int64(len(jobs))
}

var errSigner = errors.New("scripted signer failure")

// abandoned: a state transition that is computed and then dropped must leave no trace. For every block of the alphabet
// on top of this state: (a) Blockchain.Simulate of it (what the block builder does with every proposal), (b) a Finalise
// of it whose signer fails (after the state update ran). The durable image must be byte-identical afterwards; if it is
// not, the whole read sweep is run on the changed node so that the report names the wrong answers.
func abandoned(r *ev.Run, n *hist.Node, newState bool, at func(uint64) string, label string) {
	var st *chain.State
	var num uint64
	head := n.Head()
	if head != nil {
		st, num = head.State, head.Block.Number+1
	}
	for _, nm := range chain.Alphabet(st, num, at(num)) {
		for _, how := range []string{"simulate", "finalise-with-failing-signer"} {
			e, err := chain.Build(head, nm.Spec)
			if err != nil {
				continue
			}
			d := n.DB.Copy()
			bc := chain.NewNode(d, newState)
			e.Block.Signatures = nil
			var opErr error
			pan, msg := ev.Guard(func() {
				if how == "simulate" {
					_, opErr = bc.Simulate(e.Block, e.SU, e.Classes, nil)
				} else {
					opErr = bc.Finalise(e.Block, e.SU, e.Classes, func(_, _ *felt.Felt) ([]*felt.Felt, error) { return nil, errSigner })
				}
			})
			r.Add("abandoned_transitions", 1)
			r.Add("evaluations", 1)
			if pan {
				r.Violate("abandoned-transition-panics "+how+" "+label+n.Exotic(), map[string]any{"path": n.PathString(), "block": nm.Name, "panic": msg})
				continue
			}
			if how != "simulate" && opErr == nil {
				r.Violate("finalise-succeeds-although-signer-failed "+label, map[string]any{"path": n.PathString(), "block": nm.Name})
				continue
			}
			if chain.ImageHash(d) == n.Key {
				r.Outcome("abandoned transition leaves no trace (" + how + ")")
				continue
			}
			r.Violate("abandoned-transition-changes-durable-state "+how+" "+label+n.Exotic(), map[string]any{"path": n.PathString(), "abandoned_block": nm.Name,
				"op_error": fmt.Sprint(opErr), "image_diff": chain.DiffImages(chain.Image(n.DB), chain.Image(d))})
			// which reads are wrong now (same dictionary state as before the abandoned transition)
			checkNode(r, n, chain.NewNode(d, newState), label+" [after abandoned "+how+"]")
		}
	}
}

var (
	universeAddrs = []felt.Felt{chain.AddrA, chain.AddrB, chain.AddrC, chain.Sys1, chain.Sys2, chain.FV(0xDEAD)}
	universeSlots = []felt.Felt{chain.Slot0, chain.Slot1, chain.FV(7), chain.FV(0), chain.FV(1), chain.FV(2), chain.FV(3), chain.FV(0x999)}
)

func classHashes() []felt.Felt {
	_, h0 := chain.Cairo0(0)
	_, h1, _, _ := chain.Sierra(1)
	_, h2, _, _ := chain.Sierra(2)
	return []felt.Felt{h0, h1, h2, chain.FV(0xBADC1A55)}
}

func checkNode(r *ev.Run, n *hist.Node, bc *blockchain.Blockchain, label string) int {
	q := 0
	type view struct {
		how    string
		reader core.StateReader
		want   *chain.State
		num    uint64
	}
	var views []view
	for i, e := range n.Chain {
		sr, cl, err := bc.StateAtBlockNumber(uint64(i))
		if err != nil {
			r.Violate("state-at-block-number-fails"+label, map[string]any{"path": n.PathString(), "block": i, "err": err.Error()})
			continue
		}
		defer cl()
		views = append(views, view{fmt.Sprintf("number=%d", i), sr, e.State, uint64(i)})
		sr2, cl2, err := bc.StateAtBlockHash(e.Block.Hash)
		if err != nil {
			r.Violate("state-at-block-hash-fails"+label, map[string]any{"path": n.PathString(), "block": i, "err": err.Error()})
			continue
		}
		defer cl2()
		views = append(views, view{fmt.Sprintf("hash-of=%d", i), sr2, e.State, uint64(i)})
	}
	if h := n.Head(); h != nil {
		sr, cl, err := bc.HeadState()
		if err != nil {
			r.Violate("head-state-fails"+label, map[string]any{"path": n.PathString(), "err": err.Error()})
		} else {
			defer cl()
			views = append(views, view{"head", sr, h.State, h.Block.Number})
		}
	}
	// reverted blocks must not be resolvable by hash any more
	for _, e := range n.Reverted {
		still := false
		for _, c := range n.Chain {
			if c.Block.Hash.Equal(e.Block.Hash) {
				still = true
			}
		}
		if still {
			continue
		}
		if _, cl, err := bc.StateAtBlockHash(e.Block.Hash); err == nil {
			cl()
			r.Violate("reverted-block-hash-still-resolves"+label, map[string]any{"path": n.PathString(), "block": e.Block.Number})
		}
		q++
	}
	bad := func(kind string, v view, detail map[string]any) {
		detail["path"] = n.PathString()
		detail["view"] = v.how
		hd := "historical"
		if v.how == "head" {
			hd = "head"
		}
		r.Violate(fmt.Sprintf("%s %s %s%s", kind, hd, label, n.Exotic()), detail)
	}
	for _, v := range views {
		for _, a := range universeAddrs {
			a := a
			c, exists := v.want.Contracts[a]
			ch, err := v.reader.ContractClassHash(&a)
			q++
			switch {
			case exists && !c.System:
				if err != nil || !ch.Equal(&c.Class) {
					bad("class-hash-wrong", v, map[string]any{"addr": a.String(), "got": ch.String(), "err": fmt.Sprint(err), "want": c.Class.String()})
				}
			case !exists && !isSys(&a):
				if err == nil {
					bad("undeployed-contract-has-class-hash", v, map[string]any{"addr": a.String(), "got": ch.String()})
				}
			default: // system contracts: error or zero
				if err == nil && !ch.IsZero() {
					bad("system-contract-class-hash-nonzero", v, map[string]any{"addr": a.String(), "got": ch.String()})
				}
			}
			nc, err := v.reader.ContractNonce(&a)
			q++
			switch {
			case exists && !c.System:
				if err != nil || !nc.Equal(&c.Nonce) {
					bad("nonce-wrong", v, map[string]any{"addr": a.String(), "got": nc.String(), "err": fmt.Sprint(err), "want": c.Nonce.String()})
				}
			case !exists && !isSys(&a):
				if err == nil {
					bad("undeployed-contract-has-nonce", v, map[string]any{"addr": a.String(), "got": nc.String()})
				}
			default:
				if err == nil && !nc.IsZero() {
					bad("system-contract-nonce-nonzero", v, map[string]any{"addr": a.String()})
				}
			}
			for _, s := range universeSlots {
				s := s
				val, err := v.reader.ContractStorage(&a, &s)
				q++
				var want felt.Felt
				if exists {
					want = c.Storage[s]
				}
				if exists {
					if err != nil || !val.Equal(&want) {
						bad("storage-wrong", v, map[string]any{"addr": a.String(), "slot": s.String(), "got": val.String(), "err": fmt.Sprint(err), "want": want.String()})
					}
				} else if err == nil && !val.IsZero() {
					// a contract that does not exist (yet / any more): not-found error or zero are both acceptable here
					bad("storage-of-nonexistent-contract-nonzero", v, map[string]any{"addr": a.String(), "slot": s.String(), "got": val.String()})
				}
			}
		}
		for _, h := range classHashes() {
			h := h
			rec, declared := v.want.Classes[h]
			dc, err := v.reader.Class(&h)
			q++
			if declared {
				if err != nil || dc == nil {
					bad("declared-class-not-found", v, map[string]any{"class": h.String(), "err": fmt.Sprint(err)})
				} else {
					if dc.At != rec.At {
						bad("class-declared-at-wrong", v, map[string]any{"class": h.String(), "got": dc.At, "want": rec.At})
					}
					if _, isSierra := dc.Class.(*core.SierraClass); isSierra != rec.Sierra {
						bad("class-kind-wrong", v, map[string]any{"class": h.String()})
					} else if isSierra {
						if gh, e := dc.Class.Hash(); e != nil || !gh.Equal(&h) {
							bad("class-definition-wrong", v, map[string]any{"class": h.String()})
						}
					}
				}
			} else if err == nil {
				bad("undeclared-class-found", v, map[string]any{"class": h.String(), "at": dc.At})
			}
			sh := felt.SierraClassHash(h)
			casm, err := v.reader.CompiledClassHash(&sh)
			q++
			if declared && rec.Sierra {
				want := rec.Casm()
				if err != nil || !(*felt.Felt)(&casm).Equal(&want) {
					bad("casm-hash-wrong", v, map[string]any{"class": h.String(), "got": (*felt.Felt)(&casm).String(), "err": fmt.Sprint(err), "want": want.String()})
				}
				c2, err := v.reader.CompiledClassHashV2(&sh)
				q++
				if err != nil || !(*felt.Felt)(&c2).Equal(&rec.CasmV2) {
					bad("casm-hash-v2-wrong", v, map[string]any{"class": h.String(), "got": (*felt.Felt)(&c2).String(), "err": fmt.Sprint(err)})
				}
			} else if !declared && err == nil {
				bad("undeclared-class-has-casm-hash", v, map[string]any{"class": h.String()})
			}
		}
	}
	return q
}

func isSys(a *felt.Felt) bool { return a.Equal(&chain.Sys1) || a.Equal(&chain.Sys2) }
