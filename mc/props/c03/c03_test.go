package c03

// C03 — head and historical state reads equal the dictionary state as of the requested block, after any
// interleaving of block additions and head reverts, for both state backends.

import (
	"errors"
	"fmt"
	"os"
	"sync"
	"testing"

	"verif/mc/chain"
	"verif/mc/ev"
	"verif/mc/hist"

	"github.com/NethermindEth/juno/blockchain"
	"github.com/NethermindEth/juno/core"
	"github.com/NethermindEth/juno/core/felt"
)

type vcfg struct {
	name string
	at   func(uint64) string
}

var versionConfigs = []vcfg{
	{"0.13.2", func(uint64) string { return "0.13.2" }},
	{"0.14.0", func(uint64) string { return "0.14.0" }},
	{"0.14.0->0.14.1@2", func(n uint64) string {
		if n < 2 {
			return "0.14.0"
		}
		return "0.14.1"
	}},
	{"0.14.1", func(uint64) string { return "0.14.1" }},
}

func TestCheck(t *testing.T) {
	r := ev.Start("C03", "model_checking")
	r.SetBudget(ev.Pick(r, 170, 2400))
	depth := ev.Pick(r, 3, 5)
	var queries, states, transitions int64
	distinct := map[string]bool{}
	// the two state backends are explored side by side (the BFS is level-parallel and its shallow levels leave most
	// cores idle); counters and reporting are goroutine-safe, the totals below are guarded by mu
	var mu sync.Mutex
	var wg sync.WaitGroup
	// root-neutral blocks (neutral_test.go): blocks that leave the commitment where it was - pure Cairo-0 declarations,
	// no-op nonce / replace / storage entries, empty diffs - reverted and re-applied at the same and at another height.
	// Started first and side by side with the BFS below (whose shallow levels leave most cores idle): it is small and
	// must not be the part the time budget cuts.
	// reads while the pruner service changes what is retained (prune_test.go): every chain x retention setting x L1-head
	// sequence x every database read / durable write of the sweep (incl. sweeps that fail part-way) x full read sweep.
	// Runs FIRST and on its own (about 40 CPU-seconds in the quick tier, a few seconds of wall time on an idle machine): on a
	// loaded machine the time budget must cut the tail of the big families below, never this one.
	var pwg sync.WaitGroup
	for _, newState := range []bool{false, true} {
		pwg.Add(1)
		go func(newState bool) {
			defer pwg.Done()
			for _, vc := range versionConfigs {
				if r.Quick() && vc.name != "0.14.0->0.14.1@2" {
					continue
				}
				n := pruneSweeps(r, newState, vc.at, vc.name)
				mu.Lock()
				transitions += n
				mu.Unlock()
			}
		}(newState)
	}
	pwg.Wait()
	// VERIF_C03_ONLY=prune (development aid, never set by bin/check): run the prune-sweep family alone
	onlyPrune := os.Getenv("VERIF_C03_ONLY") == "prune"
	for _, newState := range []bool{false, true} {
		if onlyPrune {
			break
		}
		wg.Add(1)
		go func(newState bool) {
			defer wg.Done()
			for _, vc := range versionConfigs {
				if r.Quick() && vc.name != "0.14.0->0.14.1@2" {
					continue // quick: the configuration with the richest alphabet (the only one with CASM migration)
				}
				tr, hs := rootNeutralReorgs(r, newState, vc.at, vc.name+hist.Backend(newState))
				mu.Lock()
				transitions += tr
				mu.Unlock()
				r.Add("root_neutral_reorg_histories", hs)
			}
		}(newState)
	}
	for _, newState := range []bool{false, true} {
		if onlyPrune {
			break
		}
		wg.Add(1)
		go func(newState bool) {
			defer wg.Done()
			for vi, vc := range versionConfigs {
				d := depth
				if r.Quick() && vc.name == "0.14.0->0.14.1@2" {
					d = 4 // the mixed-version configuration (the only one with CASM migration) goes one level deeper
				}
				label := vc.name + hist.Backend(newState)
				hc := heldTier(r, newState, label, label+" [long-lived]")
				st := hist.Explore(hist.Config{
					NewState: newState, Depth: d, VersionAt: vc.at, Run: r, Label: label, Workers: 9,
					Visit: func(n *hist.Node, bc *blockchain.Blockchain) {
						q := checkNode(r, n, bc, label)
						r.Add("evaluations", int64(q))
						abandoned(r, n, newState, vc.at, label)
					},
					// every transition (also those that lead to a state already seen): the same history on ONE long-lived
					// node (no restart between the operations) with HELD READERS (held_test.go), then the ordinary read sweep
					OnStore:  func(_, child *hist.Node, _ chain.Named) { heldTransition(r, hc, child) },
					OnRevert: func(_, child *hist.Node) { heldTransition(r, hc, child) },
				})
				mu.Lock()
				states += int64(st.States)
				transitions += int64(st.Transitions)
				distinct[label] = true
				mu.Unlock()
				r.Sample(map[string]any{"config": label, "states": st.States, "transitions": st.Transitions, "per_depth": st.PerDepth})
				// deep reorgs: the BFS bound (3-5 operations) is below the six operations of "two blocks stored, both reverted,
				// another block stored" on top of a non-empty state. That family is enumerated on its own: S (every state of
				// depth <= 1), every branch x1,x2, two reverts, every y - on one long-lived node - then the full read sweep
				// against the dictionary. It runs right after the BFS of its configuration, so that a run that is short of time
				// loses the last configurations and not this family as a whole.
				if r.Quick() && vi != 0 && vc.name != "0.14.0->0.14.1@2" {
					continue
				}
				n := deepReorgs(r, newState, vc.at, label)
				mu.Lock()
				transitions += n
				mu.Unlock()
				r.Add("deep_reorg_histories", n)
			}
		}(newState)
	}
	wg.Wait()
	queries = r.Get("evaluations")
	r.Set("states", states)
	r.Set("transitions", transitions)
	r.Set("traces_validated_against_impl", states)
	r.Set("distinct_nontrivial", states)
	r.Set("queries", queries)
	r.Set("rule", fmt.Sprintf("BFS over {store(block alphabet), revertHead} to depth %d (quick: 4 for the mixed-version config) on the real Blockchain (fresh instance per op = restart), state = concrete KV image; "+
		"in every distinct state every retained block x {by number, by hash, head} x every (contract, slot) / nonce / class hash / class / casm hash of the universe is read and compared with the dictionary state; "+
		"HELD READERS: every transition's history (and every deep-reorg history) runs on one long-lived node; %s every reader the node hands out (head, by number and by hash for every retained block) is obtained, swept, "+
		"kept across the following operations (%s) and swept again after each of them: a reader of a block that stays retained must keep answering with the state as of its block, a head reader with the state of the current head "+
		"(or of the head when obtained); readers whose block was reverted meanwhile carry no requirement (counted in the outcome histogram); "+
		"ROOT-NEUTRAL REORGS (neutral_test.go): alphabet extended by pure Cairo-0 declaration / re-declaration, nonce entry = current nonce, replace with the current class and a mix of them with a same-value "+
		"storage write; every history S.U.revert^|U|.V with S = store-only history of length <= %d, U = n or x.n%s with n root-neutral by the dictionary model (root before == root after), "+
		"V = every branch of length 1..2 (1 after |U|=2), restart per operation, full read sweep after every operation from U on (%s); "+
		"PRUNE SWEEPS (prune_test.go): the real pruner.Pruner service shares a RetentionFloor with one long-lived node: every store-only history of length %s over the shared alphabet + 2 empty blocks "+
		"x retained in %s x every L1-head sequence a<b and the single deepest sweep x {no fault, the k-th durable write of a sweep fails (every k) then a second sweep} x batch size %s; "+
		"at EVERY database read of the pruner, after every durable write, after the end of each sweep and after a restart following a completed sweep a reader of every block (by number, by hash) and the head "+
		"is requested and, whenever the durable image or the set of served blocks changed, fully swept: a served block must equal the dictionary state as of that block, a refusal is accepted below the highest "+
		"requested prune bound only, blocks at or above it and the head must be served", depth,
		ev.Pick(r, "at the last two states before the end of the history", "at every state of the history"), ev.Pick(r, "one and two operations", "all the remaining operations"),
		ev.Pick(r, 1, 2), ev.Pick(r, "", " or n.x"), ev.Pick(r, "mixed-version config", "all version configs"),
		ev.Pick(r, "2 (mixed-version config)", "3 (mixed-version config) / 2 (other configs)"), ev.Pick(r, "{0,1}", "{0,1,2}"), ev.Pick(r, "1 byte (commit per block)", "1 byte and default")))
	r.Assume = append(r.Assume, "block alphabet of mc/chain/alphabet.go (+ the root-neutral entries of props/c03/neutral_test.go in the root-neutral family); Pedersen/Poseidon primitives trusted",
		"prune-sweep family: no block is stored or reverted while a sweep is in progress; a restart after a sweep that failed part-way and was never completed is not enumerated (owned by C16, known finding crash-mid-prune)", "go map iteration order inside juno not controlled")
	r.Finish()
}

// deepReorgs: see TestCheck.
func deepReorgs(r *ev.Run, newState bool, at func(uint64) string, label string) int64 {
	type stem struct {
		names []string
		chain []*chain.Entry
	}
	stems := []stem{{}}
	for _, nm := range chain.Alphabet(nil, 0, at(0)) {
		if e, err := chain.Build(nil, nm.Spec); err == nil {
			stems = append(stems, stem{[]string{"store:" + nm.Name}, []*chain.Entry{e}})
		}
	}
	type job struct {
		st         stem
		x1, x2, y  *chain.Entry
		n1, n2, ny string
	}
	var jobs []job
	for _, st := range stems {
		var head *chain.Entry
		var hs *chain.State
		var num uint64
		if len(st.chain) > 0 {
			head = st.chain[len(st.chain)-1]
			hs, num = head.State, head.Block.Number+1
		}
		al := chain.Alphabet(hs, num, at(num))
		for _, a1 := range al {
			x1, err := chain.Build(head, a1.Spec)
			if err != nil {
				continue
			}
			for _, a2 := range chain.Alphabet(x1.State, num+1, at(num+1)) {
				x2, err := chain.Build(x1, a2.Spec)
				if err != nil {
					continue
				}
				for _, ay := range al {
					if ay.Name == a1.Name {
						continue
					}
					y, err := chain.Build(head, ay.Spec)
					if err != nil {
						continue
					}
					jobs = append(jobs, job{st, x1, x2, y, a1.Name, a2.Name, ay.Name})
				}
			}
		}
	}
	hc := heldTier(r, newState, label+" [deep reorg]", label+" [deep reorg]")
	ev.Par(len(jobs), 14, func(i int) {
		if r.OutOfTime() {
			r.Incomplete("deep reorgs " + label)
			return
		}
		j := jobs[i]
		// executed with held readers (held_test.go): readers obtained along the way are kept across the reverts / the store
		ops := append(append([]*chain.Entry{}, j.st.chain...), j.x1, j.x2, nil, nil, j.y)
		path := append(append([]string{}, j.st.names...), "store:"+j.n1, "store:"+j.n2, "revert", "revert", "store:"+j.ny)
		n := &hist.Node{Path: path}
		bc, d, stack, reverted, err := heldRun(r, hc, ops, path, n.Exotic())
		if err != nil {
			return // owned by C01 / C04
		}
		r.Add("held_reader_histories", 1)
		n.DB, n.Chain, n.Reverted = d, stack, reverted
		q := checkNode(r, n, bc, label+" [deep reorg]")
		r.Add("evaluations", int64(q))
	})
	return int64(len(jobs))
}

var errSigner = errors.New("scripted signer failure")

// abandoned: a state transition that is computed and then dropped must leave no trace. For every block of the alphabet
// on top of this state: (a) Blockchain.Simulate of it (what the block builder does with every proposal), (b) a Finalise
// of it whose signer fails (after the state update ran). The durable image must be byte-identical afterwards; if it is
// not, the whole read sweep is run on the changed node so that the report names the wrong answers.
func abandoned(r *ev.Run, n *hist.Node, newState bool, at func(uint64) string, label string) {
	var st *chain.State
	var num uint64
	head := n.Head()
	if head != nil {
		st, num = head.State, head.Block.Number+1
	}
	for _, nm := range chain.Alphabet(st, num, at(num)) {
		for _, how := range []string{"simulate", "finalise-with-failing-signer"} {
			e, err := chain.Build(head, nm.Spec)
			if err != nil {
				continue
			}
			d := n.DB.Copy()
			bc := chain.NewNode(d, newState)
			e.Block.Signatures = nil
			var opErr error
			pan, msg := ev.Guard(func() {
				if how == "simulate" {
					_, opErr = bc.Simulate(e.Block, e.SU, e.Classes, nil)
				} else {
					opErr = bc.Finalise(e.Block, e.SU, e.Classes, func(_, _ *felt.Felt) ([]*felt.Felt, error) { return nil, errSigner })
				}
			})
			r.Add("abandoned_transitions", 1)
			r.Add("evaluations", 1)
			if pan {
				r.Violate("abandoned-transition-panics "+how+" "+label+n.Exotic(), map[string]any{"path": n.PathString(), "block": nm.Name, "panic": msg})
				continue
			}
			if how != "simulate" && opErr == nil {
				r.Violate("finalise-succeeds-although-signer-failed "+label, map[string]any{"path": n.PathString(), "block": nm.Name})
				continue
			}
			if chain.ImageHash(d) == n.Key {
				r.Outcome("abandoned transition leaves no trace (" + how + ")")
				continue
			}
			r.Violate("abandoned-transition-changes-durable-state "+how+" "+label+n.Exotic(), map[string]any{"path": n.PathString(), "abandoned_block": nm.Name,
				"op_error": fmt.Sprint(opErr), "image_diff": chain.DiffImages(chain.Image(n.DB), chain.Image(d))})
			// which reads are wrong now (same dictionary state as before the abandoned transition)
			checkNode(r, n, chain.NewNode(d, newState), label+" [after abandoned "+how+"]")
		}
	}
}

var (
	universeAddrs = []felt.Felt{chain.AddrA, chain.AddrB, chain.AddrC, chain.Sys1, chain.Sys2, chain.FV(0xDEAD)}
	universeSlots = []felt.Felt{chain.Slot0, chain.Slot1, chain.FV(7), chain.FV(0), chain.FV(1), chain.FV(2), chain.FV(3), chain.FV(0x999)}
)

func classHashes() []felt.Felt {
	_, h0 := chain.Cairo0(0)
	_, h1, _, _ := chain.Sierra(1)
	_, h2, _, _ := chain.Sierra(2)
	return []felt.Felt{h0, h1, h2, chain.FV(0xBADC1A55)}
}

func checkNode(r *ev.Run, n *hist.Node, bc *blockchain.Blockchain, label string) int {
	q := 0
	type view struct {
		how    string
		reader core.StateReader
		want   *chain.State
		num    uint64
	}
	var views []view
	for i, e := range n.Chain {
		sr, cl, err := bc.StateAtBlockNumber(uint64(i))
		if err != nil {
			r.Violate("state-at-block-number-fails"+label, map[string]any{"path": n.PathString(), "block": i, "err": err.Error()})
			continue
		}
		defer cl()
		views = append(views, view{fmt.Sprintf("number=%d", i), sr, e.State, uint64(i)})
		sr2, cl2, err := bc.StateAtBlockHash(e.Block.Hash)
		if err != nil {
			r.Violate("state-at-block-hash-fails"+label, map[string]any{"path": n.PathString(), "block": i, "err": err.Error()})
			continue
		}
		defer cl2()
		views = append(views, view{fmt.Sprintf("hash-of=%d", i), sr2, e.State, uint64(i)})
	}
	if h := n.Head(); h != nil {
		sr, cl, err := bc.HeadState()
		if err != nil {
			r.Violate("head-state-fails"+label, map[string]any{"path": n.PathString(), "err": err.Error()})
		} else {
			defer cl()
			views = append(views, view{"head", sr, h.State, h.Block.Number})
		}
	}
	// reverted blocks must not be resolvable by hash any more
	for _, e := range n.Reverted {
		still := false
		for _, c := range n.Chain {
			if c.Block.Hash.Equal(e.Block.Hash) {
				still = true
			}
		}
		if still {
			continue
		}
		if _, cl, err := bc.StateAtBlockHash(e.Block.Hash); err == nil {
			cl()
			r.Violate("reverted-block-hash-still-resolves"+label, map[string]any{"path": n.PathString(), "block": e.Block.Number})
		}
		q++
	}
	bad := func(kind string, v view, detail map[string]any) {
		detail["path"] = n.PathString()
		detail["view"] = v.how
		hd := "historical"
		if v.how == "head" {
			hd = "head"
		}
		r.Violate(fmt.Sprintf("%s %s %s%s", kind, hd, label, n.Exotic()), detail)
	}
	for _, v := range views {
		ms, nq := sweep(v.reader, v.want)
		q += nq
		for _, m := range ms {
			bad(m.kind, v, m.detail)
		}
	}
	return q
}

func isSys(a *felt.Felt) bool { return a.Equal(&chain.Sys1) || a.Equal(&chain.Sys2) }
