package c03

// READS WHILE THE PRUNER CHANGES WHAT IS RETAINED. The property speaks about "every block the node retains"; which
// blocks those are is decided by another component - the pruner service (pruner.Pruner, wired to the Blockchain through
// the shared pruner.RetentionFloor exactly like node.New does for --prune-mode) - and it changes WHILE the node answers
// reads: one pruning sweep makes its deletions durable in several batches, and the in-memory floor is published at some
// point of it. The families of c03_test.go / held_test.go / neutral_test.go never ran a pruner, so every read there was
// answered by a node on which "retained" = "stored and not reverted".
//
// Enumerated here (family "prune sweep"), per state backend and version configuration:
//
//	chain    every store-only history of length P over the shared block alphabet (repeated writes to the same slot /
//	         nonce / class included: A.s0=0/1/2, A.touch, A.replace, sys2.write ...), extended by T empty blocks
//	         (so that there is a head above every L1 head used below); P=2, T=2 (thorough: P=3 in the mixed-version
//	         configuration). quick: mixed-version configuration only, thorough: all four
//	R        number of retained blocks handed to pruner.New: 0, 1 (thorough: 0, 1, 2)
//	L1 heads every sequence a < b of L1 heads in [R, head-1] (two sweeps on the same long-lived node; the first sweep of
//	         a sequence covers the one-sweep case) and the single sweep to head-1; each L1 head h makes the service
//	         prune [oldest, h-R)
//	L2 path  additionally: an L1 head above the local head is recorded and the head block is announced on the new-heads
//	         feed (WithL2HeadsPerPrune(1)): the service prunes [oldest, head-R); alone and after a sweep to L1 head head-1
//	         (thorough: also after a sweep to L1 head R)
//	fault    none, or: the k-th durable write of the (first) sweep fails, for every k (a sweep that fails part-way),
//	         followed by a second, unfaulted sweep (quick: on the deepest sweep [head-1, head-1]; thorough: also on the
//	         first sweep of every two-sweep sequence)
//	batch    pruner.WithTargetBatchByteSize(1): the sweep commits after every block (the finest sequence of durable
//	         images; the default size yields a subsequence of it). thorough: also the default size.
//
// Observation points: the pruner works on a database proxy (mc/faultdb) that calls back BEFORE every database read of
// the pruner and AFTER every durable write (also a failed one), plus after the service reported the end of the sweep
// (OnPrune / OnPruneError) and, when the last sweep succeeded, after a restart (fresh Blockchain + floor seeded from the
// store). At every point the node is asked for a reader of EVERY block of the chain by number and by hash (and the
// head); whenever the set of answered blocks or the durable image differs from the previous point, the full read sweep
// of sweep_test.go (every contract x {class hash, nonce, every slot}, every class x {definition, declared-at, casm hash})
// runs on every reader handed out.
//
// Oracle (never demands more than the property): a reader of block n that the node HANDS OUT must answer exactly the
// dictionary state as of block n; a refusal (db.ErrKeyNotFound / pruner.ErrBlockPruned) is always acceptable for a block
// below the highest bound any sweep was asked to prune to; blocks at or above that bound are untouched by every sweep
// and must be served; the head must always be served. After a sweep that failed part-way (long-lived node) the same
// rule holds. A restart after a sweep that failed part-way and was not completed is NOT enumerated here (owned by C16:
// known finding "crash-mid-prune").

import (
	"context"
	"errors"
	"fmt"
	"strings"
	"sync/atomic"
	"time"

	"verif/mc/chain"
	"verif/mc/ev"
	"verif/mc/faultdb"
	"verif/mc/hist"
	"verif/mc/poisondb"

	"github.com/NethermindEth/juno/blockchain"
	"github.com/NethermindEth/juno/core"
	"github.com/NethermindEth/juno/db"
	"github.com/NethermindEth/juno/db/memory"
	"github.com/NethermindEth/juno/feed"
	"github.com/NethermindEth/juno/pruner"
	"github.com/NethermindEth/juno/utils/log"
)

type pruneStem struct {
	names []string
	chain []*chain.Entry
	img   *memory.Database
}

// pruneScenario: one run of the pruner service on one chain.
type pruneScenario struct {
	retained uint64
	l1s      []uint64
	failAt   int // 0 = no fault; k = the k-th durable write of the first sweep fails
	batch    int // 0 = default target batch size
	// thenL2: after the L1-head sweeps, an L1 head ABOVE the local head is recorded (catch-up) and the head block is
	// announced on the new-heads feed: the L2 path of the service prunes [oldest, head-retained)
	thenL2 bool
}

func (s pruneScenario) String() string {
	b := "default"
	if s.batch > 0 {
		b = fmt.Sprint(s.batch)
	}
	f := "none"
	if s.failAt > 0 {
		f = fmt.Sprintf("durable write #%d of the first sweep fails", s.failAt)
	}
	l2 := ""
	if s.thenL2 {
		l2 = " then-l2-head-event(l1 above head)"
	}
	return fmt.Sprintf("retained=%d l1-heads=%v%s fault=%s batch-bytes=%s", s.retained, s.l1s, l2, f, b)
}

// openPruningNode wires Blockchain + RetentionFloor the way node.New / node.Run do for --prune-mode.
func openPruningNode(d db.KeyValueStore, newState bool) (*blockchain.Blockchain, *pruner.RetentionFloor, error) {
	fl := &pruner.RetentionFloor{}
	bc := blockchain.New(poisondb.Wrap(d), chain.Net, blockchain.WithNewState(newState), blockchain.WithRetentionFloor(fl),
		blockchain.WithRunningEventFilterInitializer(pruner.InitializeRunningEventFilter))
	return bc, fl, fl.Seed(d)
}

func isRefusal(err error) bool {
	return errors.Is(err, db.ErrKeyNotFound) || errors.Is(err, pruner.ErrBlockPruned)
}

// pruneSweeps runs the family for one backend / version configuration; returns the number of pruner runs.
func pruneSweeps(r *ev.Run, newState bool, at func(uint64) string, vname string) int64 {
	P, T := 2, 2
	if r.Thorough() && vname == "0.14.0->0.14.1@2" {
		P = 3 // thorough: one more enumerated block in the configuration with the richest alphabet
	}
	retainedSet := ev.Pick(r, []uint64{0, 1}, []uint64{0, 1, 2})
	batches := ev.Pick(r, []int{1}, []int{1, 0})
	tag := vname + "/prune-sweep" + hist.Backend(newState)

	// stems: every store-only history of length P-1 (built once, sequentially; the last block and the tail are added
	// inside the parallel jobs)
	stems := []pruneStem{{img: memory.New()}}
	for lvl := 0; lvl < P-1; lvl++ {
		var next []pruneStem
		for _, st := range stems {
			var head *chain.Entry
			var hs *chain.State
			if len(st.chain) > 0 {
				head = st.chain[len(st.chain)-1]
				hs = head.State
			}
			num := uint64(len(st.chain))
			for _, nm := range chain.Alphabet(hs, num, at(num)) {
				e, err := chain.Build(head, nm.Spec)
				if err != nil {
					continue
				}
				d := st.img.Copy()
				if err := chain.StoreSync(chain.NewNode(d, newState), e.Fresh(head)); err != nil {
					r.Outcome("valid-block-rejected (reported by C01)")
					continue
				}
				next = append(next, pruneStem{append(append([]string{}, st.names...), nm.Name), append(append([]*chain.Entry{}, st.chain...), e), d})
			}
		}
		stems = next
	}
	type job struct {
		st pruneStem
		nm chain.Named
	}
	var jobs []job
	for _, st := range stems {
		var hs *chain.State
		if len(st.chain) > 0 {
			hs = st.chain[len(st.chain)-1].State
		}
		num := uint64(len(st.chain))
		for _, nm := range chain.Alphabet(hs, num, at(num)) {
			jobs = append(jobs, job{st, nm})
		}
	}
	var runs atomic.Int64
	ev.Par(len(jobs), 8, func(i int) {
		if r.OutOfTime() {
			r.Incomplete("prune sweeps " + tag)
			return
		}
		j := jobs[i]
		names := append([]string{}, j.st.names...)
		entries := append([]*chain.Entry{}, j.st.chain...)
		d := j.st.img.Copy()
		add := func(nm chain.Named) bool {
			var head *chain.Entry
			if len(entries) > 0 {
				head = entries[len(entries)-1]
			}
			e, err := chain.Build(head, nm.Spec)
			if err != nil {
				return false
			}
			if err := chain.StoreSync(chain.NewNode(d, newState), e.Fresh(head)); err != nil {
				r.Outcome("valid-block-rejected (reported by C01)")
				return false
			}
			names, entries = append(names, nm.Name), append(entries, e)
			return true
		}
		if !add(j.nm) {
			return
		}
		for t := 0; t < T; t++ {
			num := uint64(len(entries))
			ok := false
			for _, nm := range chain.Alphabet(entries[len(entries)-1].State, num, at(num)) {
				if nm.Name == "empty" {
					ok = add(nm)
					break
				}
			}
			if !ok {
				return
			}
		}
		r.Add("prune_chains", 1)
		pw := &pruneChain{r: r, newState: newState, tag: tag, names: names, entries: entries, img: d, runs: &runs}
		H := uint64(len(entries) - 1)
		for _, batch := range batches {
			for _, R := range retainedSet {
				if R > H-1 {
					continue
				}
				var seqs [][]uint64
				for a := R; a <= H-1; a++ {
					for b := a + 1; b <= H-1; b++ {
						seqs = append(seqs, []uint64{a, b})
					}
				}
				seqs = append(seqs, []uint64{H - 1})
				// the L2 path of the service (L1 ahead of the local head): alone, and after a sweep to the lowest / deepest L1 head
				for _, s := range ev.Pick(r, [][]uint64{nil, {H - 1}}, [][]uint64{nil, {R}, {H - 1}}) {
					pw.run(pruneScenario{retained: R, l1s: s, batch: batch, thenL2: true})
				}
				for _, s := range seqs {
					commits := pw.run(pruneScenario{retained: R, l1s: s, batch: batch})
					if r.Thorough() && len(s) == 2 && batch == 1 {
						for k := 1; k <= commits; k++ {
							pw.run(pruneScenario{retained: R, l1s: s, failAt: k, batch: batch})
						}
					}
					if len(s) == 1 {
						for k := 1; k <= commits; k++ {
							pw.run(pruneScenario{retained: R, l1s: []uint64{H - 1, H - 1}, failAt: k, batch: batch})
						}
					}
				}
			}
		}
	})
	return runs.Load()
}

type pruneChain struct {
	r        *ev.Run
	newState bool
	tag      string
	names    []string
	entries  []*chain.Entry
	img      *memory.Database
	runs     *atomic.Int64
}

func (pc *pruneChain) exotic() string {
	for _, n := range pc.names {
		if strings.HasSuffix(n, "sys1.clear") {
			return " [history clears system contract 0x1]"
		}
	}
	return ""
}

// run executes one scenario and returns the number of durable writes the FIRST sweep made (failed ones included).
func (pc *pruneChain) run(sc pruneScenario) int {
	r := pc.r
	fdb := faultdb.Wrap(pc.img.Copy())
	bc, floor, err := openPruningNode(fdb.Inner(), pc.newState)
	if err != nil {
		r.Infra("prune sweeps: opening the pruning node: %v", err)
	}
	type result struct {
		err    error
		oldest uint64
	}
	done := make(chan result, 4)
	opts := []pruner.Option{pruner.WithL2HeadsPerPrune(1), pruner.WithListener(&pruner.SelectiveListener{
		OnPruneCb:      func(oldest, _ uint64, _ time.Duration) { done <- result{nil, oldest} },
		OnPruneErrorCb: func(e error) { done <- result{e, 0} },
	})}
	if sc.batch > 0 {
		opts = append(opts, pruner.WithTargetBatchByteSize(sc.batch))
	}
	l1Feed, l2Feed := feed.New[*core.L1Head](), feed.New[*core.Block]()
	p := pruner.New(fdb, floor, sc.retained, l2Feed.Subscribe(), l1Feed.Subscribe(), log.NewNopZapLogger(), opts...)
	ctx, cancel := context.WithCancel(context.Background())
	exited := make(chan error, 1)
	go func() { exited <- p.Run(ctx) }()
	defer func() {
		cancel()
		<-exited
	}()
	r.Add("prune_runs"+hist.Backend(pc.newState), 1)
	pc.runs.Add(1)

	o := &pruneObserver{pc: pc, sc: sc, bc: bc, label: pc.tag + " [long-lived]"}
	o.observe("before any sweep", fdb.Commits())
	firstCommits := 0
	H := uint64(len(pc.entries) - 1)
	trigs := append([]uint64{}, sc.l1s...)
	if sc.thenL2 {
		trigs = append(trigs, H+1)
	}
	for i, l1 := range trigs {
		viaL2 := l1 > H
		var h *core.L1Head
		if viaL2 {
			h = &core.L1Head{BlockNumber: l1, BlockHash: chain.F(0x11AA), StateRoot: chain.F(0x11BB)}
		} else {
			e := pc.entries[l1]
			h = &core.L1Head{BlockNumber: l1, BlockHash: e.Block.Hash, StateRoot: e.Block.GlobalStateRoot}
		}
		// Blockchain.SetL1Head = feed.Send + WriteL1Head; the record is written first (and outside the numbered commits)
		if err := core.WriteL1Head(fdb.Inner(), h); err != nil {
			r.Infra("prune sweeps: WriteL1Head: %v", err)
		}
		o.bound = max(o.bound, min(l1, H)-sc.retained)
		c0 := fdb.Commits()
		if i == 0 && sc.failAt > 0 {
			fdb.FailAt(c0+sc.failAt, nil)
		}
		reads := 0
		fdb.OnRead(func(string, []byte) {
			reads++
			o.observe(fmt.Sprintf("sweep %d (L1 head %d): before database read #%d of the pruner, %d durable writes of this sweep done", i+1, l1, reads, fdb.Commits()-c0), fdb.Commits())
		})
		fdb.OnCommit(func(c faultdb.Commit) {
			how := "committed"
			if c.Failed {
				how = "FAILED"
			}
			o.observe(fmt.Sprintf("sweep %d (L1 head %d): after durable write #%d of this sweep (%s)", i+1, l1, c.N-c0, how), c.N)
		})
		if viaL2 {
			l2Feed.Send(pc.entries[H].Block)
		} else {
			l1Feed.Send(h)
		}
		var res result
		select {
		case res = <-done:
		case <-time.After(10 * time.Minute):
			r.Infra("prune sweeps: the pruner service did not report the end of a sweep (%s ; %s)", strings.Join(pc.names, " ; "), sc)
		}
		fdb.OnRead(nil)
		fdb.OnCommit(nil)
		if i == 0 {
			firstCommits = fdb.Commits() - c0
		}
		switch {
		case res.err == nil:
			o.lastOK = true
			r.Outcome("prune sweep: completed")
		case i == 0 && sc.failAt > 0:
			o.lastOK = false
			r.Outcome("prune sweep: failed part-way (injected write failure)")
		default:
			o.lastOK = false
			r.Outcome("prune sweep: fails without an injected fault (owned by C16)")
		}
		o.observe(fmt.Sprintf("sweep %d (L1 head %d): after the service reported the end of the sweep (err=%v)", i+1, l1, res.err), fdb.Commits())
	}
	if o.lastOK {
		// restart: fresh Blockchain, floor seeded from the store
		bc2, _, err := openPruningNode(fdb.Inner(), pc.newState)
		if err != nil {
			r.Infra("prune sweeps: reopening the pruning node: %v", err)
		}
		o2 := &pruneObserver{pc: pc, sc: sc, bc: bc2, label: pc.tag, bound: o.bound}
		o2.observe("after the last sweep and a restart", fdb.Commits())
	}
	return firstCommits
}

type pruneObserver struct {
	pc      *pruneChain
	sc      pruneScenario
	bc      *blockchain.Blockchain
	label   string
	bound   uint64 // highest bound any sweep was asked to prune to (blocks >= bound are untouched)
	lastOK  bool
	lastSig string
}

// observe: one observation point. Readers of every block by number / by hash and the head are requested; the full read
// sweep runs when (durable image number, set of served blocks) differs from the previous point of this run.
func (o *pruneObserver) observe(point string, commits int) {
	r, pc := o.pc.r, o.pc
	r.Add("prune_observation_points", 1)
	type view struct {
		how    string
		reader core.StateReader
		want   *chain.State
	}
	var views []view
	var sig strings.Builder
	fmt.Fprintf(&sig, "%d:", commits)
	detail := func(m map[string]any) map[string]any {
		m["chain"] = strings.Join(pc.names, " ; ")
		m["pruner"] = o.sc.String()
		m["point"] = point
		return m
	}
	for n, e := range pc.entries {
		for _, by := range []string{"number", "hash"} {
			var sr core.StateReader
			var cl func() error
			var err error
			if by == "number" {
				sr, cl, err = o.bc.StateAtBlockNumber(uint64(n))
			} else {
				sr, cl, err = o.bc.StateAtBlockHash(e.Block.Hash)
			}
			if err != nil {
				sig.WriteByte('-')
				switch {
				case !isRefusal(err):
					r.Violate("state-at-block-"+by+"-fails-with-unexpected-error "+o.label+pc.exotic(), detail(map[string]any{"block": n, "err": err.Error()}))
				case uint64(n) >= o.bound:
					r.Violate("block-above-every-prune-bound-refused by-"+by+" "+o.label+pc.exotic(), detail(map[string]any{"block": n, "err": err.Error(), "highest_prune_bound": o.bound}))
				default:
					r.Outcome("block below the prune bound: refused")
				}
				continue
			}
			sig.WriteByte('+')
			defer cl() //nolint:errcheck
			views = append(views, view{fmt.Sprintf("%s-of=%d", by, n), sr, e.State})
		}
	}
	sr, cl, err := o.bc.HeadState()
	if err != nil {
		r.Violate("head-state-fails "+o.label+pc.exotic(), detail(map[string]any{"err": err.Error()}))
	} else {
		defer cl() //nolint:errcheck
		views = append(views, view{"head", sr, pc.entries[len(pc.entries)-1].State})
	}
	if sig.String() == o.lastSig {
		return
	}
	o.lastSig = sig.String()
	r.Add("prune_read_sweeps", 1)
	q := 0
	for _, v := range views {
		ms, nq := sweep(v.reader, v.want)
		q += nq
		hd := "historical"
		if v.how == "head" {
			hd = "head"
		} else {
			r.Outcome("block served while / after a prune sweep: equals the model unless reported")
		}
		for _, m := range ms {
			m.detail["view"] = v.how
			m.detail["served"] = o.lastSig
			r.Violate(fmt.Sprintf("%s %s %s%s", m.kind, hd, o.label, pc.exotic()), detail(m.detail))
		}
	}
	r.Add("evaluations", int64(q))
	r.Add("prune_queries", int64(q))
}
