package c03

// HELD READERS. A state reader is a "view as of block N" (blockchain.go: "a stable view to the state at the given block
// number / hash", "a stable view to the latest state"); RPC handlers, the VM and the builder keep one while the sync loop
// stores or reverts blocks. Everything else in this check asks its questions through a reader obtained AFTER the history
// was built. Here every explored history is executed on ONE long-lived node and, at the states before its last
// operations, every reader the node hands out (HeadState, StateAtBlockNumber(i) and StateAtBlockHash(hash_i) for every
// retained block i - the head block and the older ones) is obtained, KEPT across the following operations and then asked
// the whole universe of questions again.
//
// Oracle (what the property text states, nothing more):
//   * reader of block i (by number / by hash), block i still retained, never reverted since the reader was obtained:
//     every answer equals the dictionary state as of block i - whatever was stored or reverted above it meanwhile.
//   * reader of a block that has been reverted since (even if the same or another block was stored at that height
//     again): NO requirement. The property quantifies over "every block the node retains"; the block the reader
//     stands for is not retained any more. (Measured on the unchanged tree: both backends read the live store, so such
//     a reader answers with the content of the block below / the block now at that height. That is another block's
//     content, but outside the stated property; it is only recorded in the outcome histogram.) A panic is reported.
//   * HeadState reader: both backends implement it as a live view (it reads the current contract records), a
//     snapshot implementation would be just as good. Accepted: the whole sweep equals the state of the CURRENT head,
//     or the whole sweep equals the state of the head at the time the reader was obtained. Not checked while the
//     chain is empty.
// A wrong answer of a held reader that a FRESH reader for the same block gives as well is not a held-reader defect: it
// is reported under the ordinary key of the read sweep (label "[long-lived]"), so that known findings keep matching.
//
// Lifetime rules: every closer is called when the reader is dropped (all closers are no-ops today); readers are only
// used from the goroutine that runs the operations, never concurrently with a Store / RevertHead.

import (
	"fmt"
	"strings"

	"verif/mc/chain"
	"verif/mc/ev"
	"verif/mc/hist"

	"github.com/NethermindEth/juno/blockchain"
	"github.com/NethermindEth/juno/core"
	"github.com/NethermindEth/juno/db/memory"
)

type heldReader struct {
	how     string // "head" | "number=i" | "hash-of=i"
	isHead  bool
	reader  core.StateReader
	closer  func() error
	entry   *chain.Entry // the block the reader stands for (head reader: the head when it was obtained)
	takenAt int          // number of operations executed when it was obtained
	orphan  bool         // its block has been reverted since
}

type heldCfg struct {
	newState bool
	label    string
	// sweepLabel: label of the ordinary read sweep in this setting (for wrong answers that a fresh reader gives too)
	sweepLabel string
	// window: a reader is kept across the next `window` operations, then closed.
	window int
	// tailOnly: readers are only obtained at the last `window` states before the end of the history (what is kept
	// across the earlier operations is covered by the histories that end there: every prefix of an explored history
	// is an explored history); otherwise at every state of the history.
	// In both modes a reader is swept once when it is obtained (first use, before the chain moves: a reader may
	// memoise what it saw) and again after every operation it is kept across.
	tailOnly bool
}

func heldTier(r *ev.Run, newState bool, label, sweepLabel string) heldCfg {
	if r.Quick() {
		// quick: readers obtained at the last two states of a history and held across two operations in the
		// mixed-version configuration, at the last state and across one operation in the others (the sweeps of held
		// readers are the most expensive part of this check; the thorough tier holds every reader to the end)
		w := 1
		if strings.HasPrefix(label, "0.14.0->0.14.1@2") {
			w = 2
		}
		return heldCfg{newState: newState, label: label, sweepLabel: sweepLabel, window: w, tailOnly: true}
	}
	return heldCfg{newState: newState, label: label, sweepLabel: sweepLabel, window: 1 << 20}
}

// heldRun executes ops (an entry = store that block, nil = revert the head) on one long-lived node over a fresh store,
// with held readers as described above. It returns the node, its store, the chain now stored and the reverted blocks.
// err != nil: a store / revert failed (owned by C01 / C04; reported by the caller if at all).
func heldRun(r *ev.Run, cfg heldCfg, ops []*chain.Entry, path []string, exotic string) (
	bc *blockchain.Blockchain, d *memory.Database, stack, reverted []*chain.Entry, err error,
) {
	d = memory.New()
	bc = chain.NewNode(d, cfg.newState)
	var helds []*heldReader
	defer func() {
		for _, h := range helds {
			h.closer()
		}
	}()
	for k, op := range ops {
		if op == nil {
			if len(stack) == 0 {
				return nil, nil, nil, nil, fmt.Errorf("op %d: revert on an empty chain", k)
			}
			if err := bc.RevertHead(); err != nil {
				return nil, nil, nil, nil, fmt.Errorf("op %d revert: %w", k, err)
			}
			gone := stack[len(stack)-1]
			stack = stack[:len(stack)-1]
			reverted = append(reverted, gone)
			for _, h := range helds {
				if !h.isHead && h.entry == gone {
					h.orphan = true
				}
			}
		} else {
			var parent *chain.Entry
			if len(stack) > 0 {
				parent = stack[len(stack)-1]
			}
			if err := chain.StoreSync(bc, op.Fresh(parent)); err != nil {
				return nil, nil, nil, nil, fmt.Errorf("op %d store: %w", k, err)
			}
			stack = append(stack, op)
		}
		done := k + 1 // operations executed
		last := done == len(ops)
		for _, h := range helds {
			checkHeld(r, cfg, bc, h, stack, path, done, exotic)
		}
		keep := helds[:0]
		for _, h := range helds {
			if done-h.takenAt >= cfg.window {
				h.closer()
				continue
			}
			keep = append(keep, h)
		}
		helds = keep
		if last || (cfg.tailOnly && len(ops)-done > cfg.window) {
			continue
		}
		fresh := obtainReaders(bc, stack, done)
		r.Add("held_readers", int64(len(fresh)))
		for _, h := range fresh {
			checkHeld(r, cfg, bc, h, stack, path, done, exotic) // first use
		}
		helds = append(helds, fresh...)
	}
	return bc, d, stack, reverted, nil
}

// obtainReaders: every reader the node hands out in this state. Failures to open one are reported by the fresh read
// sweep (checkNode), not here.
func obtainReaders(bc *blockchain.Blockchain, stack []*chain.Entry, done int) []*heldReader {
	var out []*heldReader
	for i, e := range stack {
		if sr, cl, err := bc.StateAtBlockNumber(uint64(i)); err == nil {
			out = append(out, &heldReader{how: fmt.Sprintf("number=%d", i), reader: sr, closer: cl, entry: e, takenAt: done})
		}
		if sr, cl, err := bc.StateAtBlockHash(e.Block.Hash); err == nil {
			out = append(out, &heldReader{how: fmt.Sprintf("hash-of=%d", i), reader: sr, closer: cl, entry: e, takenAt: done})
		}
	}
	if len(stack) > 0 {
		if sr, cl, err := bc.HeadState(); err == nil {
			out = append(out, &heldReader{how: "head", isHead: true, reader: sr, closer: cl, entry: stack[len(stack)-1], takenAt: done})
		}
	}
	return out
}

func guardedSweep(reader core.StateReader, want *chain.State) (ms []mismatch, q int, panicked bool, msg string) {
	panicked, msg = ev.Guard(func() { ms, q = sweep(reader, want) })
	return
}

func checkHeld(r *ev.Run, cfg heldCfg, bc *blockchain.Blockchain, h *heldReader, stack []*chain.Entry, path []string, done int, exotic string) {
	hd := "historical"
	if h.isHead {
		hd = "head"
	}
	where := func(detail map[string]any) map[string]any {
		detail["path"] = strings.Join(path[:done], " ; ")
		detail["view"] = h.how
		detail["reader_obtained_after_ops"] = h.takenAt
		detail["held_across"] = strings.Join(path[h.takenAt:done], " ; ")
		return detail
	}
	panics := func(msg string) {
		r.Violate(fmt.Sprintf("held-reader-panics %s %s%s", hd, cfg.label, exotic), where(map[string]any{"panic": msg}))
	}
	count := func(q int) {
		r.Add("held_reader_sweeps", 1)
		r.Add("held_reader_queries", int64(q))
		r.Add("evaluations", int64(q))
	}
	if h.isHead && len(stack) == 0 {
		r.Outcome("held head reader while the chain is empty: not asked")
		return
	}
	if h.orphan {
		ms, q, pan, msg := guardedSweep(h.reader, h.entry.State)
		count(q)
		switch {
		case pan:
			panics(msg)
		case len(ms) == 0:
			r.Outcome("held reader of a block reverted since: still the old content (no requirement)")
		default:
			onlyErrors := true
			for _, m := range ms {
				if e, ok := m.detail["err"]; !ok || e == "<nil>" {
					onlyErrors = false
				}
			}
			if onlyErrors {
				r.Outcome("held reader of a block reverted since: not-found errors (no requirement)")
			} else {
				r.Outcome("held reader of a block reverted since: content of the block below / now at that height (no requirement: its block is not retained)")
			}
		}
		return
	}
	want := h.entry.State
	if h.isHead {
		want = stack[len(stack)-1].State
	}
	ms, q, pan, msg := guardedSweep(h.reader, want)
	count(q)
	if pan {
		panics(msg)
		return
	}
	if len(ms) == 0 {
		switch {
		case done == h.takenAt:
			r.Outcome("reader right after it was obtained: equals the model")
		case h.isHead:
			r.Outcome("held head reader: state of the current head")
		default:
			r.Outcome("held reader of a retained block: still the state as of its block")
		}
		return
	}
	if h.isHead && stack[len(stack)-1] != h.entry {
		// snapshot semantics would be fine as well
		ms2, q2, pan2, msg2 := guardedSweep(h.reader, h.entry.State)
		count(q2)
		if pan2 {
			panics(msg2)
			return
		}
		if len(ms2) == 0 {
			r.Outcome("held head reader: state of the head when it was obtained")
			return
		}
	}
	// what does a reader obtained NOW for the same block answer?
	freshBad := map[string]bool{}
	var fr core.StateReader
	var fcl func() error
	var ferr error
	switch {
	case h.isHead:
		fr, fcl, ferr = bc.HeadState()
	case strings.HasPrefix(h.how, "number="):
		fr, fcl, ferr = bc.StateAtBlockNumber(h.entry.Block.Number)
	default:
		fr, fcl, ferr = bc.StateAtBlockHash(h.entry.Block.Hash)
	}
	if ferr == nil {
		fms, fq, _, _ := guardedSweep(fr, want)
		count(fq)
		fcl()
		for _, m := range fms {
			freshBad[m.id] = true
		}
	}
	for _, m := range ms {
		if freshBad[m.id] {
			// not specific to the held reader: the ordinary key of the read sweep on a long-lived node
			r.Violate(fmt.Sprintf("%s %s %s%s", m.kind, hd, cfg.sweepLabel, exotic), where(m.detail))
			continue
		}
		m.detail["fresh_reader_for_the_same_block"] = "answers correctly"
		if ferr != nil {
			m.detail["fresh_reader_for_the_same_block"] = "cannot be opened: " + ferr.Error()
		}
		r.Violate(fmt.Sprintf("held-reader %s %s %s%s", m.kind, hd, cfg.label, exotic), where(m.detail))
	}
}

// heldTransition: the history of one BFS transition (parent's history + the operation) with held readers, then the
// ordinary read sweep through fresh readers on the same long-lived node.
func heldTransition(r *ev.Run, cfg heldCfg, child *hist.Node) {
	if r.OutOfTime() {
		r.Incomplete("held readers / long-lived replays " + cfg.label)
		return
	}
	lbc, ld, _, _, err := heldRun(r, cfg, child.Ops, child.Path, child.Exotic())
	r.Add("held_reader_histories", 1)
	if err != nil {
		r.Violate("history-fails-on-long-lived-node "+cfg.label+child.Exotic(), map[string]any{"path": child.PathString(), "err": err.Error()})
		return
	}
	if len(child.Ops) < 2 {
		return
	}
	if chain.ImageHash(ld) != child.Key {
		r.Outcome("long-lived image differs from restart-per-op image")
	}
	q := checkNode(r, child, lbc, cfg.sweepLabel)
	r.Add("evaluations", int64(q))
	r.Add("long_lived_replays", 1)
}
