package c10

// Part D - several keys proven into ONE node set.
//
// Prove(key, set) ADDS to a caller-supplied set, and every production caller hands it a set that already holds the
// nodes of earlier keys: starknet_getStorageProof proves all requested classes / contracts / slots of one trie into one
// set, GetRangeProof proves its two boundary keys into one set. What Prove does may therefore depend on what the set
// already contains. Parts A-C only ever proved one key into a fresh set (trie level) resp. requested fixed slot lists.
//
// Enumerated here, for every trie of the membership enumeration (all height-2 states and height-3 states over values
// {0,a,b}, native and the three embeddings into height 251, crafted 251-bit key subsets; core/trie re-opened, core/trie2
// re-opened and in-memory), as a depth-first walk that clones the set at every branch:
//   * every SEQUENCE of <= L keys (present or absent, repetition allowed) proven one after the other into one set, and
//     the two "whole universe" batches (all keys ascending / descending);
//   * GetRangeProof(l, r) for every l <= r into a fresh set.
// Observed after EVERY Prove: the set as it then is must, on its own, establish the true value / absence of EVERY key
// proven so far - under the independent verifier (wire nodes, addressed by recomputed hash) and, for height 251, under
// juno's VerifyProof on the set object as produced; every node must be filed under its own hash.
// Non-vacuity is measured: how many tries hold the same binary node at two different positions (equal sub-tries, the
// case in which a hash-keyed set cannot tell positions apart), how many sets shared nodes between keys.

import (
	"fmt"
	"math/big"
	"sort"
	"sync"

	"verif/mc/ev"

	"github.com/NethermindEth/juno/core/felt"
	"github.com/NethermindEth/juno/core/trie"
	"github.com/NethermindEth/juno/core/trie2"
)

// batcher: a trie handle whose proofs can be accumulated in a caller-held set.
type batcher interface {
	handle
	newSet() any
	cloneSet(raw any) any // a new set object with the same entries in the same order (what the set holds is not copied)
	setSize(raw any) int
	proveInto(key *felt.Felt, raw any) error
	rangeInto(l, r *felt.Felt, raw any) error
	wire(raw any) ([]pnode, error)
}

func (h *legacyHandle) newSet() any { return trie.NewProofNodeSet() }
func (h *legacyHandle) cloneSet(raw any) any {
	s, c := raw.(*trie.ProofNodeSet), trie.NewProofNodeSet()
	ks, ns := s.Keys(), s.List()
	for i := range ks {
		c.Put(ks[i], ns[i])
	}
	return c
}
func (h *legacyHandle) setSize(raw any) int { return raw.(*trie.ProofNodeSet).Size() }
func (h *legacyHandle) proveInto(key *felt.Felt, raw any) error {
	return h.t.Prove(key, raw.(*trie.ProofNodeSet))
}
func (h *legacyHandle) rangeInto(l, r *felt.Felt, raw any) error {
	return h.t.GetRangeProof(l, r, raw.(*trie.ProofNodeSet))
}
func (h *legacyHandle) wire(raw any) ([]pnode, error) { return legacyWire(raw.(*trie.ProofNodeSet)) }

func (h *trie2Handle) newSet() any { return trie2.NewProofNodeSet() }
func (h *trie2Handle) cloneSet(raw any) any {
	s, c := raw.(*trie2.ProofNodeSet), trie2.NewProofNodeSet()
	ks, ns := s.Keys(), s.List()
	for i := range ks {
		c.Put(ks[i], ns[i])
	}
	return c
}
func (h *trie2Handle) setSize(raw any) int { return raw.(*trie2.ProofNodeSet).Size() }
func (h *trie2Handle) proveInto(key *felt.Felt, raw any) error {
	return h.t.Prove(key, raw.(*trie2.ProofNodeSet))
}
func (h *trie2Handle) rangeInto(l, r *felt.Felt, raw any) error {
	return h.t.GetRangeProof(l, r, raw.(*trie2.ProofNodeSet))
}
func (h *trie2Handle) wire(raw any) ([]pnode, error) { return trie2Wire(raw.(*trie2.ProofNodeSet)) }

type batchCase struct {
	label    string
	desc     string
	im       implT
	pose     bool
	height   int
	kvs      []kvT
	universe []*big.Int // ascending
	maxLen   int        // sequences of <= maxLen keys
	ranges   bool       // GetRangeProof(l, r) for every l < r
	juno     bool
}

type batchStats struct {
	mu    sync.Mutex
	count tally
}

// binaryPositions walks the honest single-key proof of key and records under which key prefix each binary node sits.
func binaryPositions(hs *hasher, root felt.Felt, key *big.Int, height int, nodes []pnode, at map[felt.Felt]map[string]bool) {
	if root.IsZero() {
		return
	}
	byHash := map[felt.Felt]*pnode{}
	for i := range nodes {
		byHash[hs.hash(&nodes[i])] = &nodes[i]
	}
	rem, e := height, root
	for rem > 0 {
		n, ok := byHash[e]
		if !ok {
			return
		}
		if !n.Edge {
			pre := fmt.Sprintf("%d:%s", height-rem, new(big.Int).Rsh(key, uint(rem)).Text(2))
			if at[e] == nil {
				at[e] = map[string]bool{}
			}
			at[e][pre] = true
			if key.Bit(rem-1) == 0 {
				e = n.A
			} else {
				e = n.B
			}
			rem--
			continue
		}
		seg := new(big.Int).Rsh(key, uint(rem-n.Length))
		seg.And(seg, new(big.Int).Sub(new(big.Int).Lsh(big.NewInt(1), uint(n.Length)), big.NewInt(1)))
		if seg.Cmp(n.B.BigInt(new(big.Int))) != 0 {
			return
		}
		e = n.A
		rem -= n.Length
	}
}

func runBatchCase(r *ev.Run, c *batchCase, hs *hasher, st *batchStats) {
	loc := tally{}
	defer func() {
		st.mu.Lock()
		for k, v := range loc {
			st.count[k] += v
		}
		st.mu.Unlock()
	}()
	cfg := fmt.Sprintf("%s %s %s", c.im.name, hashName(c.pose), c.label)
	var h handle
	var err error
	if p, msg := ev.Guard(func() { h, err = c.im.build(c.kvs, uint8(c.height), c.pose) }); p || err != nil {
		r.Violate("trie-build-fails "+cfg, map[string]any{"kv": c.desc, "err": fmt.Sprint(err), "panic": msg})
		return
	}
	b := h.(batcher)
	root := h.root()
	loc["batch_tries"]++
	n := len(c.universe)
	felts := make([]felt.Felt, n)
	truth := make([]felt.Felt, n)
	kind := make([]string, n)
	for i, k := range c.universe {
		felts[i] = fOf(k)
		truth[i] = truthOf(c.kvs, k)
		kind[i] = claimKind(&truth[i], &root)
	}
	seqStr := func(seq []int) string {
		s := "["
		for i, x := range seq {
			if i > 0 {
				s += ","
			}
			s += "0x" + c.universe[x].Text(16)
		}
		return s + "]"
	}
	detail := func(op string, seq []int, failing int, extra map[string]any) map[string]any {
		m := map[string]any{"impl": c.im.name, "hash": hashName(c.pose), "height": c.height, "config": c.label, "kv": c.desc, "root": root.String(),
			"operation": op, "keys_proven_into_one_set_in_this_order": seqStr(seq)}
		if failing >= 0 {
			m["failing_key"] = "0x" + c.universe[failing].Text(16)
			m["truth"] = truth[failing].String()
		}
		for k, v := range extra {
			m[k] = v
		}
		return m
	}
	single := make([]int, n) // size of the single-key proof
	// observe: the set must establish every key of seq. `what` names the operation class in the violation key.
	// junoAll=false: juno's verifier runs on the key proven last only (the walk has run it on every prefix of seq).
	observe := func(what, op string, raw any, seq []int, junoAll bool) {
		nodes, err := b.wire(raw)
		if err != nil {
			r.Violate(fmt.Sprintf("%s: node set not convertible %s", what, c.im.name), detail(op, seq, -1, map[string]any{"err": err.Error()}))
			return
		}
		for i := range nodes {
			if hh := hs.hash(&nodes[i]); !hh.Equal(&nodes[i].Claimed) {
				r.Violate(fmt.Sprintf("%s: proof-node-filed-under-wrong-hash %s", what, c.im.name),
					detail(op, seq, -1, map[string]any{"node": i, "claimed": nodes[i].Claimed.String(), "recomputed": hh.String()}))
			}
		}
		for pos, x := range seq {
			again := false
			for _, y := range seq[pos+1:] {
				again = again || y == x
			}
			if again {
				continue // judged at its last occurrence
			}
			where := "key-proven-last"
			if pos != len(seq)-1 {
				where = "key-proven-earlier"
			}
			vd := indVerify(hs, root, c.universe[x], c.height, nodes)
			loc["#evaluations"]++
			loc["batch_key_claims_independent"]++
			if !vd.OK || !vd.Val.Equal(&truth[x]) {
				r.Violate(fmt.Sprintf("%s: shared node set does not establish a key's value (independent verifier) %s %s %s", what, c.im.name, kind[x], where),
					detail(op, seq, x, map[string]any{"verdict": vd, "nodes": nodes}))
				continue
			}
			if !c.juno || root.IsZero() || (!junoAll && pos != len(seq)-1) {
				// the empty trie yields the empty set whatever is proven: that is the single-key case of Part A (known finding)
				continue
			}
			v, err, pan := guardVerify(func() (felt.Felt, error) { return c.im.verifyRaw(&root, &felts[x], raw, c.pose) })
			loc["#evaluations"]++
			loc["batch_key_claims_juno"]++
			if err != nil || !v.Equal(&truth[x]) {
				r.Violate(fmt.Sprintf("%s: VerifyProof rejects or misreads a key on the shared node set %s %s %s", what, c.im.name, kind[x], where),
					detail(op, seq, x, map[string]any{"got": v.String(), "err": fmt.Sprint(err), "panic": pan, "nodes": nodes}))
			}
		}
	}
	extend := func(raw any, seq []int, x int) (any, bool) {
		s2 := b.cloneSet(raw)
		var err error
		if p, msg := ev.Guard(func() { err = b.proveInto(&felts[x], s2) }); p || err != nil {
			r.Violate(fmt.Sprintf("batch: Prove-into-shared-set-fails %s %s", c.im.name, kind[x]), detail("Prove", append(append([]int(nil), seq...), x), x, map[string]any{"err": fmt.Sprint(err), "panic": msg}))
			return nil, false
		}
		loc["batch_proves"]++
		return s2, true
	}
	// depth 1 = the single-key proofs; they also tell which tries hold one binary node at two positions
	firsts := make([]any, n)
	{
		at := map[felt.Felt]map[string]bool{}
		for x := 0; x < n; x++ {
			s, ok := extend(b.newSet(), nil, x)
			if !ok {
				continue
			}
			firsts[x] = s
			single[x] = b.setSize(s)
			if nodes, err := b.wire(s); err == nil {
				binaryPositions(hs, root, c.universe[x], c.height, nodes, at)
			}
		}
		for _, m := range at {
			if len(m) > 1 {
				loc["batch_tries_with_one_binary_node_at_two_positions"]++
				break
			}
		}
	}
	var shared, sequences int64
	var dfs func(raw any, seq []int, sum int)
	dfs = func(raw any, seq []int, sum int) {
		for x := 0; x < n; x++ {
			var s2 any
			if len(seq) == 0 {
				s2 = firsts[x]
			} else if s, ok := extend(raw, seq, x); ok {
				s2 = s
			}
			if s2 == nil {
				continue
			}
			seq2 := append(append([]int(nil), seq...), x)
			sum2 := sum + single[x]
			sequences++
			if b.setSize(s2) < sum2 {
				shared++
			}
			observe("batch", "Prove", s2, seq2, false)
			if len(seq2) < c.maxLen {
				dfs(s2, seq2, sum2)
			}
		}
	}
	dfs(nil, nil, 0)
	// the whole universe in one set, ascending and descending (when not already a sequence of the walk)
	if n > c.maxLen {
		for _, desc := range []bool{false, true} {
			raw := b.newSet()
			var seq []int
			ok := true
			for i := 0; i < n && ok; i++ {
				x := i
				if desc {
					x = n - 1 - i
				}
				var err error
				if p, msg := ev.Guard(func() { err = b.proveInto(&felts[x], raw) }); p || err != nil {
					r.Violate(fmt.Sprintf("batch: Prove-into-shared-set-fails %s %s", c.im.name, kind[x]), detail("Prove", append(seq, x), x, map[string]any{"err": fmt.Sprint(err), "panic": msg}))
					ok = false
				}
				loc["batch_proves"]++
				seq = append(seq, x)
			}
			if ok {
				sequences++
				observe("batch", "Prove", raw, seq, true)
			}
		}
	}
	// GetRangeProof: the two boundary proofs in one set
	for l := 0; l < n && c.ranges; l++ {
		for rr := l + 1; rr < n; rr++ { // l == r is Prove(l) alone
			raw := b.newSet()
			var err error
			if p, msg := ev.Guard(func() { err = b.rangeInto(&felts[l], &felts[rr], raw) }); p || err != nil {
				r.Violate("GetRangeProof-fails "+cfg, detail("GetRangeProof", []int{l, rr}, -1, map[string]any{"err": fmt.Sprint(err), "panic": msg}))
				continue
			}
			loc["batch_range_sets"]++
			observe("range-boundaries", "GetRangeProof(left,right)", raw, []int{l, rr}, true)
		}
	}
	loc["batch_sequences"] += sequences
	loc["batch_sequences_sharing_nodes_between_keys"] += shared
}

func batchCases(r *ev.Run) []*batchCase {
	var out []*batchCase
	for _, im := range impls {
		for _, pose := range []bool{false, true} {
			for _, h := range []int{2, 3} {
				nkeys := 1 << h
				for _, emb := range embeddings {
					if pose && r.Quick() && (h == 3 || emb == "low" || emb == "high") {
						continue // Poseidon, quick: height 2, native and spread
					}
					pos := positions(h, emb)
					height := 251
					if emb == "native" {
						height = h
					}
					var uni []*big.Int
					for s := 0; s < nkeys; s++ {
						uni = append(uni, embed(uint64(s), h, pos))
					}
					for code := 0; code < pow(3, nkeys); code++ {
						ds := decodeState(code, nkeys)
						var kvs []kvT
						for s, d := range ds {
							if d != 0 {
								kvs = append(kvs, kvT{embed(uint64(s), h, pos), fv(valueOf(d))})
							}
						}
						// bounds. height 2: every state, every embedding, L = 3 (thorough 4: every permutation of the universe).
						// height 3, quick: states with <= 4 entries (the smallest tries holding equal two-leaf sub-tries at two
						// positions are among them), native + spread, core/trie and re-opened core/trie2, L = 2, ranges on spread.
						// height 3, thorough: all 6561 states, every embedding and implementation, L = 2 (L = 3 up to 4 entries).
						maxLen, ranges := 2, true
						switch {
						case h == 2:
							maxLen = ev.Pick(r, 3, 4)
						case r.Quick():
							if len(kvs) > 4 || emb == "low" || emb == "high" || im.name == "trie2-mem" {
								continue
							}
							ranges = emb == "spread"
						case pose:
							if len(kvs) > 4 {
								continue
							}
						case len(kvs) <= 4:
							maxLen = 3
						}
						out = append(out, &batchCase{label: fmt.Sprintf("h=%d/%s", h, emb), desc: fmt.Sprintf("state=%v (logical key s -> %s)", ds, kvDesc(kvs)),
							im: im, pose: pose, height: height, kvs: kvs, universe: uni, maxLen: maxLen, ranges: ranges, juno: height == 251})
					}
				}
			}
		}
	}
	// crafted 251-bit keys (distinct values: no equal sub-tries, but deep shared prefixes - where a set already holds
	// most of the next key's path)
	keys := craftedKeySet()
	uni := append([]*big.Int(nil), keys...)
	sort.Slice(uni, func(i, j int) bool { return uni[i].Cmp(uni[j]) < 0 })
	maxSize := ev.Pick(r, 3, 5)
	for _, im := range impls {
		for _, pose := range []bool{false, true} {
			if pose && r.Quick() {
				continue
			}
			for mask := 0; mask < 1<<len(keys); mask++ {
				var kvs []kvT
				for i, k := range keys {
					if mask>>i&1 == 1 {
						kvs = append(kvs, kvT{k, fv(uint64(100 + i))})
					}
				}
				if len(kvs) > maxSize {
					continue
				}
				out = append(out, &batchCase{label: "h=251/crafted", desc: kvDesc(kvs), im: im, pose: pose, height: 251, kvs: kvs, universe: uni, maxLen: 2, ranges: true, juno: true})
			}
		}
	}
	return out
}

func runBatch(r *ev.Run) {
	st := &batchStats{count: tally{}}
	cases := batchCases(r)
	r.Set("batch_tries_planned", int64(len(cases)))
	var skipped int64
	var mu sync.Mutex
	ev.Par(len(cases), 16, func(i int) {
		if r.OutOfTime() {
			mu.Lock()
			skipped++
			mu.Unlock()
			return
		}
		runBatchCase(r, cases[i], getHasher(cases[i].pose), st)
	})
	if skipped > 0 {
		r.Incomplete(fmt.Sprintf("batch: %d of %d tries not processed (deadline)", skipped, len(cases)))
	}
	for k, v := range st.count {
		if k[0] == '#' {
			r.Add(k[1:], v)
		} else {
			r.Set(k, v)
		}
	}
	r.Outcome(fmt.Sprintf("batch: sequences sharing nodes between keys seen=%v; tries with one binary node at two positions seen=%v",
		st.count["batch_sequences_sharing_nodes_between_keys"] > 0, st.count["batch_tries_with_one_binary_node_at_two_positions"] > 0))
}
