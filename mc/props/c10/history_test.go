package c10

// Part E - proofs taken from ONE long-lived trie object, interleaved with mutations.
//
// Parts A-D build a trie, commit it, (re-)open it and only then prove: every Prove ran on an object that was never
// mutated after its first proof. The property speaks of "every trie the node maintains": a trie object lives through
// Put / Delete / Commit / Prove in any order, and whatever the object remembers from an earlier Prove or an earlier
// shape of the trie (memoised nodes, cached hashes, node trackers) must not leak into a later proof.
//
// Enumerated here, per implementation and hash function, for small tries (all height-2 / height-3 key universes,
// native and embedded into height 251, and clustered crafted 251-bit keys):
//   base state  : every kv-map of the universe over values {0,a} (bounded number of entries), put + committed on the
//                 SAME object that is then driven (no re-open);
//   history     : every sequence of exactly D operations that ends in a Prove (every sequence of <= D operations ending
//                 in a Prove is a prefix of one of them), over the alphabet
//                     Put(k,a) Put(k,b) Delete(k)  for every key k of the universe (incl. same-value and absent-key no-ops)
//                     Commit                       legacy: Trie.Commit; trie2: Commit + triedb Update + re-open from the
//                                                  same database object (a committed trie2 object is unusable by contract)
//                     Hash                         trie2 only (legacy Commit IS Hash)
//                     Prove(k)                     for every key k of the universe, into a fresh node set
//                 each history is replayed from the base state on a fresh object (a trie object cannot be cloned).
// Observed after EVERY Prove: the trie's root (legacy: Trie.Hash right before Prove - that is the definition of the
// root of a trie with pending updates; trie2: Prove needs no hashing, the root is the reference root) equals the
// reference commitment of the dictionary model; every node is filed under its own hash; the node set establishes the
// model's value / absence of the key under the independent verifier and (height 251, non-empty trie) under juno's
// VerifyProof on the set as produced. Every root reported by Commit / Hash is compared with the reference root as well.
// Non-vacuity is measured: proofs taken on an object that had proven before and was mutated since, and among those the
// ones where the mutation replaced the root node of the trie (other root edge length).

import (
	"fmt"
	"math/big"
	"sort"
	"sync"

	"verif/mc/ev"
	"verif/mc/reftrie"

	"github.com/NethermindEth/juno/core/felt"
	"github.com/NethermindEth/juno/core/trie"
	"github.com/NethermindEth/juno/core/trie2"
	"github.com/NethermindEth/juno/core/trie2/triedb/rawdb"
	"github.com/NethermindEth/juno/core/trie2/trienode"
	"github.com/NethermindEth/juno/core/trie2/trieutils"
	"github.com/NethermindEth/juno/db"
	"github.com/NethermindEth/juno/db/memory"
)

// liveTrie is one long-lived trie as its owner sees it.
type liveTrie interface {
	put(k, v *felt.Felt) error
	del(k *felt.Felt) error
	commit() (felt.Felt, error)            // returns the root the trie reports
	hash() (felt.Felt, error)              // trie2 only
	rootForProof() (felt.Felt, bool, error) // the root a proof taken now has to verify against, if the trie is asked for it
	prove(k *felt.Felt) ([]pnode, any, error)
}

// ---- legacy

type legacyLive struct{ t *trie.Trie }

func newLegacyLive(height uint8, poseidon bool) (liveTrie, error) {
	b := memory.New().NewIndexedBatch()
	var t *trie.Trie
	var err error
	if poseidon {
		t, err = trie.NewTriePoseidon(b, legacyPrefix, height)
	} else {
		t, err = trie.NewTriePedersen(b, legacyPrefix, height)
	}
	return &legacyLive{t}, err
}

func (l *legacyLive) put(k, v *felt.Felt) error { _, err := l.t.Put(k, v); return err }
func (l *legacyLive) del(k *felt.Felt) error    { _, err := l.t.Put(k, &felt.Zero); return err } // the trie's only way to delete
func (l *legacyLive) commit() (felt.Felt, error) {
	if err := l.t.Commit(); err != nil {
		return felt.Zero, err
	}
	return l.t.Hash()
}
func (l *legacyLive) hash() (felt.Felt, error) { return l.t.Hash() }

// legacy: the inner node values are only brought up to date by Hash; the root of a trie with pending updates is what
// Hash returns, so a proof is always asked for after Hash (tolerance: Prove on un-hashed pending updates is not judged).
func (l *legacyLive) rootForProof() (felt.Felt, bool, error) {
	rt, err := l.t.Hash()
	return rt, true, err
}
func (l *legacyLive) prove(k *felt.Felt) ([]pnode, any, error) {
	set := trie.NewProofNodeSet()
	if err := l.t.Prove(k, set); err != nil {
		return nil, nil, err
	}
	w, err := legacyWire(set)
	return w, set, err
}

// ---- trie2

type trie2Live struct {
	d      db.KeyValueStore
	tdb    *rawdb.Database
	t      *trie2.Trie
	height uint8
	pose   bool
	parent felt.Felt
}

func newTrie2Live(height uint8, poseidon bool) (liveTrie, error) {
	d := memory.New()
	l := &trie2Live{d: d, tdb: rawdb.New(d), height: height, pose: poseidon}
	return l, l.open(felt.Zero)
}

func (l *trie2Live) open(root felt.Felt) error {
	hf, _ := hashFns(l.pose)
	t, err := trie2.New(trieutils.NewContractTrieID(felt.StateRootHash(root)), l.height, hf, l.tdb)
	if err != nil {
		return err
	}
	l.t, l.parent = t, root
	return nil
}

func (l *trie2Live) put(k, v *felt.Felt) error { return l.t.Update(k, v) }
func (l *trie2Live) del(k *felt.Felt) error    { return l.t.Delete(k) }
func (l *trie2Live) hash() (felt.Felt, error)  { return l.t.Hash() }

// commit: Commit, hand the node set to the trie database, write the batch, re-open from the same database object.
func (l *trie2Live) commit() (felt.Felt, error) {
	newRoot, nodes := l.t.Commit()
	// a committed trie must refuse to prove rather than hand out anything
	if err := l.t.Prove(&felt.Zero, trie2.NewProofNodeSet()); err == nil {
		return newRoot, fmt.Errorf("committed trie2 object still proves")
	}
	b := l.d.NewBatch()
	var merged *trienode.MergeNodeSet
	if nodes != nil {
		merged = trienode.NewMergeNodeSet(nodes)
	}
	nr, pr := felt.StateRootHash(newRoot), felt.StateRootHash(l.parent)
	if err := l.tdb.Update(&nr, &pr, 0, nil, merged, b); err != nil {
		return newRoot, err
	}
	if err := b.Write(); err != nil {
		return newRoot, err
	}
	if err := l.open(newRoot); err != nil {
		return newRoot, err
	}
	return l.t.Hash()
}
func (l *trie2Live) rootForProof() (felt.Felt, bool, error) { return felt.Zero, false, nil }
func (l *trie2Live) prove(k *felt.Felt) ([]pnode, any, error) {
	set := trie2.NewProofNodeSet()
	if err := l.t.Prove(k, set); err != nil {
		return nil, nil, err
	}
	w, err := trie2Wire(set)
	return w, set, err
}

// ---- enumeration

const (
	hPut = iota
	hDel
	hCommit
	hHash
	hProve
)

type hOp struct {
	kind int
	key  int // index into the universe
	val  int // 1 = a, 2 = b
}

type histCase struct {
	label    string
	im       implT
	pose     bool
	height   int
	universe []*big.Int // ascending
	base     []int      // per universe key: 0 absent, 1 = a
	depth    int
	juno     bool
}

func (c *histCase) opName(o hOp) string {
	k := "0x" + c.universe[o.key].Text(16)
	switch o.kind {
	case hPut:
		return fmt.Sprintf("Put(%s,%#x)", k, valueOf(o.val))
	case hDel:
		return fmt.Sprintf("Delete(%s)", k)
	case hCommit:
		return "Commit"
	case hHash:
		return "Hash"
	}
	return fmt.Sprintf("Prove(%s)", k)
}

// rootEdgeLen: length of the edge above the topmost binary node (height for a single leaf, -1 for the empty trie);
// it changes exactly when a mutation replaces the trie's root node by a node at another position.
func rootEdgeLen(keys []*big.Int, height int) int {
	if len(keys) == 0 {
		return -1
	}
	if len(keys) == 1 {
		return height
	}
	lo, hi := keys[0], keys[0]
	for _, k := range keys {
		if k.Cmp(lo) < 0 {
			lo = k
		}
		if k.Cmp(hi) > 0 {
			hi = k
		}
	}
	return height - new(big.Int).Xor(lo, hi).BitLen()
}

type histStats struct {
	mu    sync.Mutex
	count tally
}

func runHistCase(r *ev.Run, c *histCase, hs *hasher, st *histStats) {
	loc := tally{}
	defer func() {
		st.mu.Lock()
		for k, v := range loc {
			st.count[k] += v
		}
		st.mu.Unlock()
	}()
	_, rh := hashFns(c.pose)
	n := len(c.universe)
	felts := make([]felt.Felt, n)
	for i, k := range c.universe {
		felts[i] = fOf(k)
	}
	vals := []felt.Felt{felt.Zero, fv(valueOf(1)), fv(valueOf(2))}
	// alphabet
	var ops []hOp
	for k := 0; k < n; k++ {
		ops = append(ops, hOp{hPut, k, 1}, hOp{hPut, k, 2}, hOp{hDel, k, 0})
	}
	ops = append(ops, hOp{kind: hCommit})
	if c.im.trie2 {
		ops = append(ops, hOp{kind: hHash})
	}
	var proves []int
	for k := 0; k < n; k++ {
		proves = append(proves, len(ops))
		ops = append(ops, hOp{kind: hProve, key: k})
	}
	// reference roots, memoised by model state
	roots := map[string]felt.Felt{}
	refRoot := func(m []int) felt.Felt {
		key := fmt.Sprint(m)
		if v, ok := roots[key]; ok {
			return v
		}
		var kvs []reftrie.KV
		for i, d := range m {
			if d != 0 {
				kvs = append(kvs, reftrie.KV{K: c.universe[i], V: vals[d]})
			}
		}
		v := reftrie.Root(kvs, c.height, rh)
		roots[key] = v
		return v
	}
	edgeLen := func(m []int) int {
		var ks []*big.Int
		for i, d := range m {
			if d != 0 {
				ks = append(ks, c.universe[i])
			}
		}
		return rootEdgeLen(ks, c.height)
	}
	baseDesc := "{"
	for i, d := range c.base {
		if d != 0 {
			baseDesc += fmt.Sprintf(" 0x%s:%#x", c.universe[i].Text(16), valueOf(d))
		}
	}
	baseDesc += " }"

	seq := make([]int, c.depth)
	replay := func() {
		hist := func(upto int) string {
			s := ""
			for i := 0; i <= upto; i++ {
				if i > 0 {
					s += " "
				}
				s += c.opName(ops[seq[i]])
			}
			return s
		}
		detail := func(upto int, extra map[string]any) map[string]any {
			m := map[string]any{"impl": c.im.name, "hash": hashName(c.pose), "height": c.height, "config": c.label,
				"base_state_put_and_committed_on_the_same_object": baseDesc, "history_on_that_object": hist(upto)}
			for k, v := range extra {
				m[k] = v
			}
			return m
		}
		var lt liveTrie
		var err error
		if c.im.trie2 {
			lt, err = newTrie2Live(uint8(c.height), c.pose)
		} else {
			lt, err = newLegacyLive(uint8(c.height), c.pose)
		}
		if err != nil {
			r.Infra("history: cannot create trie: %v", err)
			return
		}
		model := append([]int(nil), c.base...)
		failed := false
		if p, msg := ev.Guard(func() {
			for i, d := range model {
				if d != 0 {
					if err = lt.put(&felts[i], &vals[d]); err != nil {
						return
					}
				}
			}
			var rt felt.Felt
			if rt, err = lt.commit(); err == nil {
				if want := refRoot(model); !rt.Equal(&want) {
					err = fmt.Errorf("root %s, reference %s", rt.String(), want.String())
				}
			}
		}); p || err != nil {
			r.Violate(fmt.Sprintf("history: base-state-build-fails %s", c.im.name), detail(-1, map[string]any{"err": fmt.Sprint(err), "panic": msg}))
			return
		}
		loc["history_replays"]++
		provenBefore, mutatedSinceProof, rootMovedSinceProof := false, false, false
		for i := 0; i < c.depth && !failed; i++ {
			o := ops[seq[i]]
			loc["history_operations"]++
			checkRoot := func(what string, rt felt.Felt) {
				if want := refRoot(model); !rt.Equal(&want) {
					r.Violate(fmt.Sprintf("history: trie-root-differs-from-reference %s after-%s", c.im.name, what),
						detail(i, map[string]any{"root": rt.String(), "reference": want.String()}))
					failed = true
				}
			}
			var opErr error
			var rt felt.Felt
			var nodes []pnode
			var raw any
			var asked bool
			p, msg := ev.Guard(func() {
				switch o.kind {
				case hPut:
					opErr = lt.put(&felts[o.key], &vals[o.val])
				case hDel:
					opErr = lt.del(&felts[o.key])
				case hCommit:
					rt, opErr = lt.commit()
				case hHash:
					rt, opErr = lt.hash()
				case hProve:
					if rt, asked, opErr = lt.rootForProof(); opErr == nil {
						nodes, raw, opErr = lt.prove(&felts[o.key])
					}
				}
			})
			if p || opErr != nil {
				r.Violate(fmt.Sprintf("history: operation-fails %s %s", c.im.name, []string{"Put", "Delete", "Commit", "Hash", "Prove"}[o.kind]),
					detail(i, map[string]any{"err": fmt.Sprint(opErr), "panic": msg}))
				return
			}
			switch o.kind {
			case hPut, hDel:
				before := edgeLen(model)
				old := model[o.key]
				if o.kind == hPut {
					model[o.key] = o.val
				} else {
					model[o.key] = 0
				}
				if model[o.key] != old {
					mutatedSinceProof = mutatedSinceProof || provenBefore
					if provenBefore && (edgeLen(model) != before || before == c.height) {
						rootMovedSinceProof = true // other root position, or the single leaf that is the root was rewritten
					}
				}
			case hCommit:
				checkRoot("Commit", rt)
			case hHash:
				checkRoot("Hash", rt)
			case hProve:
				want := refRoot(model)
				if asked {
					checkRoot("Hash-before-Prove", rt)
				}
				if failed {
					break
				}
				loc["history_proofs"]++
				if mutatedSinceProof {
					loc["history_proofs_on_object_proven_before_and_mutated_since"]++
				}
				if rootMovedSinceProof {
					loc["history_proofs_on_object_proven_before_whose_root_node_was_replaced_since"]++
				}
				provenBefore, mutatedSinceProof, rootMovedSinceProof = true, false, false
				truth := vals[model[o.key]]
				kind := claimKind(&truth, &want)
				for j := range nodes {
					if hh := hs.hash(&nodes[j]); !hh.Equal(&nodes[j].Claimed) {
						r.Violate(fmt.Sprintf("history: proof-node-filed-under-wrong-hash %s", c.im.name),
							detail(i, map[string]any{"node": j, "claimed": nodes[j].Claimed.String(), "recomputed": hh.String(), "nodes": nodes}))
						failed = true
					}
				}
				vd := indVerify(hs, want, c.universe[o.key], c.height, nodes)
				loc["#evaluations"]++
				if !vd.OK || !vd.Val.Equal(&truth) {
					r.Violate(fmt.Sprintf("history: proof from a long-lived trie does not establish the key's value under the current root (independent verifier) %s %s", c.im.name, kind),
						detail(i, map[string]any{"root": want.String(), "truth": truth.String(), "verdict": vd, "nodes": nodes}))
					failed = true
					break
				}
				if !c.juno || want.IsZero() {
					break // empty trie: the single-key case of Part A (known finding)
				}
				v, verr, pan := guardVerify(func() (felt.Felt, error) { return c.im.verifyRaw(&want, &felts[o.key], raw, c.pose) })
				loc["#evaluations"]++
				if verr != nil || !v.Equal(&truth) {
					r.Violate(fmt.Sprintf("history: VerifyProof rejects or misreads a proof from a long-lived trie under the current root %s %s", c.im.name, kind),
						detail(i, map[string]any{"root": want.String(), "truth": truth.String(), "got": v.String(), "err": fmt.Sprint(verr), "panic": pan, "nodes": nodes}))
					failed = true
				}
			}
		}
	}
	// every sequence of exactly depth operations whose last one is a Prove
	var rec func(pos int)
	rec = func(pos int) {
		if r.OutOfTime() {
			loc["history_cut"]++
			return
		}
		if pos == c.depth-1 {
			for _, pi := range proves {
				seq[pos] = pi
				replay()
				loc["history_sequences"]++
			}
			return
		}
		for oi := range ops {
			seq[pos] = oi
			rec(pos + 1)
		}
	}
	rec(0)
	loc["history_base_states"]++
}

// histUniverses: (label, height, universe, juno) of the key universes driven.
type histUniverse struct {
	label    string
	height   int
	h        int // logical height (0 = crafted)
	universe []*big.Int
}

func histUniverses(r *ev.Run) []histUniverse {
	var out []histUniverse
	for _, h := range []int{2, 3} {
		for _, emb := range embeddings {
			pos := positions(h, emb)
			height := 251
			if emb == "native" {
				height = h
			}
			var uni []*big.Int
			for s := 0; s < 1<<h; s++ {
				uni = append(uni, embed(uint64(s), h, pos))
			}
			out = append(out, histUniverse{fmt.Sprintf("h=%d/%s", h, emb), height, h, uni})
		}
	}
	// clustered crafted 251-bit keys: small integers (deep root, replaced by a key diverging above it), the top bit,
	// and keys sharing a 248-bit prefix
	keys := craftedKeySet()
	pick := []int{0, 1, 2, 3, 6} // 0, 1, 2, 2^250, sh(1)
	if r.Thorough() {
		pick = []int{0, 1, 2, 3, 4, 5, 6, 7, 8}
	}
	var uni []*big.Int
	for _, i := range pick {
		uni = append(uni, keys[i])
	}
	sort.Slice(uni, func(i, j int) bool { return uni[i].Cmp(uni[j]) < 0 })
	out = append(out, histUniverse{"h=251/crafted", 251, 0, uni})
	return out
}

func histCases(r *ev.Run) []*histCase {
	var out []*histCase
	for _, im := range []implT{legacyImpl, trie2Impl("trie2", false)} {
		for _, pose := range []bool{false, true} {
			for _, u := range histUniverses(r) {
				// bounds (depth D, base states with <= E entries):
				//   quick   : height 2: D=3, every base state, every embedding (Poseidon: spread, E=1);
				//             crafted (5 clustered keys): D=3, E=2 (Pedersen); height 3 is left to the thorough tier
				//   thorough: height 2: D=4, every base state, every embedding, both hash functions;
				//             height 3: D=3, E=2, every embedding (Poseidon: spread); crafted (all 9 keys): D=3, E=2 (Poseidon: E=1)
				depth, maxEntries := 3, len(u.universe)
				spread := u.label == "h=2/spread" || u.label == "h=3/spread"
				switch {
				case u.h == 2 && r.Quick():
					if pose {
						if !spread {
							continue
						}
						maxEntries = 1
					}
				case u.h == 2:
					depth = 4
				case u.h == 3:
					if r.Quick() || (pose && !spread) {
						continue
					}
					maxEntries = 2
				case r.Quick():
					if pose {
						continue
					}
					maxEntries = 2
				default:
					maxEntries = 2
					if pose {
						maxEntries = 1
					}
				}
				n := len(u.universe)
				for mask := 0; mask < 1<<n; mask++ {
					base := make([]int, n)
					cnt := 0
					for i := 0; i < n; i++ {
						if mask>>i&1 == 1 {
							base[i] = 1
							cnt++
						}
					}
					if cnt > maxEntries {
						continue
					}
					out = append(out, &histCase{label: u.label, im: im, pose: pose, height: u.height, universe: u.universe, base: base, depth: depth, juno: u.height == 251})
				}
			}
		}
	}
	return out
}

func runHistory(r *ev.Run) {
	st := &histStats{count: tally{}}
	cases := histCases(r)
	r.Set("history_base_states_planned", int64(len(cases)))
	ev.Par(len(cases), 16, func(i int) {
		if r.OutOfTime() {
			st.mu.Lock()
			st.count["history_cut"]++
			st.mu.Unlock()
			return
		}
		runHistCase(r, cases[i], getHasher(cases[i].pose), st)
	})
	if st.count["history_cut"] > 0 {
		r.Incomplete(fmt.Sprintf("history: enumeration cut by the deadline at %d points (%d of %d base states completed)", st.count["history_cut"], st.count["history_base_states"], len(cases)))
	}
	for k, v := range st.count {
		if k[0] == '#' {
			r.Add(k[1:], v)
		} else {
			r.Set(k, v)
		}
	}
	r.Outcome(fmt.Sprintf("history: proofs on an object proven before and mutated since seen=%v; with the root node replaced since seen=%v",
		st.count["history_proofs_on_object_proven_before_and_mutated_since"] > 0, st.count["history_proofs_on_object_proven_before_whose_root_node_was_replaced_since"] > 0))
}
