package c10

// Range proofs (VerifyRangeProof, both implementations; Pedersen and height 251 are hard-coded in juno, so the
// height-2/3 tries are embedded as in member_test.go).
//
// A range claim is (first, keys, values [, boundary proof]) and means: "the entries of the trie with key in
// [first, keys[last]] are exactly keys/values" (no keys: "there is no entry with key >= first"); without a boundary
// proof it means "keys/values are ALL entries of the trie". The verifier additionally reports whether entries to the
// right of the range exist.
//
//   honest : for every trie, every first (all 2^h keys, present or not) and every count c of consecutive entries
//            starting at the first entry >= first (c = 0 only where no entry follows, as the snap protocol demands),
//            with the boundary proof GetRangeProof(first, last); plus the whole trie without boundary proofs.
//            -> must be accepted, and "more entries" must be the truth.
//   tampered: every single alteration of an honest claim: an entry dropped, a value changed, an absent key inserted,
//            two neighbours exchanged, first moved to every other key, boundary proof dropped, each proof node
//            altered / removed -> if accepted, the altered CLAIM must be true (and "more entries" right).
//   sweep  : (Part B2, rangeshape_test.go) every absent `first` at every divergence point of the trie claimed EMPTY with
//            its own GetRangeProof(first, first): accepted iff nothing follows.
// Accepted false claims / rejected honest claims are keyed exactly by shape (rangeshape_test.go): the known findings
// keep only the shapes they stand for.

import (
	"fmt"
	"math/big"
	"sort"
	"sync"

	"verif/mc/ev"

	"github.com/NethermindEth/juno/core/felt"
)

type rangeClaim struct {
	first    *big.Int
	keys     []*big.Int
	vals     []felt.Felt
	nodes    []pnode
	nilProof bool
	// reprove (trie2 only): produces the node set of the honest range again, as the prover's Go objects (children typed,
	// hashes cached by the trie that was hashed before) - what a verifier in the same process is handed
	reprove func() any
}

func (c *rangeClaim) String() string {
	s := fmt.Sprintf("first=0x%s entries=[", c.first.Text(16))
	for i := range c.keys {
		if i > 0 {
			s += ","
		}
		s += "0x" + c.keys[i].Text(16) + ":" + c.vals[i].String()
	}
	s += "]"
	if c.nilProof {
		s += " no-boundary-proof"
	}
	return s
}

// claimTruth: is the claim true for the kv-set, and are there entries right of it.
func claimTruth(kvs []kvT, c *rangeClaim) (isTrue, more bool) {
	sorted := append([]kvT(nil), kvs...)
	sort.Slice(sorted, func(i, j int) bool { return sorted[i].K.Cmp(sorted[j].K) < 0 })
	var want []kvT
	if c.nilProof {
		want = sorted
	} else if len(c.keys) == 0 {
		for _, kv := range sorted {
			if kv.K.Cmp(c.first) >= 0 {
				return false, true
			}
		}
		return true, false
	} else {
		last := c.keys[len(c.keys)-1]
		// Tolerance: juno does not check keys[0] >= first. A claim whose entries start left of `first` is read as a
		// claim about [keys[0], last]: if all its entries are genuine and none is omitted, nothing false was accepted.
		lo := c.first
		if c.keys[0].Cmp(lo) < 0 {
			lo = c.keys[0]
		}
		for _, kv := range sorted {
			if kv.K.Cmp(lo) >= 0 && kv.K.Cmp(last) <= 0 {
				want = append(want, kv)
			}
			if kv.K.Cmp(last) > 0 {
				more = true
			}
		}
	}
	if len(want) != len(c.keys) {
		return false, more
	}
	for i := range want {
		if want[i].K.Cmp(c.keys[i]) != 0 || !want[i].V.Equal(&c.vals[i]) {
			return false, more
		}
	}
	return true, more
}

func runRangeClaim(im implT, hs *hasher, root felt.Felt, c *rangeClaim, keying int) (more bool, err error, pan string) {
	first := fOf(c.first)
	ks := make([]*felt.Felt, len(c.keys))
	vs := make([]*felt.Felt, len(c.keys))
	for i := range c.keys {
		k := fOf(c.keys[i])
		v := c.vals[i]
		ks[i], vs[i] = &k, &v
	}
	p, msg := ev.Guard(func() { more, err = im.verifyRange(hs, &root, &first, ks, vs, c.nodes, c.nilProof, keying) })
	if p {
		return false, fmt.Errorf("panic: %s", msg), msg
	}
	return more, err, ""
}

type rangeCase struct {
	label   string
	desc    string
	im      implT
	kvs     []kvT
	logical []*big.Int // all 2^h keys of the logical universe, ascending
}

func runRangeCase(r *ev.Run, c *rangeCase, hs *hasher, loc tally) {
	cfg := c.im.name + " " + c.label
	h, err := c.im.build(c.kvs, 251, false)
	if err != nil {
		r.Violate("trie-build-fails "+cfg, map[string]any{"kv": c.desc, "err": err.Error()})
		return
	}
	root := h.root()
	eqHash := equalHashNodes(c.kvs)
	sorted := append([]kvT(nil), c.kvs...)
	sort.Slice(sorted, func(i, j int) bool { return sorted[i].K.Cmp(sorted[j].K) < 0 })
	detail := func(cl *rangeClaim, extra map[string]any) map[string]any {
		m := map[string]any{"impl": c.im.name, "config": c.label, "kv": c.desc, "claim": cl.String(), "root": root.String()}
		for k, v := range extra {
			m[k] = v
		}
		return m
	}
	// judge a tampered claim
	judge := func(class string, cl *rangeClaim, keying int, honest *rangeClaim) {
		more, err, pan := runRangeClaim(c.im, hs, root, cl, keying)
		loc["#evaluations"]++
		loc["#range_tampered"]++
		if pan != "" {
			loc.add("range tamper " + class + ": VerifyRangeProof panics")
			r.Sample(map[string]any{"panic_on_tampered_range": pan, "class": class, "config": cfg, "claim": cl.String(), "kv": c.desc})
			return
		}
		isTrue, tmore := claimTruth(c.kvs, cl)
		switch {
		case err != nil:
			if isTrue {
				loc.add("range tamper " + class + ": altered claim is still true, rejected (proof no longer fits)")
			} else {
				loc.add("range tamper " + class + ": rejected")
			}
		case isTrue && more == tmore:
			loc.add("range tamper " + class + ": altered claim is still true, accepted (excluded)")
		case isTrue:
			r.Violate(fmt.Sprintf("range-proof-more-entries-flag-wrong %s", c.im.name),
				detail(cl, map[string]any{"tamper": class, "honest": honest.String(), "got_more": more, "true_more": tmore}))
		default:
			// exact by shape: only the shapes the known trie2 finding stands for keep its key (rangeshape_test.go)
			key, shape := falseClaimKey(c, cl, class, eqHash)
			if shape != "" {
				loc.add("false claim accepted, shape " + shape)
			}
			r.Violate(key, detail(cl, map[string]any{"tamper": class, "shape": shape, "honest": honest.String(), "keying": keying, "nodes": cl.nodes}))
		}
		// the same altered claim against the prover's own node objects (not re-decoded): only for alterations of the
		// claim itself, and only where the wire-decoded node set rejected it (what is accepted there is already reported)
		if c.im.verifyRangeRaw == nil || honest.reprove == nil || cl.nilProof || err == nil || keying != keyClaimed ||
			!(class == "entry-dropped" || class == "value-changed" || class == "neighbours-exchanged" || class == "absent-key-inserted" ||
				class == "outside-entry-added" || class == "first-moved") {
			return
		}
		raw := honest.reprove()
		if raw == nil {
			return
		}
		var more2 bool
		var err2 error
		first := fOf(cl.first)
		ks, vs := make([]*felt.Felt, len(cl.keys)), make([]*felt.Felt, len(cl.keys))
		for i := range cl.keys {
			k, v := fOf(cl.keys[i]), cl.vals[i]
			ks[i], vs[i] = &k, &v
		}
		p2, msg2 := ev.Guard(func() { more2, err2 = c.im.verifyRangeRaw(&root, &first, ks, vs, raw) })
		loc["#evaluations"]++
		loc["#range_tampered_produced_node_set"]++
		switch {
		case p2:
			loc.add("range tamper " + class + " [produced node set]: VerifyRangeProof panics")
			_ = msg2
		case err2 != nil:
			loc.add("range tamper " + class + " [produced node set]: rejected")
		case isTrue:
			loc.add("range tamper " + class + " [produced node set]: altered claim is still true, accepted (excluded)")
		default:
			_ = more2
			r.Violate(fmt.Sprintf("FALSE-range-claim-accepted %s tamper=%s [produced node set, rejected when re-decoded]", c.im.name, class),
				detail(cl, map[string]any{"honest": honest.String()}))
		}
	}
	tamper := func(hc *rangeClaim) {
		n := len(hc.keys)
		cp := func() *rangeClaim {
			return &rangeClaim{first: hc.first, keys: append([]*big.Int(nil), hc.keys...), vals: append([]felt.Felt(nil), hc.vals...), nodes: hc.nodes, nilProof: hc.nilProof}
		}
		for i := 0; i < n; i++ {
			t := cp()
			t.keys = append(t.keys[:i:i], t.keys[i+1:]...)
			t.vals = append(t.vals[:i:i], t.vals[i+1:]...)
			judge("entry-dropped", t, keyClaimed, hc)
			for _, nv := range []uint64{0xA, 0xB, 0xC} {
				if v := fv(nv); !v.Equal(&hc.vals[i]) {
					t := cp()
					t.vals[i] = v
					judge("value-changed", t, keyClaimed, hc)
				}
			}
			if i+1 < n {
				t := cp()
				t.keys[i], t.keys[i+1] = t.keys[i+1], t.keys[i]
				t.vals[i], t.vals[i+1] = t.vals[i+1], t.vals[i]
				judge("neighbours-exchanged", t, keyClaimed, hc)
			}
		}
		// an absent key inserted at its sorted position (any logical key not in the trie)
		for _, lk := range c.logical {
			if tv := truthOf(c.kvs, lk); !tv.IsZero() {
				continue
			}
			t := cp()
			pos := sort.Search(len(t.keys), func(i int) bool { return t.keys[i].Cmp(lk) > 0 })
			t.keys = append(t.keys[:pos:pos], append([]*big.Int{lk}, t.keys[pos:]...)...)
			t.vals = append(t.vals[:pos:pos], append([]felt.Felt{fv(0xA)}, t.vals[pos:]...)...)
			judge("absent-key-inserted", t, keyClaimed, hc)
		}
		// a present entry outside the claim appended / prepended (claim may become a true, longer claim)
		for _, kv := range sorted {
			in := false
			for _, k := range hc.keys {
				in = in || k.Cmp(kv.K) == 0
			}
			if in {
				continue
			}
			t := cp()
			pos := sort.Search(len(t.keys), func(i int) bool { return t.keys[i].Cmp(kv.K) > 0 })
			t.keys = append(t.keys[:pos:pos], append([]*big.Int{kv.K}, t.keys[pos:]...)...)
			t.vals = append(t.vals[:pos:pos], append([]felt.Felt{kv.V}, t.vals[pos:]...)...)
			judge("outside-entry-added", t, keyClaimed, hc)
		}
		if !hc.nilProof {
			for _, lk := range c.logical {
				if lk.Cmp(hc.first) != 0 {
					t := cp()
					t.first = lk
					judge("first-moved", t, keyClaimed, hc)
				}
			}
			t := cp()
			t.nilProof, t.nodes = true, nil
			judge("boundary-proof-dropped", t, keyClaimed, hc)
			var one felt.Felt
			one.SetUint64(1)
			for i := range hc.nodes {
				for f := 0; f < 2; f++ {
					t := cp()
					t.nodes = append([]pnode(nil), hc.nodes...)
					if f == 0 {
						t.nodes[i].A.Add(&t.nodes[i].A, &one)
					} else if t.nodes[i].Edge {
						p := t.nodes[i].B.BigInt(new(big.Int))
						p.SetBit(p, 0, p.Bit(0)^1)
						t.nodes[i].B = fOf(p)
					} else {
						t.nodes[i].B.Add(&t.nodes[i].B, &one)
					}
					judge("proof-node-field-altered", t, keyClaimed, hc)
					judge("proof-node-field-altered", t, keyRecomputed, hc)
				}
				t := cp()
				t.nodes = append(append([]pnode(nil), hc.nodes[:i]...), hc.nodes[i+1:]...)
				judge("proof-node-removed", t, keyClaimed, hc)
			}
		}
	}
	honest := func(hc *rangeClaim, kind string) {
		more, err, pan := runRangeClaim(c.im, hs, root, hc, keyClaimed)
		loc["#evaluations"]++
		loc["#range_honest"]++
		_, tmore := claimTruth(c.kvs, hc)
		switch {
		case err != nil:
			key := fmt.Sprintf("VerifyRangeProof-rejects-honest-range %s %s", c.im.name, kind)
			if c.im.trie2 && len(c.kvs) > 0 && !eqHash {
				// the known trie2 finding is the shared Go object for equal-hash nodes (shape S2, rangeshape_test.go) and the
				// empty trie; a rejection on any other trie is a different defect
				key += " shape=no-equal-hash-nodes"
			}
			r.Violate(key, detail(hc, map[string]any{"err": err.Error(), "panic": pan, "nodes": hc.nodes}))
			loc.add("range honest " + kind + ": REJECTED")
			return
		case more != tmore:
			r.Violate(fmt.Sprintf("range-proof-more-entries-flag-wrong %s", c.im.name), detail(hc, map[string]any{"honest_kind": kind, "got_more": more, "true_more": tmore}))
		}
		loc.add(fmt.Sprintf("range honest %s more=%v: accepted", kind, tmore))
		tamper(hc)
	}
	// whole trie without boundary proofs
	{
		hc := &rangeClaim{first: big.NewInt(0), nilProof: true}
		for _, kv := range sorted {
			hc.keys = append(hc.keys, kv.K)
			hc.vals = append(hc.vals, kv.V)
		}
		kind := "whole-trie/no-boundary-proof"
		if len(sorted) == 0 {
			kind = "empty-trie/no-boundary-proof"
		}
		honest(hc, kind)
	}
	for _, first := range c.logical {
		// entries >= first
		var tail []kvT
		for _, kv := range sorted {
			if kv.K.Cmp(first) >= 0 {
				tail = append(tail, kv)
			}
		}
		firstPresent := len(tail) > 0 && tail[0].K.Cmp(first) == 0
		for cnt := 0; cnt <= len(tail); cnt++ {
			if cnt == 0 && len(tail) > 0 {
				continue // an empty answer is only legitimate when nothing follows
			}
			hc := &rangeClaim{first: first}
			for _, kv := range tail[:cnt] {
				hc.keys = append(hc.keys, kv.K)
				hc.vals = append(hc.vals, kv.V)
			}
			last := first
			if cnt > 0 {
				last = hc.keys[cnt-1]
			}
			ff, lf := fOf(first), fOf(last)
			var nodes []pnode
			var perr error
			if p, msg := ev.Guard(func() { nodes, _, perr = h.proveRange(&ff, &lf) }); p || perr != nil {
				r.Violate("GetRangeProof-fails "+cfg, detail(hc, map[string]any{"err": fmt.Sprint(perr), "panic": msg}))
				continue
			}
			hc.nodes = nodes
			hc.reprove = func() any {
				var raw any
				if p, _ := ev.Guard(func() { _, raw, _ = h.proveRange(&ff, &lf) }); p {
					return nil
				}
				return raw
			}
			kind := "first-present"
			if !firstPresent {
				kind = "first-absent"
			}
			switch {
			case len(sorted) == 0:
				kind = "empty-trie"
			case cnt == 0:
				kind += "/no-entries"
			case cnt == 1:
				kind += "/one-entry"
			default:
				kind += "/many-entries"
			}
			honest(hc, kind)
		}
	}
}

func runRange(r *ev.Run) {
	var cases, sweep []*rangeCase
	for _, im := range impls {
		if im.name == "trie2-mem" {
			continue
		}
		for _, h := range []int{2, 3} {
			nkeys := 1 << h
			for _, emb := range embeddings[1:] {
				pos := positions(h, emb)
				var logical []*big.Int
				for s := 0; s < nkeys; s++ {
					logical = append(logical, embed(uint64(s), h, pos))
				}
				for code := 0; code < pow(3, nkeys); code++ {
					ds := decodeState(code, nkeys)
					var kvs []kvT
					for s, d := range ds {
						if d != 0 {
							kvs = append(kvs, kvT{embed(uint64(s), h, pos), fv(valueOf(d))})
						}
					}
					if h == 3 && len(kvs) > ev.Pick(r, 2, 4) {
						continue // height 3: <=2 entries quick, <=4 entries thorough; all height-2 states in both tiers
					}
					rc := &rangeCase{label: fmt.Sprintf("h=%d/%s", h, emb), desc: fmt.Sprintf("state=%v %s", ds, kvDesc(kvs)),
						im: im, kvs: kvs, logical: logical}
					sweep = append(sweep, rc) // Part B2 (cheap: the verifier rebuilds no trie for an empty claim): every embedding in both tiers
					if h == 3 && r.Quick() && emb != "spread" {
						continue // Part B, quick: height 3 in the spread embedding only
					}
					cases = append(cases, rc)
				}
			}
		}
	}
	r.Set("range_tries_planned", int64(len(cases)))
	total := tally{}
	var mu sync.Mutex
	var skipped int64
	ev.Par(len(cases), 16, func(i int) {
		if r.OutOfTime() {
			mu.Lock()
			skipped++
			mu.Unlock()
			return
		}
		loc := tally{}
		hs := getHasher(false)
		runRangeCase(r, cases[i], hs, loc)
		putHasher(false, hs)
		mu.Lock()
		for k, v := range loc {
			total[k] += v
		}
		mu.Unlock()
	})
	if skipped > 0 {
		r.Incomplete(fmt.Sprintf("range proofs: %d of %d tries not processed (deadline)", skipped, len(cases)))
	}
	runEmptySweep(r, append(sweep, craftedRangeCases(r)...), total)
	kinds := 0
	for k, v := range total {
		if k[0] == '#' {
			r.Add(k[1:], v)
		} else {
			r.Set("n["+k+"]", v)
			kinds++
		}
	}
	r.Set("range_outcome_kinds", int64(kinds))
}
