package c10

// Shapes of range claims, and the empty-range sweep (Part B2).
//
// 1. Exact classification of accepted FALSE range claims (trie2). The known finding "trie2 accepts false range claims"
//    stands for two mechanisms only, both of which need a NON-EMPTY claim (verifyRangeWithProof / unsetInternal):
//      S1  every entry the claim omits is a leaf hanging directly under a binary node (its sibling leaf k^1 is present)
//          that lies on the path of the claim's first or last key (unset never removes such a leaf: authors' TODO);
//      S2  the trie holds the same inner node (equal hash) at two positions: proofToPath links ONE Go object at both
//          places, so what is unset / resolved along one boundary path changes the other sub-trie too.
//    Only a false claim of one of these shapes keeps the key the known finding matches. An accepted false EMPTY claim
//    ("no entry with key >= first" while entries follow: verifyEmptyRangeProof / hasRightElement) or any other shape is
//    a different defect and gets a key of its own, named after where `first` leaves the trie.
//
// 2. Part B2, the empty-range sweep. Part B moves `first` over the 2^h logical keys only, so in the embedded tries
//    `first` leaves an edge at a handful of offsets, and a false empty claim is only ever paired with the boundary
//    proof of some OTHER claim. The sweep enumerates, for every trie of Part B and for the subsets of the crafted
//    251-bit keys, every way an absent `first` can leave the trie: for every present key k, every bit position p
//    (thorough: 250..0; quick: the 24 positions of sweepPositions) and three tails, first = k with bit p flipped and the bits below p (a) as in k, (b) all 0, (c) all 1 -
//    i.e. every (edge, offset inside the edge, direction) on every root-to-leaf path, the bits after the divergence
//    (which no correct verifier consults) at both extremes. Each such first is claimed EMPTY with the prover's own
//    GetRangeProof(first, first): honest (nothing follows: must be accepted, more-entries = false) or false (entries
//    follow: must be rejected).

import (
	"fmt"
	"math/big"
	"sort"
	"strings"
	"sync"

	"verif/mc/ev"

	"github.com/NethermindEth/juno/core/felt"
)

const trieHeight = 251

// firstShape says where `first` leaves the compressed binary trie over keys (height 251): "first-present", or the
// kind of the edge it diverges in (leaf edge: one key below; inner edge: a binary node below), whether the edge's
// bit at the divergence is above or below the key's bit (= the edge's whole sub-trie lies right / left of first) and
// whether a binary node above was passed to the left (= a right sibling exists above). off = offset of the
// divergence inside its edge, depth = number of key bits consumed before it.
func firstShape(keys []*big.Int, first *big.Int) (shape string, off, depth int) {
	if len(keys) == 0 {
		return "empty-trie", 0, 0
	}
	cur := keys
	rightAbove := false
	edgeOff := 0
	for b := trieHeight - 1; b >= 0; b-- {
		n1 := 0
		for _, k := range cur {
			n1 += int(k.Bit(b))
		}
		fb := first.Bit(b)
		if n1 > 0 && n1 < len(cur) { // binary node
			var next []*big.Int
			for _, k := range cur {
				if k.Bit(b) == fb {
					next = append(next, k)
				}
			}
			if fb == 0 {
				rightAbove = true
			}
			cur, edgeOff = next, 0
			continue
		}
		eb := uint(0)
		if n1 > 0 {
			eb = 1
		}
		if fb != eb {
			kind, dir, sib := "inner-edge", "edge-below-key", "no-right-sibling-above"
			if len(cur) == 1 {
				kind = "leaf-edge"
			}
			if eb > fb {
				dir = "edge-above-key"
			}
			if rightAbove {
				sib = "right-sibling-above"
			}
			return "first-absent/diverges-in-" + kind + "/" + dir + "/" + sib, edgeOff, trieHeight - 1 - b
		}
		edgeOff++
	}
	return "first-present", 0, trieHeight
}

// equalHashNodes: does the trie over kvs hold one inner node (edge or binary; equal content = equal hash) at two
// positions? Decided on structural signatures, no hashing.
func equalHashNodes(kvs []kvT) bool {
	if len(kvs) < 2 {
		return false
	}
	sorted := append([]kvT(nil), kvs...)
	sort.Slice(sorted, func(i, j int) bool { return sorted[i].K.Cmp(sorted[j].K) < 0 })
	seen := map[string]bool{}
	dup := false
	note := func(s string) string {
		if seen[s] {
			dup = true
		}
		seen[s] = true
		return s
	}
	var rec func(ks []kvT, b int) string
	rec = func(ks []kvT, b int) string {
		if b < 0 {
			return "V" + ks[0].V.String()
		}
		var path strings.Builder
		for b >= 0 {
			n1 := 0
			for _, k := range ks {
				n1 += int(k.K.Bit(b))
			}
			if n1 > 0 && n1 < len(ks) {
				break
			}
			if n1 > 0 {
				path.WriteByte('1')
			} else {
				path.WriteByte('0')
			}
			b--
		}
		var below string
		if b < 0 {
			below = "V" + ks[0].V.String()
		} else {
			split := sort.Search(len(ks), func(i int) bool { return ks[i].K.Bit(b) == 1 })
			below = note("B(" + rec(ks[:split], b-1) + "," + rec(ks[split:], b-1) + ")")
		}
		if path.Len() == 0 {
			return below
		}
		return note("E(" + path.String() + "," + below + ")")
	}
	rec(sorted, trieHeight-1)
	return dup
}

// omitsOnlyLeavesUnderBoundaryBinary (shape S1): the claim is non-empty, every one of its entries is genuine, and every
// entry of [min(first,keys[0]), last] it omits is a leaf whose sibling leaf is present and whose parent lies on the path
// of the claim's first or last key.
func omitsOnlyLeavesUnderBoundaryBinary(kvs []kvT, c *rangeClaim) bool {
	if len(c.keys) == 0 || c.nilProof {
		return false
	}
	inTrie := map[string]felt.Felt{}
	for _, kv := range kvs {
		inTrie[kv.K.Text(16)] = kv.V
	}
	inClaim := map[string]bool{}
	for i, k := range c.keys {
		v, ok := inTrie[k.Text(16)]
		if !ok || !v.Equal(&c.vals[i]) {
			return false
		}
		inClaim[k.Text(16)] = true
	}
	last := c.keys[len(c.keys)-1]
	lo := c.first
	if c.keys[0].Cmp(lo) < 0 {
		lo = c.keys[0]
	}
	parent := func(k *big.Int) string { return new(big.Int).Rsh(k, 1).Text(16) }
	omitted := 0
	for _, kv := range kvs {
		if kv.K.Cmp(lo) < 0 || kv.K.Cmp(last) > 0 || inClaim[kv.K.Text(16)] {
			continue
		}
		omitted++
		sib := new(big.Int).Xor(kv.K, big.NewInt(1))
		if _, ok := inTrie[sib.Text(16)]; !ok {
			return false
		}
		if p := parent(kv.K); p != parent(c.first) && p != parent(last) {
			return false
		}
	}
	return omitted > 0
}

// falseClaimKey names an accepted false range claim. base is the historical key "FALSE-range-claim-accepted <impl>
// tamper=<class>"; for trie2 it is kept only for the shapes the known finding stands for (see the file comment).
func falseClaimKey(c *rangeCase, cl *rangeClaim, class string, eqHash bool) (key, shape string) {
	base := fmt.Sprintf("FALSE-range-claim-accepted %s tamper=%s", c.im.name, class)
	if !c.im.trie2 {
		return base, ""
	}
	if len(cl.keys) == 0 && !cl.nilProof {
		var ks []*big.Int
		for _, kv := range c.kvs {
			ks = append(ks, kv.K)
		}
		sh, _, _ := firstShape(ks, cl.first)
		return fmt.Sprintf("FALSE-empty-range-claim-accepted %s %s", c.im.name, sh), "empty-claim " + sh
	}
	switch {
	case omitsOnlyLeavesUnderBoundaryBinary(c.kvs, cl):
		return base, "S1 omits-only-leaves-directly-under-a-binary-node-of-a-boundary-path"
	case eqHash:
		return base, "S2 trie-holds-one-inner-node-at-two-positions"
	}
	return base + " shape=outside-the-known-shapes", "other"
}

// sweepPositions: the bit positions p of the sweep. Thorough: all 251. Quick: the positions next to every place the
// tries of Part B / the crafted keys branch at (embeddings low 0..2, high 248..250, spread 0,125,250; crafted 0..2,250)
// and next to the 64-bit word boundaries of juno's bit arrays (p mod 64 in {62,63,0,1}) - 24 positions; every edge of
// these tries is left at its first and last bits and, where it is long, at every word boundary it spans.
func sweepPositions(r *ev.Run) []int {
	var out []int
	for p := 0; p < trieHeight; p++ {
		m := p % 64
		if r.Thorough() || p <= 4 || p >= 246 || (p >= 124 && p <= 129) || ((m >= 62 || m <= 1) && p > 4 && p < 246) {
			out = append(out, p)
		}
	}
	return out
}

// divergenceFirsts: every absent first of the sweep, ascending (see the file comment).
func divergenceFirsts(keys []*big.Int, positions []int) []*big.Int {
	present := map[string]bool{}
	for _, k := range keys {
		present[k.Text(16)] = true
	}
	seen := map[string]bool{}
	var out []*big.Int
	add := func(f *big.Int) {
		s := f.Text(16)
		if present[s] || seen[s] {
			return
		}
		seen[s] = true
		out = append(out, f)
	}
	one := big.NewInt(1)
	for _, k := range keys {
		for _, p := range positions {
			same := new(big.Int).Set(k)
			same.SetBit(same, p, same.Bit(p)^1)
			zeros := new(big.Int).Rsh(same, uint(p))
			zeros.Lsh(zeros, uint(p))
			ones := new(big.Int).Lsh(one, uint(p))
			ones.Sub(ones, one)
			ones.Or(ones, zeros)
			add(same)
			add(zeros)
			add(ones)
		}
	}
	sort.Slice(out, func(i, j int) bool { return out[i].Cmp(out[j]) < 0 })
	return out
}

// runEmptySweepCase: Part B2 on one trie.
func runEmptySweepCase(r *ev.Run, c *rangeCase, positions []int, hs *hasher, loc tally) {
	if len(c.kvs) == 0 {
		return // the empty trie has no divergence point (Part B claims every logical first on it)
	}
	cfg := c.im.name + " " + c.label
	h, err := c.im.build(c.kvs, trieHeight, false)
	if err != nil {
		r.Violate("trie-build-fails "+cfg, map[string]any{"kv": c.desc, "err": err.Error()})
		return
	}
	root := h.root()
	var keys []*big.Int
	for _, kv := range c.kvs {
		keys = append(keys, kv.K)
	}
	sort.Slice(keys, func(i, j int) bool { return keys[i].Cmp(keys[j]) < 0 })
	max := keys[len(keys)-1]
	for _, first := range divergenceFirsts(keys, positions) {
		follows := first.Cmp(max) < 0
		shape, off, depth := firstShape(keys, first)
		cl := &rangeClaim{first: first}
		ff := fOf(first)
		var perr error
		if p, msg := ev.Guard(func() { cl.nodes, _, perr = h.proveRange(&ff, &ff) }); p || perr != nil {
			r.Violate("GetRangeProof-fails "+cfg, map[string]any{"kv": c.desc, "claim": cl.String(), "err": fmt.Sprint(perr), "panic": msg})
			continue
		}
		more, verr, pan := runRangeClaim(c.im, hs, root, cl, keyClaimed)
		loc["#evaluations"]++
		loc["#range_sweep_firsts"]++
		detail := func() map[string]any {
			return map[string]any{"impl": c.im.name, "config": c.label, "kv": c.desc, "claim": cl.String(), "root": root.String(),
				"first_shape": shape, "offset_in_edge": off, "key_bits_before_divergence": depth, "proof": "GetRangeProof(first, first)", "nodes": cl.nodes}
		}
		sh := strings.TrimPrefix(shape, "first-absent/")
		if !follows {
			loc["#range_sweep_honest_empty_claims"]++
			switch {
			case verr != nil:
				d := detail()
				d["err"], d["panic"] = verr.Error(), pan
				r.Violate(fmt.Sprintf("VerifyRangeProof-rejects-honest-range %s first-absent/no-entries", c.im.name), d)
				loc.add("empty-range sweep, nothing follows, " + sh + ": REJECTED")
			case more:
				d := detail()
				d["got_more"], d["true_more"] = true, false
				r.Violate(fmt.Sprintf("range-proof-more-entries-flag-wrong %s", c.im.name), d)
				loc.add("empty-range sweep, nothing follows, " + sh + ": accepted, more-entries flag wrong")
			default:
				loc.add("empty-range sweep, nothing follows, " + sh + ": accepted")
			}
			continue
		}
		loc["#range_sweep_false_empty_claims"]++
		if verr != nil {
			if pan != "" {
				loc.add("empty-range sweep, entries follow, " + sh + ": VerifyRangeProof panics")
			} else {
				loc.add("empty-range sweep, entries follow, " + sh + ": rejected")
			}
			continue
		}
		loc.add("empty-range sweep, entries follow, " + sh + ": ACCEPTED")
		if c.im.trie2 {
			r.Violate(fmt.Sprintf("FALSE-empty-range-claim-accepted %s %s", c.im.name, shape), detail())
		} else {
			// the legacy verifier accepts false empty claims wholesale (known finding: its hasRightElement ignores a
			// divergence inside an edge and never runs under a binary root). A false empty claim is the honest one-entry
			// claim (first, [next key]) with its entry dropped and the boundary proof re-made: reported under that class.
			r.Violate(fmt.Sprintf("FALSE-range-claim-accepted %s tamper=entry-dropped", c.im.name), detail())
		}
	}
}

// craftedRangeCases: the subsets of the crafted 251-bit keys (as in Part A) for the sweep.
func craftedRangeCases(r *ev.Run) []*rangeCase {
	keys := craftedKeySet()
	maxSize := ev.Pick(r, 3, 5)
	var out []*rangeCase
	for _, im := range impls {
		if im.name == "trie2-mem" {
			continue
		}
		for mask := 1; mask < 1<<len(keys); mask++ {
			var kvs []kvT
			for i, k := range keys {
				if mask>>i&1 == 1 {
					kvs = append(kvs, kvT{k, fv(uint64(100 + i))})
				}
			}
			if len(kvs) > maxSize {
				continue
			}
			out = append(out, &rangeCase{label: "h=251/crafted", desc: kvDesc(kvs), im: im, kvs: kvs})
		}
	}
	return out
}

func runEmptySweep(r *ev.Run, cases []*rangeCase, total tally) {
	r.Set("range_sweep_tries_planned", int64(len(cases)))
	positions := sweepPositions(r)
	r.Set("range_sweep_bit_positions", int64(len(positions)))
	var mu sync.Mutex
	var skipped int64
	ev.Par(len(cases), 16, func(i int) {
		if r.OutOfTime() {
			mu.Lock()
			skipped++
			mu.Unlock()
			return
		}
		loc := tally{}
		hs := getHasher(false)
		runEmptySweepCase(r, cases[i], positions, hs, loc)
		putHasher(false, hs)
		mu.Lock()
		for k, v := range loc {
			total[k] += v
		}
		mu.Unlock()
	})
	if skipped > 0 {
		r.Incomplete(fmt.Sprintf("empty-range sweep: %d of %d tries not processed (deadline)", skipped, len(cases)))
	}
}
