package c10

// RPC, request ORDER: the handler proves all requested slots of one contract into one node set, in request order. The
// states of the shared alphabet hold <= 3 slots per contract with pairwise different values; here contract A's storage
// is every non-empty map over the 3-bit slot universe {0..7} with values in {0,a} (thorough: {0,a,b}) and <= 4 entries -
// among them every trie with equal sub-tries at two positions - and the requests are: every ordered pair of distinct
// slots of the universe (present or absent), and all eight slots ascending and descending. Every requested slot must be
// established by the returned node list alone (independent verifier, authenticated storage root), as in rpc_test.go.

import (
	"fmt"

	"verif/mc/chain"
	"verif/mc/ev"

	"github.com/NethermindEth/juno/core"
	"github.com/NethermindEth/juno/core/felt"
)

func orderSlots() []felt.Felt {
	out := make([]felt.Felt, 8)
	for i := range out {
		out[i] = chain.FV(uint64(i))
	}
	return out
}

func repeatedStorage(r *ev.Run, version string) []*reach {
	slots := orderSlots()
	var deploy chain.Named
	for _, nm := range chain.Alphabet(nil, 0, version) {
		if nm.Name == "deployA" {
			deploy = nm
		}
	}
	if deploy.Name == "" {
		panic("no letter deployA")
	}
	e0, err := chain.Build(nil, deploy.Spec)
	if err != nil {
		panic(err)
	}
	nvals := ev.Pick(r, 2, 3) // value digits: 0 (absent), a [, b]
	vals := []uint64{0, 5, 7}
	var out []*reach
	for code := 1; code < pow(nvals, len(slots)); code++ {
		d := core.EmptyStateDiff()
		m := map[felt.Felt]*felt.Felt{}
		name := "A.storage={"
		for i, c := 0, code; i < len(slots); i, c = i+1, c/nvals {
			if v := vals[c%nvals]; v != 0 {
				m[slots[i]] = chain.F(v)
				name += fmt.Sprintf("%d:%d ", i, v)
			}
		}
		if len(m) > 4 {
			continue
		}
		d.StorageDiffs[chain.AddrA] = m
		e1, err := chain.Build(e0, chain.BlockSpec{Version: version, Timestamp: 1000 + (e0.Block.Number+1)*10, Diff: &d})
		if err != nil {
			panic(err)
		}
		out = append(out, &reach{version: version, names: []string{"deployA", name + "}"}, entries: []*chain.Entry{e0, e1}, orderSlots: slots})
	}
	return out
}

// orderRequests: every ordered pair of distinct slots, and the whole universe ascending / descending, on contract A.
func orderRequests(slots []felt.Felt) []*request {
	type sk = struct {
		c    felt.Felt
		keys []felt.Felt
	}
	mk := func(keys []felt.Felt) *request {
		return &request{blockID: "latest", contracts: []felt.Felt{chain.AddrA}, storage: []sk{{chain.AddrA, keys}}}
	}
	var out []*request
	for i := range slots {
		for j := range slots {
			if i != j {
				out = append(out, mk([]felt.Felt{slots[i], slots[j]}))
			}
		}
	}
	asc := append([]felt.Felt(nil), slots...)
	desc := make([]felt.Felt, len(slots))
	for i := range slots {
		desc[i] = slots[len(slots)-1-i]
	}
	return append(out, mk(asc), mk(desc))
}
