package c10

import "verif/mc/ev"

func runRPC(r *ev.Run) {}
