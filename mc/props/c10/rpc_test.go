package c10

// RPC level: starknet_getStorageProof (rpc v9 and v10) through a real jsonrpc.Server on a real Blockchain (both state
// backends) holding every distinct state reachable by <= D alphabet blocks; every contract / class / storage slot of
// the universe (present and absent) is requested, alone and all together, and the JSON response is verified with the
// independent verifier against the global state root in the head block's header.

import (
	"bytes"
	"context"
	"encoding/json"
	"fmt"
	"math/big"
	"sort"
	"strings"
	"sync"

	"verif/mc/chain"
	"verif/mc/ev"
	"verif/mc/reftrie"

	"github.com/NethermindEth/juno/blockchain"
	"github.com/NethermindEth/juno/core"
	"github.com/NethermindEth/juno/core/felt"
	"github.com/NethermindEth/juno/db/memory"
	"github.com/NethermindEth/juno/jsonrpc"
	rpcv10 "github.com/NethermindEth/juno/rpc/v10"
	rpcv9 "github.com/NethermindEth/juno/rpc/v9"
	"github.com/NethermindEth/juno/utils/log"
)

// ---- response as a client sees it (own types, decoded from the JSON text)

type jNode struct {
	Left   *string `json:"left"`
	Right  *string `json:"right"`
	Path   *string `json:"path"`
	Length *int    `json:"length"`
	Child  *string `json:"child"`
}

type jHashNode struct {
	Hash string `json:"node_hash"`
	Node jNode  `json:"node"`
}

type jLeaf struct {
	Nonce       string `json:"nonce"`
	ClassHash   string `json:"class_hash"`
	StorageRoot string `json:"storage_root"`
}

type jResult struct {
	ClassesProof   []jHashNode `json:"classes_proof"`
	ContractsProof struct {
		Nodes  []jHashNode `json:"nodes"`
		Leaves []*jLeaf    `json:"contract_leaves_data"`
	} `json:"contracts_proof"`
	StorageProofs [][]jHashNode `json:"contracts_storage_proofs"`
	GlobalRoots   struct {
		Contracts string `json:"contracts_tree_root"`
		Classes   string `json:"classes_tree_root"`
		BlockHash string `json:"block_hash"`
	} `json:"global_roots"`
}

type jResp struct {
	Result *jResult `json:"result"`
	Error  *struct {
		Code    int             `json:"code"`
		Message string          `json:"message"`
		Data    json.RawMessage `json:"data"`
	} `json:"error"`
}

func hexFelt(s string) (felt.Felt, error) {
	b, ok := new(big.Int).SetString(strings.TrimPrefix(s, "0x"), 16)
	if !ok || !strings.HasPrefix(s, "0x") {
		return felt.Zero, fmt.Errorf("not a hex felt: %q", s)
	}
	return fOf(b), nil
}

func wireNodes(hs *hasher, in []jHashNode) ([]pnode, error) {
	out := make([]pnode, 0, len(in))
	for i, hn := range in {
		var n pnode
		var err error
		switch {
		case hn.Node.Left != nil && hn.Node.Right != nil && hn.Node.Path == nil && hn.Node.Child == nil:
			if n.A, err = hexFelt(*hn.Node.Left); err != nil {
				return nil, err
			}
			if n.B, err = hexFelt(*hn.Node.Right); err != nil {
				return nil, err
			}
		case hn.Node.Path != nil && hn.Node.Child != nil && hn.Node.Length != nil && hn.Node.Left == nil:
			n.Edge, n.Length = true, *hn.Node.Length
			if n.A, err = hexFelt(*hn.Node.Child); err != nil {
				return nil, err
			}
			if n.B, err = hexFelt(*hn.Node.Path); err != nil {
				return nil, err
			}
		default:
			return nil, fmt.Errorf("node %d is neither a binary nor an edge node", i)
		}
		if n.Claimed, err = hexFelt(hn.Hash); err != nil {
			return nil, err
		}
		if hh := hs.hash(&n); !hh.Equal(&n.Claimed) {
			return nil, fmt.Errorf("node %d: node_hash %s is not the hash of the node (%s)", i, hn.Hash, hh.String())
		}
		out = append(out, n)
	}
	return out, nil
}

// ---- node under test

type rpcNode struct {
	bc      *blockchain.Blockchain
	servers map[string]*jsonrpc.Server
}

func storageProofParams() []jsonrpc.Parameter {
	return []jsonrpc.Parameter{{Name: "block_id"}, {Name: "class_hashes", Optional: true}, {Name: "contract_addresses", Optional: true}, {Name: "contracts_storage_keys", Optional: true}}
}

func newRPCNode(bc *blockchain.Blockchain) *rpcNode {
	n := &rpcNode{bc: bc, servers: map[string]*jsonrpc.Server{}}
	lg := log.NewNopZapLogger()
	h10 := rpcv10.New(bc, nil, nil, lg)
	h9 := rpcv9.New(bc, nil, nil, lg)
	for name, handler := range map[string]any{"v10": h10.StorageProof, "v9": h9.StorageProof} {
		s := jsonrpc.NewServer(1, lg)
		// registered exactly as rpc/handlers.go does
		if err := s.RegisterMethods(jsonrpc.Method{Name: "starknet_getStorageProof", Params: storageProofParams(), Handler: handler}); err != nil {
			panic(err)
		}
		n.servers[name] = s
	}
	return n
}

type sKeys struct {
	Contract string   `json:"contract_address"`
	Keys     []string `json:"storage_keys"`
}

type request struct {
	blockID   any
	classes   []felt.Felt
	contracts []felt.Felt
	storage   []struct {
		c    felt.Felt
		keys []felt.Felt
	}
}

func (n *rpcNode) call(api string, rq *request) (*jResp, string, error) {
	params := map[string]any{"block_id": rq.blockID}
	hexes := func(fs []felt.Felt) []string {
		out := make([]string, len(fs))
		for i := range fs {
			out[i] = fs[i].String()
		}
		return out
	}
	if rq.classes != nil {
		params["class_hashes"] = hexes(rq.classes)
	}
	if rq.contracts != nil {
		params["contract_addresses"] = hexes(rq.contracts)
	}
	if rq.storage != nil {
		var sk []sKeys
		for _, s := range rq.storage {
			sk = append(sk, sKeys{s.c.String(), hexes(s.keys)})
		}
		params["contracts_storage_keys"] = sk
	}
	body, _ := json.Marshal(map[string]any{"jsonrpc": "2.0", "id": 1, "method": "starknet_getStorageProof", "params": params})
	out, _, err := n.servers[api].HandleReader(context.Background(), bytes.NewReader(body))
	if err != nil {
		return nil, string(body), err
	}
	var resp jResp
	dec := json.NewDecoder(bytes.NewReader(out))
	if err := dec.Decode(&resp); err != nil {
		return nil, string(body), fmt.Errorf("undecodable response %s: %w", out, err)
	}
	return &resp, string(body), nil
}

// ---- universe

var absentAddr = chain.FV(0xDEAD)
var absentSlot = chain.FV(0x99)
var absentClass = chain.FV(0xC1A55)

func universe(st *chain.State) (contracts, classes, slots []felt.Felt) {
	contracts = []felt.Felt{chain.AddrA, chain.AddrB, chain.AddrC, chain.Sys1, chain.Sys2, absentAddr}
	_, h0 := chain.Cairo0(0)
	_, sh1, _, _ := chain.Sierra(1)
	_, sh2, _, _ := chain.Sierra(2)
	classes = []felt.Felt{h0, sh1, sh2, absentClass}
	seen := map[felt.Felt]bool{}
	add := func(f felt.Felt) {
		if !seen[f] {
			seen[f] = true
			slots = append(slots, f)
		}
	}
	add(chain.Slot0)
	add(chain.Slot1)
	add(chain.FV(7))
	add(absentSlot)
	var extra []felt.Felt
	for _, c := range st.Contracts {
		for k := range c.Storage {
			extra = append(extra, k)
		}
	}
	sort.Slice(extra, func(i, j int) bool { return extra[i].Cmp(&extra[j]) < 0 })
	for _, k := range extra {
		add(k)
	}
	return
}

// ---- the independent check of one response

type rpcCtx struct {
	r       *ev.Run
	api     string
	backend string
	version string
	hist    string
	st      *chain.State
	e       *chain.Entry
	loc     tally
}

func (c *rpcCtx) key(what string) string {
	return fmt.Sprintf("rpc-%s %s", c.api, what)
}

func (c *rpcCtx) detail(rq string, extra map[string]any) map[string]any {
	m := map[string]any{"api": c.api, "state_backend": c.backend, "protocol": c.version, "history": c.hist, "request": rq, "block": c.e.Block.Number}
	for k, v := range extra {
		m[k] = v
	}
	return m
}

func (c *rpcCtx) verify(rq *request, body string, resp *jResp) {
	r := c.r
	if resp.Error != nil {
		r.Violate(c.key("request-at-head-answered-with-error "+c.backend), c.detail(body, map[string]any{"code": resp.Error.Code, "message": resp.Error.Message, "data": string(resp.Error.Data)}))
		return
	}
	res := resp.Result
	if res == nil {
		r.Violate(c.key("no-result"), c.detail(body, nil))
		return
	}
	ped, pos := newHasher(reftrie.Pedersen), newHasher(reftrie.Poseidon)
	bad := func(what string, extra map[string]any) {
		r.Violate(c.key(what+" "+c.backend), c.detail(body, extra))
	}
	// 1. the roots are bound to the head block
	croot, err1 := hexFelt(res.GlobalRoots.Contracts)
	kroot, err2 := hexFelt(res.GlobalRoots.Classes)
	bh, err3 := hexFelt(res.GlobalRoots.BlockHash)
	if err1 != nil || err2 != nil || err3 != nil {
		bad("global-roots-malformed", map[string]any{"roots": res.GlobalRoots})
		return
	}
	if !bh.Equal(c.e.Block.Hash) {
		bad("global-roots-block-hash-is-not-the-head", map[string]any{"got": bh.String(), "want": c.e.Block.Hash.String()})
	}
	from0140 := c.version >= "0.14.0"
	if commit := reftrie.StateCommitment(&croot, &kroot, from0140); !commit.Equal(c.e.Block.GlobalStateRoot) {
		bad("global-roots-do-not-hash-to-the-block's-state-root", map[string]any{"contracts_tree_root": croot.String(), "classes_tree_root": kroot.String(),
			"commitment": commit.String(), "header_state_root": c.e.Block.GlobalStateRoot.String()})
		return
	}
	c.loc["#evaluations"]++
	// 2. classes
	knodes, err := wireNodes(pos, res.ClassesProof)
	if err != nil {
		bad("classes-proof-malformed", map[string]any{"err": err.Error()})
		return
	}
	for _, cl := range rq.classes {
		var want felt.Felt
		if rec, ok := c.st.Classes[cl]; ok && rec.Sierra {
			casm := rec.Casm()
			want = reftrie.ClassLeaf(&casm)
		}
		vd := indVerify(pos, kroot, cl.BigInt(new(big.Int)), 251, knodes)
		c.loc["#evaluations"]++
		c.loc["#rpc_class_claims"]++
		if !vd.OK || !vd.Val.Equal(&want) {
			bad("class-proof-does-not-establish-the-class-leaf", map[string]any{"class": cl.String(), "want_leaf": want.String(), "verdict": vd, "nodes": len(knodes)})
		} else if want.IsZero() {
			c.loc.add("rpc class: absence proven")
		} else {
			c.loc.add("rpc class: membership proven")
		}
	}
	// 3. contracts
	cnodes, err := wireNodes(ped, res.ContractsProof.Nodes)
	if err != nil {
		bad("contracts-proof-malformed", map[string]any{"err": err.Error()})
		return
	}
	if len(rq.contracts) != len(res.ContractsProof.Leaves) {
		bad("contract-leaves-data-count-differs-from-request", map[string]any{"requested": len(rq.contracts), "got": len(res.ContractsProof.Leaves)})
		return
	}
	storageRoot := map[felt.Felt]felt.Felt{} // authenticated storage roots
	for i, a := range rq.contracts {
		ld := res.ContractsProof.Leaves[i]
		model, exists := c.st.Contracts[a]
		vd := indVerify(ped, croot, a.BigInt(new(big.Int)), 251, cnodes)
		c.loc["#evaluations"]++
		c.loc["#rpc_contract_claims"]++
		if !vd.OK {
			bad("contract-proof-does-not-verify", map[string]any{"contract": a.String(), "verdict": vd})
			continue
		}
		if !exists {
			if !vd.Val.IsZero() || ld != nil {
				bad("absent-contract-not-proven-absent", map[string]any{"contract": a.String(), "verdict": vd, "leaf_data": ld})
			} else {
				c.loc.add("rpc contract: absence proven, leaf data null")
			}
			continue
		}
		if ld == nil {
			bad("existing-contract-has-no-leaf-data", map[string]any{"contract": a.String()})
			continue
		}
		n, e1 := hexFelt(ld.Nonce)
		ch, e2 := hexFelt(ld.ClassHash)
		sr, e3 := hexFelt(ld.StorageRoot)
		if e1 != nil || e2 != nil || e3 != nil {
			bad("leaf-data-malformed", map[string]any{"leaf_data": ld})
			continue
		}
		if leaf := reftrie.ContractLeaf(&ch, &sr, &n); !leaf.Equal(&vd.Val) {
			bad("leaf-data-does-not-hash-to-the-proven-contract-leaf", map[string]any{"contract": a.String(), "leaf_data": ld, "proven_leaf": vd.Val.String(), "H(leaf_data)": leaf.String()})
			continue
		}
		wantSR := c.st.StorageRoot(model)
		if !n.Equal(&model.Nonce) || !ch.Equal(&model.Class) || !sr.Equal(&wantSR) {
			bad("leaf-data-differs-from-the-state", map[string]any{"contract": a.String(), "leaf_data": ld, "nonce": model.Nonce.String(), "class": model.Class.String(), "storage_root": wantSR.String()})
			continue
		}
		storageRoot[a] = sr
		c.loc.add("rpc contract: leaf proven from leaf data")
	}
	// 4. storage. A contract named in several entries of the request is one claim about the union of its slots (juno
	// merges such entries); the response carries one node list per distinct contract.
	{
		type ent = struct {
			c    felt.Felt
			keys []felt.Felt
		}
		var merged []ent
		at := map[felt.Felt]int{}
		for _, s := range rq.storage {
			i, ok := at[s.c]
			if !ok {
				i = len(merged)
				at[s.c] = i
				merged = append(merged, ent{c: s.c})
			}
			for _, k := range s.keys {
				dup := false
				for _, k2 := range merged[i].keys {
					dup = dup || k2.Equal(&k)
				}
				if !dup {
					merged[i].keys = append(merged[i].keys, k)
				}
			}
		}
		if len(merged) != len(rq.storage) {
			c.loc.add("rpc storage: request names a contract in several entries")
		}
		cp := *rq
		cp.storage = merged
		rq = &cp
	}
	if len(rq.storage) != len(res.StorageProofs) {
		bad("storage-proof-count-differs-from-request", map[string]any{"requested_distinct_contracts": len(rq.storage), "got": len(res.StorageProofs)})
		return
	}
	sets := make([][]pnode, len(res.StorageProofs))
	for j := range res.StorageProofs {
		if sets[j], err = wireNodes(ped, res.StorageProofs[j]); err != nil {
			bad("storage-proof-malformed", map[string]any{"err": err.Error(), "index": j})
			return
		}
	}
	// want[j][k]: the value the state holds; root[j]: the authenticated storage root (zero for an absent contract)
	type claim struct {
		skip   bool
		exists bool
		root   felt.Felt
		want   []felt.Felt
	}
	claims := make([]claim, len(rq.storage))
	for j, s := range rq.storage {
		model, exists := c.st.Contracts[s.c]
		root, authenticated := storageRoot[s.c]
		if !exists {
			root, authenticated = felt.Zero, true // absence of the contract was proven above; nothing can be stored
		}
		claims[j] = claim{skip: !authenticated, exists: exists, root: root} // skip: the contract itself failed above (already reported)
		for _, k := range s.keys {
			var want felt.Felt
			if exists {
				want = model.Storage[k]
			}
			claims[j].want = append(claims[j].want, want)
		}
	}
	// establishes(j, j2): the j2-th node list proves every requested slot of the j-th requested contract
	establishes := func(j, j2 int) (bool, int, verdict) {
		for i, k := range rq.storage[j].keys {
			vd := indVerify(ped, claims[j].root, k.BigInt(new(big.Int)), 251, sets[j2])
			if !vd.OK || !vd.Val.Equal(&claims[j].want[i]) {
				return false, i, vd
			}
		}
		return true, -1, verdict{}
	}
	type failure struct {
		j, i int
		vd   verdict
	}
	var failed []failure
	for j, s := range rq.storage {
		if claims[j].skip {
			continue
		}
		c.loc["#evaluations"] += int64(len(s.keys))
		c.loc["#rpc_storage_claims"] += int64(len(s.keys))
		ok, i, vd := establishes(j, j)
		if !ok {
			failed = append(failed, failure{j, i, vd})
			continue
		}
		for i := range s.keys {
			switch {
			case !claims[j].exists:
				c.loc.add("rpc storage: contract absent")
			case claims[j].root.IsZero():
				c.loc.add("rpc storage: empty storage trie")
			case claims[j].want[i].IsZero():
				c.loc.add("rpc storage: absence proven")
			default:
				c.loc.add("rpc storage: membership proven")
			}
		}
	}
	if len(failed) == 0 {
		return
	}
	// Positional proofs failed. The known defect class is "the i-th storage proof is not the i-th requested contract's":
	// the response is then a permutation of correct proofs. That is decided exactly: is there a one-to-one assignment of
	// node lists to requested contracts under which every requested slot is established? Anything else (a list that
	// lacks nodes, a list that serves two contracts, a wrong value) is a different violation and is reported as such.
	n := len(rq.storage)
	okm := make([][]bool, n)
	for j := 0; j < n; j++ {
		okm[j] = make([]bool, n)
		for j2 := 0; j2 < n; j2++ {
			okm[j][j2] = claims[j].skip
			if !claims[j].skip {
				okm[j][j2], _, _ = establishes(j, j2)
			}
		}
	}
	used := make([]bool, n)
	var assign func(j int) bool
	assign = func(j int) bool {
		if j == n {
			return true
		}
		for j2 := 0; j2 < n; j2++ {
			if !used[j2] && okm[j][j2] {
				used[j2] = true
				if assign(j + 1) {
					return true
				}
				used[j2] = false
			}
		}
		return false
	}
	if assign(0) {
		f := failed[0]
		r.Violate(c.key("storage-proofs-not-in-request-order"), c.detail(body, map[string]any{"state_backend": c.backend, "contract": rq.storage[f.j].c.String(),
			"slot": rq.storage[f.j].keys[f.i].String(), "request_index": f.j, "positional_failures": len(failed)}))
		return
	}
	for _, f := range failed {
		bad("storage-proof-does-not-establish-the-slot-value", map[string]any{"contract": rq.storage[f.j].c.String(), "slot": rq.storage[f.j].keys[f.i].String(),
			"want": claims[f.j].want[f.i].String(), "verdict": f.vd, "storage_root": claims[f.j].root.String(), "index": f.j, "nodes_in_list": len(sets[f.j]),
			"note": "no one-to-one assignment of the returned node lists to the requested contracts establishes every slot"})
	}
}

// ---- enumeration of reachable states

type reach struct {
	version string
	names   []string
	entries []*chain.Entry
	// orderSlots != nil: a state of the request-order family (rpc_orders_test.go); it is served the order requests only
	orderSlots []felt.Felt
}

func reachable(version string, depth int) []*reach {
	seen := map[string]bool{}
	var out []*reach
	var rec func(parent *chain.Entry, names []string, entries []*chain.Entry)
	rec = func(parent *chain.Entry, names []string, entries []*chain.Entry) {
		var st *chain.State
		var num uint64
		if parent != nil {
			st, num = parent.State, parent.Block.Number+1
		}
		for _, nm := range chain.Alphabet(st, num, version) {
			if nm.Name == "sys1.clear" {
				continue // exotic (no real network clears a system contract); known C01 finding on the legacy backend
			}
			e, err := chain.Build(parent, nm.Spec)
			if err != nil {
				continue
			}
			ns := append(append([]string(nil), names...), nm.Name)
			es := append(append([]*chain.Entry(nil), entries...), e)
			root := e.State.Root(version)
			k := fmt.Sprintf("%s|%d", root.String(), len(e.State.Classes))
			if !seen[k] {
				seen[k] = true
				out = append(out, &reach{version: version, names: ns, entries: es})
			}
			if len(es) < depth {
				rec(e, ns, es)
			}
		}
	}
	rec(nil, nil, nil)
	return out
}

// sharedStorage: histories in which two contracts' storage tries have nodes in common - equal tries (same root), and a
// common subtree under different roots - so that one request proving both contracts visits the same node twice. The
// shared alphabet never produces these (A, B and C write different values).
func sharedStorage(version string) []*reach {
	var out []*reach
	letter := func(parent *chain.Entry, name string) chain.Named {
		var st *chain.State
		var num uint64
		if parent != nil {
			st, num = parent.State, parent.Block.Number+1
		}
		for _, nm := range chain.Alphabet(st, num, version) {
			if nm.Name == name {
				return nm
			}
		}
		panic("no letter " + name)
	}
	write := func(name string, w map[felt.Felt]map[felt.Felt]uint64) func(parent *chain.Entry) chain.Named {
		return func(parent *chain.Entry) chain.Named {
			d := core.EmptyStateDiff()
			for a, m := range w {
				d.StorageDiffs[a] = map[felt.Felt]*felt.Felt{}
				for k, v := range m {
					d.StorageDiffs[a][k] = chain.F(v)
				}
			}
			return chain.Named{Name: name, Spec: chain.BlockSpec{Version: version, Timestamp: 1000 + (parent.Block.Number+1)*10, Diff: &d}}
		}
	}
	far := chain.FV(0x40)
	for _, tail := range [][]func(*chain.Entry) chain.Named{
		{write("A.s0=9 (A's storage equals B's)", map[felt.Felt]map[felt.Felt]uint64{chain.AddrA: {chain.Slot0: 9}})},
		{write("A.s0=9,s1=1,0x40=5; B.s1=1 (B's trie is a subtree of A's)", map[felt.Felt]map[felt.Felt]uint64{
			chain.AddrA: {chain.Slot0: 9, chain.Slot1: 1, far: 5}, chain.AddrB: {chain.Slot1: 1}})},
		{write("A.s0=9,s1=1; B.s1=1", map[felt.Felt]map[felt.Felt]uint64{chain.AddrA: {chain.Slot0: 9, chain.Slot1: 1}, chain.AddrB: {chain.Slot1: 1}}),
			write("A.0x40=5; sys2.0x40=5", map[felt.Felt]map[felt.Felt]uint64{chain.AddrA: {far: 5}, chain.Sys2: {far: 5}})},
	} {
		var parent *chain.Entry
		rc := &reach{version: version}
		step := func(nm chain.Named) {
			e, err := chain.Build(parent, nm.Spec)
			if err != nil {
				panic(err)
			}
			rc.names, rc.entries, parent = append(rc.names, nm.Name), append(rc.entries, e), e
		}
		for _, n := range []string{"deployA", "declareS1", "deployB+touch"} {
			step(letter(parent, n))
		}
		for _, t := range tail {
			step(t(parent))
		}
		out = append(out, rc)
	}
	return out
}

func runRPC(r *ev.Run) {
	depth := ev.Pick(r, 3, 4)
	var all []*reach
	for _, v := range []string{"0.13.2", "0.14.0", "0.14.1"} {
		if v == "0.14.1" && r.Quick() {
			continue
		}
		d := depth
		if v == "0.14.0" && r.Quick() {
			d = 2
		}
		all = append(all, reachable(v, d)...)
	}
	for _, v := range []string{"0.13.2", "0.14.0"} {
		all = append(all, sharedStorage(v)...)
	}
	for _, v := range []string{"0.13.2", "0.14.0"} {
		if v == "0.14.0" && r.Quick() {
			continue
		}
		rs := repeatedStorage(r, v)
		r.Add("rpc_request_order_states", int64(len(rs)))
		all = append(all, rs...)
	}
	r.Set("rpc_distinct_states", int64(len(all)))
	total := tally{}
	var mu sync.Mutex
	var skipped int64
	type job struct {
		rc       *reach
		newState bool
	}
	var jobs []job
	for _, rc := range all {
		jobs = append(jobs, job{rc, false}, job{rc, true})
	}
	ev.Par(len(jobs), 16, func(i int) {
		if r.OutOfTime() {
			mu.Lock()
			skipped++
			mu.Unlock()
			return
		}
		loc := tally{}
		rpcState(r, jobs[i].rc, jobs[i].newState, loc)
		mu.Lock()
		for k, v := range loc {
			total[k] += v
		}
		mu.Unlock()
	})
	if skipped > 0 {
		r.Incomplete(fmt.Sprintf("rpc: %d of %d (state,backend) pairs not processed (deadline)", skipped, len(jobs)))
	}
	for k, v := range total {
		if k[0] == '#' {
			r.Add(k[1:], v)
		} else {
			r.Set("n["+k+"]", v)
		}
	}
}

func rpcState(r *ev.Run, rc *reach, newState bool, loc tally) {
	backend := "legacy-state"
	if newState {
		backend = "new-state"
	}
	hist := strings.Join(rc.names, " ; ")
	d := memory.New()
	bc := chain.NewNode(d, newState)
	var parent *chain.Entry
	for i, e := range rc.entries {
		f := e.Fresh(parent)
		if err := chain.StoreSync(bc, f); err != nil {
			r.Violate("rpc-setup valid-block-refused "+backend, map[string]any{"history": hist, "at": i, "err": err.Error(), "protocol": rc.version})
			return
		}
		parent = e
	}
	head := rc.entries[len(rc.entries)-1]
	node := newRPCNode(bc)
	contracts, classes, slots := universe(head.State)
	loc["#rpc_states_served"]++
	for _, api := range []string{"v10", "v9"} {
		c := &rpcCtx{r: r, api: api, backend: backend, version: rc.version, hist: hist, st: head.State, e: head, loc: loc}
		do := func(rq *request) {
			resp, body, err := node.call(api, rq)
			loc["#rpc_calls"]++
			if err != nil {
				r.Violate(c.key("server-error "+backend), c.detail(body, map[string]any{"err": err.Error()}))
				return
			}
			p, msg := ev.Guard(func() { c.verify(rq, body, resp) })
			if p {
				r.Violate("HARNESS rpc verifier panicked", c.detail(body, map[string]any{"panic": msg}))
			}
		}
		if rc.orderSlots != nil {
			for _, rq := range orderRequests(rc.orderSlots) {
				do(rq)
				loc["#rpc_request_order_calls"]++
			}
			continue
		}
		latest := "latest"
		one := func(f felt.Felt) []felt.Felt { return []felt.Felt{f} }
		// every class, every contract, every (contract, slot) alone
		for _, cl := range classes {
			do(&request{blockID: latest, classes: one(cl)})
		}
		for _, a := range contracts {
			do(&request{blockID: latest, contracts: one(a)})
			for _, k := range slots {
				rq := &request{blockID: latest, contracts: one(a)}
				rq.storage = append(rq.storage, struct {
					c    felt.Felt
					keys []felt.Felt
				}{a, one(k)})
				do(rq)
			}
		}
		// everything in one request (several contracts, several keys each), by number and by hash
		for _, bid := range []any{latest, map[string]any{"block_number": head.Block.Number}, map[string]any{"block_hash": head.Block.Hash.String()}} {
			rq := &request{blockID: bid, classes: classes, contracts: contracts}
			for _, a := range contracts {
				rq.storage = append(rq.storage, struct {
					c    felt.Felt
					keys []felt.Felt
				}{a, slots})
			}
			do(rq)
		}
		// a contract named in several entries (slots split between them), other contracts in between
		if len(slots) >= 2 {
			half := len(slots) / 2
			type sk = struct {
				c    felt.Felt
				keys []felt.Felt
			}
			for _, order := range [][3]int{{0, 1, 0}, {1, 0, 0}, {0, 0, 1}} {
				rq := &request{blockID: latest, contracts: contracts}
				cs := [2]felt.Felt{contracts[0], contracts[1]}
				used := 0
				for _, which := range order {
					ks := slots
					if which == 0 {
						if used == 0 {
							ks = slots[:half]
						} else {
							ks = slots[half:]
						}
						used++
					}
					rq.storage = append(rq.storage, sk{cs[which], ks})
				}
				do(rq)
			}
		}
		// nothing requested: only the roots
		do(&request{blockID: latest})
	}
}
