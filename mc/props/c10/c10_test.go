package c10

// C10 — Merkle proofs verify against the state root and cannot be forged by tampering.
//
// Part A (member_test.go): every kv-map of height-2/3 tries (native and three embeddings into height 251) and
//   crafted 251-bit key sets x every key: Prove -> juno's VerifyProof and the independent verifier agree with the
//   truth; every single corruption of node / key / root / claimed value is rejected (or recognised as still valid).
// Part B (range_test.go): every range claim over height-<=3 embedded tries, with / without boundary proofs.
// Part B2 (rangeshape_test.go): empty-range claims with an absent `first` at every divergence point (every present key x
//   bit position x three tails) of the Part B tries and of the crafted 251-bit key subsets, each with its own
//   GetRangeProof(first, first); exact classification of accepted false claims by shape.
// Part C (rpc_test.go): starknet_getStorageProof (v9, v10; both state backends) on enumerated small chains, checked
//   by the independent verifier against the block's global state root.
// Part D (batch_test.go): every sequence of <= L keys proven into ONE node set (what the RPC and GetRangeProof do), every
//   key of the sequence checked against the shared set after every Prove; GetRangeProof's set establishes both boundaries.
// Part E (history_test.go): every history of <= D operations {Put, Delete, Commit, (Hash,) Prove} on ONE long-lived trie
//   object started from every small base state; every Prove checked against the current (reference) root and the model.

// Violation keys seen on the unchanged tree (all reproduced with juno's API alone in repro_test.go, C10_REPRO=1):
//   rpc-v9|v10 storage-proofs-not-in-request-order      processStorageKeys ranges over a Go map: contracts_storage_proofs[i]
//                                                       is not the i-th requested contract's proof (production code)
//   VerifyProof-rejects-or-misreads-honest-proof * empty-trie
//                                                       root 0 + empty node set: "proof node not found" instead of absence
//   FORGED-/altered-proof-accepted trie2 corruption=trie2.go-level/*
//                                                       trie2.VerifyProof returns a child typed ValueNode without having consumed
//                                                       the key (also: honest set verifies under an inner node's hash as root),
//                                                       and trusts a proof node's cached Flags.Hash instead of hashing it
//   VerifyRangeProof-rejects-honest-range *, FALSE-range-claim-accepted *, range-proof-more-entries-flag-wrong legacy-trie
//                                                       legacy hasRightElement ignores edge divergence and never runs when the
//                                                       root is a binary node; missing proof nodes are read as absence; a leaf
//                                                       directly under a binary boundary node is never unset (authors' TODO);
//                                                       trie2 proofToPath links ONE node object for equal-hash siblings -> panic
//                                                       (trie2: kept only for shapes S1 / S2 of rangeshape_test.go; trie2 accepts
//                                                       NO false empty-range claim - that has a key of its own)
// VerifyProof / VerifyRangeProof have no production caller; Prove (used by the RPC) showed no defect.

import (
	"os"
	"testing"
	"time"

	"verif/mc/ev"
)

func TestCheck(t *testing.T) {
	r := ev.Start("C10", "exploration")
	r.SetBudget(ev.Pick(r, 160, 1700))
	only := os.Getenv("C10_ONLY")
	// cheapest and closest to production first; the membership enumeration is the one a deadline may cut
	t0 := time.Now()
	if only == "" || only == "rpc" {
		runRPC(r)
	}
	r.Set("seconds_rpc", time.Since(t0).Seconds())
	t0 = time.Now()
	if only == "" || only == "range" {
		runRange(r)
	}
	r.Set("seconds_range", time.Since(t0).Seconds())
	t0 = time.Now()
	if only == "" || only == "batch" {
		runBatch(r)
	}
	r.Set("seconds_batch", time.Since(t0).Seconds())
	t0 = time.Now()
	if only == "" || only == "history" {
		runHistory(r)
	}
	r.Set("seconds_history", time.Since(t0).Seconds())
	t0 = time.Now()
	if only == "" || only == "member" {
		runMembership(r)
	}
	r.Set("seconds_membership", time.Since(t0).Seconds())
	r.Set("rule", "one evaluation = one run of a verifier (juno's or the independent one) on one (root,key,node set); non-trivial = distinct honest-proof walk shapes x corruption classes x verdict combinations")
	r.Set("distinct_nontrivial", r.Get("honest_proof_walk_shapes")+r.Get("range_outcome_kinds")+r.Get("rpc_distinct_states"))
	r.Assume = append(r.Assume,
		"Pedersen/Poseidon primitives and felt arithmetic are trusted (pinned by juno's known-answer tests)",
		"juno's VerifyProof/VerifyRangeProof hard-code height 251: height-2/3 tries are checked by them through three order-preserving embeddings into height 251; the native height-2/3 tries are checked by the independent verifier only",
		"batches (Part D): keys are drawn from the trie's logical universe (all 2^h keys; the 9 crafted keys), sequences of <=L keys with repetition, depth-first with the set cloned at every branch (clones share node objects); juno's VerifyProof runs on the key proven last after every Prove and on every key of the whole-universe and GetRangeProof sets; the empty trie is left to Part A",
		"histories (Part E): one trie object per history (a trie object cannot be cloned, every history is replayed from its base state, which is put and committed on the same object); core/trie: the root of a trie with pending updates is what Hash returns, so Hash is called right before every Prove (Prove on un-hashed pending updates is not judged); trie2: Prove runs on pending, unhashed updates and is judged against the reference root, Commit = Commit + triedb Update + re-open from the same database object; juno's VerifyProof is skipped on the empty trie (Part A's known finding)",
		"felt-field alteration alphabet: +1, 0 and every other felt occurring in the proof/root/value; edge path: bit flips at positions {0,1,len/2,len-2,len-1}; edge length: +-1 (both path alignments), 0, 251; node kind flips; removal; pairwise swap",
	)
	r.Finish()
}
