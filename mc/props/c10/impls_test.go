package c10

// Adapters to the two trie implementations: build a trie from a kv-set on a persisted image (as in
// props/c01), re-open it, Prove / GetRangeProof, and run juno's own VerifyProof / VerifyRangeProof
// on node sets rebuilt from wire nodes.

import (
	"fmt"
	"math/big"

	"verif/mc/ev"
	"verif/mc/reftrie"

	"github.com/NethermindEth/juno/core/crypto"
	"github.com/NethermindEth/juno/core/felt"
	"github.com/NethermindEth/juno/core/trie"
	"github.com/NethermindEth/juno/core/trie2"
	"github.com/NethermindEth/juno/core/trie2/triedb/rawdb"
	"github.com/NethermindEth/juno/core/trie2/trienode"
	"github.com/NethermindEth/juno/core/trie2/trieutils"
	"github.com/NethermindEth/juno/db/memory"
)

type kvT struct {
	K *big.Int
	V felt.Felt
}

func fOf(b *big.Int) felt.Felt {
	var f felt.Felt
	f.SetBigInt(b)
	return f
}

func hashFns(poseidon bool) (crypto.HashFn, reftrie.HashFn) {
	if poseidon {
		return crypto.Poseidon, reftrie.Poseidon
	}
	return crypto.Pedersen, reftrie.Pedersen
}

func hashName(p bool) string {
	if p {
		return "poseidon"
	}
	return "pedersen"
}

// keying of a rebuilt node set
const (
	keyClaimed    = 0 // every node sits under the node_hash the producer attached (RPC shape {node_hash,node})
	keyRecomputed = 1 // every node sits under the hash of its (possibly corrupted) content
)

type handle interface {
	root() felt.Felt
	// prove returns the wire nodes in set order plus the raw set object for verifyRaw.
	prove(key *felt.Felt) ([]pnode, any, error)
	proveRange(l, r *felt.Felt) ([]pnode, any, error)
}

type implT struct {
	name  string
	trie2 bool
	build func(kvs []kvT, height uint8, poseidon bool) (handle, error)
	// verifyRaw runs juno's VerifyProof on the set exactly as Prove produced it.
	verifyRaw func(root, key *felt.Felt, raw any, poseidon bool) (felt.Felt, error)
	// verify runs juno's VerifyProof on a set rebuilt from wire nodes.
	verify      func(hs *hasher, root, key *felt.Felt, nodes []pnode, keying int, poseidon bool) (felt.Felt, error)
	verifyRange func(hs *hasher, root, first *felt.Felt, keys, values []*felt.Felt, nodes []pnode, nilProof bool, keying int) (bool, error)
	// verifyRangeRaw (trie2): the verifier is handed the prover's node set as produced (Go objects, cached hashes)
	verifyRangeRaw func(root, first *felt.Felt, keys, values []*felt.Felt, raw any) (bool, error)
}

// ---------------------------------------------------------------- legacy core/trie

var legacyPrefix = []byte{0xEE}

type legacyHandle struct {
	t  *trie.Trie
	rt felt.Felt
}

func legacyBuild(kvs []kvT, height uint8, poseidon bool) (handle, error) {
	d := memory.New()
	open := func() (*trie.Trie, func() error, error) {
		b := d.NewIndexedBatch()
		var t *trie.Trie
		var err error
		if poseidon {
			t, err = trie.NewTriePoseidon(b, legacyPrefix, height)
		} else {
			t, err = trie.NewTriePedersen(b, legacyPrefix, height)
		}
		return t, b.Write, err
	}
	t, write, err := open()
	if err != nil {
		return nil, err
	}
	for i := range kvs {
		k := fOf(kvs[i].K)
		if _, err := t.Put(&k, &kvs[i].V); err != nil {
			return nil, err
		}
	}
	if err := t.Commit(); err != nil {
		return nil, err
	}
	if err := write(); err != nil {
		return nil, err
	}
	// re-open on the persisted image (what the RPC handler gets from the state)
	t2, _, err := open()
	if err != nil {
		return nil, err
	}
	rt, err := t2.Hash()
	if err != nil {
		return nil, err
	}
	return &legacyHandle{t2, rt}, nil
}

func (h *legacyHandle) root() felt.Felt { return h.rt }

func legacyWire(set *trie.ProofNodeSet) ([]pnode, error) {
	keys, list := set.Keys(), set.List()
	out := make([]pnode, len(list))
	for i, n := range list {
		switch n := n.(type) {
		case *trie.Binary:
			out[i] = pnode{A: *n.LeftHash, B: *n.RightHash, Claimed: keys[i]}
		case *trie.Edge:
			out[i] = pnode{Edge: true, A: *n.Child, B: n.Path.Felt(), Length: int(n.Path.Len()), Claimed: keys[i]}
		default:
			return nil, fmt.Errorf("unknown proof node %T", n)
		}
	}
	return out, nil
}

func (h *legacyHandle) prove(key *felt.Felt) ([]pnode, any, error) {
	set := trie.NewProofNodeSet()
	if err := h.t.Prove(key, set); err != nil {
		return nil, nil, err
	}
	w, err := legacyWire(set)
	return w, set, err
}

func (h *legacyHandle) proveRange(l, r *felt.Felt) ([]pnode, any, error) {
	set := trie.NewProofNodeSet()
	if err := h.t.GetRangeProof(l, r, set); err != nil {
		return nil, nil, err
	}
	w, err := legacyWire(set)
	return w, set, err
}

func legacySet(hs *hasher, nodes []pnode, keying int) *trie.ProofNodeSet {
	set := trie.NewProofNodeSet()
	for i := range nodes {
		n := nodes[i] // copy: juno keeps pointers into it
		var pn trie.ProofNode
		if n.Edge {
			pb := n.B.Bytes()
			pn = &trie.Edge{Child: &n.A, Path: new(trie.BitArray).SetBytes(uint8(n.Length), pb[:])} // as rpc.EdgeNode.AsProofNode
		} else {
			pn = &trie.Binary{LeftHash: &n.A, RightHash: &n.B}
		}
		k := n.Claimed
		if keying == keyRecomputed {
			k = hs.hash(&n)
		}
		set.Put(k, pn)
	}
	return set
}

var legacyImpl = implT{
	name:  "legacy-trie",
	build: legacyBuild,
	verifyRaw: func(root, key *felt.Felt, raw any, poseidon bool) (felt.Felt, error) {
		hf, _ := hashFns(poseidon)
		return trie.VerifyProof(root, key, raw.(*trie.ProofNodeSet), hf)
	},
	verify: func(hs *hasher, root, key *felt.Felt, nodes []pnode, keying int, poseidon bool) (felt.Felt, error) {
		hf, _ := hashFns(poseidon)
		return trie.VerifyProof(root, key, legacySet(hs, nodes, keying), hf)
	},
	verifyRange: func(hs *hasher, root, first *felt.Felt, keys, values []*felt.Felt, nodes []pnode, nilProof bool, keying int) (bool, error) {
		if nilProof {
			return trie.VerifyRangeProof(root, first, keys, values, nil)
		}
		return trie.VerifyRangeProof(root, first, keys, values, legacySet(hs, nodes, keying))
	},
}

// ---------------------------------------------------------------- core/trie2

type trie2Handle struct {
	t  *trie2.Trie
	rt felt.Felt
}

// trie2Build persists through triedb/rawdb and re-opens; with mem=true the trie is an in-memory trie with
// uncommitted (dirty, unhashed) nodes, the other way a Prove caller can hold one.
func trie2Build(mem bool) func(kvs []kvT, height uint8, poseidon bool) (handle, error) {
	return func(kvs []kvT, height uint8, poseidon bool) (handle, error) {
		hf, _ := hashFns(poseidon)
		if mem {
			t := trie2.NewEmpty(height, hf)
			for i := range kvs {
				k := fOf(kvs[i].K)
				if err := t.Update(&k, &kvs[i].V); err != nil {
					return nil, err
				}
			}
			rt, err := t.Hash()
			if err != nil {
				return nil, err
			}
			return &trie2Handle{t, rt}, nil
		}
		d := memory.New()
		tdb := rawdb.New(d)
		t, err := trie2.New(trieutils.NewContractTrieID(felt.StateRootHash(felt.Zero)), height, hf, tdb)
		if err != nil {
			return nil, err
		}
		for i := range kvs {
			k := fOf(kvs[i].K)
			if err := t.Update(&k, &kvs[i].V); err != nil {
				return nil, err
			}
		}
		newRoot, nodes := t.Commit()
		b := d.NewBatch()
		var merged *trienode.MergeNodeSet
		if nodes != nil {
			merged = trienode.NewMergeNodeSet(nodes)
		}
		nr, pr := felt.StateRootHash(newRoot), felt.StateRootHash(felt.Zero)
		if err := tdb.Update(&nr, &pr, 0, nil, merged, b); err != nil {
			return nil, err
		}
		if err := b.Write(); err != nil {
			return nil, err
		}
		t2, err := trie2.New(trieutils.NewContractTrieID(felt.StateRootHash(newRoot)), height, hf, rawdb.New(d))
		if err != nil {
			return nil, err
		}
		rt, err := t2.Hash()
		if err != nil {
			return nil, err
		}
		if !rt.Equal(&newRoot) {
			return nil, fmt.Errorf("re-opened trie2 root %s differs from committed %s", rt.String(), newRoot.String())
		}
		return &trie2Handle{t2, rt}, nil
	}
}

func (h *trie2Handle) root() felt.Felt { return h.rt }

func t2child(n trienode.Node) (felt.Felt, uint8, error) {
	switch n := n.(type) {
	case *trienode.HashNode:
		return felt.Felt(*n), 0, nil
	case *trienode.ValueNode:
		return felt.Felt(*n), 1, nil
	}
	return felt.Zero, 0, fmt.Errorf("proof node child is %T, neither hash nor value", n)
}

func trie2Wire(set *trie2.ProofNodeSet) ([]pnode, error) {
	keys, list := set.Keys(), set.List()
	out := make([]pnode, len(list))
	for i, n := range list {
		switch n := n.(type) {
		case *trienode.BinaryNode:
			a, ak, err := t2child(n.Children[0])
			if err != nil {
				return nil, err
			}
			b, bk, err := t2child(n.Children[1])
			if err != nil {
				return nil, err
			}
			out[i] = pnode{A: a, B: b, AK: ak, BK: bk, Claimed: keys[i]}
		case *trienode.EdgeNode:
			a, ak, err := t2child(n.Child)
			if err != nil {
				return nil, err
			}
			out[i] = pnode{Edge: true, A: a, AK: ak, B: n.Path.Felt(), Length: int(n.Path.Len()), Claimed: keys[i]}
		default:
			return nil, fmt.Errorf("unknown proof node %T", n)
		}
	}
	return out, nil
}

func (h *trie2Handle) prove(key *felt.Felt) ([]pnode, any, error) {
	set := trie2.NewProofNodeSet()
	if err := h.t.Prove(key, set); err != nil {
		return nil, nil, err
	}
	w, err := trie2Wire(set)
	return w, set, err
}

func (h *trie2Handle) proveRange(l, r *felt.Felt) ([]pnode, any, error) {
	set := trie2.NewProofNodeSet()
	if err := h.t.GetRangeProof(l, r, set); err != nil {
		return nil, nil, err
	}
	w, err := trie2Wire(set)
	return w, set, err
}

func t2mk(f felt.Felt, kind uint8) trienode.Node {
	if kind == 1 {
		v := trienode.ValueNode(f)
		return &v
	}
	h := trienode.HashNode(f)
	return &h
}

// trie2Set rebuilds a node set as a decoder would: fresh nodes without cached hashes (unless the wire node
// says otherwise: Cached is a deliberate Go-level corruption class).
func trie2Set(hs *hasher, nodes []pnode, keying int) *trie2.ProofNodeSet {
	set := trie2.NewProofNodeSet()
	for i := range nodes {
		n := nodes[i]
		var tn trienode.Node
		var cached *trienode.HashNode
		if n.Cached != nil {
			c := trienode.HashNode(*n.Cached)
			cached = &c
		}
		if n.Edge {
			pb := n.B.Bytes()
			e := &trienode.EdgeNode{Child: t2mk(n.A, n.AK), Path: new(trieutils.Path).SetBytes(uint8(n.Length), pb[:])}
			e.Flags.Hash = cached
			tn = e
		} else {
			b := &trienode.BinaryNode{Children: [2]trienode.Node{t2mk(n.A, n.AK), t2mk(n.B, n.BK)}}
			b.Flags.Hash = cached
			tn = b
		}
		k := n.Claimed
		if keying == keyRecomputed {
			k = hs.hash(&n)
		}
		set.Put(k, tn)
	}
	return set
}

func trie2Impl(name string, mem bool) implT {
	return implT{
		name:  name,
		trie2: true,
		build: trie2Build(mem),
		verifyRaw: func(root, key *felt.Felt, raw any, poseidon bool) (felt.Felt, error) {
			hf, _ := hashFns(poseidon)
			return trie2.VerifyProof(root, key, raw.(*trie2.ProofNodeSet), hf)
		},
		verify: func(hs *hasher, root, key *felt.Felt, nodes []pnode, keying int, poseidon bool) (felt.Felt, error) {
			hf, _ := hashFns(poseidon)
			return trie2.VerifyProof(root, key, trie2Set(hs, nodes, keying), hf)
		},
		verifyRange: func(hs *hasher, root, first *felt.Felt, keys, values []*felt.Felt, nodes []pnode, nilProof bool, keying int) (bool, error) {
			if nilProof {
				return trie2.VerifyRangeProof(root, first, keys, values, nil)
			}
			return trie2.VerifyRangeProof(root, first, keys, values, trie2Set(hs, nodes, keying))
		},
		verifyRangeRaw: func(root, first *felt.Felt, keys, values []*felt.Felt, raw any) (bool, error) {
			return trie2.VerifyRangeProof(root, first, keys, values, raw.(*trie2.ProofNodeSet))
		},
	}
}

var impls = []implT{legacyImpl, trie2Impl("trie2", false), trie2Impl("trie2-mem", true)}

// guardVerify converts a panic of juno's verifier into an error (a panic is a rejection, reported apart).
func guardVerify(f func() (felt.Felt, error)) (v felt.Felt, err error, panicked string) {
	p, msg := ev.Guard(func() { v, err = f() })
	if p {
		return felt.Zero, fmt.Errorf("panic: %s", msg), msg
	}
	return v, err, ""
}
