package c10

// Independent membership / non-membership proof verifier, written from the RPC specification's node
// shapes only: binary {left,right} with hash H(left,right); edge {path,length,child} with hash
// H(child,path)+length; a leaf is its value. It never calls juno's trie or proof code (trusted base:
// the Pedersen/Poseidon primitives and felt arithmetic, as for verif/mc/reftrie).

import (
	"math/big"

	"verif/mc/reftrie"

	"github.com/NethermindEth/juno/core/felt"
)

// pnode is a proof node "on the wire".
type pnode struct {
	Edge    bool
	A, B    felt.Felt // binary: left,right ; edge: child,path
	Length  int       // edge only
	AK, BK  uint8     // trie2 only: 0 = child given as hash node, 1 = child given as value node (a Go-level distinction)
	Claimed felt.Felt // the node_hash the producer attached to the node (never trusted by the independent verifier)
	// trie2 only: the node carries this as its cached hash (Flags.Hash); nil = no cache (what any decoder builds)
	Cached *felt.Felt
}

type nodeKey struct {
	edge   bool
	a, b   felt.Felt
	length int
}

// hasher memoises node hashes by content; one per worker (not thread safe).
type hasher struct {
	h    reftrie.HashFn
	memo map[nodeKey]felt.Felt
}

func newHasher(h reftrie.HashFn) *hasher { return &hasher{h: h, memo: map[nodeKey]felt.Felt{}} }

func (hs *hasher) hash(n *pnode) felt.Felt {
	k := nodeKey{n.Edge, n.A, n.B, n.Length}
	if !n.Edge {
		k.length = 0
	}
	if v, ok := hs.memo[k]; ok {
		return v
	}
	var out felt.Felt
	if n.Edge {
		out = hs.h(&n.A, &n.B)
		var l felt.Felt
		l.SetUint64(uint64(n.Length))
		out.Add(&out, &l)
	} else {
		out = hs.h(&n.A, &n.B)
	}
	if len(hs.memo) > 1<<12 {
		hs.memo = map[nodeKey]felt.Felt{}
	}
	hs.memo[k] = out
	return out
}

type verdict struct {
	OK  bool      // the node set proves a claim about key under root
	Val felt.Felt // the value proved (zero = absence)
	Why string    // reason of rejection
}

// indVerify decides what the node SET proves about key in a trie of the given height committed to by root.
// Nodes are addressed by their recomputed hash. The empty trie has root 0 and needs no node.
func indVerify(hs *hasher, root felt.Felt, key *big.Int, height int, nodes []pnode) verdict {
	if root.IsZero() {
		return verdict{OK: true} // empty trie: everything is absent
	}
	byHash := make(map[felt.Felt]*pnode, len(nodes))
	for i := range nodes {
		n := &nodes[i]
		if n.Edge {
			if n.Length < 1 || n.Length > height {
				continue // malformed edge: not a node of any trie of this height
			}
			if n.B.BigInt(new(big.Int)).BitLen() > n.Length {
				continue
			}
		}
		byHash[hs.hash(n)] = n
	}
	rem := height
	expect := root
	for {
		if rem == 0 {
			return verdict{OK: true, Val: expect}
		}
		n, ok := byHash[expect]
		if !ok {
			return verdict{Why: "node missing"}
		}
		if !n.Edge {
			if key.Bit(rem-1) == 0 {
				expect = n.A
			} else {
				expect = n.B
			}
			rem--
			continue
		}
		if n.Length > rem {
			return verdict{Why: "edge longer than remaining height"}
		}
		// the next n.Length key bits
		seg := new(big.Int).Rsh(key, uint(rem-n.Length))
		mask := new(big.Int).Sub(new(big.Int).Lsh(big.NewInt(1), uint(n.Length)), big.NewInt(1))
		seg.And(seg, mask)
		if seg.Cmp(n.B.BigInt(new(big.Int))) != 0 {
			return verdict{OK: true} // the only sub-trie below carries a different prefix: key is absent
		}
		expect = n.A
		rem -= n.Length
	}
}
