package c10

// Membership / non-membership proofs: Prove on every kv-map x every key, checked by juno's VerifyProof and by the
// independent verifier; then every single corruption of the proof / key / root.

import (
	"fmt"
	"math/big"
	"sort"
	"sync"

	"verif/mc/ev"
	"verif/mc/reftrie"

	"github.com/NethermindEth/juno/core/felt"
)

// ---- embeddings ---------------------------------------------------------------------------------
// juno's VerifyProof / VerifyRangeProof hard-code height 251. A logical height-h trie is therefore embedded in a
// height-251 trie by an order-preserving map of its h key bits to bit positions (from the LSB):
//   low    : h-1..0      one long root edge, binary nodes at the bottom, leaves directly below binaries
//   high   : 250..250-h+1 binary nodes at the top, every leaf hangs on a long edge
//   spread : 250, (125,) 0   an edge between every two binary levels and (h=3) in the middle
// "native" is the real height-h trie: Prove is height-generic, so it is checked by the independent verifier only.

var embeddings = []string{"native", "low", "high", "spread"}

func positions(h int, emb string) []int {
	pos := make([]int, h)
	for j := 0; j < h; j++ {
		switch emb {
		case "native", "low":
			pos[j] = h - 1 - j
		case "high":
			pos[j] = 250 - j
		case "spread":
			pos[j] = 250 - j*(250/(h-1))
		}
	}
	return pos
}

func embed(s uint64, h int, pos []int) *big.Int {
	k := new(big.Int)
	for j := 0; j < h; j++ {
		if s>>(h-1-j)&1 == 1 {
			k.SetBit(k, pos[j], 1)
		}
	}
	return k
}

func valueOf(d int) uint64 {
	switch d {
	case 1:
		return 0xA
	case 2:
		return 0xB
	}
	return 0
}

func fv(u uint64) felt.Felt {
	var f felt.Felt
	f.SetUint64(u)
	return f
}

// ---- one trie, many queries ---------------------------------------------------------------------

type caseT struct {
	label   string // configuration label used in violation keys (coarse)
	desc    string // exact kv-set, for the detail
	im      implT
	pose    bool
	height  int
	kvs     []kvT
	queries []*big.Int
	flips   []int // key bit positions to flip
	juno    bool  // run juno's verifier (height 251 only)
	corrupt bool
}

type tally map[string]int64

func (t tally) add(k string) { t[k]++ }

type memberStats struct {
	mu       sync.Mutex
	outcomes tally
	shapes   map[string]bool
}

func truthOf(kvs []kvT, k *big.Int) felt.Felt {
	for i := range kvs {
		if kvs[i].K.Cmp(k) == 0 {
			return kvs[i].V
		}
	}
	return felt.Zero
}

// shapeOf describes the walk of an honest proof: B/E per node, then L (leaf reached) or X (edge mismatch) or 0 (empty trie).
func shapeOf(hs *hasher, root felt.Felt, key *big.Int, height int, nodes []pnode) string {
	if root.IsZero() {
		return "0"
	}
	byHash := map[felt.Felt]*pnode{}
	for i := range nodes {
		byHash[hs.hash(&nodes[i])] = &nodes[i]
	}
	s, rem, e := "", height, root
	for rem > 0 {
		n, ok := byHash[e]
		if !ok {
			return s + "?"
		}
		if !n.Edge {
			s += "B"
			if key.Bit(rem-1) == 0 {
				e = n.A
			} else {
				e = n.B
			}
			rem--
			continue
		}
		s += "E"
		seg := new(big.Int).Rsh(key, uint(rem-n.Length))
		seg.And(seg, new(big.Int).Sub(new(big.Int).Lsh(big.NewInt(1), uint(n.Length)), big.NewInt(1)))
		if seg.Cmp(n.B.BigInt(new(big.Int))) != 0 {
			return s + "X"
		}
		e = n.A
		rem -= n.Length
	}
	return s + "L"
}

func kvDesc(kvs []kvT) string {
	s := "{"
	for i, kv := range kvs {
		if i > 0 {
			s += ","
		}
		s += "0x" + kv.K.Text(16) + ":" + kv.V.String()
	}
	return s + "}"
}

func claimKind(v *felt.Felt, root *felt.Felt) string {
	if root.IsZero() {
		return "empty-trie"
	}
	if v.IsZero() {
		return "absent-key"
	}
	return "present-key"
}

func runCase(r *ev.Run, c *caseT, hs *hasher, st *memberStats) {
	_, rh := hashFns(c.pose)
	loc := tally{}
	shapes := map[string]bool{}
	defer func() {
		st.mu.Lock()
		for k, v := range loc {
			st.outcomes[k] += v
		}
		for k := range shapes {
			st.shapes[k] = true
		}
		st.mu.Unlock()
	}()
	cfg := fmt.Sprintf("%s %s %s", c.im.name, hashName(c.pose), c.label)
	detail := func(key *big.Int, extra map[string]any) map[string]any {
		m := map[string]any{"impl": c.im.name, "hash": hashName(c.pose), "height": c.height, "config": c.label, "kv": c.desc, "key": "0x" + key.Text(16)}
		for k, v := range extra {
			m[k] = v
		}
		return m
	}
	var h handle
	var err error
	if p, msg := ev.Guard(func() { h, err = c.im.build(c.kvs, uint8(c.height), c.pose) }); p || err != nil {
		r.Violate("trie-build-fails "+cfg, map[string]any{"kv": c.desc, "err": fmt.Sprint(err), "panic": msg})
		return
	}
	root := h.root()
	var rk []reftrie.KV
	for _, kv := range c.kvs {
		rk = append(rk, reftrie.KV{K: kv.K, V: kv.V})
	}
	if want := reftrie.Root(rk, c.height, rh); !want.Equal(&root) {
		r.Violate("trie-root-differs-from-commitment "+cfg, map[string]any{"kv": c.desc, "got": root.String(), "want": want.String()})
		return
	}
	r.Add("tries_built", 1)
	for _, q := range c.queries {
		qf := fOf(q)
		truth := truthOf(c.kvs, q)
		kind := claimKind(&truth, &root)
		var nodes []pnode
		var raw any
		if p, msg := ev.Guard(func() { nodes, raw, err = h.prove(&qf) }); p || err != nil {
			r.Violate(fmt.Sprintf("prove-fails %s %s", c.im.name, kind), detail(q, map[string]any{"err": fmt.Sprint(err), "panic": msg}))
			continue
		}
		r.Add("proofs", 1)
		// producer-side sanity of the wire shape: the attached node_hash is the hash of the node
		for i := range nodes {
			if hh := hs.hash(&nodes[i]); !hh.Equal(&nodes[i].Claimed) {
				r.Violate("proof-node-filed-under-wrong-hash "+cfg, detail(q, map[string]any{"node": i, "claimed": nodes[i].Claimed.String(), "recomputed": hh.String()}))
			}
		}
		shape := shapeOf(hs, root, q, c.height, nodes)
		shapes[c.label+":"+shape] = true
		r.Outcome(fmt.Sprintf("honest %s walk=%s nodes=%d", kind, shape, len(nodes)))
		// (1) independent verifier
		vd := indVerify(hs, root, q, c.height, nodes)
		if !vd.OK || !vd.Val.Equal(&truth) {
			r.Violate(fmt.Sprintf("proof-does-not-establish-the-key's-value (independent verifier) %s %s", c.im.name, kind),
				detail(q, map[string]any{"truth": truth.String(), "verdict": vd, "nodes": nodes, "root": root.String()}))
			continue
		}
		r.Add("evaluations", 1)
		if !c.juno {
			continue
		}
		// (2) juno's verifier on the set as produced, and on sets rebuilt from the wire nodes
		check := func(how string, f func() (felt.Felt, error)) bool {
			v, err, pan := guardVerify(f)
			r.Add("evaluations", 1)
			if err != nil || !v.Equal(&truth) {
				r.Violate(fmt.Sprintf("VerifyProof-rejects-or-misreads-honest-proof %s %s", c.im.name, kind),
					detail(q, map[string]any{"how": how, "truth": truth.String(), "got": v.String(), "err": fmt.Sprint(err), "panic": pan, "nodes": nodes, "root": root.String()}))
				return false
			}
			return true
		}
		ok := check("raw", func() (felt.Felt, error) { return c.im.verifyRaw(&root, &qf, raw, c.pose) })
		ok = check("wire/claimed", func() (felt.Felt, error) { return c.im.verify(hs, &root, &qf, nodes, keyClaimed, c.pose) }) && ok
		ok = check("wire/recomputed", func() (felt.Felt, error) { return c.im.verify(hs, &root, &qf, nodes, keyRecomputed, c.pose) }) && ok
		if c.im.trie2 {
			// a decoder cannot know which child is a leaf: all children as hash nodes
			plain := append([]pnode(nil), nodes...)
			for i := range plain {
				plain[i].AK, plain[i].BK = 0, 0
			}
			ok = check("wire/all-hash-children", func() (felt.Felt, error) { return c.im.verify(hs, &root, &qf, plain, keyRecomputed, c.pose) }) && ok
		}
		if !ok || !c.corrupt {
			continue
		}
		// (3) every single corruption
		judge := func(class string, root2 felt.Felt, key2 *big.Int, nodes2 []pnode, keying int, rootChanged bool) {
			k2 := fOf(key2)
			v, err, pan := guardVerify(func() (felt.Felt, error) { return c.im.verify(hs, &root2, &k2, nodes2, keying, c.pose) })
			loc["#evaluations"]++
			loc["#corruptions"]++
			if pan != "" {
				loc.add("corruption " + class + ": VerifyProof panics")
				r.Sample(map[string]any{"panic_on_corrupted_proof": pan, "class": class, "config": cfg})
			}
			ivd := indVerify(hs, root2, key2, c.height, nodes2)
			if ivd.OK && !rootChanged {
				if t2 := truthOf(c.kvs, key2); !ivd.Val.Equal(&t2) {
					r.Violate("HARNESS independent verifier accepted a false claim", detail(key2, map[string]any{"class": class, "nodes": nodes2, "got": ivd.Val.String()}))
				}
			}
			switch {
			case err != nil && !ivd.OK:
				loc.add("corruption " + class + ": rejected by both")
			case err != nil && ivd.OK:
				loc.add("corruption " + class + ": still a valid node set (independent verifier), juno rejects")
			case err == nil && ivd.OK && ivd.Val.Equal(&v):
				loc.add("corruption " + class + ": still a valid proof of a true claim, both accept (excluded)")
				loc["#excluded_still_valid"]++
			default:
				what := "altered-proof-accepted"
				if t2 := truthOf(c.kvs, key2); rootChanged || !v.Equal(&t2) {
					what = "FORGED-proof-accepted"
				}
				r.Violate(fmt.Sprintf("%s %s corruption=%s", what, c.im.name, class),
					detail(q, map[string]any{"class": class, "key_used": "0x" + key2.Text(16), "root_used": root2.String(), "true_root": root.String(), "juno_value": v.String(),
						"independent": ivd, "keying": keying, "nodes": nodes2, "honest_nodes": nodes}))
			}
		}
		pool := feltPool(root, truth, nodes)
		// The generic classes act on the proof as a decoder rebuilds it from the wire (for trie2: every child a hash
		// node, no cached hashes); the Go-level classes of the trie2 node representation follow separately.
		wire := nodes
		if c.im.trie2 {
			wire = append([]pnode(nil), nodes...)
			for i := range wire {
				wire[i].AK, wire[i].BK = 0, 0
			}
		}
		forEachCorruption(wire, pool, func(class string, n2 []pnode, keyings []int) {
			for _, kg := range keyings {
				judge(class, root, q, n2, kg, false)
			}
		})
		for _, p := range c.flips {
			k2 := new(big.Int).Set(q)
			k2.SetBit(k2, p, k2.Bit(p)^1)
			judge("key-bitflip", root, k2, wire, keyClaimed, false)
		}
		for _, r2 := range alts(root, pool) {
			judge("root", r2, q, wire, keyClaimed, true)
		}
		if c.im.trie2 {
			forEachTrie2Corruption(nodes, func(class string, n2 []pnode, keyings []int) {
				for _, kg := range keyings {
					judge(class, root, q, n2, kg, false)
				}
			})
			for _, p := range c.flips {
				k2 := new(big.Int).Set(q)
				k2.SetBit(k2, p, k2.Bit(p)^1)
				judge("trie2.go-level/key-bitflip-with-produced-child-kinds", root, k2, nodes, keyClaimed, false)
			}
			for _, r2 := range alts(root, pool) {
				judge("trie2.go-level/root-with-produced-child-kinds", r2, q, nodes, keyClaimed, true)
			}
		}
		// claimed value: VerifyProof returns the value instead of taking a claim, so a claim v' is accepted iff the
		// returned value equals v'. The honest run above pinned the returned value to the truth; every other claim fails.
		for _, v2 := range alts(truth, pool) {
			_ = v2
			loc["#corruptions"]++
			loc.add("corruption claimed-value: rejected (returned value differs from claim)")
		}
	}
}

func feltPool(root, truth felt.Felt, nodes []pnode) []felt.Felt {
	seen := map[felt.Felt]bool{}
	var out []felt.Felt
	add := func(f felt.Felt) {
		if !seen[f] {
			seen[f] = true
			out = append(out, f)
		}
	}
	add(root)
	add(truth)
	for i := range nodes {
		add(nodes[i].A)
		add(nodes[i].B)
		add(nodes[i].Claimed)
	}
	return out
}

// alts: the finite alteration alphabet of a felt field: +1, 0, and every other felt occurring in the proof,
// the root or the value (so that every "splice" of one proof component into another place is tried).
func alts(x felt.Felt, pool []felt.Felt) []felt.Felt {
	var out []felt.Felt
	var one, y felt.Felt
	one.SetUint64(1)
	y.Add(&x, &one)
	out = append(out, y)
	if !x.IsZero() {
		out = append(out, felt.Zero)
	}
	for _, p := range pool {
		if !p.Equal(&x) && !p.Equal(&y) && !p.IsZero() {
			out = append(out, p)
		}
	}
	return out
}

var both = []int{keyClaimed, keyRecomputed}

// keyingsFor: the j-th alteration of a felt field. Under the claimed keying (node stays under its attached node_hash)
// every content alteration dies at the same hash comparison whatever value is substituted, so only the first
// alteration (+1) is run under both keyings; the substitutions from the pool run under the recomputed keying, where
// the altered node is a well-formed node of its own.
func keyingsFor(j int) []int {
	if j == 0 {
		return both
	}
	return []int{keyRecomputed}
}

func pathFlipPositions(l int) []int {
	set := map[int]bool{}
	for _, p := range []int{0, 1, l / 2, l - 2, l - 1} {
		if p >= 0 && p < l {
			set[p] = true
		}
	}
	var out []int
	for p := range set {
		out = append(out, p)
	}
	sort.Ints(out)
	return out
}

func bigFelt(b *big.Int) felt.Felt { return fOf(b) }

// forEachCorruption enumerates every single corruption of a proof node list.
func forEachCorruption(nodes []pnode, pool []felt.Felt, f func(class string, nodes []pnode, keyings []int)) {
	with := func(i int, n pnode) []pnode {
		c := append([]pnode(nil), nodes...)
		c[i] = n
		return c
	}
	for i, n := range nodes {
		if !n.Edge {
			for j, a := range alts(n.A, pool) {
				m := n
				m.A = a
				f("binary.left", with(i, m), keyingsFor(j))
			}
			for j, b := range alts(n.B, pool) {
				m := n
				m.B = b
				f("binary.right", with(i, m), keyingsFor(j))
			}
			m := n
			m.A, m.B, m.AK, m.BK = n.B, n.A, n.BK, n.AK
			if !n.A.Equal(&n.B) {
				f("binary.left<->right", with(i, m), both)
			}
			f("binary->edge", with(i, pnode{Edge: true, A: n.A, AK: n.AK, Length: 1, Claimed: n.Claimed}), both)
			f("binary->edge", with(i, pnode{Edge: true, A: n.B, AK: n.BK, B: fv(1), Length: 1, Claimed: n.Claimed}), both)
		} else {
			for j, a := range alts(n.A, pool) {
				m := n
				m.A = a
				f("edge.child", with(i, m), keyingsFor(j))
			}
			path := n.B.BigInt(new(big.Int))
			for _, p := range pathFlipPositions(n.Length) {
				m := n
				p2 := new(big.Int).Set(path)
				p2.SetBit(p2, p, p2.Bit(p)^1)
				m.B = bigFelt(p2)
				f("edge.path-bitflip", with(i, m), both)
			}
			type lp struct {
				l int
				p *big.Int
			}
			mask := func(l int) *big.Int { return new(big.Int).Sub(new(big.Int).Lsh(big.NewInt(1), uint(l)), big.NewInt(1)) }
			var lps []lp
			if n.Length > 1 {
				lps = append(lps, lp{n.Length - 1, new(big.Int).Rsh(path, 1)}, lp{n.Length - 1, new(big.Int).And(path, mask(n.Length-1))})
			}
			if n.Length < 251 {
				lps = append(lps, lp{n.Length + 1, new(big.Int).Lsh(path, 1)}, lp{n.Length + 1, new(big.Int).Set(path)},
					lp{n.Length + 1, new(big.Int).SetBit(new(big.Int).Set(path), n.Length, 1)})
			}
			lps = append(lps, lp{0, new(big.Int)})
			if n.Length != 251 {
				lps = append(lps, lp{251, new(big.Int).Set(path)})
			}
			for _, x := range lps {
				m := n
				m.Length, m.B = x.l, bigFelt(x.p)
				f("edge.length", with(i, m), both)
			}
			f("edge->binary", with(i, pnode{A: n.A, AK: n.AK, B: n.B, Claimed: n.Claimed}), both)
			f("edge->binary", with(i, pnode{A: n.B, B: n.A, BK: n.AK, Claimed: n.Claimed}), both)
		}
		// removal
		c := append([]pnode(nil), nodes[:i]...)
		c = append(c, nodes[i+1:]...)
		f("remove-node", c, []int{keyClaimed})
		// two nodes swapped (contents exchanged, attached hashes stay in place)
		for j := i + 1; j < len(nodes); j++ {
			c := append([]pnode(nil), nodes...)
			c[i], c[j] = nodes[j], nodes[i]
			c[i].Claimed, c[j].Claimed = nodes[i].Claimed, nodes[j].Claimed
			f("swap-two-nodes", c, both)
		}
	}
}

// forEachTrie2Corruption: corruption classes that exist only in trie2's Go representation of a proof node (no wire
// format distinguishes them): a child typed as value node instead of hash node (or vice versa), and a node whose
// content was altered while it keeps the cached hash (Flags.Hash) it carried when Prove copied it out of the trie.
func forEachTrie2Corruption(nodes []pnode, f func(class string, nodes []pnode, keyings []int)) {
	with := func(i int, n pnode) []pnode {
		c := append([]pnode(nil), nodes...)
		c[i] = n
		return c
	}
	for i, n := range nodes {
		{
			// Go-level corruption classes of the trie2 node representation
			m := n
			m.AK ^= 1
			f("trie2.go-level/child-kind", with(i, m), []int{keyRecomputed})
			if !n.Edge {
				m := n
				m.BK ^= 1
				f("trie2.go-level/child-kind", with(i, m), []int{keyRecomputed})
			}
			orig := n.Claimed
			var one felt.Felt
			one.SetUint64(1)
			m = n
			m.A.Add(&n.A, &one)
			m.Cached = &orig
			f("trie2.go-level/content-altered-cached-hash-kept", with(i, m), []int{keyClaimed})
			m = n
			if n.Edge {
				p2 := n.B.BigInt(new(big.Int))
				p2.SetBit(p2, 0, p2.Bit(0)^1)
				m.B = bigFelt(p2)
			} else {
				m.B.Add(&n.B, &one)
			}
			m.Cached = &orig
			f("trie2.go-level/content-altered-cached-hash-kept", with(i, m), []int{keyClaimed})
		}
	}
}

// ---- enumeration drivers ------------------------------------------------------------------------

func decodeState(code, nkeys int) []int {
	d := make([]int, nkeys)
	for k := 0; k < nkeys; k++ {
		d[k] = code % 3
		code /= 3
	}
	return d
}

func pow(b, e int) int {
	o := 1
	for ; e > 0; e-- {
		o *= b
	}
	return o
}

func smallCases(r *ev.Run) []*caseT {
	var out []*caseT
	for _, im := range impls {
		for _, pose := range []bool{false, true} {
			for _, h := range []int{2, 3} {
				if pose && h == 3 && r.Quick() {
					continue // Poseidon: height 2 in the quick tier, both heights in the thorough tier
				}
				nkeys := 1 << h
				for _, emb := range embeddings {
					pos := positions(h, emb)
					height := 251
					if emb == "native" {
						height = h
					}
					var queries []*big.Int
					for s := 0; s < nkeys; s++ {
						queries = append(queries, embed(uint64(s), h, pos))
					}
					flips := map[int]bool{}
					for _, p := range pos {
						flips[p] = true
					}
					if height == 251 {
						for _, p := range []int{0, 1, 2, 124, 125, 126, 248, 249, 250} {
							flips[p] = true
						}
					}
					var fl []int
					for p := range flips {
						fl = append(fl, p)
					}
					sort.Ints(fl)
					for code := 0; code < pow(3, nkeys); code++ {
						ds := decodeState(code, nkeys)
						var kvs []kvT
						for s, d := range ds {
							if d != 0 {
								kvs = append(kvs, kvT{embed(uint64(s), h, pos), fv(valueOf(d))})
							}
						}
						if h == 3 && r.Quick() && len(kvs) > 3 {
							continue
						}
						out = append(out, &caseT{
							label: fmt.Sprintf("h=%d/%s", h, emb), desc: fmt.Sprintf("state=%v (logical key s -> %s)", ds, kvDesc(kvs)),
							im: im, pose: pose, height: height, kvs: kvs, queries: queries, flips: fl,
							juno: height == 251, corrupt: height == 251 && im.name != "trie2-mem",
						})
					}
				}
			}
		}
	}
	return out
}

// craftedKeySet: the 251-bit keys of the task statement.
func craftedKeySet() []*big.Int {
	one := big.NewInt(1)
	p250 := new(big.Int).Lsh(one, 250)
	max := new(big.Int).Sub(new(big.Int).Lsh(one, 251), one)
	// three keys sharing a 248-bit prefix (prefix = alternating bits), differing in the last 3 bits
	pre := new(big.Int)
	for i := 0; i < 248; i += 2 {
		pre.SetBit(pre, i, 1)
	}
	pre.Lsh(pre, 3)
	sh := func(low int64) *big.Int { return new(big.Int).Add(pre, big.NewInt(low)) }
	return []*big.Int{
		big.NewInt(0), big.NewInt(1), big.NewInt(2),
		p250, new(big.Int).Add(p250, one), max,
		sh(1), sh(2), sh(5),
	}
}

func craftedCases(r *ev.Run) []*caseT {
	keys := craftedKeySet()
	// queries: every crafted key plus neighbours that diverge at the last bit, the first bit, the middle, and
	// inside the shared 248-bit prefix
	qset := map[string]*big.Int{}
	addq := func(k *big.Int) {
		if k.Sign() >= 0 && k.BitLen() <= 251 {
			qset[k.Text(16)] = k
		}
	}
	for _, k := range keys {
		addq(k)
		for _, p := range []int{0, 1, 2, 3, 125, 249, 250} {
			k2 := new(big.Int).Set(k)
			k2.SetBit(k2, p, k2.Bit(p)^1)
			addq(k2)
		}
	}
	var qs []*big.Int
	var names []string
	for n := range qset {
		names = append(names, n)
	}
	sort.Strings(names)
	for _, n := range names {
		qs = append(qs, qset[n])
	}
	// key bit flips: all 251 positions in the thorough tier; the positions around every structural boundary of the
	// crafted sets in the quick tier
	var flips []int
	for p := 0; p < 251; p++ {
		if r.Thorough() || p <= 4 || p >= 246 || (p >= 124 && p <= 126) {
			flips = append(flips, p)
		}
	}
	maxSize := ev.Pick(r, 3, len(keys))
	var out []*caseT
	for _, im := range impls {
		for _, pose := range []bool{false, true} {
			for mask := 0; mask < 1<<len(keys); mask++ {
				var kvs []kvT
				for i, k := range keys {
					if mask>>i&1 == 1 {
						kvs = append(kvs, kvT{k, fv(uint64(100 + i))})
					}
				}
				if len(kvs) > maxSize {
					continue
				}
				if pose && len(kvs) > ev.Pick(r, 2, 3) {
					continue // Poseidon on the crafted sets: <=2 keys quick, <=3 keys thorough
				}
				out = append(out, &caseT{label: "h=251/crafted", desc: kvDesc(kvs), im: im, pose: pose, height: 251, kvs: kvs,
					queries: qs, flips: flips, juno: true, corrupt: im.name != "trie2-mem" && (r.Thorough() || len(kvs) <= 3)})
			}
		}
	}
	return out
}

// one memoising hasher per trie (a hasher is not thread safe)
func getHasher(pose bool) *hasher {
	_, rh := hashFns(pose)
	return newHasher(rh)
}

func putHasher(bool, *hasher) {}

func runMembership(r *ev.Run) {
	st := &memberStats{outcomes: tally{}, shapes: map[string]bool{}}
	cases := append(smallCases(r), craftedCases(r)...)
	r.Set("membership_tries_planned", int64(len(cases)))
	var skipped int64
	var mu sync.Mutex
	ev.Par(len(cases), 16, func(i int) {
		if r.OutOfTime() {
			mu.Lock()
			skipped++
			mu.Unlock()
			return
		}
		hs := getHasher(cases[i].pose)
		runCase(r, cases[i], hs, st)
		putHasher(cases[i].pose, hs)
	})
	if skipped > 0 {
		r.Incomplete(fmt.Sprintf("membership: %d of %d tries not processed (deadline)", skipped, len(cases)))
	}
	for k, v := range st.outcomes {
		if k[0] == '#' {
			r.Add(k[1:], v)
		} else {
			r.Set("n["+k+"]", v)
		}
	}
	var shapes []string
	for s := range st.shapes {
		shapes = append(shapes, s)
	}
	sort.Strings(shapes)
	r.Set("honest_proof_walk_shapes", int64(len(shapes)))
	r.Set("honest_proof_walk_shape_list", shapes)
}
