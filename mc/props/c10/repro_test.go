package c10

// Direct reproductions of the findings with nothing but juno's own API (run: C10_REPRO=1 go test -run TestRepro -v).

import (
	"fmt"
	"os"
	"testing"

	"verif/mc/ev"

	"github.com/NethermindEth/juno/core/crypto"
	"github.com/NethermindEth/juno/core/felt"
	"github.com/NethermindEth/juno/core/trie"
	"github.com/NethermindEth/juno/core/trie2"
)

func fp(u uint64) *felt.Felt { f := fv(u); return &f }

func TestRepro(t *testing.T) {
	if os.Getenv("C10_REPRO") == "" {
		t.Skip()
	}
	// --- trie2
	mk2 := func(kv map[uint64]uint64) (*trie2.Trie, felt.Felt) {
		tr := trie2.NewEmpty(251, crypto.Pedersen)
		for k, v := range kv {
			if err := tr.Update(fp(k), fp(v)); err != nil {
				t.Fatal(err)
			}
		}
		root, _ := tr.Hash()
		return tr, root
	}
	{
		tr, root := mk2(map[uint64]uint64{0: 0xa, 2: 0xa})
		set := trie2.NewProofNodeSet()
		_ = tr.GetRangeProof(fp(0), fp(2), set)
		p, msg := ev.Guard(func() {
			more, err := trie2.VerifyRangeProof(&root, fp(0), []*felt.Felt{fp(0), fp(2)}, []*felt.Felt{fp(0xa), fp(0xa)}, set)
			fmt.Println("R1 trie2 honest {0,2} first=0:", more, err)
		})
		fmt.Println("R1 panic:", p, msg)
	}
	{
		tr, root := mk2(map[uint64]uint64{0: 0xa, 1: 0xa})
		set := trie2.NewProofNodeSet()
		_ = tr.GetRangeProof(fp(1), fp(1), set)
		more, err := trie2.VerifyRangeProof(&root, fp(0), []*felt.Felt{fp(1)}, []*felt.Felt{fp(0xa)}, set)
		fmt.Println("R4 trie2 {0,1}: claim first=0 entries=[1] with proof for (1,1) (false claim: 0 is present):", more, err)
		set = trie2.NewProofNodeSet()
		_ = tr.GetRangeProof(fp(0), fp(1), set)
		more, err = trie2.VerifyRangeProof(&root, fp(0), []*felt.Felt{fp(1)}, []*felt.Felt{fp(0xa)}, set)
		fmt.Println("R5 trie2 {0,1}: claim first=0 entries=[1] with proof for (0,1) (entry 0 dropped):", more, err)
	}
	{
		tr, root := mk2(map[uint64]uint64{})
		set := trie2.NewProofNodeSet()
		_ = tr.GetRangeProof(fp(0), fp(0), set)
		more, err := trie2.VerifyRangeProof(&root, fp(0), nil, nil, set)
		fmt.Println("R6 trie2 empty trie, empty range:", more, err)
		v, err := trie2.VerifyProof(&root, fp(0), set, crypto.Pedersen)
		fmt.Println("R6b trie2 empty trie VerifyProof:", v.String(), err)
	}
	// --- legacy
	mk1 := func(kv map[uint64]uint64) (*trie.Trie, felt.Felt) {
		var tr *trie.Trie
		_ = trie.RunOnTempTriePedersen(251, func(x *trie.Trie) error { tr = x; return nil })
		for k, v := range kv {
			if _, err := tr.Put(fp(k), fp(v)); err != nil {
				t.Fatal(err)
			}
		}
		if err := tr.Commit(); err != nil {
			t.Fatal(err)
		}
		root, _ := tr.Hash()
		return tr, root
	}
	{
		tr, root := mk1(map[uint64]uint64{0: 0xa, 1: 0xb})
		set := trie.NewProofNodeSet()
		_ = tr.GetRangeProof(fp(2), fp(2), set)
		more, err := trie.VerifyRangeProof(&root, fp(2), nil, nil, set)
		fmt.Println("R2 legacy {0,1}: honest empty range first=2:", more, err)
	}
	{
		hi := func(s uint64) *felt.Felt {
			var f felt.Felt
			f.SetBigInt(embed(s, 2, positions(2, "high")))
			return &f
		}
		var tr *trie.Trie
		_ = trie.RunOnTempTriePedersen(251, func(x *trie.Trie) error { tr = x; return nil })
		tr.Put(hi(0), fp(0xb))
		tr.Put(hi(1), fp(0xb))
		tr.Put(hi(2), fp(0xa))
		tr.Commit()
		root, _ := tr.Hash()
		set := trie.NewProofNodeSet()
		_ = tr.GetRangeProof(hi(0), hi(0), set)
		more, err := trie.VerifyRangeProof(&root, hi(0), []*felt.Felt{hi(0)}, []*felt.Felt{fp(0xb)}, set)
		fmt.Println("R3 legacy keys at the top bits {00,01,10}: honest range [00] -> more entries must be true:", more, err)
	}
	{
		tr, root := mk1(map[uint64]uint64{0: 0xb, 2: 0xa})
		set := trie.NewProofNodeSet()
		_ = tr.GetRangeProof(fp(0), fp(2), set)
		more, err := trie.VerifyRangeProof(&root, fp(0), []*felt.Felt{fp(2)}, []*felt.Felt{fp(0xa)}, set)
		fmt.Println("R7 legacy {0,2}: claim first=0 entries=[2] (entry 0 dropped) with proof (0,2):", more, err)
		more, err = trie.VerifyRangeProof(&root, fp(1), []*felt.Felt{fp(0), fp(2)}, []*felt.Felt{fp(0xb), fp(0xa)}, set)
		fmt.Println("R8 legacy {0,2}: claim first=1 entries=[0,2]:", more, err)
	}
	{
		tr, root := mk1(map[uint64]uint64{1: 0xb, 2: 0xa})
		set := trie.NewProofNodeSet()
		_ = tr.GetRangeProof(fp(0), fp(1), set)
		more, err := trie.VerifyRangeProof(&root, fp(0), []*felt.Felt{fp(1), fp(3)}, []*felt.Felt{fp(0xb), fp(0xa)}, set)
		fmt.Println("R9 legacy {1,2}: claim first=0 entries=[1:b,3:a] (3 is absent) with proof (0,1):", more, err)
	}
}
