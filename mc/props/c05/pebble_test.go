package c05

// Pebble variant of C05: the same operation sequences run on juno's pebblev2 backend over a crashable in-memory
// filesystem. After EVERY operation the machine "loses power": a clone holding exactly the data that was synced
// (nothing unsynced survives) is re-opened with a fresh Pebble + Blockchain and must describe the reference chain
// up to and including that operation - i.e. every acknowledged store / revert / prune / L1-head write is durable
// on the production backend, and the production backend agrees with the in-memory one used everywhere else.
// Crash points INSIDE an operation are enumerated on the commit seam (c05_test.go); the crash-atomicity of one
// synced Pebble batch is trusted.

import (
	"errors"
	"fmt"
	"sync"

	"verif/mc/chain"
	"verif/mc/ev"

	"github.com/NethermindEth/juno/db"
	"github.com/NethermindEth/juno/db/pebblev2"
	p2 "github.com/cockroachdb/pebble/v2"
	vfs2 "github.com/cockroachdb/pebble/v2/vfs"
)

type quietLogger struct{}

func (quietLogger) Infof(string, ...any)  {}
func (quietLogger) Errorf(string, ...any) {}
func (quietLogger) Fatalf(f string, a ...any) { panic(fmt.Sprintf(f, a...)) }

func openPebble(fs vfs2.FS) (db.KeyValueStore, error) {
	return pebblev2.New("/nonexistent-verif-c05/db", func(o *p2.Options) error {
		o.FS = fs
		o.Logger = quietLogger{}
		return nil
	})
}

func pebbleDurability(r *ev.Run, seqs [][]op, maxLen int) {
	var mu sync.Mutex
	var runs, crashes int64
	for _, newState := range []bool{false, true} {
		for _, base := range [][]string{nil, {"deployA", "A.s0=1", "sys1.write"}} {
			label := fmt.Sprintf("%s pebblev2 base=%d-blocks", backendName(newState), len(base))
			key := func(kind string) string { return kind + " " + label }
			ev.Par(len(seqs), 12, func(si int) {
				seq := seqs[si]
				if len(seq) > maxLen {
					return
				}
				if r.OutOfTime() {
					r.Incomplete("pebble sequences " + label)
					return
				}
				name := seqName(seq)
				fs := vfs2.NewCrashableMem()
				store, err := openPebble(fs)
				if err != nil {
					r.Infra("open pebble: %v", err)
				}
				defer store.Close()
				n := &node{db: store, newState: newState, pruning: containsPrune(seq)}
				n.open()
				for _, b := range base {
					if err := storeOp(b).run(n); err != nil {
						r.Infra("pebble base %v: %v", base, err)
					}
				}
				for i, o := range seq {
					err := o.run(n)
					if errors.Is(err, errNA) {
						return
					}
					if err != nil {
						r.Violate(key("op-fails-on-pebble "+opClass(o.name)), map[string]any{"sequence": name, "op_index": i, "err": err.Error()})
						return
					}
					// power loss right after the operation returned: only synced data survives
					clone := fs.CrashClone(vfs2.CrashCloneCfg{UnsyncedDataPercent: 0})
					rs, err := openPebble(clone)
					if err != nil {
						r.Violate(key("pebble-cannot-reopen-after-power-loss"), map[string]any{"sequence": name, "after_op": o.name, "err": err.Error()})
						return
					}
					rn := &node{db: rs, newState: newState, pruning: n.pruning}
					rn.open()
					mu.Lock()
					crashes++
					mu.Unlock()
					r.Add("evaluations", 1)
					ok := checkAgainstRef(r, "fresh node on the synced Pebble image", name, rn.bc, n.ref, n.floor, func(kind string) string {
						return key("acknowledged-" + opClass(o.name) + "-not-durable-on-pebble " + kind)
					}, map[string]any{"after_op": o.name, "op_index": i}, n.seen...)
					rs.Close()
					if !ok {
						return
					}
				}
				mu.Lock()
				runs++
				mu.Unlock()
			})
		}
	}
	r.Set("pebble_sequences", runs)
	r.Set("pebble_power_loss_points", crashes)
}

func containsPrune(seq []op) bool {
	for _, o := range seq {
		if o.name == "prune" {
			return true
		}
	}
	return false
}

var _ = chain.NewState
