package c05

// Part F of C05 - what a node that STAYS UP is offered after a failed operation.
//
// Parts (a)/(b) of c05_test.go follow a failed operation only by a retry of the very same operation. A caller
// (the sync pipeline, a sequencer, an operator) that did not take notice of the failure - or took notice and
// reacted differently - offers something else next: the child or grandchild of the block that was lost (blocks of the
// chain it believes in, AHEAD of the durable head), another block for the same height, a block of the fork below
// the head, the head once more, a revert, or it restarts the process. Whatever is offered, the node has to answer
// from what is durable: the follow-up is accepted exactly if it extends the durable head, and the durable image stays
// one gap-free hash-linked chain equal to the reference chain - on the same node object and on a fresh node opened on
// the image (restart), where the next block must be storable.
//
// Enumerated space (all of it, no sampling):
//   backend x base image x prefix (operation sequences <= prefixDepth) x failing operation
//     (store of every block variant, revert, setL1Head, persistFilterSnapshot)
//   x cause of the failure (EVERY committed write of the operation fails; EVERY staged batch write of the operation
//     fails; for stores additionally: the block passes every check that looks at the chain but carries a wrong state
//     root, so the store fails without any database fault)
//   x follow-up sequence (<= depth) over the follow-up alphabet built from the block tree around the durable head:
//     every variant on the parent of the head (fork below the head), every variant on the head (the lost block again
//     and its siblings), every variant on the lost block (children), the grandchild of the lost block, the head itself
//     once more, the invalid block once more, revert, restart.
// Oracle = a two-line reference model: an offered block is accepted iff the block it was built on is the head of the
// reference chain; a refused follow-up leaves the image byte-identical.

import (
	"errors"
	"fmt"
	"strings"
	"sync"

	"verif/mc/chain"
	"verif/mc/ev"
	"verif/mc/faultdb"

	"github.com/NethermindEth/juno/core"
)

const (
	fkOffer = iota
	fkRevert
	fkRestart
)

// fOffer is one letter of the follow-up alphabet.
type fOffer struct {
	kind    int
	class   string       // coarse class, part of violation keys
	name    string       // exact, replayable
	e       *chain.Entry // reference copy of the offered block (nil for revert / restart)
	parent  *chain.Entry // the block e was built on (nil = genesis)
	invalid bool         // the block is not a valid block at all (wrong state root): never acceptable
	fresh   func() *chain.Entry
}

type fCause struct {
	kind string // "commit" | "staged-write" | "invalid-state-root"
	k    int
}

// withBadRoot returns a copy of e (built on parent) that claims a state root its diff does not produce; block hash
// and state update are consistent with the claim, so only the comparison with the real tries can refuse it.
func withBadRoot(e, parent *chain.Entry) (*chain.Entry, error) {
	f := e.Fresh(parent)
	bad := chain.FV(0xBAD0BAD0)
	f.Block.GlobalStateRoot = &bad
	f.SU.NewRoot = &bad
	h, _, err := core.BlockHash(f.Block, f.SU.StateDiff, chain.Net, nil, core.TrieBackend)
	if err != nil {
		return nil, err
	}
	f.Block.Hash = &h
	f.SU.BlockHash = &h
	return f, nil
}

func sameEntry(a, b *chain.Entry) bool {
	if a == nil || b == nil {
		return a == nil && b == nil
	}
	return a.Block.Hash.Equal(b.Block.Hash)
}

// followUpAlphabet builds the follow-up letters for a node whose reference chain is ref and which has just lost
// the block `lost` (nil when the failed operation was not a store; lostInvalid: it is the block with the wrong state
// root, which is then letter 0). The letters are reference data shared by all runs: juno only ever gets fresh() copies.
func followUpAlphabet(ref []*chain.Entry, lost *chain.Entry, lostInvalid bool, storeNames []string) []fOffer {
	var head, below *chain.Entry
	hasBelow := false
	if len(ref) > 0 {
		head = ref[len(ref)-1]
		hasBelow = true
		if len(ref) > 1 {
			below = ref[len(ref)-2]
		}
	}
	var out []fOffer
	have := map[string]bool{}
	add := func(class, name string, e, parent *chain.Entry) {
		k := e.Block.Hash.String()
		if have[k] {
			return
		}
		have[k] = true
		out = append(out, fOffer{kind: fkOffer, class: class, name: name, e: e, parent: parent,
			fresh: func() *chain.Entry { return e.Fresh(parent) }})
	}
	if lost != nil {
		if lostInvalid {
			have[lost.Block.Hash.String()] = true
			out = append(out, fOffer{kind: fkOffer, class: "invalid-block-again", name: "store again: the block with the wrong state root", e: lost, parent: head, invalid: true,
				fresh: func() *chain.Entry {
					f, err := withBadRoot(lost, head)
					if err != nil {
						panic(err)
					}
					return f
				}})
		} else {
			add("lost-block-again", "store again: the lost block", lost, head)
		}
		// children and the grandchild of the lost block: the chain the caller believes in, ahead of the durable head
		for _, y := range storeNames {
			if c, err := buildVariant(lost, y); err == nil {
				add("child-of-lost-block", "store child of the lost block: "+y, c, lost)
			}
		}
		if c, err := buildVariant(lost, "empty"); err == nil {
			if g, err := buildVariant(c, "empty"); err == nil {
				add("grandchild-of-lost-block", "store grandchild of the lost block (empty on empty)", g, c)
			}
		}
	}
	// every variant on the head: another block for the height the node is waiting for
	for _, y := range storeNames {
		if s, err := buildVariant(head, y); err == nil {
			add("block-on-durable-head", "store on the durable head: "+y, s, head)
		}
	}
	if hasBelow {
		// the fork below the head: what a caller offers who believes the head is gone
		for _, y := range storeNames {
			if s, err := buildVariant(below, y); err == nil {
				add("block-of-fork-below-head", "store on the parent of the durable head: "+y, s, below)
			}
		}
		// (the head itself is one of them when it is an alphabet block; otherwise add it explicitly)
		add("duplicate-of-head", "store the durable head once more", head, below)
		out = append(out, fOffer{kind: fkRevert, class: "revert", name: "revert"})
	}
	out = append(out, fOffer{kind: fkRestart, class: "restart", name: "restart-ungraceful"})
	// the head, when it was generated as "variant on the parent of the head", is really the duplicate of the head
	for i := range out {
		if out[i].kind == fkOffer && head != nil && sameEntry(out[i].e, head) {
			out[i].class = "duplicate-of-head"
		}
		if out[i].kind == fkOffer && lost != nil && !lostInvalid && sameEntry(out[i].e, lost) {
			out[i].class = "lost-block-again"
		}
	}
	return out
}

type fFailing struct {
	o     op
	store string // variant name when the operation is a store
}

type fJob struct {
	prefix  []op
	failing fFailing
	cause   fCause
	alpha   []fOffer
	lost    *chain.Entry // what was offered by the failing store (nil otherwise)
	seqs    [][]int
}

func followUps(r *ev.Run, storeNames []string) {
	depthCommit := ev.Pick(r, 1, 2) // follow-up sequences after a failed commit / a refused invalid block
	depthStaged := ev.Pick(r, 1, 1) // ... after a failed staged write (0 = staged-write causes not enumerated in this tier)
	prefixDepth := ev.Pick(r, 0, 1)
	prefixOps := []op{storeOp("empty"), opRevert, opQuery}
	var failings []fFailing
	for _, s := range storeNames {
		failings = append(failings, fFailing{o: storeOp(s), store: s})
	}
	failings = append(failings, fFailing{o: opRevert}, fFailing{o: opL1}, fFailing{o: opSnapshot})
	prefixes := [][]op{nil}
	if prefixDepth >= 1 {
		for _, p := range prefixOps {
			prefixes = append(prefixes, []op{p})
		}
	}
	seqsUpTo := func(n, depth int) [][]int {
		var out [][]int
		var gen func(cur []int)
		gen = func(cur []int) {
			if len(cur) > 0 {
				out = append(out, append([]int{}, cur...))
			}
			if len(cur) == depth {
				return
			}
			for i := 0; i < n; i++ {
				gen(append(cur, i))
			}
		}
		gen(nil)
		return out
	}

	var mu sync.Mutex
	var contexts, causes, runs, steps, accepted, refused, freshChecks int64
	distinct := map[string]bool{}
	sampled := false
	for _, newState := range []bool{false, true} {
		bases := baseImages(r, newState)
		for _, baseName := range []string{"empty", "3-blocks"} {
			mkNodeP := bases[baseName]
			label := fmt.Sprintf("%s base=%s", backendName(newState), baseName)
			key := func(kind string) string { return kind + " " + label }
			mk := func() *node { return mkNodeP(false) }
			// ---- reference runs: which (prefix, failing op) apply, where their writes are, the alphabets ----
			var jobs []fJob
			for _, prefix := range prefixes {
				for _, fl := range failings {
					n := mk()
					ok := true
					for _, o := range prefix {
						if err := o.run(n); err != nil {
							ok = false // not applicable (or reported by parts a/b)
							break
						}
					}
					if !ok {
						continue
					}
					preRef := append([]*chain.Entry{}, n.ref...)
					// the image the failure must leave behind is validated once through a fresh node
					if !checkAgainstRef(r, "fresh node on the image before the failing operation", seqName(prefix), chain.NewNode(faultdb.Wrap(n.fdb.Inner().Copy()), newState), preRef, 0, key, map[string]any{}, n.seen...) {
						continue
					}
					var lost *chain.Entry
					if fl.store != "" {
						l, err := buildVariant(n.head(), fl.store)
						if err != nil {
							continue
						}
						lost = l
					}
					c0, s0 := n.fdb.Commits(), n.fdb.Staged()
					if err := fl.o.run(n); err != nil {
						continue // errNA, or a failure without fault which parts a/b report
					}
					c1, s1 := n.fdb.Commits(), n.fdb.Staged()
					alpha := followUpAlphabet(preRef, lost, false, storeNames)
					deep, shallow := seqsUpTo(len(alpha), depthCommit), seqsUpTo(len(alpha), depthStaged)
					for k := c0 + 1; k <= c1; k++ {
						jobs = append(jobs, fJob{prefix, fl, fCause{"commit", k}, alpha, lost, deep})
					}
					for k := s0 + 1; k <= s1 && depthStaged > 0; k++ {
						jobs = append(jobs, fJob{prefix, fl, fCause{"staged-write", k}, alpha, lost, shallow})
					}
					if lost != nil {
						var head *chain.Entry
						if len(preRef) > 0 {
							head = preRef[len(preRef)-1]
						}
						if bad, err := withBadRoot(lost, head); err == nil {
							// children of the invalid block are built from the real post-state of the lost block but name the
							// invalid block as their parent
							bad.State = lost.State
							balpha := followUpAlphabet(preRef, bad, true, storeNames)
							jobs = append(jobs, fJob{prefix, fl, fCause{"invalid-state-root", 0}, balpha, bad, seqsUpTo(len(balpha), depthCommit)})
						}
					}
					mu.Lock()
					contexts++
					mu.Unlock()
				}
			}
			mu.Lock()
			causes += int64(len(jobs))
			mu.Unlock()
			// ---- one long-lived node per (cause, follow-up sequence) ----
			ev.Par(len(jobs), 14, func(ji int) {
				j := jobs[ji]
				oc := opClass(j.failing.o.name)
				runOne := func(fs []int) {
					m := mk()
					for _, o := range j.prefix {
						if err := o.run(m); err != nil {
							r.Violate(key("op-fails-without-fault "+o.name), map[string]any{"sequence": seqName(j.prefix), "err": err.Error(), "part": "follow-ups"})
							return
						}
					}
					preRef := append([]*chain.Entry{}, m.ref...)
					preImage := chain.ImageHash(m.fdb.Inner())
					var err error
					switch j.cause.kind {
					case "commit":
						m.fdb.FailAt(j.cause.k, faultdb.ErrInjected)
						err = j.failing.o.run(m)
					case "staged-write":
						m.fdb.FailStagedAt(j.cause.k, faultdb.ErrInjected)
						err = j.failing.o.run(m)
					default:
						m.seen = append(m.seen, j.lost)
						err = chain.StoreSync(m.bc, j.alpha[0].fresh()) // letter 0 = the invalid block
						if err == nil {
							r.Violate(key("block-with-wrong-state-root-stored"), map[string]any{"prefix": seqName(j.prefix), "block": j.failing.o.name})
							return
						}
					}
					if err == nil {
						// the injected failure did not make the operation fail (swallowed or irrelevant write): parts a/b look at that
						r.Outcome("follow-ups: injected " + j.cause.kind + " failure not reported by " + oc)
						return
					}
					if j.cause.kind != "invalid-state-root" && !errors.Is(err, faultdb.ErrInjected) && !strings.Contains(err.Error(), "injected") {
						return // reported by part b (unexpected-error-under-fault)
					}
					m.ref = preRef
					if chain.ImageHash(m.fdb.Inner()) != preImage {
						if j.cause.kind == "invalid-state-root" {
							r.Violate(key("failed-store-left-partial-writes"), map[string]any{"prefix": seqName(j.prefix), "block": j.failing.o.name, "cause": "block with a wrong state root"})
						}
						return // for injected faults part b reports it
					}
					mu.Lock()
					runs++
					mu.Unlock()
					r.Add("evaluations", 1)
					var names []string
					for _, fi := range fs {
						f := j.alpha[fi]
						names = append(names, f.name)
						if f.kind == fkRevert && len(m.ref) == 0 {
							break // nothing to revert: not a follow-up in this state
						}
						detail := map[string]any{"prefix": seqName(j.prefix), "failed_op": j.failing.o.name, "cause": j.cause.kind, "k": j.cause.k,
							"follow_ups": strings.Join(names, " ; "), "durable_height_before_follow_up": len(m.ref) - 1}
						before := chain.ImageHash(m.fdb.Inner())
						var want bool
						switch f.kind {
						case fkRevert:
							want = true
							err = m.bc.RevertHead()
							if err == nil {
								m.ref = m.ref[:len(m.ref)-1]
							}
						case fkRestart:
							want = true
							m.open()
							err = nil
						default:
							want = !f.invalid && sameEntry(f.parent, m.head())
							m.seen = append(m.seen, f.e)
							err = chain.StoreSync(m.bc, f.fresh())
							if err == nil {
								m.ref = append(m.ref, f.e)
							}
						}
						got := err == nil
						mu.Lock()
						steps++
						if got {
							accepted++
						} else {
							refused++
						}
						distinct[label+"/"+oc+"/"+j.cause.kind+"/"+f.class] = true
						mu.Unlock()
						r.Outcome(fmt.Sprintf("follow-up %s after failed %s: accepted=%v", f.class, oc, got))
						if got != want {
							if got {
								r.Violate(key("follow-up-accepted-although-it-does-not-extend-the-durable-head after-failed-"+oc+" "+f.class), detail)
							} else {
								detail["err"] = err.Error()
								r.Violate(key("valid-follow-up-refused after-failed-"+oc+" "+f.class), detail)
							}
							return
						}
						after := chain.ImageHash(m.fdb.Inner())
						if !got && after != before {
							r.Violate(key("refused-follow-up-changed-the-durable-image after-failed-"+oc+" "+f.class), detail)
							return
						}
						ckey := func(kind string) string {
							return key("chain-wrong-after-follow-up after-failed-" + oc + " " + f.class + " " + kind)
						}
						if !checkAgainstRef(r, "long-lived node after the follow-up", "", m.bc, m.ref, 0, ckey, detail, m.seen...) {
							return
						}
						if after == preImage {
							continue // byte-identical to the image validated before the failing operation
						}
						// restart: a fresh node on the image describes the same chain and takes the next block
						mu.Lock()
						freshChecks++
						mu.Unlock()
						img := m.fdb.Inner().Copy()
						tmp := &node{db: faultdb.Wrap(img), newState: newState, ref: append([]*chain.Entry{}, m.ref...)}
						tmp.open()
						if !checkAgainstRef(r, "fresh node on the image after the follow-up", "", tmp.bc, tmp.ref, 0, ckey, detail, m.seen...) {
							return
						}
						if err := storeOp("empty").run(tmp); err != nil {
							detail["err"] = err.Error()
							r.Violate(key("next-block-cannot-be-stored-after-follow-up after-failed-"+oc+" "+f.class), detail)
							return
						}
						if !checkAgainstRef(r, "fresh node on the image after the follow-up + next block", "", tmp.bc, tmp.ref, 0, ckey, detail) {
							return
						}
					}
					mu.Lock()
					if !sampled && len(fs) > 0 && j.cause.kind == "commit" && j.lost != nil {
						sampled = true
						r.Sample(map[string]any{"part": "follow-ups after a failed operation", "base": label, "prefix": seqName(j.prefix), "failed_op": j.failing.o.name,
							"cause": fmt.Sprintf("%s #%d fails", j.cause.kind, j.cause.k), "follow_ups": names})
					}
					mu.Unlock()
				}
				for _, fs := range j.seqs {
					if r.OutOfTime() {
						r.Incomplete("follow-ups after a failed operation " + label)
						return
					}
					runOne(fs)
				}
			})
		}
	}
	r.Set("followup_contexts", contexts)
	r.Set("followup_failure_causes", causes)
	r.Set("followup_runs", runs)
	r.Set("followup_steps", steps)
	r.Set("followup_accepted", accepted)
	r.Set("followup_refused", refused)
	r.Set("followup_restart_checks", freshChecks)
	r.Set("followup_distinct_backend_base_op_cause_class", int64(len(distinct)))
	r.Set("followup_rule", fmt.Sprintf("for every backend x base x prefix (<=%d over {store:empty, revert, query}) x failing operation {store x%d, revert, setL1Head, persistFilterSnapshot} x cause "+
		"(every committed write of it fails | every staged batch write of it fails | the block carries a wrong state root): every follow-up sequence (<=%d after a failed commit / invalid block, <=%d after a failed staged write) over "+
		"{every variant on the lost block, its grandchild, every variant on the durable head, every variant on the parent of the head, the head once more, the invalid block once more, revert, restart}; "+
		"oracle: accepted iff it extends the durable head; a refused follow-up leaves the image byte-identical; the same node and a fresh node on the image describe the reference chain; the next block stores",
		prefixDepth, len(storeNames), depthCommit, depthStaged))
}
