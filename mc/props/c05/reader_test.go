package c05

// Part R of C05 - a READER racing a block operation ("in-memory caches never disagree with what is on disk").
//
// Parts (a)/(b)/(F) run every operation alone: nothing ever looks at the node between an in-memory side effect of a
// store / revert (running bloom window, aggregated-filter cache) and the database commit it belongs to. A real node
// serves RPC readers all the time, and a reader POPULATES caches from what is on disk at that moment. Here every
// writer operation of a short history is raced with one reader operation that runs to completion at one scheduling
// point of the writer, the history is continued, and every later answer of the SAME node is compared with the naive
// scan of the reference chain and with a fresh node on the same image (memory == disk).
//
//   base image = { 3-block chain, window-boundary chain whose head 8191 is the LAST block of the first 8192-block
//                  aggregated-bloom window (the window has just been persisted; thorough: also head 8190) }
//   history    = every sequence <= 2 over { store:empty (event from B), store:A.s0=1 (event from A), revert }
//   node       = warm: both readers ran once before the history (thorough: also cold, straight after opening)
//   raced op   = the first operation of the history (quick) / the first or the second one (thorough)
//   point      = every scheduling point of the raced operation: before every KV-store call it makes (Get / Has / Put /
//                Delete / iterator / snapshot / new batch / Update / Write) and after every Update / Write / batch
//                commit; found by a database proxy that calls
//                back into the harness; their number is MEASURED per (history, position), never assumed
//   reader     = { events: event queries by emitter A, by emitter B and unfiltered over the newest blocks;
//                  state: Head + head-state storage reads }
//
// Oracle: after the raced operation and after every later operation the long-lived node answers exactly like the
// reference chain (height, head block, nothing above the head, head storage, event queries == naive scan); at the end
// a fresh node on the same image does too. What the racing reader itself sees is NOT judged (a read overlapping a
// write may see either side); it is only counted.
//
// A reader started at a point runs on its own goroutine and the writer waits for it. Should it not finish (it waits
// for a lock the writer holds - a legitimate implementation), the writer is resumed after raceBlockedAfter and both run
// to the end; the oracle is unchanged and the case is counted (race_reader_serialised_by_a_lock).

import (
	"bytes"
	"errors"
	"fmt"
	"hash/fnv"
	"maps"
	"reflect"
	"strings"
	"sync"
	"time"
	"unsafe"

	"verif/mc/chain"
	"verif/mc/ev"

	"github.com/NethermindEth/juno/blockchain"
	"github.com/NethermindEth/juno/core"
	"github.com/NethermindEth/juno/core/felt"
	"github.com/NethermindEth/juno/db"
	"github.com/NethermindEth/juno/db/memory"
)

const raceBlockedAfter = 200 * time.Millisecond

// ---- scheduling-point proxy -------------------------------------------------------------------

type racer struct {
	mu       sync.Mutex
	armed    bool
	inReader bool
	batchPts bool
	count    int
	fireAt   int
	fired    bool
	firedAt  string
	blocked  bool
	reader   func()
	done     chan struct{}
}

func (rc *racer) pt(what string) {
	rc.mu.Lock()
	if !rc.armed || rc.inReader {
		rc.mu.Unlock()
		return
	}
	rc.count++
	if rc.fired || rc.count != rc.fireAt || rc.reader == nil {
		rc.mu.Unlock()
		return
	}
	rc.fired, rc.firedAt, rc.inReader = true, what, true
	rc.done = make(chan struct{})
	done := rc.done
	rc.mu.Unlock()
	go func() {
		defer func() {
			rc.mu.Lock()
			rc.inReader = false
			rc.mu.Unlock()
			close(done)
		}()
		rc.reader()
	}()
	select {
	case <-done:
	case <-time.After(raceBlockedAfter):
		rc.mu.Lock()
		rc.blocked = true
		rc.mu.Unlock()
	}
}

func (rc *racer) bpt(what string) {
	if rc.batchPts {
		rc.pt(what)
	}
}

type raceDB struct {
	db.KeyValueStore
	rc *racer
}

var _ db.KeyValueStore = (*raceDB)(nil)

func (d *raceDB) Has(k []byte) (bool, error) { d.rc.pt("has"); return d.KeyValueStore.Has(k) }
func (d *raceDB) Get(k []byte, cb func([]byte) error) error {
	d.rc.pt("get")
	return d.KeyValueStore.Get(k, cb)
}
func (d *raceDB) NewIterator(p []byte, ub bool) (db.Iterator, error) {
	d.rc.pt("iter")
	return d.KeyValueStore.NewIterator(p, ub)
}
func (d *raceDB) Put(k, v []byte) error         { d.rc.pt("put"); return d.KeyValueStore.Put(k, v) }
func (d *raceDB) Delete(k []byte) error         { d.rc.pt("del"); return d.KeyValueStore.Delete(k) }
func (d *raceDB) DeleteRange(s, e []byte) error { d.rc.pt("delrange"); return d.KeyValueStore.DeleteRange(s, e) }
func (d *raceDB) NewSnapshot() db.Snapshot      { d.rc.pt("snapshot"); return d.KeyValueStore.NewSnapshot() }
func (d *raceDB) NewBatch() db.Batch {
	d.rc.pt("newbatch")
	return &raceBatch{d.KeyValueStore.NewIndexedBatch(), d.rc}
}
func (d *raceDB) NewBatchWithSize(int) db.Batch { return d.NewBatch() }
func (d *raceDB) NewIndexedBatch() db.IndexedBatch {
	d.rc.pt("newbatch")
	return &raceBatch{d.KeyValueStore.NewIndexedBatch(), d.rc}
}
func (d *raceDB) NewIndexedBatchWithSize(int) db.IndexedBatch { return d.NewIndexedBatch() }
func (d *raceDB) WithListener(db.EventListener) db.KeyValueStore { return d }
func (d *raceDB) Update(fn func(db.IndexedBatch) error) error {
	d.rc.pt("update<")
	b := &raceBatch{d.KeyValueStore.NewIndexedBatch(), d.rc}
	if err := fn(b); err != nil {
		d.rc.pt("update-refused>")
		return err
	}
	err := b.Write()
	d.rc.pt("update>")
	return err
}
func (d *raceDB) Write(fn func(db.Batch) error) error {
	d.rc.pt("write<")
	b := &raceBatch{d.KeyValueStore.NewIndexedBatch(), d.rc}
	if err := fn(b); err != nil {
		d.rc.pt("write-refused>")
		return err
	}
	err := b.Write()
	d.rc.pt("write>")
	return err
}

type raceBatch struct {
	db.IndexedBatch
	rc *racer
}

func (b *raceBatch) Put(k, v []byte) error { b.rc.bpt("batch.put"); return b.IndexedBatch.Put(k, v) }
func (b *raceBatch) Delete(k []byte) error { b.rc.bpt("batch.del"); return b.IndexedBatch.Delete(k) }
func (b *raceBatch) DeleteRange(s, e []byte) error {
	b.rc.bpt("batch.delrange")
	return b.IndexedBatch.DeleteRange(s, e)
}
func (b *raceBatch) Has(k []byte) (bool, error) { b.rc.bpt("batch.has"); return b.IndexedBatch.Has(k) }
func (b *raceBatch) Get(k []byte, cb func([]byte) error) error {
	b.rc.bpt("batch.get")
	return b.IndexedBatch.Get(k, cb)
}
func (b *raceBatch) NewIterator(p []byte, ub bool) (db.Iterator, error) {
	b.rc.bpt("batch.iter")
	return b.IndexedBatch.NewIterator(p, ub)
}
func (b *raceBatch) Write() error {
	b.rc.pt("commit<")
	err := b.IndexedBatch.Write()
	b.rc.pt("commit>")
	return err
}

// ---- base images ------------------------------------------------------------------------------

type raceBase struct {
	name string
	img  map[string][]byte // frozen; cloned (sharing the value slices) per run
	sum  uint64
	ref  []*chain.Entry
}

func memMap(d *memory.Database) *map[string][]byte {
	f := reflect.ValueOf(d).Elem().FieldByName("db")
	if !f.IsValid() || f.Type() != reflect.TypeOf(map[string][]byte{}) {
		panic("INFRA: memory.Database has no field db of type map[string][]byte")
	}
	return (*map[string][]byte)(unsafe.Pointer(f.UnsafeAddr()))
}

// memory.Database never mutates a stored value in place (Put stores a clone, Delete drops the entry), so a clone of
// the map that shares the values is a copy; the frozen images are checksummed before and after the part.
func (b *raceBase) copy() *memory.Database {
	d := memory.New()
	*memMap(d) = maps.Clone(b.img)
	return d
}

func raceImageSum(m map[string][]byte) uint64 {
	var acc uint64
	for k, v := range m {
		h := fnv.New64a()
		h.Write([]byte(k))
		h.Write([]byte{0})
		h.Write(v)
		acc ^= h.Sum64()
	}
	return acc
}

// raceDelta: digest of how an image differs from the frozen base it was cloned from.
func raceDelta(base, cur map[string][]byte) uint64 {
	var acc uint64
	mix := func(tag byte, k string, v []byte) {
		h := fnv.New64a()
		h.Write([]byte{tag})
		h.Write([]byte(k))
		h.Write([]byte{0})
		h.Write(v)
		acc ^= h.Sum64()
	}
	for k, v := range cur {
		if bv, ok := base[k]; !ok || !bytes.Equal(bv, v) {
			mix(1, k, v)
		}
	}
	for k := range base {
		if _, ok := cur[k]; !ok {
			mix(2, k, nil)
		}
	}
	return acc
}

// raceBuildBase: block 0 deploys A, blocks 1..head-3 carry nothing, the last three blocks carry events (A, B, A).
func raceBuildBase(r *ev.Run, newState bool, head uint64) *raceBase {
	d := memory.New()
	n := &node{db: d, newState: newState}
	n.open()
	tail := map[uint64]string{0: "deployA", head - 2: "A.s0=1", head - 1: "empty", head: "A.s0=2"}
	if head < 8 {
		tail = map[uint64]string{0: "deployA", 1: "A.s0=1", 2: "sys1.write"}
	}
	for num := uint64(0); num <= head; num++ {
		if which, ok := tail[num]; ok {
			if err := storeOp(which).run(n); err != nil {
				r.Infra("part R base head=%d block %d (%s): %v", head, num, which, err)
			}
			continue
		}
		diff := core.EmptyStateDiff()
		e, err := chain.Build(n.head(), chain.BlockSpec{Version: version, Timestamp: 1000 + num*10, Diff: &diff})
		if err == nil {
			err = chain.StoreSync(n.bc, e)
		}
		if err != nil {
			r.Infra("part R base head=%d block %d: %v", head, num, err)
		}
		n.ref = append(n.ref, e)
	}
	img := maps.Clone(*memMap(d))
	return &raceBase{name: fmt.Sprintf("head%d", head), img: img, sum: raceImageSum(img), ref: n.ref}
}

// ---- observations -----------------------------------------------------------------------------

// raceCheck: what the node answers must be the reference chain (cheap enough for an 8192-block chain).
func raceCheck(bc *blockchain.Blockchain, ref []*chain.Entry) (string, map[string]any) {
	if len(ref) == 0 {
		if h, err := bc.Height(); err == nil {
			return "height-defined-on-empty-chain", map[string]any{"height": h}
		}
		return "", nil
	}
	want := ref[len(ref)-1]
	h, err := bc.Height()
	if err != nil || h != want.Block.Number {
		return "height-wrong", map[string]any{"got": h, "err": fmt.Sprint(err), "want": want.Block.Number}
	}
	hb, err := bc.Head()
	if err != nil || chain.Dump(hb) != chain.Dump(want.Block) {
		return "head-block-differs", map[string]any{"err": fmt.Sprint(err)}
	}
	if _, err := bc.BlockHeaderByNumber(want.Block.Number + 1); err == nil {
		return "header-above-head-reachable", map[string]any{}
	}
	sr, cl, err := bc.HeadState()
	if err != nil {
		return "head-state-fails", map[string]any{"err": err.Error()}
	}
	for a, c := range want.State.Contracts {
		a := a
		for k, v := range c.Storage {
			k := k
			got, err := sr.ContractStorage(&a, &k)
			if err != nil || !got.Equal(&v) {
				_ = cl()
				return "head-storage-wrong", map[string]any{"addr": a.String(), "slot": k.String(), "got": got.String(), "want": v.String()}
			}
		}
	}
	_ = cl()
	var recent uint64
	if want.Block.Number > 8 {
		recent = want.Block.Number - 8
	}
	for _, q := range []struct {
		from  *felt.Felt
		floor uint64
		name  string
	}{{&chain.AddrA, 0, "A"}, {&chain.AddrB, 0, "B"}, {nil, recent, "any-emitter-newest-blocks"}} {
		got, err := queryEvents(bc, q.from, q.floor)
		wantEv := naiveEvents(ref, q.from, q.floor)
		if err != nil || strings.Join(got, ",") != strings.Join(wantEv, ",") {
			return "event-query-differs-from-naive-scan", map[string]any{"emitter": q.name, "got": got, "want": wantEv, "err": fmt.Sprint(err)}
		}
	}
	return "", nil
}

type raceReader struct {
	name string
	run  func(bc *blockchain.Blockchain) string // a digest of what it saw (counted, not judged)
}

var raceReaders = []raceReader{
	{"events", func(bc *blockchain.Blockchain) string {
		var out []string
		h, _ := bc.Height()
		var recent uint64
		if h > 8 {
			recent = h - 8
		}
		for _, q := range []struct {
			from  *felt.Felt
			floor uint64
		}{{&chain.AddrA, 0}, {&chain.AddrB, 0}, {nil, recent}} {
			got, err := queryEvents(bc, q.from, q.floor)
			out = append(out, strings.Join(got, ",")+fmt.Sprint(err))
		}
		return strings.Join(out, "|")
	}},
	{"state", func(bc *blockchain.Blockchain) string {
		hb, err := bc.Head()
		if err != nil {
			return "no head"
		}
		out := hb.Hash.ShortString()
		if sr, cl, err := bc.HeadState(); err == nil {
			k := chain.FV(0)
			v, _ := sr.ContractStorage(&chain.AddrA, &k)
			out += "/" + v.String()
			_ = cl()
		}
		return out
	}},
}

// ---- the part ---------------------------------------------------------------------------------

func readerRaces(r *ev.Run) {
	histLen := 2
	batchPts := false // calls on the write batch as scheduling points: measured too expensive for either tier (an 8192-block window is re-encoded per run)
	// warm = both readers ran once before the history (running window initialised, filter cache populated: the usual
	// state of a node that has been up for a while); cold = the first operation of the history also initialises them
	warmth := ev.Pick(r, []bool{true}, []bool{true, false})
	maxPos := ev.Pick(r, 1, 2) // quick: the raced operation is the first one of the history (every later one is an observation)
	partDeadline := time.Now().Add(time.Duration(ev.Pick(r, 90, 800)) * time.Second) // the part's share of the run's time budget
	heads := ev.Pick(r, []uint64{2, 8191}, []uint64{2, 8190, 8191})
	letters := []op{storeOp("empty"), storeOp("A.s0=1"), opRevert}
	var hists [][]op
	var gen func(cur []op)
	gen = func(cur []op) {
		if len(cur) > 0 {
			hists = append(hists, append([]op{}, cur...))
		}
		if len(cur) == histLen {
			return
		}
		for _, o := range letters {
			gen(append(cur, o))
		}
	}
	gen(nil)

	type baseKey struct {
		newState bool
		head     uint64
	}
	bases := map[baseKey]*raceBase{}
	var bmu sync.Mutex
	var keys []baseKey
	for _, ns := range []bool{false, true} {
		for _, h := range heads {
			keys = append(keys, baseKey{ns, h})
		}
	}
	ev.Par(len(keys), len(keys), func(i int) {
		b := raceBuildBase(r, keys[i].newState, keys[i].head)
		bmu.Lock()
		bases[keys[i]] = b
		bmu.Unlock()
	})

	type job struct {
		k    baseKey
		hist []op
		pos  int
		warm bool
	}
	var jobs []job
	for _, k := range keys {
		for _, h := range hists {
			for p := range h {
				if p < maxPos {
					for _, w := range warmth {
						jobs = append(jobs, job{k, h, p, w})
					}
				}
			}
		}
	}
	var mu sync.Mutex
	maxPts := 0
	distinctSeen := map[string]bool{}
	ev.Par(len(jobs), 14, func(ji int) {
		j := jobs[ji]
		b := bases[j.k]
		label := fmt.Sprintf("%s base=%s", backendName(j.k.newState), b.name)
		if !j.warm {
			label += " cold-node"
		}
		name := seqName(j.hist)
		racedName := fmt.Sprintf("%s [raced: #%d %s]", name, j.pos, j.hist[j.pos].name)
		if r.OutOfTime() || time.Now().After(partDeadline) {
			r.Incomplete("part R " + label)
			return
		}
		var finalDelta uint64
		// run returns false if the history is not applicable from this base
		run := func(fireAt int, rd *raceReader) (applicable bool, points int) {
			rc := &racer{batchPts: batchPts, fireAt: fireAt}
			d := b.copy()
			n := &node{db: &raceDB{d, rc}, newState: j.k.newState, ref: append([]*chain.Entry{}, b.ref...)}
			n.open()
			if j.warm {
				for _, w := range raceReaders {
					w.run(n.bc)
				}
			}
			var saw string
			if rd != nil {
				rc.reader = func() { saw = rd.run(n.bc) }
			}
			fail := func(kind string, extra map[string]any, after string) {
				extra["history"] = racedName
				extra["after_op"] = after
				if rd != nil {
					extra["reader"] = rd.name
					extra["point"] = fmt.Sprintf("%d of the raced operation (%s)", fireAt, rc.firedAt)
				}
				// memory vs disk: does a fresh node on the same image answer correctly?
				fk, _ := raceCheck(chain.NewNode(d, j.k.newState), n.ref)
				cls := "reader-raced-" + opClass(j.hist[j.pos].name)
				if rd == nil {
					cls = "no-reader-" + opClass(j.hist[j.pos].name)
				}
				if fk == "" {
					r.Violate("memory-disagrees-with-disk-after-"+cls+" "+kind+" "+label, extra)
				} else {
					extra["fresh_node_on_the_image"] = fk
					r.Violate("inconsistent-node-after-"+cls+" "+kind+" "+label, extra)
				}
			}
			for i, o := range j.hist {
				if i == j.pos {
					rc.mu.Lock()
					rc.armed = true
					rc.mu.Unlock()
				}
				err := o.run(n)
				if i == j.pos {
					rc.mu.Lock()
					rc.armed = false
					done, blocked := rc.done, rc.blocked
					points = rc.count
					rc.mu.Unlock()
					if done != nil {
						<-done
					}
					if blocked {
						r.Add("race_reader_serialised_by_a_lock", 1)
						if rd != nil {
							r.Outcome(fmt.Sprintf("part R: reader %s serialised at %s of %s %s", rd.name, rc.firedAt, opClass(o.name), label))
						}
					}
				}
				if errors.Is(err, errNA) {
					return false, 0
				}
				if err != nil {
					fail("op-fails "+opClass(o.name), map[string]any{"err": err.Error()}, o.name)
					return true, points
				}
				if i >= j.pos {
					r.Add("evaluations", 1)
					if kind, det := raceCheck(n.bc, n.ref); kind != "" {
						fail(kind, det, o.name)
						return true, points
					}
				}
			}
			// memory == disk at the end: the measuring run (no reader) ends in an image on which a fresh node answers
			// like the reference chain; a reader never writes, so every raced run must end in the very same image
			if rd == nil {
				if kind, det := raceCheck(chain.NewNode(d, j.k.newState), n.ref); kind != "" {
					det["history"] = racedName
					r.Violate("fresh-node-on-final-image-of-history "+kind+" "+label, det)
				}
				finalDelta = raceDelta(b.img, *memMap(d))
			} else if got := raceDelta(b.img, *memMap(d)); got != finalDelta {
				r.Violate("final-image-differs-when-a-reader-raced-"+opClass(j.hist[j.pos].name)+" "+label, map[string]any{"history": racedName, "reader": rd.name,
					"point": fmt.Sprintf("%d of the raced operation (%s)", fireAt, rc.firedAt)})
			}
			if rd != nil {
				mu.Lock()
				distinctSeen[rd.name+":"+saw] = true
				mu.Unlock()
			}
			return true, points
		}
		ok, pts := run(0, nil) // measuring run: no reader
		if !ok {
			r.Add("race_histories_not_applicable", 1)
			return
		}
		r.Add("race_histories_x_raced_position", 1)
		mu.Lock()
		if pts > maxPts {
			maxPts = pts
		}
		mu.Unlock()
		for p := 1; p <= pts; p++ {
			for ri := range raceReaders {
				run(p, &raceReaders[ri])
				r.Add("race_runs", 1)
			}
		}
		r.Add("race_scheduling_points", int64(pts))
	})
	for _, b := range bases {
		if raceImageSum(b.img) != b.sum {
			r.Infra("part R: frozen base image %s was mutated", b.name)
		}
	}
	r.Sample(map[string]any{"part": "R", "history": "revert ; store:empty [raced: #0 revert]", "base": "head8191", "reader": "events", "at": "every KV-store call of the revert"})
	r.Set("race_max_points_per_operation", int64(maxPts))
	r.Set("race_distinct_racing_reader_answers", int64(len(distinctSeen)))
	r.Set("race_rule", fmt.Sprintf("part R: both state backends x base images heads %v (8191 = last block of the first 8192-block bloom window) x node warmed by one run of both readers %v x every history <=%d over {store:empty, store:A.s0=1, revert} x the raced operation at every position < %d x "+
		"every scheduling point of it (before every KV-store call, after every Update/Write/commit; batch-level calls: %v) x reader {events, state} run to completion at that point; "+
		"oracle: after the raced operation and every later one the same node answers like the reference chain (height, head, head storage, event queries by emitter and unfiltered == naive scan), and a fresh node on the final image of the reader-less run does too, and every raced run ends in that very image", heads, warmth, histLen, maxPos, batchPts))
}
