package c05

// C05 — block storage is atomic and crash-consistent at every interruption point; in-memory caches never
// disagree with what is on disk after a failed write.

import (
	"errors"
	"fmt"
	"os"
	"strings"
	"sync"
	"testing"

	"verif/mc/chain"
	"verif/mc/ev"
	"verif/mc/faultdb"

	"context"

	"github.com/NethermindEth/juno/pruner"

	"github.com/NethermindEth/juno/blockchain"
	"github.com/NethermindEth/juno/core"
	"github.com/NethermindEth/juno/core/felt"
	"github.com/NethermindEth/juno/db"
	"github.com/NethermindEth/juno/db/memory"
)

// node is the long-lived process under test plus the reference bookkeeping.
type node struct {
	db       db.KeyValueStore // what juno writes through
	fdb      *faultdb.DB      // the same store when it is the fault-injecting proxy (nil on Pebble)
	bc       *blockchain.Blockchain
	newState bool
	ref      []*chain.Entry // reference chain the node should hold
	seen     []*chain.Entry // every block ever offered (for probes)
	l1       *core.L1Head
	pruning  bool   // the node is configured like a pruning node (pruning-aware filter initialiser)
	floor    uint64 // blocks below it have been pruned (reference)
}

func (n *node) open() {
	if n.pruning {
		n.bc = blockchain.New(n.db, chain.Net, blockchain.WithNewState(n.newState),
			blockchain.WithRunningEventFilterInitializer(pruner.InitializeRunningEventFilter))
		return
	}
	n.bc = chain.NewNode(n.db, n.newState)
}

func (n *node) head() *chain.Entry {
	if len(n.ref) == 0 {
		return nil
	}
	return n.ref[len(n.ref)-1]
}

type op struct {
	name string
	run  func(n *node) error // applies to juno AND (only on success) to the reference bookkeeping
}

const version = "0.14.0"

// buildVariant builds the alphabet block `which` on top of parent (nil = genesis); errNA if the variant does not
// exist in that state.
func buildVariant(parent *chain.Entry, which string) (*chain.Entry, error) {
	var number uint64
	var st *chain.State
	if parent != nil {
		number, st = parent.Block.Number+1, parent.State
	}
	for _, nm := range chain.Alphabet(st, number, version) {
		if nm.Name != which {
			continue
		}
		// give every block events, so the event index is always involved
		sp := nm.Spec
		from := chain.AddrA
		if which == "empty" {
			from = chain.AddrB // different blocks at one height carry events of different emitters
		}
		sp.Txs = []chain.TxSpec{{Kind: "invoke3", Salt: number*8 + uint64(len(which)), Events: []chain.EvSpec{
			{From: from, Keys: []felt.Felt{chain.FV(0x100 + number), chain.FV(uint64(len(which)))}, Data: []felt.Felt{chain.FV(number)}}}},
			{Kind: "l1handler0", Salt: number*8 + 1 + uint64(len(which))}}
		e, err := chain.Build(parent, sp)
		if err != nil {
			return nil, errNA
		}
		return e, nil
	}
	return nil, errNA
}

func storeOp(which string) op {
	return op{"store:" + which, func(n *node) error {
		e, err := buildVariant(n.head(), which)
		if err != nil {
			return err
		}
		n.seen = append(n.seen, e)
		if err := chain.StoreSync(n.bc, e.Fresh(n.head())); err != nil {
			return err
		}
		n.ref = append(n.ref, e)
		return nil
	}}
}

var errNA = errors.New("op not applicable in this state")

var (
	opRevert = op{"revert", func(n *node) error {
		if len(n.ref) == 0 || (n.pruning && n.head().Block.Number <= n.floor+1 && n.floor > 0) {
			return errNA // the head may not move into the pruned region
		}
		if err := n.bc.RevertHead(); err != nil {
			return err
		}
		n.ref = n.ref[:len(n.ref)-1]
		return nil
	}}
	opL1 = op{"setL1Head", func(n *node) error {
		h := n.head()
		if h == nil {
			return errNA
		}
		l1 := &core.L1Head{BlockNumber: h.Block.Number, BlockHash: h.Block.Hash, StateRoot: h.Block.GlobalStateRoot}
		if err := n.bc.SetL1Head(l1); err != nil {
			return err
		}
		n.l1 = l1
		return nil
	}}
	opSnapshot = op{"persistFilterSnapshot", func(n *node) error { return n.bc.WriteRunningEventFilter() }}
	opRestartG = op{"restart-graceful", func(n *node) error {
		if err := n.bc.WriteRunningEventFilter(); err != nil {
			return err
		}
		n.open()
		return nil
	}}
	opRestartU = op{"restart-ungraceful", func(n *node) error {
		n.open()
		return nil
	}}
	// prune everything below the head in many small batches (1-byte threshold = one batch per block)
	opPrune = op{"prune", func(n *node) error {
		h := n.head()
		if h == nil || h.Block.Number == 0 || !n.pruning {
			return errNA
		}
		if _, _, err := pruner.PruneUpto(context.Background(), n.db, h.Block.Number, 1); err != nil {
			return err
		}
		n.floor = h.Block.Number
		return nil
	}}
	opQuery = op{"query", func(n *node) error { // warms the in-memory filter / caches
		if len(n.ref) == 0 {
			return errNA // EventFilter needs a chain height
		}
		ef, err := n.bc.EventFilter(nil, nil, nil)
		if err != nil {
			return err
		}
		defer ef.Close()
		if n.floor > 0 { // queries reaching below the retention floor are refused as pruned, by design
			if err := ef.SetRangeEndBlockByNumber(blockchain.EventFilterFrom, n.floor); err != nil {
				return err
			}
		}
		_, _, err = ef.Events(nil, 1000)
		return err
	}}
)

// naiveEvents scans the reference receipts.
func naiveEvents(ref []*chain.Entry, from *felt.Felt, floor uint64) []string {
	var out []string
	for _, e := range ref {
		if e.Block.Number < floor {
			continue
		}
		for _, rc := range e.Block.Receipts {
			for i, evn := range rc.Events {
				if from == nil || evn.From.Equal(from) {
					out = append(out, fmt.Sprintf("%d/%s/%d", e.Block.Number, rc.TransactionHash.ShortString(), i))
				}
			}
		}
	}
	return out
}

func queryEvents(bc *blockchain.Blockchain, from *felt.Felt, floor uint64) ([]string, error) {
	var addrs []felt.Address
	if from != nil {
		addrs = []felt.Address{felt.Address(*from)}
	}
	ef, err := bc.EventFilter(addrs, nil, nil)
	if err != nil {
		return nil, err
	}
	defer ef.Close()
	if floor > 0 {
		if err := ef.SetRangeEndBlockByNumber(blockchain.EventFilterFrom, floor); err != nil {
			return nil, err
		}
	}
	var out []string
	var tok *blockchain.ContinuationToken
	for g := 0; g < 10000; g++ {
		evs, next, err := ef.Events(tok, 3)
		if err != nil {
			return nil, err
		}
		for _, e := range evs {
			out = append(out, fmt.Sprintf("%d/%s/%d", e.BlockNumber, e.TransactionHash.ShortString(), e.EventIndex))
		}
		if next.IsEmpty() {
			break
		}
		n := next
		tok = &n
	}
	return out, nil
}

// checkAgainstRef: the node (long-lived or freshly restarted) must describe exactly the reference chain.
func checkAgainstRef(r *ev.Run, what, seqName string, bc *blockchain.Blockchain, ref []*chain.Entry, floor uint64, key func(string) string, detail map[string]any, seen ...*chain.Entry) bool {
	fail := func(kind string, extra map[string]any) bool {
		for k, v := range detail {
			extra[k] = v
		}
		extra["sequence"] = seqName
		extra["observer"] = what
		r.Violate(key(kind), extra)
		return false
	}
	h, err := bc.Height()
	if len(ref) == 0 {
		if err == nil {
			return fail("height-defined-on-empty-chain", map[string]any{"height": h})
		}
		return true
	}
	want := ref[len(ref)-1]
	if err != nil || h != want.Block.Number {
		return fail("height-wrong", map[string]any{"got": h, "err": fmt.Sprint(err), "want": want.Block.Number})
	}
	for _, e := range ref {
		if e.Block.Number < floor {
			continue // pruned: what may be answered below the floor is C16's business
		}
		b, err := bc.BlockByNumber(e.Block.Number)
		if err != nil || !b.Hash.Equal(e.Block.Hash) || len(b.Transactions) != len(e.Block.Transactions) || len(b.Receipts) != len(e.Block.Receipts) {
			return fail("block-not-fully-present", map[string]any{"block": e.Block.Number, "err": fmt.Sprint(err)})
		}
		if chain.Dump(b) != chain.Dump(e.Block) {
			return fail("block-content-differs", map[string]any{"block": e.Block.Number})
		}
		su, err := bc.StateUpdateByNumber(e.Block.Number)
		if err != nil || chain.Dump(su) != chain.Dump(e.SU) {
			return fail("state-update-differs", map[string]any{"block": e.Block.Number, "err": fmt.Sprint(err)})
		}
		if _, err := bc.BlockCommitmentsByNumber(e.Block.Number); err != nil {
			return fail("commitments-missing", map[string]any{"block": e.Block.Number})
		}
		if n, err := bc.BlockNumberByHash(e.Block.Hash); err != nil || n != e.Block.Number {
			return fail("hash-lookup-wrong", map[string]any{"block": e.Block.Number})
		}
		for i, tx := range e.Block.Transactions {
			bn, idx, err := bc.BlockNumberAndIndexByTxHash((*felt.TransactionHash)(tx.Hash()))
			if err != nil || bn != e.Block.Number || idx != uint64(i) {
				return fail("tx-hash-lookup-wrong", map[string]any{"block": e.Block.Number, "index": i, "err": fmt.Sprint(err)})
			}
		}
	}
	// nothing above the head is reachable through any index
	if _, err := bc.BlockByNumber(want.Block.Number + 1); err == nil {
		return fail("block-above-head-reachable", map[string]any{})
	}
	if _, err := bc.BlockHeaderByNumber(want.Block.Number + 1); err == nil {
		return fail("header-above-head-reachable", map[string]any{})
	}
	// blocks that were offered or stored earlier but are not part of the chain (reverted, or never committed)
	// must not resolve by hash, nor their transactions by hash
	inRef := map[felt.Felt]bool{}
	txInRef := map[felt.Felt]bool{}
	for _, e := range ref {
		inRef[*e.Block.Hash] = true
		for _, tx := range e.Block.Transactions {
			txInRef[*tx.Hash()] = true
		}
	}
	for _, e := range seen {
		if !inRef[*e.Block.Hash] {
			if n, err := bc.BlockNumberByHash(e.Block.Hash); err == nil {
				return fail("hash-of-absent-block-still-resolves", map[string]any{"block": e.Block.Number, "resolves_to": n})
			}
			if _, err := bc.BlockHeaderByHash(e.Block.Hash); err == nil {
				return fail("header-of-absent-block-still-resolves-by-hash", map[string]any{"block": e.Block.Number})
			}
		}
		for _, tx := range e.Block.Transactions {
			if !txInRef[*tx.Hash()] {
				if _, _, err := bc.BlockNumberAndIndexByTxHash((*felt.TransactionHash)(tx.Hash())); err == nil {
					return fail("tx-hash-of-absent-block-still-resolves", map[string]any{"block": e.Block.Number})
				}
			}
		}
	}
	// state tries describe the head: commitment recomputed from the stored tries == header root, and reads agree
	sr, cl, err := bc.HeadState()
	if err != nil {
		return fail("head-state-fails", map[string]any{"err": err.Error()})
	}
	defer cl()
	ct, e1 := sr.ContractTrie()
	kt, e2 := sr.ClassTrie()
	if e1 == nil && e2 == nil {
		cr, _ := ct.Hash()
		kr, _ := kt.Hash()
		wc, wk := want.State.ContractRoot(), want.State.ClassRoot()
		if !cr.Equal(&wc) || !kr.Equal(&wk) {
			return fail("state-tries-do-not-match-head", map[string]any{"contract_root": cr.String(), "want": wc.String()})
		}
	}
	for a, c := range want.State.Contracts {
		a := a
		for k, v := range c.Storage {
			k := k
			got, err := sr.ContractStorage(&a, &k)
			if err != nil || !got.Equal(&v) {
				return fail("head-storage-wrong", map[string]any{"addr": a.String(), "slot": k.String(), "got": got.String(), "want": v.String()})
			}
		}
	}
	// event index vs naive scan (false negatives AND false positives at the API level are wrong answers)
	for _, from := range []*felt.Felt{nil, &chain.AddrA, &chain.AddrB} {
		got, err := queryEvents(bc, from, floor)
		wantEv := naiveEvents(ref, from, floor)
		if err != nil || strings.Join(got, ",") != strings.Join(wantEv, ",") {
			return fail("event-query-differs-from-naive-scan", map[string]any{"got": got, "want": wantEv, "err": fmt.Sprint(err)})
		}
	}
	return true
}

type seqResult struct {
	names      []string
	applicable bool
}

func baseImages(r *ev.Run, newState bool) map[string]func(pruning bool) *node {
	mk := func(stores ...string) func(pruning bool) *node {
		// build once, copy per use
		d := memory.New()
		fd0 := faultdb.Wrap(d)
		n := &node{db: fd0, fdb: fd0, newState: newState}
		n.bc = chain.NewNode(n.db, newState)
		for _, s := range stores {
			if err := storeOp(s).run(n); err != nil {
				r.Infra("base image %v: %v", stores, err)
			}
		}
		ref, seen := n.ref, n.seen
		return func(pruning bool) *node {
			fdc := faultdb.Wrap(d.Copy())
			c := &node{db: fdc, fdb: fdc, newState: newState, ref: append([]*chain.Entry{}, ref...), seen: append([]*chain.Entry{}, seen...), pruning: pruning}
			c.open()
			return c
		}
	}
	return map[string]func(pruning bool) *node{
		"empty":    mk(),
		"3-blocks": mk("deployA", "A.s0=1", "sys1.write"),
	}
}

func TestCheck(t *testing.T) {
	r := ev.Start("C05", "fault_enumeration")
	r.SetBudget(ev.Pick(r, 170, 2700))
	storeNames := ev.Pick(r, []string{"empty", "A.s0=1", "deployA"}, []string{"empty", "A.s0=1", "deployA", "A.s0=0", "declareS1"})
	var ops []op
	for _, s := range storeNames {
		ops = append(ops, storeOp(s))
	}
	ops = append(ops, opRevert, opL1, opSnapshot, opRestartG, opRestartU, opQuery, opPrune)
	depth := ev.Pick(r, 2, 3)
	stagedDepth := ev.Pick(r, 2, 3) // staged-write failures are injected into sequences up to this length
	// deeper, targeted sequences over a reduced alphabet (snapshot / reorg / restart interplay)
	deepOps := []op{storeOp("empty"), storeOp("A.s0=1"), opRevert, opSnapshot, opRestartU, opQuery}
	deepDepth := ev.Pick(r, 3, 5)

	var seqs [][]op
	var gen func(cur []op, alphabet []op, max int)
	gen = func(cur []op, alphabet []op, max int) {
		if len(cur) > 0 {
			seqs = append(seqs, append([]op{}, cur...))
		}
		if len(cur) == max {
			return
		}
		for _, o := range alphabet {
			gen(append(cur, o), alphabet, max)
		}
	}
	// scripted long histories aimed at the snapshot / reorg / restart interplay (always included, and FIRST, so that the internal deadline never cuts them on a loaded machine)
	sx, sy := storeOp("A.s0=1"), storeOp("empty")
	for _, sc := range [][]op{
		{sx, opSnapshot, opRevert, sy, opRestartU},
		{sx, sx, opSnapshot, opRevert, opRevert, sy, sy, opRestartU},
		{sx, opRestartG, opRevert, sy, opRestartU, opQuery},
		{sx, opQuery, opRevert, sy, opQuery},
		{sx, opL1, opRevert, sy, opRestartU},
		{sy, sy, opPrune, sy, opRestartU, opQuery},
		{sy, opPrune, sy, sy, opPrune, sy, opRevert},
		{sy, sy, sy, opPrune, opRestartG, sy, opPrune},
	} {
		seqs = append(seqs, sc)
	}
	nScripted := len(seqs)
	gen(nil, ops, depth)
	nShallow := len(seqs)
	gen(nil, deepOps, deepDepth)
	seen := map[string]bool{}
	var uniq [][]op
	for _, s := range seqs {
		k := seqName(s)
		if !seen[k] {
			seen[k] = true
			uniq = append(uniq, s)
		}
	}
	seqs = uniq
	r.Set("sequences_generated", int64(len(seqs)))
	_ = nShallow

	// Part R first (readers racing a block operation, see reader_test.go), then part F: both are small, and the
	// internal deadline must never cut them (see followup_test.go)
	readerRaces(r)
	if os.Getenv("VERIF_C05_ONLY_R") != "" { // development aid: part R alone
		r.Set("distinct_nontrivial", int64(2))
		r.Set("rule", "part R only (development run)")
		r.Incomplete("development run: part R only")
		r.Finish()
	}
	followUps(r, storeNames)
	if os.Getenv("VERIF_C05_ONLY_F") != "" { // development aid: part F alone
		r.Set("distinct_nontrivial", int64(2))
		r.Set("rule", "part F only (development run)")
		r.Incomplete("development run: part F only")
		r.Finish()
	}

	var mu sync.Mutex
	distinct := map[string]bool{}
	var crashRuns, faultRuns, applicableSeqs int64
	// two passes over backends x bases: the scripted histories of ALL of them first, then the generated sequences
	for pass := 0; pass < 2; pass++ {
		for _, newState := range []bool{false, true} {
			bases := baseImages(r, newState)
			for _, baseName := range []string{"empty", "3-blocks"} {
				mkNodeP := bases[baseName]
				label := fmt.Sprintf("%s base=%s", backendName(newState), baseName)
				ev.Par(len(seqs), 14, func(si int) {
					if (si < nScripted) != (pass == 0) {
						return
					}
					if r.OutOfTime() {
						r.Incomplete("sequences " + label)
						return
					}
					seq := seqs[si]
					name := seqName(seq)
					pruning := strings.Contains(name, "prune")
					mkNode := func() *node { return mkNodeP(pruning) }
					openOn := func(d *faultdb.DB) *blockchain.Blockchain {
						t := &node{db: d, fdb: d, newState: newState, pruning: pruning}
						t.open()
						return t.bc
					}
					key := func(kind string) string { return kind + " " + label }
					// ---- reference run (no fault): record commit boundaries and reference chains per op ----
					n := mkNode()
					n.fdb.SnapshotAll()
					type boundary struct {
						commit int
						ref    []*chain.Entry
						floor  uint64
					}
					bounds := []boundary{{0, append([]*chain.Entry{}, n.ref...), 0}}
					for _, o := range seq {
						err := o.run(n)
						if errors.Is(err, errNA) {
							return // sequence not applicable from this base
						}
						if err != nil {
							r.Violate(key("op-fails-without-fault "+o.name), map[string]any{"sequence": name, "err": err.Error()})
							return
						}
						bounds = append(bounds, boundary{n.fdb.Commits(), append([]*chain.Entry{}, n.ref...), n.floor})
					}
					mu.Lock()
					applicableSeqs++
					distinct[label+"/"+name] = true
					mu.Unlock()
					total := n.fdb.Commits()
					finalImage := chain.ImageHash(n.fdb.Inner())
					// the long-lived node itself must describe the reference chain at the end
					if !checkAgainstRef(r, "long-lived node, no fault", name, n.bc, n.ref, n.floor, key, map[string]any{}, n.seen...) {
						return
					}
					// ---- (a) crash after every committed write ----
					for k := 0; k <= total; k++ {
						img := n.fdb.Image(k)
						if img == nil {
							continue
						}
						// which op was in flight
						j := 0
						for j+1 < len(bounds) && bounds[j+1].commit <= k {
							j++
						}
						fresh := openOn(faultdb.Wrap(img.Copy()))
						mu.Lock()
						crashRuns++
						mu.Unlock()
						r.Add("evaluations", 1)
						detail := map[string]any{"crash_after_commit": k, "of": total, "in_flight_op": opNameAt(seq, j, bounds[j].commit == k)}
						candidates := [][]*chain.Entry{bounds[j].ref}
						if bounds[j].commit != k && j+1 < len(bounds) {
							candidates = append(candidates, bounds[j+1].ref) // mid-operation: fully absent or fully present
						}
						h, herr := fresh.Height()
						var ref []*chain.Entry
						for _, c := range candidates {
							if (len(c) == 0 && herr != nil) || (len(c) > 0 && herr == nil && h == c[len(c)-1].Block.Number) {
								ref = c
							}
						}
						if ref == nil && herr == nil {
							r.Violate(key("crash-image-height-is-neither-before-nor-after"), map[string]any{"sequence": name, "detail": detail, "height": h})
							continue
						}
						// floor: mid-operation the stricter (post-op) floor applies - everything at or above the prune
						// target must be intact in every intermediate image
						floor := bounds[j].floor
						midOp := bounds[j].commit != k && j+1 < len(bounds)
						if midOp {
							floor = bounds[j+1].floor
						}
						if !checkAgainstRef(r, "fresh node on crash image", name, fresh, ref, floor, key, detail, n.seen...) {
							continue
						}
						if midOp && seq[j].name == "prune" {
							// an interrupted prune must be resumable and end where the uninterrupted one ended
							rd := faultdb.Wrap(img.Copy())
							if _, _, err := pruner.PruneUpto(context.Background(), rd, floor, 1); err != nil {
								r.Violate(key("resumed-prune-fails-after-crash"), map[string]any{"sequence": name, "detail": detail, "err": err.Error()})
								continue
							}
							if chain.ImageHash(rd.Inner()) != chain.ImageHash(n.fdb.Image(bounds[j+1].commit)) {
								r.Violate(key("resumed-prune-ends-in-a-different-image"), map[string]any{"sequence": name, "detail": detail,
									"diff": bucketSummary(chain.DiffImages(chain.Image(n.fdb.Image(bounds[j+1].commit)), chain.Image(rd.Inner())))})
								continue
							}
						}
						// the next block can be stored normally
						tmp := &node{db: faultdb.Wrap(img.Copy()), newState: newState, ref: append([]*chain.Entry{}, ref...), pruning: pruning, floor: floor}
						tmp.open()
						if err := storeOp("empty").run(tmp); err != nil {
							r.Violate(key("next-block-cannot-be-stored-after-crash"), map[string]any{"sequence": name, "detail": detail, "err": err.Error()})
							continue
						}
						checkAgainstRef(r, "fresh node on crash image + next block", name, tmp.bc, tmp.ref, floor, key, detail)
					}
					// ---- (b) the k-th committed write fails ----
					type faultPoint struct {
						kind string
						k    int
					}
					var faults []faultPoint
					for k := 1; k <= total; k++ {
						faults = append(faults, faultPoint{"commit", k})
					}
					if len(seq) <= stagedDepth {
						// also fail every STAGED write (a Put/Delete/DeleteRange on a batch, before its commit)
						for k := 1; k <= n.fdb.Staged(); k++ {
							faults = append(faults, faultPoint{"staged-write", k})
						}
					}
					for _, fk := range faults {
						k := fk.k
						m := mkNode()
						if fk.kind == "commit" {
							m.fdb.FailAt(k, faultdb.ErrInjected)
						} else {
							m.fdb.FailStagedAt(k, faultdb.ErrInjected)
						}
						mu.Lock()
						faultRuns++
						mu.Unlock()
						r.Add("evaluations", 1)
						failedAt := -1
						var before string
						ok := true
						for i, o := range seq {
							pre := chain.ImageHash(m.fdb.Inner())
							preRef := append([]*chain.Entry{}, m.ref...)
							preFloor := m.floor
							err := o.run(m)
							if err == nil {
								continue
							}
							if !errors.Is(err, faultdb.ErrInjected) && !strings.Contains(err.Error(), "injected") {
								r.Violate(key("unexpected-error-under-fault "+o.name), map[string]any{"sequence": name, "fault": fk.kind, "k": k, "err": err.Error()})
								ok = false
								break
							}
							failedAt, before = i, pre
							detail := map[string]any{"fault": fk.kind, "k": k, "failed_op": o.name, "op_index": i}
							checkFloor := preFloor
							if o.name == "prune" {
								// a prune is a multi-batch operation: earlier batches stay durable; everything at or above
								// its target must be intact, and it must be resumable
								checkFloor = preRef[len(preRef)-1].Block.Number
							} else if chain.ImageHash(m.fdb.Inner()) != before { // nothing of the failed operation is durable
								r.Violate(key("failed-"+opClass(o.name)+"-left-partial-writes"), map[string]any{"sequence": name, "detail": detail,
									"diff": chain.DiffImages(chain.Image(m.fdb.Inner()), chain.Image(m.fdb.Inner()))})
								ok = false
								break
							}
							// memory == disk: WITHOUT restart the node still describes the pre-op chain
							if !checkAgainstRef(r, "long-lived node after failed "+opClass(o.name), name, m.bc, preRef, checkFloor, func(kind string) string {
								return key("memory-disagrees-with-disk-after-failed-" + opClass(o.name) + " " + kind)
							}, detail) {
								ok = false
								break
							}
							// retry succeeds
							m.ref = preRef
							if err := o.run(m); err != nil {
								r.Violate(key("retry-after-failed-"+opClass(o.name)+"-fails"), map[string]any{"sequence": name, "detail": detail, "err": err.Error()})
								ok = false
							}
							break
						}
						if !ok {
							continue
						}
						if failedAt < 0 {
							// The injected failure was not reported by any operation (it hit a write whose error is legitimately
							// irrelevant, or it was swallowed). Either way the node must describe its reference chain.
							r.Outcome("injected-" + fk.kind + "-failure-not-reported")
							checkAgainstRef(r, "long-lived node after an unreported injected failure", name, m.bc, m.ref, m.floor, func(kind string) string {
								return key("unreported-" + fk.kind + "-failure-leaves-inconsistent-node " + kind)
							}, map[string]any{"fault": fk.kind, "k": k}, m.seen...)
							continue
						}
						for _, o := range seq[failedAt+1:] {
							if err := o.run(m); err != nil {
								r.Violate(key("op-fails-after-recovered-fault "+o.name), map[string]any{"sequence": name, "fault": fk.kind, "k": k, "err": err.Error()})
								ok = false
								break
							}
						}
						if !ok {
							continue
						}
						if chain.ImageHash(m.fdb.Inner()) != finalImage {
							// tolerated only if observationally identical to the no-fault twin
							if !checkAgainstRef(r, "long-lived node after recovered fault", name, m.bc, m.ref, m.floor, key, map[string]any{"fault": fk.kind, "k": k}, m.seen...) {
								continue
							}
							r.Outcome("final-image-differs-but-observations-agree")
						} else {
							r.Outcome("final-image-equals-no-fault-twin")
						}
					}
				})
			}
		}
	}
	pebbleDurability(r, seqs, ev.Pick(r, 2, 3))
	r.Set("applicable_sequences", applicableSeqs)
	r.Set("crash_points", crashRuns)
	r.Set("fault_points", faultRuns)
	r.Set("distinct_nontrivial", int64(len(distinct)))
	r.Set("rule", fmt.Sprintf("all operation sequences <=%d over {store x%d, revert, setL1Head, persistFilterSnapshot, restart-graceful, restart-ungraceful, query} plus all sequences <=%d over {store x2, revert, persistFilterSnapshot, restart-ungraceful, query}, "+
		"from base images {empty, 3-block chain}, both state backends; for every applicable sequence: crash after EVERY committed write k (fresh node on the frozen image) and error injected into EVERY committed write k (and, for the short sequences, into every staged batch write); "+
		"oracle = reference chain (before or after the in-flight op): all block/tx/receipt/state-update/lookup accessors, tries recomputed == head commitment, head storage, event queries == naive scan, next block stores; "+
		"after an injected failure: no partial writes, the SAME node object still answers like the pre-op chain, the retry succeeds and the run ends like the no-fault twin; part F (follow-ups other than the retry after a failed operation on the node that stays up): see followup_rule; part R (a reader run to completion at every KV-store call of a store / revert, incl. at the 8192-block window boundary): see race_rule", depth, len(storeNames), deepDepth))
	r.Sample(map[string]any{"sequence": "store:A.s0=1 ; persistFilterSnapshot ; revert ; store:empty ; restart-ungraceful", "then": "crash after each commit / fail each commit"})
	r.Sample(map[string]any{"sequences": len(seqs), "applicable_x_bases_x_backends": applicableSeqs})
	r.Assume = append(r.Assume, "a committed write (batch) is atomic at the KV seam (backend contract, see C15); crashes are modelled between commits", "crash points inside an operation are enumerated on the memory backend under the faultdb proxy; on pebblev2 (crashable MemFS) a power loss is taken after every operation with only synced data surviving; the crash atomicity of one synced Pebble batch is trusted")
	r.Finish()
}

func bucketSummary(diff []string) string {
	m := map[string]int{}
	for _, d := range diff {
		if len(d) >= 3 {
			m[d[:3]]++
		}
	}
	return fmt.Sprint(m)
}

func seqName(s []op) string {
	n := make([]string, len(s))
	for i, o := range s {
		n[i] = o.name
	}
	return strings.Join(n, " ; ")
}

func opClass(name string) string {
	if strings.HasPrefix(name, "store:") {
		return "store"
	}
	return name
}

func opNameAt(seq []op, j int, atBoundary bool) string {
	if atBoundary || j >= len(seq) {
		return "(between operations)"
	}
	return seq[j].name
}

func backendName(ns bool) string {
	if ns {
		return "[new-state]"
	}
	return "[legacy-state]"
}
