package c13

// C13 — a validator that crashes and recovers does not contradict what it already sent.
//
// System under test: the real consensus/driver.Driver (replay of the WAL on start; execute(): WAL append / flush
// before visible effects, broadcasts, timeout scheduling, commit callback, WAL prune) + the real tendermint state
// machine + a WAL (reference WAL with explicit pending-vs-flushed semantics; thorough tier additionally the real
// consensus/walstore on the logging filesystem crashfs), inside testing/synctest bubbles (virtual time: an armed
// timeout fires only when the script says so).
//
// Enumerated, exhaustively within the stated bounds, per configuration (role x Application variant x WAL):
//   - every sequence of at most L inputs over the alphabet (peer proposals / prevotes / precommits for heights h, h+1,
//     rounds 0, 1; the validator's own armed timeouts), the process being killed at EVERY effect it performs
//     (just before / just after: WAL append, WAL flush (+ "batch landed" / "batch lost"), each broadcast, timeout
//     scheduling, commit callback, WAL prune), a NEW driver + state machine + Application incarnation being started
//     on the frozen durable state, and the remaining inputs (every enabled continuation, total length <= L; optionally
//     the input that was in flight delivered again first) being fed to it.
//
// Oracles: (1) no prevote / precommit after recovery differs from one broadcast before the kill for the same
// (height, round); (2) the new instance resumes at last-completed-commit + 1; (3) the driver replays exactly the
// durable inputs and the machine afterwards equals a reference machine fed those inputs — with the new and with the
// killed Application incarnation; (4) every pre-kill broadcast of a not yet completely committed height is derivable
// from the durable log (logged before visible).

import (
	"encoding/json"
	"fmt"
	"os"
	"sort"
	"strings"
	"testing"
	"time"

	"github.com/NethermindEth/juno/consensus/types"

	"verif/mc/ev"
)

func TestSpike(t *testing.T) {
	if os.Getenv("C13_SPIKE") == "" {
		t.Skip()
	}
	cfg := &config{Role: roleP, App: appFresh, Alpha: "core", L: 3}
	fmt.Sscan(os.Getenv("C13_L"), &cfg.L)
	fmt.Sscan(os.Getenv("C13_ROLE"), &cfg.Role)
	fmt.Sscan(os.Getenv("C13_APP"), &cfg.App)
	if a := os.Getenv("C13_ALPHA"); a != "" {
		cfg.Alpha = a
	}
	cfg.Real = os.Getenv("C13_REAL") != ""
	cfg.Redel = os.Getenv("C13_REDEL") != ""
	t0 := time.Now()
	x := exploreSubtree(t, cfg, nil, 0, nil)
	fmt.Println(cfg, "time", time.Since(t0), "infra", x.infra)
	fmt.Println(x.stats)
	fmt.Println(x.points)
	fmt.Println(x.outcomes)
	for _, k := range x.order {
		v := x.viols[k]
		fmt.Println("VIOL", v.Count, k)
		if os.Getenv("C13_SPIKE") == "2" {
			for kk, vv := range v.Detail {
				fmt.Printf("    %s: %v\n", kk, vv)
			}
		}
	}
}

type plan struct {
	cfg   config
	depth int // job prefix depth
}

func plans(r *ev.Run) []plan {
	var ps []plan
	// A pure non-proposer (roleN) never calls Value(), so the Application variant cannot matter there: roleN is run
	// with the deterministic Application at the full bound and with the fresh one at bound-1 (as a check of exactly that).
	add := func(real bool, alpha string, l, depth int, redel bool, roles ...int) {
		for _, role := range roles {
			for _, a := range []int{appDet, appFresh} {
				c := config{Role: role, App: a, Real: real, Alpha: alpha, L: l, Redel: redel}
				if role == roleN && a == appFresh {
					c.L--
				}
				d := depth
				if d > c.L {
					d = c.L
				}
				ps = append(ps, plan{c, d})
			}
		}
	}
	if r.Quick() {
		add(false, "core", 5, 2, true, roleP, roleN)
		// one more input for the non-proposer with the deterministic Application: the shortest history in which it commits a
		// height AND had received a next-height message before (6 inputs)
		ps = append(ps, plan{config{Role: roleN, App: appDet, Alpha: "core", L: 6, Redel: false}, 3})
		return ps
	}
	add(true, "core", 5, 2, true, roleP, roleN)         // the real walstore on crashfs
	for _, role := range []int{roleP, roleN} { // the real walstore whose next prune record is the 256th (file cleanup runs at the commit of h0)
		l := 5
		if role == roleN {
			l = 6
		}
		ps = append(ps, plan{config{Role: role, App: appDet, Real: true, Alpha: "core", L: l, Redel: true, Pre255: true}, 2})
	}
	add(false, "core", 6, 3, true, roleP, roleN, roleM) // reference WAL, one more input
	add(false, "core", 7, 3, true, roleP)               // proposer role: length 7 over the same alphabet
	add(false, "mini", 7, 3, false, roleP, roleN)       // length 7 over the smallest alphabet that still commits
	add(false, "wide", 4, 2, true, roleP, roleN, roleM) // every (height, round, kind, value) symbol + invalid / re-proposal
	// extra: an Application whose Valid() forgets across incarnations (see appAmnesic)
	for _, role := range []int{roleN, roleP} {
		ps = append(ps, plan{config{Role: role, App: appAmnesic, Alpha: "core", L: 4, Redel: true}, 2})
	}
	return ps
}

func allTimerSyms() []sym {
	var out []sym
	for r := 0; r < maxR; r++ {
		for st := 0; st < 3; st++ {
			out = append(out, sym{K: 't', R: r, Step: types.Step(st)})
		}
	}
	return out
}

func jobsFor(p plan, deadline int64) []wireJob {
	jobs := []wireJob{{Cfg: p.cfg, TopDepth: p.depth, Deadline: deadline}}
	syms := append(alphabet(p.cfg.Alpha), allTimerSyms()...)
	var rec func(prefix []sym)
	rec = func(prefix []sym) {
		if len(prefix) == p.depth {
			jobs = append(jobs, wireJob{Cfg: p.cfg, Prefix: append([]sym(nil), prefix...), Deadline: deadline})
			return
		}
		for _, s := range syms {
			rec(append(prefix, s))
		}
	}
	if p.cfg.L >= p.depth {
		rec(nil)
	}
	return jobs
}

func TestCheck(t *testing.T) {
	if os.Getenv("VERIF_C13_WORKER") != "" {
		workerMain(t)
		return
	}
	r := ev.Start("C13", "fault_enumeration")
	r.SetBudget(ev.Pick(r, 140, 1620))
	if f := os.Getenv("VERIF_REPLAY"); f != "" {
		replayFile(t, r, f)
		return
	}
	pl, err := newPool()
	if err != nil {
		r.Infra("cannot start worker processes: %v", err)
	}
	defer pl.close()

	type agg struct {
		stats map[string]int64
		cut   bool
	}
	perCfg := map[string]*agg{}
	points := map[string]int64{}
	outcomes := map[string]int64{}
	// per violation key the smallest failing case is reported (jobs complete in no particular order)
	type best struct {
		size   int
		detail map[string]any
		count  int64
	}
	found := map[string]*best{}
	var cfgOrder []string
	budgetEnd := time.Now().Add(time.Duration(ev.Pick(r, 140, 1620)) * time.Second)
	if b := os.Getenv("VERIF_BUDGET_S"); b != "" {
		var s int
		fmt.Sscan(b, &s)
		budgetEnd = time.Now().Add(time.Duration(s) * time.Second)
	}
	var jobs []wireJob
	for _, p := range plans(r) {
		k := p.cfg.String()
		perCfg[k] = &agg{stats: map[string]int64{}}
		cfgOrder = append(cfgOrder, k)
		jobs = append(jobs, jobsFor(p, budgetEnd.UnixNano())...)
	}
	var infra string
	err = pl.run(jobs, func(j *wireJob, res *wireRes) {
		a := perCfg[j.Cfg.String()]
		if res.Infra != "" && infra == "" {
			infra = fmt.Sprintf("%s %s: %s", j.Cfg.String(), scriptString(j.Prefix), res.Infra)
		}
		if res.Cut {
			a.cut = true
		}
		for k, v := range res.Stats {
			a.stats[k] += v
			r.Add(k, v)
		}
		for k, v := range res.Points {
			points[k] += v
		}
		for k, v := range res.Outcomes {
			outcomes[k] += v
		}
		for _, v := range res.Viols {
			var d map[string]any
			json.Unmarshal(v.Detail, &d)
			size := len(v.Detail)
			if rp, ok := d["replay"].(map[string]any); ok {
				pre, _ := rp["pre"].([]any)
				post, _ := rp["post"].([]any)
				size += 1000000 * (len(pre) + len(post))
			}
			b := found[v.Key]
			if b == nil {
				b = &best{size: size, detail: d}
				found[v.Key] = b
			} else if size < b.size {
				b.size, b.detail = size, d
			}
			b.count += int64(v.Count)
			r.Add("violating_cases", int64(v.Count))
		}
		for _, s := range res.Samples {
			var d any
			json.Unmarshal(s, &d)
			r.Sample(d)
		}
	})
	if err != nil {
		r.Infra("%v", err)
	}
	if infra != "" {
		r.Infra("%s", infra)
	}
	for k, b := range found {
		b.detail["failing_cases"] = b.count
		r.Violate(k, b.detail)
	}
	per := map[string]any{}
	for _, k := range cfgOrder {
		a := perCfg[k]
		per[k] = a.stats
		if a.cut {
			r.Incomplete("internal deadline: not all subtrees explored for " + k)
		}
		if !a.cut && (a.stats["scripts"] == 0 || a.stats["crash_points"] == 0) {
			r.Infra("vacuous exploration for %s", k)
		}
	}
	r.Set("per_configuration", per)
	r.Set("crash_points_by_kind", points)
	r.Set("recoveries_by_outcome", outcomes)
	for k := range outcomes {
		r.Outcome(k)
	}
	var kinds []string
	for k := range points {
		kinds = append(kinds, k)
	}
	sort.Strings(kinds)
	r.Set("evaluations", r.Get("crash_executions"))
	r.Set("distinct_nontrivial", r.Get("distinct_recovered_states"))
	r.Set("rule", "per configuration (role x Application variant x WAL): every input sequence of total length <= L over the alphabet, "+
		"the process killed just before and just after every effect the driver performs (WAL append, WAL flush incl. batch lost/landed, "+
		"each broadcast, timeout scheduling, commit callback, WAL prune; each kill is a real re-execution stopped by a sentinel panic), and, at every commit callback, "+
		"an ORDERLY stop inside it (service context cancelled, callback reports failure, Driver.Run returns and its deferred Close runs on the live store; durable state = what that exit leaves), a new "+
		"driver/machine/Application incarnation booted on the frozen durable state and fed every enabled continuation (and, separately, the "+
		"in-flight input again first); evaluations = (crash point, continuation) pairs judged; distinct_nontrivial = distinct recovered durable "+
		"states booted; kinds of crash point seen: "+strings.Join(kinds, ", "))
	r.Assume = append(r.Assume,
		"validator set: 4 validators of power 1 (f=1, quorum 3); peers A then B send votes (each at most one vote per kind/height/round), C is silent, so no future-height precommit quorum (TriggerSync / block fetcher are outside this property)",
		"one stop per execution; a kill takes the whole process image (kill -9): nothing buffered survives, only what the WAL store made durable and the blocks whose commit callback returned; "+
			"an orderly stop is only injected inside commit callbacks (the one place where the driver consults its context in the middle of an action list)",
		"a restarted node builds its state machine at blockchain height + 1 exactly as consensus.Init does; Application.Valid is deterministic",
		"reference WAL = the documented TendermintWALStore contract (pending until Flush, batch atomic); real walstore tier: crash images at whole filesystem-op granularity, namespace ops durable (byte cuts / torn tails / metadata lag are C14's)",
		"timeouts: virtual time (testing/synctest); an armed timer fires only where the script has the matching timeout symbol; stale timers that cause no effect are not enumerated as inputs",
	)
	r.Finish()
}

func replayFile(t *testing.T, r *ev.Run, f string) {
	b, err := os.ReadFile(f)
	if err != nil {
		r.Infra("cannot read replay file: %v", err)
	}
	var doc struct {
		Key    string `json:"key"`
		Detail struct {
			Replay struct {
				Cfg  config   `json:"cfg"`
				Pre  []string `json:"pre"`
				Post []string `json:"post"`
			} `json:"replay"`
		} `json:"detail"`
	}
	if err := json.Unmarshal(b, &doc); err != nil {
		r.Infra("bad replay file: %v", err)
	}
	cfg := doc.Detail.Replay.Cfg
	var pre []sym
	for _, n := range doc.Detail.Replay.Pre {
		s, err := parseSym(n)
		if err != nil {
			r.Infra("%v", err)
		}
		pre = append(pre, s)
	}
	cfg.L = len(pre) + len(doc.Detail.Replay.Post)
	x := exploreSubtree(t, &cfg, pre, len(pre)+1, nil)
	if x.infra != "" {
		r.Infra("%s", x.infra)
	}
	fmt.Printf("replay of %q: %s inputs_before_crash=%s, recovery continuations up to %d inputs\n", doc.Key, cfg.String(), scriptString(pre), len(doc.Detail.Replay.Post))
	for _, k := range x.order {
		v := x.viols[k]
		fmt.Printf("  reproduced: %s (%d cases)\n", k, v.Count)
		r.Violate(k, v.Detail)
	}
	for k, v := range x.stats {
		r.Add(k, v)
	}
	r.Set("evaluations", r.Get("crash_executions"))
	r.Set("distinct_nontrivial", r.Get("distinct_recovered_states"))
	r.Set("rule", "replay of one recorded case")
	r.Sample(map[string]any{"replayed": doc.Key})
	r.Finish()
}
