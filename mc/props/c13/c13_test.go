package c13

import (
	"fmt"
	"os"
	"testing"
	"time"
)

func TestSpike(t *testing.T) {
	if os.Getenv("C13_SPIKE") == "" {
		t.Skip()
	}
	cfg := &config{Role: roleP, App: appFresh, Alpha: "core", L: 3}
	fmt.Sscan(os.Getenv("C13_L"), &cfg.L)
	fmt.Sscan(os.Getenv("C13_ROLE"), &cfg.Role)
	fmt.Sscan(os.Getenv("C13_APP"), &cfg.App)
	if a := os.Getenv("C13_ALPHA"); a != "" {
		cfg.Alpha = a
	}
	cfg.Real = os.Getenv("C13_REAL") != ""
	t0 := time.Now()
	x := exploreSubtree(t, cfg, nil, nil)
	fmt.Println(cfg, "time", time.Since(t0), "infra", x.infra)
	fmt.Println(x.stats)
	fmt.Println(x.points)
	fmt.Println(x.outcomes)
	for _, k := range x.order {
		v := x.viols[k]
		fmt.Println("VIOL", v.Count, k)
		for kk, vv := range v.Detail {
			fmt.Printf("    %s: %v\n", kk, vv)
		}
	}
	for _, s := range x.samples {
		fmt.Println("SAMPLE", s)
	}
}
