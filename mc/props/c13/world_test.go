package c13

// World of one validator process under test: the REAL consensus/driver.Driver + the REAL tendermint state machine,
// everything around them owned by the harness (WAL store, broadcasters, listeners, commit listener, Application,
// validator set, timers through a testing/synctest bubble). Every externally visible or durable action of the
// driver passes through a harness object and is numbered as an EFFECT; a run can be told to stop the process
// immediately before or after effect k (sentinel panic raised inside the harness object, recovered around
// Driver.Run; from that instant every harness object is inert, so neither the deferred Close() of Driver.Run nor
// anything else can change the durable state any more = kill -9).

import (
	"context"
	"fmt"
	"iter"
	"sort"
	"strings"
	"testing/synctest"
	"time"

	"github.com/NethermindEth/juno/consensus/driver"
	"github.com/NethermindEth/juno/consensus/p2p"
	"github.com/NethermindEth/juno/consensus/starknet"
	"github.com/NethermindEth/juno/consensus/tendermint"
	"github.com/NethermindEth/juno/consensus/types"
	"github.com/NethermindEth/juno/consensus/types/wal"
	"github.com/NethermindEth/juno/consensus/walstore"
	"github.com/NethermindEth/juno/core/felt"
	junosync "github.com/NethermindEth/juno/sync"
	"github.com/NethermindEth/juno/utils/log"
)

type (
	V = starknet.Value
	H = starknet.Hash
	A = starknet.Address

	walStore = walstore.TendermintWALStore[V, H, A]
	machine  = tendermint.StateMachine[V, H, A]
	entry    = wal.Entry[V, H, A]
)

// first height of every run; "committed" starts at h0-1. Above 256 so that the Pre255 configurations can put 255 prune
// records (heights 1..255) below it; 305 = 1 mod 4 keeps the proposer rotation of the scripts.
const h0 = types.Height(305)

// ---------- validator set ----------

// Four validators of voting power 1 (f = 1, quorum = 3). S is the validator under test; A and B are the peers that
// speak (self + A + B = quorum); C stays silent (so no future-height precommit quorum / TriggerSync can form: the
// block fetcher is outside this property).
var (
	addrS = felt.FromUint64[A](1)
	addrA = felt.FromUint64[A](2)
	addrB = felt.FromUint64[A](3)
	addrC = felt.FromUint64[A](4)
	peers = []A{addrA, addrB}
)

func addrName(a A) string {
	switch a {
	case addrS:
		return "S"
	case addrA:
		return "A"
	case addrB:
		return "B"
	case addrC:
		return "C"
	}
	return "?"
}

const (
	roleP = iota // S proposes round 0 of every height, A round 1
	roleN        // pure non-proposer: A proposes round 0, B round 1
	roleM        // A proposes round 0, S round 1 (becomes proposer after a failed round)
)

var roleNames = []string{"proposer", "non-proposer", "round1-proposer"}

type validators struct{ role int }

func (v validators) TotalVotingPower(types.Height) types.VotingPower         { return 4 }
func (v validators) ValidatorVotingPower(types.Height, *A) types.VotingPower { return 1 }
func (v validators) Proposer(_ types.Height, r types.Round) A {
	even := r%2 == 0
	switch v.role {
	case roleP:
		if even {
			return addrS
		}
		return addrA
	case roleN:
		if even {
			return addrA
		}
		return addrB
	default:
		if even {
			return addrA
		}
		return addrS
	}
}

// ---------- Application ----------

const (
	appDet   = iota // Value() is a function of (height, number of calls at that height): identical in every incarnation
	appFresh        // Value() additionally depends on the process incarnation (as the real proposer's: wall clock + mempool)
	// appAmnesic (extra, thorough tier only): Value() deterministic, but Valid(v) holds only for values THIS process
	// incarnation has received or built (the real proposer.Valid is proposalStore.Get(hash) != nil and the proposal
	// store lives in memory only).
	appAmnesic
)

var appNames = []string{"det", "fresh", "amnesic-valid"}

type app struct {
	Variant int
	Inc     int
	H       types.Height // height of the machine, set by the harness before every call into the machine
	LastH   types.Height
	N       int
	// heights at which Value() was called (the proposer's own value was derived from the Application)
	CallHeights []types.Height
	Known       map[V]bool // appAmnesic only
}

func (a *app) learn(v V) {
	if a.Variant == appAmnesic {
		if a.Known == nil {
			a.Known = map[V]bool{}
		}
		a.Known[v] = true
	}
}

func (a *app) knownList() []V {
	var out []V
	for v := range a.Known {
		out = append(out, v)
	}
	return out
}

func mkValue(n uint64) V { return felt.FromUint64[V](n) }

func valName(v *V) string {
	if v == nil {
		return "nil"
	}
	f := felt.Felt(*v)
	return fmt.Sprintf("v%d", f.Uint64())
}

func idName(h *H) string {
	if h == nil {
		return "nil"
	}
	f := felt.Felt(*h)
	return fmt.Sprintf("v%d", f.Uint64())
}

func (a *app) Value() V {
	if a.H != a.LastH {
		a.LastH, a.N = a.H, 0
	}
	a.N++
	a.CallHeights = append(a.CallHeights, a.H)
	n := uint64(a.H)*100 + uint64(a.N)
	if a.Variant == appFresh {
		n += uint64(a.Inc+1) * 10000
	}
	v := mkValue(n)
	a.learn(v)
	return v
}

var invalidValue = mkValue(666)

func (a *app) Valid(v V) bool {
	if a.Variant == appAmnesic && !a.Known[v] {
		return false
	}
	return v != invalidValue
}

// peerValue is the value a peer proposes for (h, r).
func peerValue(h types.Height, r types.Round) V { return mkValue(uint64(h)*100 + 50 + uint64(r)) }

// ---------- reference WAL (quick tier; the thorough tier additionally mounts the real walstore on crashfs) ----------
//
// Mirrors the documented contract of walstore.TendermintWALStore: SetWALEntry / DeleteWALEntries only buffer
// (pending); Flush makes the whole pending batch durable atomically, in order; LoadAllEntries shows durable
// entries only, ordered by height then insertion; entries at or below the durable prune watermark are dropped.

type walRec struct {
	prune  bool
	height types.Height
	e      entry
}

type durable struct {
	byHeight map[types.Height][]entry
	pruned   types.Height
}

func (d *durable) clone() *durable {
	c := &durable{byHeight: make(map[types.Height][]entry, len(d.byHeight)), pruned: d.pruned}
	for h, es := range d.byHeight {
		c.byHeight[h] = append([]entry(nil), es...)
	}
	return c
}

func (d *durable) apply(recs []walRec) {
	for _, r := range recs {
		if r.prune {
			if r.height > d.pruned {
				d.pruned = r.height
				for h := range d.byHeight {
					if h <= r.height {
						delete(d.byHeight, h)
					}
				}
			}
			continue
		}
		if r.height <= d.pruned {
			continue
		}
		d.byHeight[r.height] = append(d.byHeight[r.height], r.e)
	}
}

// entries returns fresh copies (the machine keeps pointers into what it is given).
func (d *durable) entries() []entry {
	hs := make([]types.Height, 0, len(d.byHeight))
	for h := range d.byHeight {
		hs = append(hs, h)
	}
	sort.Slice(hs, func(i, j int) bool { return hs[i] < hs[j] })
	var out []entry
	for _, h := range hs {
		for _, e := range d.byHeight[h] {
			out = append(out, copyEntry(e))
		}
	}
	return out
}

func (d *durable) key() string {
	var sb strings.Builder
	fmt.Fprintf(&sb, "pruned<=%d", d.pruned)
	for _, e := range d.entries() {
		sb.WriteByte(' ')
		sb.WriteString(entryName(e))
	}
	return sb.String()
}

func copyEntry(e entry) entry {
	switch x := e.(type) {
	case *wal.Start:
		c := *x
		return &c
	case *wal.Proposal[V, H, A]:
		c := *x
		if x.Value != nil {
			v := *x.Value
			c.Value = &v
		}
		return &c
	case *wal.Prevote[H, A]:
		c := *x
		if x.ID != nil {
			id := *x.ID
			c.ID = &id
		}
		return &c
	case *wal.Precommit[H, A]:
		c := *x
		if x.ID != nil {
			id := *x.ID
			c.ID = &id
		}
		return &c
	case *wal.Timeout:
		c := *x
		return &c
	}
	panic(fmt.Sprintf("unknown WAL entry %T", e))
}

func entryName(e entry) string {
	switch x := e.(type) {
	case *wal.Start:
		return fmt.Sprintf("start(%d)", *x)
	case *wal.Proposal[V, H, A]:
		return fmt.Sprintf("proposal(%d/%d %s vr=%d %s)", x.Height, x.Round, addrName(x.Sender), x.ValidRound, valName(x.Value))
	case *wal.Prevote[H, A]:
		return fmt.Sprintf("prevote(%d/%d %s %s)", x.Height, x.Round, addrName(x.Sender), idName(x.ID))
	case *wal.Precommit[H, A]:
		return fmt.Sprintf("precommit(%d/%d %s %s)", x.Height, x.Round, addrName(x.Sender), idName(x.ID))
	case *wal.Timeout:
		return fmt.Sprintf("timeout(%d/%d %s)", x.Height, x.Round, x.Step)
	}
	return fmt.Sprintf("%T", e)
}

// walBackend is what the effect-recording store proxy drives: the reference WAL or the real walstore on crashfs.
type walBackend interface {
	set(e entry) error
	prune(h types.Height) error
	flush() error
	load() iter.Seq2[entry, error]
	close() error
}

type refWAL struct {
	d       *durable
	pending []walRec
}

func newRefWAL(d *durable) *refWAL { return &refWAL{d: d} }

func (s *refWAL) set(e entry) error {
	h := e.GetHeight()
	if h <= s.d.pruned {
		return nil
	}
	s.pending = append(s.pending, walRec{height: h, e: copyEntry(e)})
	return nil
}

func (s *refWAL) prune(h types.Height) error {
	if h <= s.d.pruned {
		return nil
	}
	for i := range s.pending {
		if s.pending[i].prune {
			if h > s.pending[i].height {
				s.pending[i].height = h
			}
			return nil
		}
	}
	s.pending = append(s.pending, walRec{prune: true, height: h})
	return nil
}

func (s *refWAL) flush() error {
	s.d.apply(s.pending)
	s.pending = s.pending[:0]
	return nil
}

func (s *refWAL) load() iter.Seq2[entry, error] {
	es := s.d.entries()
	return func(yield func(entry, error) bool) {
		for _, e := range es {
			if !yield(e, nil) {
				return
			}
		}
	}
}

func (s *refWAL) close() error { return s.flush() }

// ---------- effects ----------

type effect struct {
	Kind  byte // A append, F flush, P/V/C broadcast proposal/prevote/precommit, T timeout scheduling, K commit callback, D prune
	Inc   int
	Input int // index of the input being processed in its phase (-1 = start / replay)
	Batch int // number of Process* calls the driver had made into the machine: effects of one action list share it
	Desc  string
}

func (e effect) String() string { return fmt.Sprintf("%c:%s", e.Kind, e.Desc) }

const (
	crashBefore = 0
	crashAfter  = 1
	// stopInCommit: not a kill. The service context is cancelled while the driver is inside the commit callback of
	// effect k (the node is shutting down while the block is being persisted): the callback reports failure, the commit
	// does not complete, and the driver winds down on its own orderly path (Driver.Run returns, its deferred Close()
	// runs with every harness object LIVE). The durable state is what that orderly exit leaves behind.
	stopInCommit = 2
)

type crashSpec struct {
	At   int // effect index
	When int
	Dump bool // take the canonical dump of the killed process's machine at the kill instant
}

type sentinel struct{}

// vote identifies an own vote on the wire.
type voteKey struct {
	Kind byte // V prevote, C precommit, P proposal
	H    types.Height
	R    types.Round
}

type bcast struct {
	voteKey
	ID string // value / id name
}

// world = what survives across incarnations (durable state, the network's memory) + the trace.
type world struct {
	cfg *config

	ref       *durable // durable state of the reference WAL (nil when the real walstore is used)
	real      *realDisk
	committed types.Height // last height whose commit callback returned

	effects []effect
	crash   *crashSpec
	dead    bool // the process has been killed: all harness objects are inert
	stopped bool // the process was told to stop inside a commit callback (stopInCommit) and is winding down
	// frozen at the kill instant
	deadRef       *durable
	deadCommitted types.Height
	deadOps       int

	inc    int
	bcasts [2][]bcast // per incarnation, in order
	net    netState

	// script of the current phase
	script   []sym
	cur      int
	assigned []bool
	t0       time.Time

	infra string
	viol  []violation

	wantDump bool // take the canonical machine dumps at the end of the replay

	batch    int
	proc     *proc  // the running incarnation
	killCore string // dump of its machine at the kill instant (crash.Dump)
}

type violation struct {
	key    string
	detail map[string]any
}

func (w *world) violate(key string, detail map[string]any) {
	w.viol = append(w.viol, violation{key, detail})
}

// enter numbers an effect; it kills the process first if the crash point is "before this effect".
// It returns -1 when the process is already dead (the caller must then do nothing).
func (w *world) enter(kind byte, desc string) int {
	if w.dead {
		return -1
	}
	idx := len(w.effects)
	if w.crash != nil && w.crash.At == idx && w.crash.When == crashBefore {
		w.kill()
	}
	w.effects = append(w.effects, effect{Kind: kind, Inc: w.inc, Input: w.cur, Batch: w.batch, Desc: desc})
	return idx
}

func (w *world) leave(idx int) {
	if w.crash != nil && w.crash.At == idx && w.crash.When == crashAfter {
		w.kill()
	}
}

func (w *world) kill() {
	w.dead = true
	if w.ref != nil {
		w.deadRef = w.ref.clone()
	}
	if w.real != nil {
		w.deadOps = w.real.fs.NumOps()
	}
	w.deadCommitted = w.committed
	if w.crash != nil && w.crash.Dump && w.proc != nil {
		// the driver goroutine is inside a harness object: the machine is not being mutated
		w.killCore = dumpCore(w.proc.sm)
	}
	panic(sentinel{})
}

// ---------- one incarnation ----------

type timerRec struct {
	Step  types.Step
	Round types.Round
	H     types.Height
	Pos   int // script position it will fire at, -1 = not within this run
	Fired bool
}

type proc struct {
	w      *world
	inc    int
	app    *app
	sm     machine
	be     walBackend
	drv    driver.Driver[V, H, A]
	cancel context.CancelFunc
	done   chan struct{}
	runErr error
	panicV any

	chP chan *starknet.Proposal
	chV chan *starknet.Prevote
	chC chan *starknet.Precommit

	timers []*timerRec

	replayDone     bool
	replayed       []string
	replayCommits  []types.Height
	dumpAfterRplay string
	coreAfterRplay string
	firstStart     types.Height
	closed         bool
}

// --- state machine proxy: records what the driver feeds during replay and keeps app.H current ---

type smProxy struct {
	machine
	p *proc
}

func (s *smProxy) sync() {
	s.p.app.H = s.machine.Height()
	s.p.w.batch++
}

func (s *smProxy) ProcessStart(r types.Round) []starknet.Action {
	if !s.p.replayDone {
		// the first ProcessStart issued by the driver itself (not through ProcessWAL) ends the replay
		s.p.replayDone = true
		s.p.firstStart = s.machine.Height()
		if s.p.w.wantDump {
			s.p.dumpAfterRplay = dumpMachine(s.machine)
			s.p.coreAfterRplay = dumpCore(s.machine)
		}
	}
	s.sync()
	return s.machine.ProcessStart(r)
}

func (s *smProxy) ProcessTimeout(t types.Timeout) []starknet.Action {
	s.sync()
	return s.machine.ProcessTimeout(t)
}

func (s *smProxy) ProcessProposal(m *starknet.Proposal) []starknet.Action {
	s.sync()
	return s.machine.ProcessProposal(m)
}

func (s *smProxy) ProcessPrevote(m *starknet.Prevote) []starknet.Action {
	s.sync()
	return s.machine.ProcessPrevote(m)
}

func (s *smProxy) ProcessPrecommit(m *starknet.Precommit) []starknet.Action {
	s.sync()
	return s.machine.ProcessPrecommit(m)
}

func (s *smProxy) ProcessWAL(e entry) []starknet.Action {
	s.p.replayed = append(s.p.replayed, entryName(e))
	s.sync()
	return s.machine.ProcessWAL(e)
}

// --- WAL store proxy ---

type storeProxy struct{ p *proc }

var _ walStore = (*storeProxy)(nil)

func (s *storeProxy) SetWALEntry(e entry) error {
	w := s.p.w
	idx := w.enter('A', entryName(e))
	if idx < 0 {
		return nil
	}
	err := s.p.be.set(e)
	w.leave(idx)
	return err
}

func (s *storeProxy) DeleteWALEntries(h types.Height) error {
	w := s.p.w
	idx := w.enter('D', fmt.Sprintf("prune<=%d", h))
	if idx < 0 {
		return nil
	}
	err := s.p.be.prune(h)
	w.leave(idx)
	return err
}

func (s *storeProxy) Flush() error {
	w := s.p.w
	idx := w.enter('F', "flush")
	if idx < 0 {
		return nil
	}
	if w.real != nil {
		w.real.flushFrom = append(w.real.flushFrom, flushSpan{idx, w.real.fs.NumOps(), -1})
	}
	err := s.p.be.flush()
	if w.real != nil {
		w.real.flushFrom[len(w.real.flushFrom)-1].to = w.real.fs.NumOps()
	}
	w.leave(idx)
	return err
}

func (s *storeProxy) LoadAllEntries() iter.Seq2[entry, error] {
	if s.p.w.dead {
		return func(func(entry, error) bool) {}
	}
	return s.p.be.load()
}

// Close is called by the deferred function of Driver.Run — also while the sentinel panic unwinds. A killed
// process must not flush anything any more.
func (s *storeProxy) Close() error {
	if s.p.w.dead {
		return nil
	}
	s.p.closed = true
	return s.p.be.close()
}

// --- broadcasters ---

type bcP struct{ p *proc }
type bcV struct{ p *proc }
type bcC struct{ p *proc }

func (b bcP) Broadcast(_ context.Context, m *starknet.Proposal) {
	w := b.p.w
	idx := w.enter('P', fmt.Sprintf("proposal(%d/%d vr=%d %s)", m.Height, m.Round, m.ValidRound, valName(m.Value)))
	if idx < 0 {
		return
	}
	w.bcasts[b.p.inc] = append(w.bcasts[b.p.inc], bcast{voteKey{'P', m.Height, m.Round}, valName(m.Value)})
	w.net.sawProposal(m.Height, m.Round, *m.Value)
	w.leave(idx)
}

func (b bcV) Broadcast(_ context.Context, m *starknet.Prevote) {
	w := b.p.w
	idx := w.enter('V', fmt.Sprintf("prevote(%d/%d %s)", m.Height, m.Round, idName(m.ID)))
	if idx < 0 {
		return
	}
	w.bcasts[b.p.inc] = append(w.bcasts[b.p.inc], bcast{voteKey{'V', m.Height, m.Round}, idName(m.ID)})
	w.leave(idx)
}

func (b bcC) Broadcast(_ context.Context, m *starknet.Precommit) {
	w := b.p.w
	idx := w.enter('C', fmt.Sprintf("precommit(%d/%d %s)", m.Height, m.Round, idName(m.ID)))
	if idx < 0 {
		return
	}
	w.bcasts[b.p.inc] = append(w.bcasts[b.p.inc], bcast{voteKey{'C', m.Height, m.Round}, idName(m.ID)})
	w.leave(idx)
}

// --- listeners ---

type lis[M any] struct{ ch chan M }

func (l lis[M]) Listen() <-chan M { return l.ch }

// --- commit listener: the commit "completes" (block persisted) when OnCommit returns true ---

type commitL struct{ p *proc }

func (c commitL) OnCommit(_ context.Context, h types.Height, v V) bool {
	w := c.p.w
	idx := w.enter('K', fmt.Sprintf("commit(%d %s)", h, valName(&v)))
	if idx < 0 {
		return false
	}
	if w.crash != nil && w.crash.When == stopInCommit && w.crash.At == idx {
		w.stopped = true
		c.p.cancel()
		return false // the block was not persisted: this commit did not complete
	}
	if h != w.committed+1 {
		w.violate(fmt.Sprintf("commit-callback-out-of-order [replaying=%v]", !c.p.replayDone),
			map[string]any{"height": uint64(h), "last_completed_commit": uint64(w.committed)})
	} else {
		w.committed = h
	}
	if !c.p.replayDone {
		c.p.replayCommits = append(c.p.replayCommits, h)
	}
	w.leave(idx)
	return true
}

func (c commitL) Listen() <-chan junosync.CommittedBlock { return nil }

// --- timeouts ---

const (
	slot    = time.Hour
	forever = 1000000 * time.Hour
)

func (w *world) fireTime(pos int) time.Time {
	rank := 0
	for j := 0; j <= pos; j++ {
		if w.script[j].K == 't' {
			rank++
		}
	}
	return w.t0.Add(time.Duration(rank) * slot)
}

// getTimeout is the driver's TimeoutFn. The timer it is about to arm fires at the virtual instant of the next
// script position that asks for a (step, round) timeout and is not yet taken by an earlier timer; otherwise it never
// fires within this run (and is reported as an enabled timeout symbol for longer scripts).
func (p *proc) getTimeout(step types.Step, round types.Round) time.Duration {
	w := p.w
	h := p.sm.Height()
	idx := w.enter('T', fmt.Sprintf("schedule(%d/%d %s)", h, round, step))
	if idx < 0 {
		return forever
	}
	tr := &timerRec{Step: step, Round: round, H: h, Pos: -1}
	d := forever
	for j := w.cur + 1; j < len(w.script); j++ {
		s := w.script[j]
		if s.K == 't' && s.Step == step && types.Round(s.R) == round && !w.assigned[j] {
			w.assigned[j] = true
			tr.Pos = j
			d = time.Until(w.fireTime(j))
			if d <= 0 {
				w.infra = "timer assigned to a past instant"
				d = forever
			}
			break
		}
	}
	p.timers = append(p.timers, tr)
	w.leave(idx)
	return d
}

// ---------- running an incarnation ----------

func (w *world) newBackend() walBackend {
	if w.real != nil {
		return w.real.open(w)
	}
	return newRefWAL(w.ref)
}

// boot starts a new process on the current durable state: a fresh state machine at last-completed-commit + 1
// (what consensus.Init does with the blockchain height), a fresh Application incarnation and a fresh Driver.
func (w *world) boot() *proc {
	p := &proc{w: w, inc: w.inc}
	w.proc = p
	p.app = &app{Variant: w.cfg.App, Inc: w.inc}
	p.sm = tendermint.New[V, H, A](log.NewNopZapLogger(), addrS, p.app, validators{w.cfg.Role}, w.committed+1)
	p.be = w.newBackend()
	if w.infra != "" {
		return p
	}
	p.chP = make(chan *starknet.Proposal)
	p.chV = make(chan *starknet.Prevote)
	p.chC = make(chan *starknet.Precommit)
	p.drv = driver.New[V, H, A](
		log.NewNopZapLogger(),
		&storeProxy{p},
		&smProxy{p.sm, p},
		commitL{p},
		p2p.Broadcasters[V, H, A]{ProposalBroadcaster: bcP{p}, PrevoteBroadcaster: bcV{p}, PrecommitBroadcaster: bcC{p}},
		p2p.Listeners[V, H, A]{ProposalListener: lis[*starknet.Proposal]{p.chP}, PrevoteListener: lis[*starknet.Prevote]{p.chV},
			PrecommitListener: lis[*starknet.Precommit]{p.chC}},
		nil, nil,
		p.getTimeout,
	)
	ctx, cancel := context.WithCancel(context.Background())
	p.cancel = cancel
	p.done = make(chan struct{})
	go func() {
		defer close(p.done)
		defer func() {
			if x := recover(); x != nil {
				if _, ok := x.(sentinel); !ok {
					p.panicV = x
				}
			}
		}()
		p.runErr = p.drv.Run(ctx)
	}()
	synctest.Wait()
	return p
}

func (p *proc) exited() bool {
	select {
	case <-p.done:
		return true
	default:
		return false
	}
}

// stop ends the incarnation (clean shutdown if it is still alive) and waits for all its goroutines.
func (p *proc) stop() {
	if p.cancel != nil {
		p.cancel()
		<-p.done
		synctest.Wait()
	}
}

// deliver hands one concrete input to the running driver and waits until it is quiescent again.
func (p *proc) deliver(in input) {
	if p.exited() {
		return
	}
	switch {
	case in.prop != nil:
		p.app.learn(*in.prop.Value) // the proposal's content reaches the application before the consensus message does
		select {
		case p.chP <- in.prop:
		case <-p.done:
		}
	case in.pv != nil:
		select {
		case p.chV <- in.pv:
		case <-p.done:
		}
	case in.pc != nil:
		select {
		case p.chC <- in.pc:
		case <-p.done:
		}
	case in.timeout:
		// advance virtual time to the instant the timer assigned to this position fires
		if d := time.Until(p.w.fireTime(p.w.cur)); d > 0 {
			time.Sleep(d)
		}
	}
	synctest.Wait()
}

// pendingTimers: (step, round) of the timers of this incarnation that were armed but do not fire within this run.
func (p *proc) pendingTimers() []sym {
	seen := map[[2]int]bool{}
	var out []sym
	for _, t := range p.timers {
		if t.Pos >= 0 {
			continue
		}
		k := [2]int{int(t.Step), int(t.Round)}
		if seen[k] {
			continue
		}
		seen[k] = true
		out = append(out, sym{K: 't', Step: t.Step, R: int(t.Round)})
	}
	sort.Slice(out, func(i, j int) bool {
		if out[i].R != out[j].R {
			return out[i].R < out[j].R
		}
		return out[i].Step < out[j].Step
	})
	return out
}
