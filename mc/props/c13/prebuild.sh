#!/bin/bash
# Regenerates, from the CURRENT sources of $VERIF_REPO/consensus/walstore, copies in which the import
# of "os" is mechanically rewritten to the crashfs os shim, plus a `go build -overlay` JSON that maps
# the original paths to the copies. Prints the JSON path. Nothing else is changed, so every edit /
# mutation of walstore is preserved.
set -eu
REPO="${VERIF_REPO:-/repo}"
SUF=""
[ "$REPO" != /repo ] && SUF=".$(echo "$REPO" | tr -c 'A-Za-z0-9' '_')"
OUT="/verif/build/overlay-c13$SUF"
rm -rf "$OUT"; mkdir -p "$OUT"
SRC="$REPO/consensus/walstore"
[ -d "$SRC" ] || { echo "no $SRC" >&2; exit 1; }
JSON="$OUT/overlay.json"
{
  echo '{"Replace":{'
  first=1
  for f in "$SRC"/*.go; do
    case "$f" in *_test.go) continue;; esac
    # only files that import "os" need a copy
    grep -Eq '^(import[[:space:]]+|[[:space:]]+)"os"[[:space:]]*$' "$f" || continue
    b=$(basename "$f")
    sed -E -e 's#^([[:space:]]+)"os"[[:space:]]*$#\1os "verif/mc/crashfs/osshim"#' \
           -e 's#^import[[:space:]]+"os"[[:space:]]*$#import os "verif/mc/crashfs/osshim"#' "$f" > "$OUT/$b"
    [ $first = 1 ] || echo ','
    first=0
    printf '  "%s": "%s"' "$f" "$OUT/$b"
  done
  echo
  echo '}}'
} > "$JSON"
echo "$JSON"
