package c13

// Worker-process pool (same reason as C17: synctest bubbles do not scale across the threads of one process, a
// GOMAXPROCS=1 process per core does). A job is one subtree of the script tree (configuration + input prefix); workers
// are pure functions job -> counters / violations, so the enumeration is identical to an in-process one.

import (
	"bufio"
	"encoding/gob"
	"encoding/json"
	"fmt"
	"os"
	"os/exec"
	"runtime"
	"sync"
	"sync/atomic"
	"testing"
	"time"
)

type wireJob struct {
	Cfg      config
	Prefix   []sym
	TopDepth int   // >0: explore only the nodes above this depth (their recovery trees completely); 0: whole subtree
	Deadline int64 // unix nanoseconds, 0 = none
}

type wireViol struct {
	Key    string
	Detail []byte
	Count  int
}

type wireRes struct {
	Stats, Points, Outcomes map[string]int64
	Viols                   []wireViol
	Samples                 [][]byte
	Infra                   string
	Cut                     bool
}

func runJob(t *testing.T, j *wireJob) wireRes {
	var expired atomic.Bool
	if j.Deadline != 0 {
		d := time.Until(time.Unix(0, j.Deadline))
		if d <= 0 {
			return wireRes{Cut: true}
		}
		tm := time.AfterFunc(d, func() { expired.Store(true) }) // real timer: armed outside the bubble
		defer tm.Stop()
	}
	cfg := j.Cfg
	x := exploreSubtree(t, &cfg, j.Prefix, j.TopDepth, expired.Load)
	res := wireRes{Stats: x.stats, Points: x.points, Outcomes: x.outcomes, Infra: x.infra, Cut: x.cut}
	for _, k := range x.order {
		v := x.viols[k]
		b, _ := json.Marshal(v.Detail)
		res.Viols = append(res.Viols, wireViol{v.Key, b, v.Count})
	}
	for _, s := range x.samples {
		b, _ := json.Marshal(s)
		res.Samples = append(res.Samples, b)
	}
	return res
}

func workerMain(t *testing.T) {
	in, out := os.NewFile(3, "jobs"), os.NewFile(4, "results")
	dec := gob.NewDecoder(bufio.NewReaderSize(in, 1<<16))
	bw := bufio.NewWriterSize(out, 1<<16)
	enc := gob.NewEncoder(bw)
	for {
		var j wireJob
		if err := dec.Decode(&j); err != nil {
			return
		}
		res := runJob(t, &j)
		if err := enc.Encode(&res); err != nil {
			return
		}
		bw.Flush()
	}
}

type worker struct {
	cmd *exec.Cmd
	enc *gob.Encoder
	bw  *bufio.Writer
	dec *gob.Decoder
	in  *os.File
}

type pool struct{ ws []*worker }

func newPool() (*pool, error) {
	p := &pool{}
	k := runtime.NumCPU()
	if s := os.Getenv("VERIF_C13_WORKERS"); s != "" {
		fmt.Sscan(s, &k)
	}
	for i := 0; i < k; i++ {
		jr, jw, err := os.Pipe()
		if err != nil {
			return nil, err
		}
		rr, rw, err := os.Pipe()
		if err != nil {
			return nil, err
		}
		cmd := exec.Command(os.Args[0], "-test.run", "^TestCheck$", "-test.timeout", "0")
		cmd.Env = append(os.Environ(), "VERIF_C13_WORKER=1", "GOMAXPROCS=1")
		cmd.ExtraFiles = []*os.File{jr, rw}
		cmd.Stderr = os.Stderr
		if err := cmd.Start(); err != nil {
			return nil, err
		}
		jr.Close()
		rw.Close()
		bw := bufio.NewWriterSize(jw, 1<<16)
		p.ws = append(p.ws, &worker{cmd: cmd, enc: gob.NewEncoder(bw), bw: bw, dec: gob.NewDecoder(bufio.NewReaderSize(rr, 1<<16)), in: jw})
	}
	return p, nil
}

func (p *pool) close() {
	for _, w := range p.ws {
		w.in.Close()
		w.cmd.Wait()
	}
}

// run executes all jobs; merge is called (serialised) with every result in completion order.
func (p *pool) run(jobs []wireJob, merge func(j *wireJob, r *wireRes)) error {
	ch := make(chan int, len(jobs))
	for i := range jobs {
		ch <- i
	}
	close(ch)
	var wg sync.WaitGroup
	var mu sync.Mutex
	var firstErr error
	for _, w := range p.ws {
		wg.Add(1)
		go func(w *worker) {
			defer wg.Done()
			for i := range ch {
				var res wireRes
				err := w.enc.Encode(&jobs[i])
				if err == nil {
					err = w.bw.Flush()
				}
				if err == nil {
					err = w.dec.Decode(&res)
				}
				mu.Lock()
				if err != nil {
					if firstErr == nil {
						firstErr = fmt.Errorf("worker process failed on job %s %s: %w", jobs[i].Cfg.String(), scriptString(jobs[i].Prefix), err)
					}
					mu.Unlock()
					return
				}
				merge(&jobs[i], &res)
				mu.Unlock()
			}
		}(w)
	}
	wg.Wait()
	return firstErr
}
