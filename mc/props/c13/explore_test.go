package c13

// Runs (pre-crash / crash / recovery), oracles and the exhaustive search.

import (
	"fmt"
	"reflect"
	"sort"
	"strconv"
	"strings"
	"testing"
	"testing/synctest"
	"time"

	"github.com/NethermindEth/juno/consensus/tendermint"
	"github.com/NethermindEth/juno/consensus/types"
	"github.com/NethermindEth/juno/consensus/types/actions"
	"github.com/NethermindEth/juno/utils/log"
)

type config struct {
	Role  int
	App   int
	Real  bool   // real walstore on crashfs instead of the reference WAL
	Alpha string // alphabet name
	L     int    // total number of inputs (before + after the crash)
	Redel bool   // also explore "the input in flight at the crash is delivered again after recovery"
	// Pre255 (real walstore only): the first incarnation's store has already flushed 255 prune records (heights 1..255)
	// in this process, so the commit of h0 carries the 256th and triggers watermark write + rotation + file cleanup.
	Pre255 bool
}

func (c *config) String() string {
	w := "refwal"
	if c.Real {
		w = "walstore+crashfs"
	}
	if c.Pre255 {
		w += "+255-prune-records"
	}
	return fmt.Sprintf("role=%s app=%s wal=%s alphabet=%s L=%d", roleNames[c.Role], appNames[c.App], w, c.Alpha, c.L)
}

// ---------- canonical dumps of the real state machine ----------

// dumpFields dumps every field of the (unexported) tendermint.stateMachine struct except loggers and, if !withApp,
// the Application. Generic over the struct (reflection), so a field added by a refactor is included automatically.
// Maps are rendered with sorted keys, pointers are followed.
func dumpFields(m machine, withApp bool) string {
	var sb strings.Builder
	dumpValue(&sb, reflect.ValueOf(m), withApp, 0)
	return sb.String()
}

func isLoggerType(t reflect.Type) bool {
	for t.Kind() == reflect.Pointer {
		t = t.Elem()
	}
	return strings.Contains(t.PkgPath(), "zap") || strings.HasSuffix(t.PkgPath(), "utils/log")
}

func dumpValue(w *strings.Builder, v reflect.Value, withApp bool, depth int) {
	if depth > 40 {
		w.WriteString("<deep>")
		return
	}
	switch v.Kind() {
	case reflect.Bool:
		w.WriteString(strconv.FormatBool(v.Bool()))
	case reflect.Int, reflect.Int8, reflect.Int16, reflect.Int32, reflect.Int64:
		w.WriteString(strconv.FormatInt(v.Int(), 10))
	case reflect.Uint, reflect.Uint8, reflect.Uint16, reflect.Uint32, reflect.Uint64:
		w.WriteString(strconv.FormatUint(v.Uint(), 10))
	case reflect.String:
		w.WriteString(strconv.Quote(v.String()))
	case reflect.Pointer, reflect.Interface:
		if v.IsNil() {
			w.WriteString("nil")
			return
		}
		w.WriteByte('&')
		dumpValue(w, v.Elem(), withApp, depth+1)
	case reflect.Struct:
		t := v.Type()
		if t == reflect.TypeOf(app{}) && !withApp {
			w.WriteString("<app>")
			return
		}
		if isLoggerType(t) {
			w.WriteString("<logger>")
			return
		}
		w.WriteByte('{')
		for i := 0; i < v.NumField(); i++ {
			f := v.Field(i)
			if (f.Kind() == reflect.Interface || f.Kind() == reflect.Pointer) && !f.IsNil() && isLoggerType(f.Elem().Type()) {
				continue
			}
			w.WriteString(t.Field(i).Name)
			w.WriteByte(':')
			dumpValue(w, f, withApp, depth+1)
			w.WriteByte(' ')
		}
		w.WriteByte('}')
	case reflect.Array:
		if v.Type().Elem().Kind() == reflect.Uint64 && v.Len() == 4 {
			// felt-like: print the four limbs compactly
			w.WriteByte('#')
			for i := 0; i < 4; i++ {
				w.WriteString(strconv.FormatUint(v.Index(i).Uint(), 16))
				w.WriteByte('.')
			}
			return
		}
		fallthrough
	case reflect.Slice:
		w.WriteByte('[')
		for i := 0; i < v.Len(); i++ {
			dumpValue(w, v.Index(i), withApp, depth+1)
			w.WriteByte(',')
		}
		w.WriteByte(']')
	case reflect.Map:
		var items []string
		it := v.MapRange()
		for it.Next() {
			var b strings.Builder
			dumpValue(&b, it.Key(), withApp, depth+1)
			b.WriteString("=>")
			dumpValue(&b, it.Value(), withApp, depth+1)
			items = append(items, b.String())
		}
		sort.Strings(items)
		w.WriteString("map[")
		w.WriteString(strings.Join(items, "; "))
		w.WriteByte(']')
	case reflect.Func, reflect.Chan, reflect.UnsafePointer:
		w.WriteString("<" + v.Kind().String() + ">")
	default:
		fmt.Fprintf(w, "<%s>", v.Kind())
	}
}

func dumpMachine(m machine) string { return dumpFields(m, true) }
func dumpCore(m machine) string    { return dumpFields(m, false) }

// ---------- reference replay: a second real machine fed the durable entries directly ----------

type refReplay struct {
	fed    []string
	bcasts []bcast
	dump   string
	core   string
	height types.Height
}

// replayRef feeds the durable entries (LoadAllEntries order) to a fresh real state machine that starts at
// committed+1 with the Application incarnation inc; entries below the machine's height are not inputs any more.
func replayRef(cfg *config, committed types.Height, inc int, entries []entry, dump bool, known []V) refReplay {
	a := &app{Variant: cfg.App, Inc: inc}
	for _, v := range known {
		a.learn(v)
	}
	m := tendermint.New[V, H, A](log.NewNopZapLogger(), addrS, a, validators{cfg.Role}, committed+1)
	var rr refReplay
	for _, e := range entries {
		if e.GetHeight() < m.Height() {
			continue
		}
		a.H = m.Height()
		rr.fed = append(rr.fed, entryName(e))
		for _, act := range m.ProcessWAL(copyEntry(e)) {
			switch x := act.(type) {
			case *actions.BroadcastProposal[V, H, A]:
				rr.bcasts = append(rr.bcasts, bcast{voteKey{'P', x.Height, x.Round}, valName(x.Value)})
			case *actions.BroadcastPrevote[H, A]:
				rr.bcasts = append(rr.bcasts, bcast{voteKey{'V', x.Height, x.Round}, idName(x.ID)})
			case *actions.BroadcastPrecommit[H, A]:
				rr.bcasts = append(rr.bcasts, bcast{voteKey{'C', x.Height, x.Round}, idName(x.ID)})
			}
		}
	}
	rr.height = m.Height()
	if dump {
		rr.dump, rr.core = dumpMachine(m), dumpCore(m)
	}
	return rr
}

// ---------- crash record ----------

type crashRecord struct {
	spec      crashSpec
	effKind   byte
	variant   string   // "" | image label for in-flight flush images of the real walstore
	dur       *durable // reference WAL: durable state at the kill instant
	img       *diskImage
	committed types.Height
	pre       []bcast // everything the killed incarnation had broadcast
	valueAt   []types.Height
	known     []V // values the killed Application incarnation knew (appAmnesic)
	killCore  string
	net       netState
	inflight  *input
	trace     []effect
	entries   []entry // durable entries as a recovering store presents them
}

func (r *crashRecord) groupKey() string {
	k := fmt.Sprintf("c=%d|%v|", r.committed, r.net)
	if r.dur != nil {
		return k + r.dur.key()
	}
	return k + r.img.key
}

func (r *crashRecord) where() string {
	w := "before"
	if r.spec.When == crashAfter {
		w = "after"
	}
	if r.spec.When == stopInCommit {
		w = "orderly-stop-inside"
	}
	if r.variant != "" {
		w = "during(" + r.variant + ")"
	}
	return fmt.Sprintf("%s-%s", w, effName(r.effKind))
}

func effName(k byte) string {
	switch k {
	case 'A':
		return "wal-append"
	case 'F':
		return "wal-flush"
	case 'P':
		return "broadcast-proposal"
	case 'V':
		return "broadcast-prevote"
	case 'C':
		return "broadcast-precommit"
	case 'T':
		return "schedule-timeout"
	case 'K':
		return "commit-callback"
	case 'D':
		return "wal-prune"
	}
	return "?"
}

func traceStrings(es []effect) []string {
	out := make([]string, len(es))
	for i, e := range es {
		out[i] = fmt.Sprintf("%d[in%d]%s", i, e.Input, e.String())
	}
	return out
}

// ---------- runs ----------

type preResult struct {
	ok       bool // every symbol was enabled
	effects  []effect
	inputs   []input
	timers   []sym
	net      netState
	rec      *crashRecord
	viol     []violation
	infra    string
	lastEffs int // effects produced by the last input (or by the start when there is no input)
	real     *realDisk
}

func newWorld(cfg *config) *world {
	w := &world{cfg: cfg, committed: h0 - 1, cur: -1}
	if cfg.Real {
		w.real = newRealDisk(nil)
		w.real.pre255 = cfg.Pre255
	} else {
		w.ref = &durable{byHeight: map[types.Height][]entry{}}
	}
	return w
}

// runPre executes the script from a fresh validator; with crash != nil the process is killed at that point.
// Must be called inside a synctest bubble.
func runPre(cfg *config, pre []sym, crash *crashSpec) (res preResult) {
	w := newWorld(cfg)
	w.crash, w.script, w.assigned, w.t0 = crash, pre, make([]bool, len(pre)), time.Now()
	p := w.boot()
	defer func() {
		p.stop()
		if w.real != nil {
			w.real.cleanup()
		}
	}()
	res.ok = true
	var last *input
	for i, s := range pre {
		if w.dead || p.exited() || w.infra != "" {
			break
		}
		if s.K == 't' && !w.assigned[i] {
			res.ok = false
			return
		}
		in, ok := resolve(s, &w.net, cfg)
		if !ok {
			res.ok = false
			return
		}
		w.cur = i
		res.inputs = append(res.inputs, in)
		c := in.clone()
		last = &c
		p.deliver(in.clone())
	}
	res.effects, res.net, res.infra, res.viol, res.real = w.effects, w.net, w.infra, w.viol, w.real
	for _, e := range w.effects {
		if e.Input == len(pre)-1 {
			res.lastEffs++
		}
	}
	switch {
	case w.stopped && !w.dead:
		// orderly exit: wait for Driver.Run to return (its deferred Close has then run on the live store)
		for i := 0; i < 3 && !p.exited(); i++ {
			synctest.Wait()
		}
		if !p.exited() || !p.closed {
			res.viol = append(res.viol, violation{"driver-does-not-stop-when-cancelled-inside-commit-callback", map[string]any{"exited": p.exited(), "store_closed": p.closed}})
			break
		}
		rec := &crashRecord{spec: *crash, committed: w.committed, pre: w.bcasts[0],
			valueAt: append([]types.Height(nil), p.app.CallHeights...), known: p.app.knownList(), net: w.net, trace: w.effects}
		if w.ref != nil {
			rec.dur = w.ref.clone()
		}
		if w.real != nil {
			rec.img = w.real.imageAt(w.real.fs.NumOps())
		}
		if w.cur >= 0 {
			rec.inflight = last
		}
		res.rec = rec
	case w.dead:
		rec := &crashRecord{spec: *crash, dur: w.deadRef, committed: w.deadCommitted, pre: w.bcasts[0],
			valueAt: append([]types.Height(nil), p.app.CallHeights...), known: p.app.knownList(), net: w.net, trace: w.effects, killCore: w.killCore}
		if crash.When == crashBefore {
			// the effect that was about to happen is named by the caller (it is not in the trace)
		} else {
			rec.effKind = w.effects[crash.At].Kind
		}
		if w.cur >= 0 {
			rec.inflight = last
		}
		if w.real != nil {
			rec.img = w.real.imageAt(w.deadOps)
		}
		res.rec = rec
	case p.panicV != nil:
		res.viol = append(res.viol, violation{"driver-panics", map[string]any{"panic": fmt.Sprint(p.panicV)}})
	case p.exited():
		res.viol = append(res.viol, violation{"driver-exits-by-itself", map[string]any{"error": fmt.Sprint(p.runErr)}})
	default:
		res.timers = p.pendingTimers()
	}
	return res
}

type postResult struct {
	ok       bool
	bcasts   []bcast
	timers   []sym
	effects  []effect
	viol     []violation
	infra    string
	lastEffs int
	p        *proc
	commits  types.Height
}

// runPost boots a NEW process on the durable state of the crash record, optionally delivers the in-flight input
// again, then the inputs `post`. Must be called inside a synctest bubble.
func runPost(cfg *config, rec *crashRecord, post []sym, redeliver bool) (res postResult) {
	w := &world{cfg: cfg, committed: rec.committed, cur: -1, inc: 1, net: rec.net, wantDump: len(post) == 0 && !redeliver}
	if cfg.Real {
		w.real = newRealDisk(rec.img)
	} else {
		w.ref = rec.dur.clone()
	}
	w.script, w.assigned, w.t0 = post, make([]bool, len(post)), time.Now()
	p := w.boot()
	defer func() {
		p.stop()
		if w.real != nil {
			w.real.cleanup()
		}
	}()
	res.ok, res.p = true, p
	if redeliver && rec.inflight != nil && !rec.inflight.timeout {
		p.deliver(rec.inflight.clone())
	}
	for i, s := range post {
		if p.exited() || w.infra != "" {
			break
		}
		if s.K == 't' && !w.assigned[i] {
			res.ok = false
			return
		}
		in, ok := resolve(s, &w.net, cfg)
		if !ok {
			res.ok = false
			return
		}
		w.cur = i
		p.deliver(in)
	}
	res.bcasts, res.effects, res.viol, res.infra, res.commits = w.bcasts[1], w.effects, w.viol, w.infra, w.committed
	for _, e := range w.effects {
		if e.Input == len(post)-1 {
			res.lastEffs++
		}
	}
	switch {
	case p.panicV != nil:
		res.viol = append(res.viol, violation{"recovered-driver-panics", map[string]any{"panic": fmt.Sprint(p.panicV)}})
	case p.exited():
		res.viol = append(res.viol, violation{"recovered-driver-exits-by-itself", map[string]any{"error": fmt.Sprint(p.runErr)}})
	default:
		res.timers = p.pendingTimers()
	}
	return res
}

// ---------- the search ----------

type explorer struct {
	cfg      *config
	alpha    []sym
	stats    map[string]int64
	outcomes map[string]int64
	points   map[string]int64 // crash points by kind
	viols    map[string]*foundViolation
	order    []string
	samples  []any
	infra    string
	stop     func() bool
	cut      bool
	topDepth int // >0: do not descend to nodes of this depth (they are other jobs)
}

type foundViolation struct {
	Key    string
	Detail map[string]any
	Count  int
}

func newExplorer(cfg *config) *explorer {
	return &explorer{cfg: cfg, alpha: alphabet(cfg.Alpha), stats: map[string]int64{}, outcomes: map[string]int64{},
		points: map[string]int64{}, viols: map[string]*foundViolation{}}
}

func (x *explorer) violate(key string, detail func() map[string]any) {
	if v := x.viols[key]; v != nil {
		v.Count++
		return
	}
	x.viols[key] = &foundViolation{key, detail(), 1}
	x.order = append(x.order, key)
}

// seen counts one more case of an already recorded violation key (and avoids building its detail).
func (x *explorer) seen(key string) bool {
	if v := x.viols[key]; v != nil {
		v.Count++
		return true
	}
	return false
}

func (x *explorer) detail(pre []sym, rec *crashRecord, post []sym, redel bool, extra map[string]any) func() map[string]any {
	return func() map[string]any {
		d := map[string]any{"config": x.cfg.String(), "inputs_before_crash": scriptString(pre), "replay": map[string]any{"cfg": x.cfg, "pre": symNames(pre), "post": symNames(post)}}
		if rec != nil {
			d["crash"] = fmt.Sprintf("%s (effect #%d of the run)", rec.where(), rec.spec.At)
			d["effects_before_crash"] = traceStrings(rec.trace)
			d["last_completed_commit"] = uint64(rec.committed)
			var es []string
			for _, e := range rec.entries {
				es = append(es, entryName(e))
			}
			d["durable_wal_at_crash"] = es
			d["inputs_after_recovery"] = scriptString(post)
			d["inflight_input_redelivered"] = redel
		}
		for k, v := range extra {
			d[k] = v
		}
		return d
	}
}

func sameEffects(a, b []effect) bool {
	if len(a) != len(b) {
		return false
	}
	for i := range a {
		if a[i] != b[i] {
			return false
		}
	}
	return true
}

// loggedBeforeVisible: everything the killed process had broadcast for a height that is not yet completely
// committed must be derivable from the durable log by the same Application incarnation.
func (x *explorer) loggedBeforeVisible(pre []sym, rec *crashRecord) {
	rr := replayRef(x.cfg, rec.committed, 0, rec.entries, false, rec.known)
	have := map[bcast]bool{}
	for _, b := range rr.bcasts {
		have[b] = true
	}
	for _, b := range rec.pre {
		if b.H <= rec.committed {
			continue
		}
		if !have[b] {
			key := "visible-before-logged " + effName(b.Kind)
			if x.seen(key) {
				return
			}
			x.violate(key,
				x.detail(pre, rec, nil, false, map[string]any{"broadcast": fmt.Sprintf("%s(%d/%d %s)", effName(b.Kind), b.H, b.R, b.ID),
					"derivable_from_durable_log": fmt.Sprint(rr.bcasts)}))
			return
		}
	}
}

// settledAfterFlush: effect k is a WAL flush and the action list it belongs to appends nothing after it. Right after
// such a flush the log holds every input the machine has processed so far (nothing is pending, nothing of the current
// list is still to be appended), so the durable log alone must rebuild exactly the machine the process has in memory.
func settledAfterFlush(es []effect, k int) bool {
	if es[k].Kind != 'F' {
		return false
	}
	for _, e := range es[k+1:] {
		if e.Batch == es[k].Batch && e.Inc == es[k].Inc && e.Kind == 'A' {
			return false
		}
	}
	return true
}

// rebuiltEqualsKilled: "it processes again exactly the inputs it had durably recorded, ending in the same consensus state
// it would have reached without the crash" — at a settled instant (see settledAfterFlush) a real machine fed the durable
// entries (with the killed Application incarnation) must be reflectively equal to the killed process's machine, vote
// counter and its future-height buffer included. An input that the machine accepted (it changed its state) but that is
// not in the log shows up here as soon as anything is flushed after it, long before it can cause an equivocation.
func (x *explorer) rebuiltEqualsKilled(pre []sym, rec *crashRecord) {
	if rec.killCore == "" {
		return
	}
	x.stats["settled_state_comparisons"]++
	key := fmt.Sprintf("state-rebuilt-from-durable-log-differs-from-killed-process [app=%s]", appNames[x.cfg.App])
	r0 := replayRef(x.cfg, rec.committed, 0, rec.entries, true, rec.known)
	if r0.core == rec.killCore || x.seen(key) {
		return
	}
	x.violate(key, x.detail(pre, rec, nil, false, map[string]any{"rebuilt_from_durable_log": r0.core, "killed_process": rec.killCore,
		"first_difference": firstDiff(r0.core, rec.killCore)}))
}

func firstDiff(a, b string) string {
	i := 0
	for i < len(a) && i < len(b) && a[i] == b[i] {
		i++
	}
	lo := max(0, i-120)
	return fmt.Sprintf("rebuilt: ...%s | killed: ...%s", a[lo:min(len(a), i+160)], b[lo:min(len(b), i+160)])
}

func calledValueAt(rec *crashRecord, h types.Height) bool {
	for _, x := range rec.valueAt {
		if x == h {
			return true
		}
	}
	return false
}

// conflicts: a prevote / precommit broadcast by the recovered process for a (height, round) for which the killed
// process had broadcast a different one.
func (x *explorer) conflicts(pre []sym, rec *crashRecord, post []sym, redel bool, after []bcast) {
	before := map[voteKey]string{}
	for _, b := range rec.pre {
		if _, ok := before[b.voteKey]; !ok {
			before[b.voteKey] = b.ID
		}
	}
	for _, b := range after {
		id, ok := before[b.voteKey]
		if !ok || id == b.ID {
			continue
		}
		tag := fmt.Sprintf("app=%s fresh-own-value=%v", appNames[x.cfg.App], x.cfg.App == appFresh && calledValueAt(rec, b.H))
		if b.Kind == 'P' {
			// the property as stated names votes; an equivocating proposal is counted, not reported on its own
			x.stats["proposal_equivocations_after_recovery"]++
			continue
		}
		key := fmt.Sprintf("conflicting-vote-after-recovery %s [%s]", effName(b.Kind)[len("broadcast-"):], tag)
		if x.seen(key) {
			return
		}
		x.violate(key,
			x.detail(pre, rec, post, redel, map[string]any{
				"before_crash":   fmt.Sprintf("%s(%d/%d %s)", effName(b.Kind), b.H, b.R, id),
				"after_recovery": fmt.Sprintf("%s(%d/%d %s)", effName(b.Kind), b.H, b.R, b.ID),
				"all_before":     fmt.Sprint(rec.pre), "all_after": fmt.Sprint(after)}))
		return
	}
}

// replayOracles: checked once per distinct recovered state.
func (x *explorer) replayOracles(pre []sym, rec *crashRecord, pr *postResult) {
	p := pr.p
	if !p.replayDone {
		x.violate("recovered-driver-never-starts-listening", x.detail(pre, rec, nil, false, map[string]any{"error": fmt.Sprint(p.runErr)}))
		return
	}
	rr := replayRef(x.cfg, rec.committed, 1, rec.entries, true, nil)
	if strings.Join(rr.fed, ",") != strings.Join(p.replayed, ",") {
		x.violate("replayed-inputs-differ-from-durable-ones", x.detail(pre, rec, nil, false, map[string]any{"replayed": p.replayed, "durable_inputs": rr.fed}))
	} else if rr.dump != p.dumpAfterRplay {
		x.violate("state-after-replay-differs-from-reference-machine", x.detail(pre, rec, nil, false, map[string]any{"driver_machine": p.dumpAfterRplay, "reference": rr.dump}))
	}
	// resume height: last completed commit (including those completed by the replay itself) + 1
	want := rec.committed + 1 + types.Height(len(p.replayCommits))
	if p.firstStart != want || rr.height != p.firstStart {
		x.violate("resume-height-wrong", x.detail(pre, rec, nil, false, map[string]any{"resumed_at": uint64(p.firstStart), "expected": uint64(want),
			"reference_machine_height": uint64(rr.height), "commits_completed_during_replay": fmt.Sprint(p.replayCommits)}))
	}
	// the same consensus state the killed process had after processing exactly these inputs
	r0 := replayRef(x.cfg, rec.committed, 0, rec.entries, true, rec.known)
	if r0.core != p.coreAfterRplay {
		own := false
		for h := rec.committed + 1; h <= p.firstStart; h++ {
			own = own || calledValueAt(rec, h)
		}
		x.violate(fmt.Sprintf("state-after-replay-differs-from-pre-crash-run [app=%s fresh-own-value=%v]", appNames[x.cfg.App], x.cfg.App == appFresh && own),
			x.detail(pre, rec, nil, false, map[string]any{"after_replay": p.coreAfterRplay, "pre_crash_process_on_the_same_inputs": r0.core}))
	}
	x.outcomes[fmt.Sprintf("replay: entries>0=%v commits=%d rebroadcasts>0=%v", len(p.replayed) > 0, len(p.replayCommits), len(pr.bcasts) > 0)]++
}

type group struct {
	recs []*crashRecord
}

func (x *explorer) absorb(vs []violation, pre []sym, rec *crashRecord, post []sym, redel bool) {
	for _, v := range vs {
		x.violate(v.key, x.detail(pre, rec, post, redel, v.detail))
	}
}

// node explores the no-crash script `pre`, every crash point inside its LAST input (the earlier ones were
// explored at the ancestors: a run killed at effect k does not depend on later inputs), and recurses.
func (x *explorer) node(pre []sym) {
	if x.infra != "" || x.cut || (x.topDepth > 0 && len(pre) >= x.topDepth) {
		return
	}
	if x.stop != nil && x.stop() {
		x.cut = true
		return
	}
	r := runPre(x.cfg, pre, nil)
	x.stats["driver_runs"]++
	if r.infra != "" {
		x.infra = r.infra
		return
	}
	if !r.ok {
		x.stats["pruned_symbol_not_enabled"]++
		return
	}
	if n := len(pre); n > 0 && pre[n-1].K == 't' && r.lastEffs == 0 {
		x.stats["pruned_stale_timeout_noop"]++ // a timer of a round/step left behind: no effect, no state change
		return
	}
	x.stats["scripts"]++
	x.stats["transitions"]++
	x.absorb(r.viol, pre, nil, nil, false)
	if len(x.samples) < 2 && len(pre) == x.cfg.L {
		x.samples = append(x.samples, map[string]any{"config": x.cfg.String(), "script": scriptString(pre), "effects": traceStrings(r.effects)})
	}
	x.crashPoints(pre, &r)
	if len(pre) >= x.cfg.L {
		return
	}
	for _, s := range x.alpha {
		x.node(append(pre[:len(pre):len(pre)], s))
	}
	for _, s := range r.timers {
		x.node(append(pre[:len(pre):len(pre)], s))
	}
}

func (x *explorer) crashPoints(pre []sym, r *preResult) {
	lastIn := len(pre) - 1
	groups := map[string]*group{}
	var order []string
	addRec := func(rec *crashRecord) {
		x.stats["crash_points"]++
		x.points[rec.where()]++
		x.loggedBeforeVisible(pre, rec)
		k := rec.groupKey()
		g := groups[k]
		if g == nil {
			g = &group{}
			groups[k] = g
			order = append(order, k)
		}
		g.recs = append(g.recs, rec)
	}
	for k, e := range r.effects {
		if e.Input != lastIn {
			continue
		}
		var recs [2]*crashRecord
		for _, when := range []int{crashBefore, crashAfter} {
			c := runPre(x.cfg, pre, &crashSpec{k, when, when == crashAfter && settledAfterFlush(r.effects, k)})
			x.stats["driver_runs"]++
			if c.infra != "" {
				x.infra = c.infra
				return
			}
			n := k
			if when == crashAfter {
				n = k + 1
			}
			if c.rec == nil || !sameEffects(c.effects, r.effects[:n]) {
				x.infra = fmt.Sprintf("non-deterministic replay: run of %s killed at effect %d does not reproduce the recorded prefix", scriptString(pre), k)
				return
			}
			c.rec.effKind = e.Kind
			x.fillEntries(c.rec)
			x.absorb(c.viol, pre, c.rec, nil, false)
			if c.rec.img != nil && c.rec.img.openErr != "" {
				x.violate("walstore-cannot-open-after-crash ["+c.rec.where()+"]", x.detail(pre, c.rec, nil, false, map[string]any{"error": c.rec.img.openErr}))
				continue
			}
			recs[when] = c.rec
			x.rebuiltEqualsKilled(pre, c.rec)
			addRec(c.rec)
		}
		if e.Kind == 'K' {
			// the node is shut down while this commit callback runs (context cancelled, callback reports failure)
			c := runPre(x.cfg, pre, &crashSpec{k, stopInCommit, false})
			x.stats["driver_runs"]++
			if c.infra != "" {
				x.infra = c.infra
				return
			}
			x.absorb(c.viol, pre, c.rec, nil, false)
			if c.rec != nil {
				if len(c.effects) <= k || !sameEffects(c.effects[:k+1], r.effects[:k+1]) {
					x.infra = fmt.Sprintf("non-deterministic replay: run of %s stopped inside effect %d does not reproduce the recorded prefix", scriptString(pre), k)
					return
				}
				c.rec.effKind = e.Kind
				x.fillEntries(c.rec)
				if c.rec.img != nil && c.rec.img.openErr != "" {
					x.violate("walstore-cannot-open-after-orderly-stop", x.detail(pre, c.rec, nil, false, map[string]any{"error": c.rec.img.openErr}))
				} else {
					x.stats["orderly_stops_inside_commit_callback"]++
					addRec(c.rec)
				}
			}
		}
		if e.Kind == 'F' && recs[0] != nil && recs[1] != nil {
			// kill in the middle of the flush: the batch "was lost" / "landed" (real walstore: every intermediate image)
			x.flushInFlight(pre, r, recs[0], recs[1], k, addRec)
		}
	}
	for _, k := range order {
		g := groups[k]
		x.stats["distinct_recovered_states"]++
		x.post(g, pre, nil, false)
		if x.cfg.Redel && g.recs[0].inflight != nil && !g.recs[0].inflight.timeout {
			x.post(g, pre, nil, true)
		}
	}
}

func (x *explorer) fillEntries(rec *crashRecord) {
	if rec.dur != nil {
		rec.entries = rec.dur.entries()
		return
	}
	if rec.img.entries == nil && rec.img.openErr == "" {
		loadImage(rec.img)
	}
	rec.entries = rec.img.entries
}

// post explores what the recovered process does with the inputs `post` (total inputs <= L).
func (x *explorer) post(g *group, pre, post []sym, redel bool) {
	if x.infra != "" || x.cut {
		return
	}
	if x.stop != nil && x.stop() {
		x.cut = true
		return
	}
	rec := g.recs[0]
	pr := runPost(x.cfg, rec, post, redel)
	x.stats["driver_runs"]++
	x.stats["recovery_runs"]++
	if pr.infra != "" {
		x.infra = pr.infra
		return
	}
	if !pr.ok {
		return
	}
	if n := len(post); n > 0 && post[n-1].K == 't' && pr.lastEffs == 0 {
		return
	}
	x.stats["transitions"]++
	x.absorb(pr.viol, pre, rec, post, redel)
	if len(post) == 0 && !redel {
		x.replayOracles(pre, rec, &pr)
	}
	for _, rc := range g.recs {
		x.stats["crash_executions"]++
		x.conflicts(pre, rc, post, redel, pr.bcasts)
	}
	if len(x.samples) < 4 && len(post) == 2 && len(pr.bcasts) > 0 {
		x.samples = append(x.samples, map[string]any{"config": x.cfg.String(), "inputs_before_crash": scriptString(pre), "crash": rec.where(),
			"effects_before_crash": traceStrings(rec.trace), "inputs_after_recovery": scriptString(post), "effects_after_recovery": traceStrings(pr.effects)})
	}
	if len(pre)+len(post) >= x.cfg.L {
		return
	}
	for _, s := range x.alpha {
		x.post(g, pre, append(post[:len(post):len(post)], s), redel)
	}
	for _, s := range pr.timers {
		x.post(g, pre, append(post[:len(post):len(post)], s), redel)
	}
}

// exploreSubtree runs the search below `prefix` inside one synctest bubble.
func exploreSubtree(t *testing.T, cfg *config, prefix []sym, topDepth int, stop func() bool) *explorer {
	x := newExplorer(cfg)
	x.stop, x.topDepth = stop, topDepth
	synctest.Test(t, func(*testing.T) {
		x.node(prefix)
	})
	return x
}
