package c13

// Input alphabet, its resolution to concrete messages, and the network's memory (which peer has already sent what,
// which proposal value is on the wire for a (height, round)).

import (
	"fmt"
	"strings"

	"github.com/NethermindEth/juno/consensus/starknet"
	"github.com/NethermindEth/juno/consensus/types"
)

// sym is one symbol of the input alphabet.
//
//	K='P' peer proposal for (h0+DH, R); X: '-' fresh value, validRound -1 | '0' re-proposal of the round-0 value with validRound 0 | 'i' invalid value
//	K='v' / 'c' prevote / precommit for (h0+DH, R) from the next peer (A, then B) that has not yet sent that kind of vote for
//	       that (height, round); X: 'x' = id of the proposal value on the wire for (height, round) | 'n' = nil
//	K='t' the validator's own scheduled timeout (Step, round R) fires (whatever height it was armed at)
type sym struct {
	K    byte
	DH   int
	R    int
	X    byte
	Step types.Step
}

func (s sym) String() string {
	switch s.K {
	case 'P':
		return fmt.Sprintf("P%d/%d%c", s.DH, s.R, s.X)
	case 'v', 'c':
		return fmt.Sprintf("%c%d/%d%c", s.K, s.DH, s.R, s.X)
	case 't':
		return fmt.Sprintf("t%d:%s", s.R, s.Step)
	}
	return "?"
}

func symNames(ss []sym) []string {
	out := make([]string, len(ss))
	for i, s := range ss {
		out[i] = s.String()
	}
	return out
}

// parseSym is the inverse of sym.String (used by --replay).
func parseSym(n string) (sym, error) {
	var s sym
	if len(n) < 2 {
		return s, fmt.Errorf("bad symbol %q", n)
	}
	s.K = n[0]
	switch s.K {
	case 'P', 'v', 'c':
		if len(n) != 5 || n[2] != '/' {
			return s, fmt.Errorf("bad symbol %q", n)
		}
		s.DH, s.R, s.X = int(n[1]-'0'), int(n[3]-'0'), n[4]
	case 't':
		if len(n) < 4 || n[2] != ':' {
			return s, fmt.Errorf("bad symbol %q", n)
		}
		s.R = int(n[1] - '0')
		switch n[3:] {
		case "propose":
			s.Step = types.StepPropose
		case "prevote":
			s.Step = types.StepPrevote
		case "precommit":
			s.Step = types.StepPrecommit
		default:
			return s, fmt.Errorf("bad symbol %q", n)
		}
	default:
		return s, fmt.Errorf("bad symbol %q", n)
	}
	return s, nil
}

func scriptString(ss []sym) string {
	parts := make([]string, len(ss))
	for i, s := range ss {
		parts[i] = s.String()
	}
	return "[" + strings.Join(parts, " ") + "]"
}

const (
	maxDH = 2
	maxR  = 2
)

type netState struct {
	HasWire  [maxDH][maxR]bool
	Wire     [maxDH][maxR]V
	PropSent [maxDH][maxR]bool
	Sent     [2][maxDH][maxR]int8 // [0]=prevotes, [1]=precommits: how many peers have sent
}

func (n *netState) sawProposal(h types.Height, r types.Round, v V) {
	dh := int(h) - int(h0)
	if dh < 0 || dh >= maxDH || r < 0 || int(r) >= maxR {
		return
	}
	if !n.HasWire[dh][r] {
		n.HasWire[dh][r] = true
		n.Wire[dh][r] = v
	}
}

// input is a concrete message (or timer firing) handed to the driver.
type input struct {
	prop    *starknet.Proposal
	pv      *starknet.Prevote
	pc      *starknet.Precommit
	timeout bool
	name    string
}

func (in input) clone() input {
	c := in
	if in.prop != nil {
		p := *in.prop
		v := *in.prop.Value
		p.Value = &v
		c.prop = &p
	}
	if in.pv != nil {
		p := *in.pv
		if p.ID != nil {
			id := *p.ID
			p.ID = &id
		}
		c.pv = &p
	}
	if in.pc != nil {
		p := *in.pc
		if p.ID != nil {
			id := *p.ID
			p.ID = &id
		}
		c.pc = &p
	}
	return c
}

// resolve turns a symbol into a concrete input given what the network has seen so far; ok=false: the symbol is not
// enabled (no such peer / nothing to vote for / proposer is S). It updates the network's memory.
func resolve(s sym, n *netState, cfg *config) (in input, ok bool) {
	if s.K == 't' {
		return input{timeout: true, name: s.String()}, true
	}
	h := h0 + types.Height(s.DH)
	r := types.Round(s.R)
	prop := validators{cfg.Role}.Proposer(h, r)
	switch s.K {
	case 'P':
		if prop == addrS || n.PropSent[s.DH][s.R] {
			return in, false
		}
		var v V
		vr := types.Round(-1)
		switch s.X {
		case '-':
			v = peerValue(h, r)
			if n.HasWire[s.DH][s.R] {
				v = n.Wire[s.DH][s.R]
			}
		case 'i':
			if n.HasWire[s.DH][s.R] {
				return in, false
			}
			v = invalidValue
		case '0':
			if s.R != 1 || !n.HasWire[s.DH][0] || n.HasWire[s.DH][1] {
				return in, false
			}
			v, vr = n.Wire[s.DH][0], 0
		}
		n.PropSent[s.DH][s.R] = true
		n.sawProposal(h, r, v)
		val := v
		m := &starknet.Proposal{MessageHeader: starknet.MessageHeader{Height: h, Round: r, Sender: prop}, ValidRound: vr, Value: &val}
		return input{prop: m, name: fmt.Sprintf("proposal(%d/%d %s vr=%d %s)", h, r, addrName(prop), vr, valName(&val))}, true
	case 'v', 'c':
		k := 0
		if s.K == 'c' {
			k = 1
		}
		cnt := n.Sent[k][s.DH][s.R]
		if int(cnt) >= len(peers) {
			return in, false
		}
		var id *H
		if s.X == 'x' {
			if !n.HasWire[s.DH][s.R] {
				if prop == addrS {
					return in, false // S has not proposed yet: nothing to vote for
				}
				n.sawProposal(h, r, peerValue(h, r)) // the peers have the proposer's value even if S has not received it
			}
			hh := n.Wire[s.DH][s.R].Hash()
			id = &hh
		}
		sender := peers[cnt]
		n.Sent[k][s.DH][s.R]++
		hdr := starknet.MessageHeader{Height: h, Round: r, Sender: sender}
		if s.K == 'v' {
			return input{pv: &starknet.Prevote{MessageHeader: hdr, ID: id}, name: fmt.Sprintf("prevote(%d/%d %s %s)", h, r, addrName(sender), idName(id))}, true
		}
		return input{pc: &starknet.Precommit{MessageHeader: hdr, ID: id}, name: fmt.Sprintf("precommit(%d/%d %s %s)", h, r, addrName(sender), idName(id))}, true
	}
	return in, false
}

// alphabets (peer symbols; timeout symbols are added dynamically from the timers the driver has armed).
func alphabet(name string) []sym {
	var out []sym
	add := func(k byte, dh, r int, xs string) {
		for _, x := range []byte(xs) {
			out = append(out, sym{K: k, DH: dh, R: r, X: x})
		}
	}
	switch name {
	case "core":
		// current height round 0 completely; round 1 and the next height by one symbol of each kind
		add('P', 0, 0, "-")
		add('v', 0, 0, "xn")
		add('c', 0, 0, "xn")
		add('P', 0, 1, "-")
		add('v', 0, 1, "n")
		add('P', 1, 0, "-")
		add('c', 1, 0, "x")
	case "wide":
		for dh := 0; dh < 2; dh++ {
			for r := 0; r < 2; r++ {
				add('P', dh, r, "-")
				add('v', dh, r, "xn")
				add('c', dh, r, "xn")
			}
		}
		add('P', 0, 0, "i")
		add('P', 0, 1, "0")
	case "mini":
		add('P', 0, 0, "-")
		add('v', 0, 0, "x")
		add('c', 0, 0, "x")
		add('v', 0, 0, "n")
		add('P', 1, 0, "-")
	}
	return out
}
