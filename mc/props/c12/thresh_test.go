package c12

// (C) thresholds for every total voting power, and (C2) exhaustive differential test of the real
// VoteCounter against a set-semantics reference model for all short message sequences.

import (
	"fmt"
	"sync"

	"verif/mc/ev"

	"github.com/NethermindEth/juno/consensus/starknet"
	"github.com/NethermindEth/juno/consensus/types"
	"github.com/NethermindEth/juno/consensus/votecounter"
	"github.com/NethermindEth/juno/core/felt"
)

type powVals struct {
	addrs  []starknet.Address
	powers []uint
	total  uint
	// from height 1 on (0 = same as height 0): the validator set may change between heights
	powers1 []uint
	total1  uint
}

func (v *powVals) TotalVotingPower(h types.Height) types.VotingPower {
	if h >= 1 && v.total1 != 0 {
		return types.VotingPower(v.total1)
	}
	return types.VotingPower(v.total)
}
func (v *powVals) ValidatorVotingPower(h types.Height, a *starknet.Address) types.VotingPower {
	pw := v.powers
	if h >= 1 && v.total1 != 0 {
		pw = v.powers1
	}
	for i := range v.addrs {
		if v.addrs[i] == *a {
			return types.VotingPower(pw[i])
		}
	}
	return 0
}
func (v *powVals) Proposer(h types.Height, r types.Round) starknet.Address {
	return v.addrs[(uint(h)+uint(r))%uint(len(v.addrs))]
}

func thresholds(r *ev.Run) {
	maxN := ev.Pick(r, 300, 3000)
	X := felt.FromUint64[starknet.Address](1)
	Y := felt.FromUint64[starknet.Address](2)
	A := felt.FromUint64[starknet.Hash](77)
	var mu sync.Mutex
	var pairs, quorums, nonfaulty, nextHeight int64
	bad := func(N, x uint, what string, got, want bool) {
		r.Violate("threshold "+what, map[string]any{"part": "C thresholds", "N": N, "x": x, "check": what, "got": got, "want": want,
			"q_ref": (2*N + 2) / 3, "f_ref": (N - 1) / 3})
	}
	ev.Par(maxN, 16, func(i int) {
		N := uint(i + 1)
		// reference thresholds from their definitions, not from a closed formula
		var q, f uint
		for q = 0; 3*q < 2*N; q++ {
		}
		for f = 0; 3*(f+1) < N; f++ {
		}
		if !(2*q > N+f) { // 2q-N > f : two quorums intersect in more than f
			r.Violate("threshold quorum-intersection", map[string]any{"N": N, "q": q, "f": f})
		}
		if !(N-f >= q) {
			r.Violate("threshold liveness", map[string]any{"N": N, "q": q, "f": f})
		}
		var lp, lq, lnf, lv int64
		for x := uint(0); x <= N; x++ {
			vals := &powVals{addrs: []starknet.Address{X, Y}, powers: []uint{x, N - x}, total: N}
			vc := votecounter.New[starknet.Value](vals, 0)
			hdr := func(h types.Height, rd types.Round, s starknet.Address) starknet.MessageHeader {
				return starknet.MessageHeader{Height: h, Round: rd, Sender: s}
			}
			wantQ := 3*x >= 2*N
			wantNF := x > f
			chk := func(what string, got, want bool) {
				if got != want {
					bad(N, x, what, got, want)
				}
			}
			chk("add-prevote-accepted", vc.AddPrevote(&starknet.Prevote{MessageHeader: hdr(0, 0, X), ID: &A}), true)
			chk("prevote-quorum-for-value", vc.HasQuorumForVote(0, votecounter.Prevote, &A), wantQ)
			chk("prevote-quorum-any", vc.HasQuorumForAny(0, votecounter.Prevote), wantQ)
			chk("prevote-counted-as-precommit", vc.HasQuorumForVote(0, votecounter.Precommit, &A), false)
			chk("prevote-counted-as-precommit-any", vc.HasQuorumForAny(0, votecounter.Precommit), false)
			chk("prevote-counted-for-nil", vc.HasQuorumForVote(0, votecounter.Prevote, nil), false)
			chk("duplicate-prevote-rejected", vc.AddPrevote(&starknet.Prevote{MessageHeader: hdr(0, 0, X), ID: &A}), false)
			chk("prevote-quorum-after-duplicate", vc.HasQuorumForVote(0, votecounter.Prevote, &A), wantQ)
			chk("add-precommit-accepted-after-prevote", vc.AddPrecommit(&starknet.Precommit{MessageHeader: hdr(0, 0, X), ID: &A}), true)
			chk("precommit-quorum-for-value", vc.HasQuorumForVote(0, votecounter.Precommit, &A), wantQ)
			chk("precommit-quorum-any", vc.HasQuorumForAny(0, votecounter.Precommit), wantQ)
			chk("f+1-future-round", vc.HasNonFaultyFutureMessage(0), wantNF)
			// round 1: Y votes nil, X votes A
			vc.AddPrevote(&starknet.Prevote{MessageHeader: hdr(0, 1, Y), ID: nil})
			chk("nil-quorum", vc.HasQuorumForVote(1, votecounter.Prevote, nil), 3*(N-x) >= 2*N)
			chk("f+1-future-round-other", vc.HasNonFaultyFutureMessage(1), N-x > f)
			vc.AddPrevote(&starknet.Prevote{MessageHeader: hdr(0, 1, X), ID: &A})
			chk("any-quorum-full-power", vc.HasQuorumForAny(1, votecounter.Prevote), true)
			chk("value-quorum-mixed", vc.HasQuorumForVote(1, votecounter.Prevote, &A), wantQ)
			chk("nil-quorum-mixed", vc.HasQuorumForVote(1, votecounter.Prevote, nil), 3*(N-x) >= 2*N)
			// round 2: only the proposal of X (proposer of round 2 at height 0)
			v := felt.FromUint64[starknet.Value](77)
			chk("add-proposal", vc.AddProposal(&starknet.Proposal{MessageHeader: hdr(0, 2, X), ValidRound: -1, Value: &v}), true)
			chk("f+1-future-round-proposal-only", vc.HasNonFaultyFutureMessage(2), wantNF)
			// future height
			vc.AddPrecommit(&starknet.Precommit{MessageHeader: hdr(1, 0, X), ID: &A})
			chk("future-height-precommit-quorum", vc.HasFuturePrecommitQuorum(1, 0, &A), wantQ)
			// the next height (entered through StartNewHeight, not through New): same thresholds for the same total, and
			// the thresholds of the NEW total when the validator set changes (total N+1, X keeps x)
			// ... and when the SENDER's own power changes at the boundary (total unchanged: the other validator takes the
			// difference): a vote for the next height that was buffered while the counter was still at this height weighs
			// what its sender holds at the vote's OWN height (x1), not what it holds at the height the counter was in.
			type variant struct {
				grow uint
				x1   uint
				tag  string
			}
			vs := []variant{{0, x, ""}, {1, x, ""}}
			if x+1 <= N {
				vs = append(vs, variant{0, x + 1, ", sender's power +1"})
			}
			if x >= 1 {
				vs = append(vs, variant{0, x - 1, ", sender's power -1"})
			}
			if N-x != x {
				vs = append(vs, variant{0, N - x, ", powers swapped"})
			}
			for _, vr := range vs {
				grow, x1 := vr.grow, vr.x1
				N1 := N + grow
				var q1, f1 uint
				for q1 = 0; 3*q1 < 2*N1; q1++ {
				}
				for f1 = 0; 3*(f1+1) < N1; f1++ {
				}
				vals1 := &powVals{addrs: []starknet.Address{X, Y}, powers: []uint{x, N - x}, total: N}
				if grow > 0 || x1 != x {
					vals1.powers1, vals1.total1 = []uint{x1, N1 - x1}, N1
				}
				vc1 := votecounter.New[starknet.Value](vals1, 0)
				vc1.AddPrecommit(&starknet.Precommit{MessageHeader: hdr(1, 0, X), ID: &A}) // buffered for the next height
				vc1.StartNewHeight()
				tag := fmt.Sprintf(" [height entered by StartNewHeight, total %+d%s]", int(grow), vr.tag)
				wq1, wnf1 := x1 >= q1, x1 > f1
				chk("buffered-precommit-quorum"+tag, vc1.HasQuorumForVote(0, votecounter.Precommit, &A), wq1)
				chk("add-prevote-accepted"+tag, vc1.AddPrevote(&starknet.Prevote{MessageHeader: hdr(1, 0, X), ID: &A}), true)
				chk("prevote-quorum-for-value"+tag, vc1.HasQuorumForVote(0, votecounter.Prevote, &A), wq1)
				chk("prevote-quorum-any"+tag, vc1.HasQuorumForAny(0, votecounter.Prevote), wq1)
				vc1.AddPrevote(&starknet.Prevote{MessageHeader: hdr(1, 3, X), ID: &A})
				chk("f+1-future-round"+tag, vc1.HasNonFaultyFutureMessage(3), wnf1)
				vc1.AddPrevote(&starknet.Prevote{MessageHeader: hdr(1, 0, Y), ID: nil})
				chk("nil-quorum"+tag, vc1.HasQuorumForVote(0, votecounter.Prevote, nil), N1-x1 >= q1)
				lv++
			}
			lp++
			if wantQ {
				lq++
			}
			if wantNF {
				lnf++
			}
		}
		mu.Lock()
		pairs += lp
		quorums += lq
		nonfaulty += lnf
		nextHeight += lv
		mu.Unlock()
	})
	r.Set("C_threshold_max_total_power", int64(maxN))
	r.Set("C_threshold_pairs", pairs)
	r.Set("C_threshold_pairs_with_quorum", quorums)
	r.Set("C_threshold_pairs_above_f", nonfaulty)
	r.Set("C_threshold_next_height_variants", nextHeight) // (N, x) x {same set, total +1, sender +1 / -1, powers swapped}
	r.Add("evaluations", pairs*20+nextHeight*6)
}

// ---- C2: vote counter vs reference model, all sequences up to a depth ---------------------------

type vcMsg struct {
	kind   int // 0 proposal 1 prevote 2 precommit
	round  int
	sender int
	id     int // -1 nil, 0 A, 1 B
}

type refVC struct {
	powers []uint
	n      int
	votes  map[[4]int]bool // round, kind, sender, id
	props  map[int]int     // round -> id
}

func (m *refVC) add(x vcMsg) bool {
	if x.kind == 0 {
		if x.sender != x.round%m.n {
			return false
		}
		if _, ok := m.props[x.round]; ok {
			return false
		}
		m.props[x.round] = x.id
		return true
	}
	k := [4]int{x.round, x.kind, x.sender, x.id}
	if m.votes[k] {
		return false
	}
	m.votes[k] = true
	return true
}

func (m *refVC) count(round, kind, id int) uint {
	var p uint
	for s := 0; s < m.n; s++ {
		if m.votes[[4]int{round, kind, s, id}] {
			p += m.powers[s]
		}
	}
	return p
}

func (m *refVC) any(round, kind int) uint {
	var p uint
	for s := 0; s < m.n; s++ {
		for id := -1; id <= 1; id++ {
			if m.votes[[4]int{round, kind, s, id}] {
				p += m.powers[s]
				break
			}
		}
	}
	return p
}

func (m *refVC) senders(round int) uint {
	var p uint
	for s := 0; s < m.n; s++ {
		seen := false
		for kind := 1; kind <= 2 && !seen; kind++ {
			for id := -1; id <= 1; id++ {
				if m.votes[[4]int{round, kind, s, id}] {
					seen = true
				}
			}
		}
		if _, ok := m.props[round]; ok && s == round%m.n {
			seen = true
		}
		if seen {
			p += m.powers[s]
		}
	}
	return p
}

func voteCounterDifferential(r *ev.Run) {
	depth := ev.Pick(r, 3, 4)
	for _, powers := range [][]uint{{1, 1, 1, 1}, {2, 1, 1, 1}} {
		n := len(powers)
		var total uint
		for _, p := range powers {
			total += p
		}
		var q, f uint
		for q = 0; 3*q < 2*total; q++ {
		}
		for f = 0; 3*(f+1) < total; f++ {
		}
		vals := &powVals{powers: powers, total: total}
		for i := 0; i < n; i++ {
			vals.addrs = append(vals.addrs, felt.FromUint64[starknet.Address](uint64(10+i)))
		}
		ids := []*starknet.Hash{new(felt.FromUint64[starknet.Hash](500)), new(felt.FromUint64[starknet.Hash](501))}
		idp := func(i int) *starknet.Hash {
			if i < 0 {
				return nil
			}
			return ids[i]
		}
		// alphabet: senders 0..2 (3 of 4 reach the quorum for equal powers), rounds 0/1, ids nil/A/B
		var alpha []vcMsg
		for round := 0; round <= 1; round++ {
			for s := 0; s < 3; s++ {
				for kind := 1; kind <= 2; kind++ {
					for id := -1; id <= 1; id++ {
						alpha = append(alpha, vcMsg{kind, round, s, id})
					}
				}
			}
			alpha = append(alpha, vcMsg{0, round, round % n, 0}, vcMsg{0, round, (round + 1) % n, 1})
		}
		var mu sync.Mutex
		var seqs, withQuorum int64
		var rec func(prefix []vcMsg, d int)
		check := func(seq []vcMsg) {
			vc := votecounter.New[starknet.Value](vals, 0)
			ref := &refVC{powers: powers, n: n, votes: map[[4]int]bool{}, props: map[int]int{}}
			fail := func(what string, got, want any) {
				r.Violate("votecounter-differs-from-set-model "+what, map[string]any{"part": "C2", "powers": powers, "sequence": fmt.Sprintf("%+v", seq), "check": what, "got": got, "want": want})
			}
			for _, x := range seq {
				hdr := starknet.MessageHeader{Height: 0, Round: types.Round(x.round), Sender: vals.addrs[x.sender]}
				var got bool
				switch x.kind {
				case 0:
					v := starknet.Value(*ids[x.id])
					got = vc.AddProposal(&starknet.Proposal{MessageHeader: hdr, ValidRound: -1, Value: &v})
				case 1:
					got = vc.AddPrevote(&starknet.Prevote{MessageHeader: hdr, ID: idp(x.id)})
				default:
					got = vc.AddPrecommit(&starknet.Precommit{MessageHeader: hdr, ID: idp(x.id)})
				}
				if want := ref.add(x); got != want {
					fail("add-result", got, want)
				}
			}
			hasQ := false
			for round := 0; round <= 1; round++ {
				for kind := 1; kind <= 2; kind++ {
					vt := votecounter.VoteType(kind - 1)
					for id := -1; id <= 1; id++ {
						want := ref.count(round, kind, id) >= q
						hasQ = hasQ || want
						if got := vc.HasQuorumForVote(types.Round(round), vt, idp(id)); got != want {
							fail(fmt.Sprintf("quorum-for-vote kind=%d", kind), got, want)
						}
					}
					if got, want := vc.HasQuorumForAny(types.Round(round), vt), ref.any(round, kind) >= q; got != want {
						fail(fmt.Sprintf("quorum-any kind=%d", kind), got, want)
					}
				}
				if got, want := vc.HasNonFaultyFutureMessage(types.Round(round)), ref.senders(round) > f; got != want {
					fail("f+1-senders", got, want)
				}
				p := vc.GetProposal(types.Round(round))
				id, ok := ref.props[round]
				if (p != nil) != ok || (p != nil && p.Value.Hash() != *ids[id]) {
					fail("proposal-kept", p != nil, ok)
				}
			}
			mu.Lock()
			seqs++
			if hasQ {
				withQuorum++
			}
			mu.Unlock()
		}
		rec = func(prefix []vcMsg, d int) {
			check(prefix)
			if d == 0 {
				return
			}
			for _, a := range alpha {
				rec(append(prefix[:len(prefix):len(prefix)], a), d-1)
			}
		}
		ev.Par(len(alpha), 16, func(i int) { rec([]vcMsg{alpha[i]}, depth-1) })
		r.Add("C2_votecounter_sequences", seqs)
		r.Add("C2_votecounter_sequences_with_a_quorum", withQuorum)
		r.Add("evaluations", seqs)
		r.Set("C2_votecounter_alphabet", int64(len(alpha)))
		r.Set("C2_votecounter_depth", int64(depth))
	}
}

// ---- C3: future-height buffer -------------------------------------------------------------------
// Messages for a height above the current one are buffered and become that height's round data at
// StartNewHeight. For every current height, every buffered height (current .. current+2), every round and
// every ordered pair of proposals from any two of the 4 validators (round-robin proposer (h+r)%4, so the
// proposer rotates ACROSS heights): a proposal is accepted iff its sender is proposer(ITS height, round) and
// the slot is free; after advancing to that height the kept proposal is the legitimate one; buffered votes
// count exactly.
func futureHeightBuffer(r *ev.Run) {
	const n = 4
	powers := []uint{1, 1, 1, 1}
	vals := &powVals{powers: powers, total: n}
	for i := 0; i < n; i++ {
		vals.addrs = append(vals.addrs, felt.FromUint64[starknet.Address](uint64(10+i)))
	}
	valA, valB := felt.FromUint64[starknet.Value](500), felt.FromUint64[starknet.Value](501)
	vv := []*starknet.Value{&valA, &valB}
	var cases, accepted, refusedForeign int64
	for cur := 0; cur <= 3; cur++ {
		for d := 0; d <= 2; d++ {
			fh := cur + d
			for round := 0; round <= 3; round++ {
				prop := (fh + round) % n
				for s1 := 0; s1 < n; s1++ {
					for s2 := -1; s2 < n; s2++ { // -1: single proposal
						vc := votecounter.New[starknet.Value](vals, types.Height(cur))
						fail := func(what string, got, want any) {
							r.Violate("future-height-buffer "+what, map[string]any{"part": "C3", "current_height": cur, "message_height": fh, "round": round,
								"proposer_of_message_height": prop, "proposer_of_current_height": (cur + round) % n, "senders": []int{s1, s2}, "got": got, "want": want})
						}
						mk := func(s, v int) *starknet.Proposal {
							return &starknet.Proposal{MessageHeader: starknet.MessageHeader{Height: types.Height(fh), Round: types.Round(round), Sender: vals.addrs[s]}, ValidRound: -1, Value: vv[v]}
						}
						kept := -1
						got1 := vc.AddProposal(mk(s1, 0))
						if want := s1 == prop; got1 != want {
							fail("proposal-acceptance", got1, want)
						}
						if s1 == prop {
							kept = 0
						} else {
							refusedForeign++
						}
						if s2 >= 0 {
							got2 := vc.AddProposal(mk(s2, 1))
							want := s2 == prop && kept < 0
							if got2 != want {
								fail("proposal-acceptance-second", got2, want)
							}
							if want {
								kept = 1
							}
						}
						// three buffered prevotes for A from validators 0..2
						hA := valA.Hash()
						for s := 0; s < 3; s++ {
							vc.AddPrevote(&starknet.Prevote{MessageHeader: starknet.MessageHeader{Height: types.Height(fh), Round: types.Round(round), Sender: vals.addrs[s]}, ID: &hA})
						}
						for i := 0; i < d; i++ {
							vc.StartNewHeight()
						}
						p := vc.GetProposal(types.Round(round))
						switch {
						case kept < 0 && p != nil:
							fail("slot-occupied-by-non-proposer", fmt.Sprint(p.Sender), nil)
						case kept >= 0 && p == nil:
							fail("legitimate-proposal-lost", nil, kept)
						case kept >= 0 && (p.Sender != vals.addrs[prop] || *p.Value != *vv[kept]):
							fail("wrong-proposal-kept", fmt.Sprint(p.Sender), prop)
						}
						if !vc.HasQuorumForVote(types.Round(round), votecounter.Prevote, &hA) {
							fail("buffered-votes-lost", false, true)
						}
						if vc.HasQuorumForVote(types.Round(round), votecounter.Precommit, &hA) {
							fail("buffered-prevotes-counted-as-precommits", true, false)
						}
						cases++
						if kept >= 0 {
							accepted++
						}
					}
				}
			}
		}
	}
	r.Set("C3_future_height_buffer_cases", cases)
	r.Set("C3_cases_with_accepted_proposal", accepted)
	r.Set("C3_foreign_first_proposals_refused", refusedForeign)
	r.Add("evaluations", cases*5)
}
