package c12

// C12 — Tendermint agreement on the REAL tendermint.StateMachine / votecounter.VoteCounter.
//
//	(A) deviation-bounded exhaustive search around the benign schedule, 3 real machines + Byzantine adversary
//	(B) the same search continued from scripted (hence reachable) intermediate configurations
//	(C) quorum / f+1 thresholds through the real VoteCounter for every total power N and every split
//	(C2) real VoteCounter vs a set-semantics reference model for every message sequence up to a depth
//	(A2) two consecutive heights, rotating proposer, future-height messages; (C3) future-height buffer of the VoteCounter
//	(A3) two heights with a validator set that is re-weighted at the height boundary (reweight_test.go)
//	(C4) real VoteCounter under a re-weighted validator set: votes weigh what their sender holds at the vote's own
//	     height (reweightvc_test.go)
//
// Monitors (monitor_test.go) read machine OUTPUTS and delivered inputs only.

import (
	"encoding/json"
	"fmt"
	"os"
	"runtime"
	"runtime/debug"
	"runtime/pprof"
	"sort"
	"strconv"
	"strings"
	"testing"
	"time"

	"verif/mc/ev"
)

type aResult struct {
	Config      string `json:"config"`
	K           int    `json:"k_completed"`
	Executions  int64  `json:"executions"`
	States      int64  `json:"search_states"`
	MachTuples  int64  `json:"distinct_machine_state_tuples"`
	Transitions int64  `json:"transitions"`
	Deviations  int64  `json:"deviation_branches"`
	Unstored    int64  `json:"budget0_states_walked_without_caching"`
	Redeliv     int64  `json:"redelivery_branches"`
	RedelivEff  int64  `json:"redelivery_branches_that_changed_the_receiver"`
	Outcomes    int    `json:"distinct_outcomes"`
	Seconds     float64
}

func envInt(name string, def int) int {
	if v, err := strconv.Atoi(os.Getenv(name)); err == nil {
		return v
	}
	return def
}

type entry struct {
	res                aResult
	outcomes           map[string]int64
	sims, calls, nodes int64
	reNoop, reEff      int64
}

var (
	entries = map[string]*entry{}
	order   []string
	cutAny  bool // some search was cut by the internal deadline (recorded with r.Incomplete)
)

// searchFrom runs k = kmin..kmax from the state built by mk and records the largest completed k for the
// configuration (a later, deeper call for the same configuration replaces the record: every execution with <= k
// deviations is also an execution with <= k+1).
func searchFrom(r *ev.Run, c *cfg, what string, mk func(s *searcher) (gstate, []opt, bool), kmin, kmax int) {
	key := what + " " + c.name
	done := -1
	if old := entries[key]; old != nil {
		done = old.res.K
	}
	var last *searcher
	var lastDur time.Duration
	for k := kmin; k <= kmax; k++ {
		if r.OutOfTime() {
			r.Incomplete(fmt.Sprintf("%s: deadline before k=%d (completed k=%d)", key, k, done))
			cutAny = true
			break
		}
		s := newSearcher(c, r, key)
		g0, pre, ok := mk(s)
		if !ok {
			r.Incomplete(fmt.Sprintf("%s: scripted prefix not reachable on this tree", key))
			r.Outcome("prefix-unreachable")
			return
		}
		t0 := time.Now()
		if !s.run(g0, k, pre) {
			r.Incomplete(fmt.Sprintf("%s: k=%d cut by the deadline (completed k=%d)", key, k, done))
			cutAny = true
			break
		}
		done, last, lastDur = k, s, time.Since(t0)
	}
	if last != nil {
		if entries[key] == nil {
			order = append(order, key)
		}
		entries[key] = &entry{
			res: aResult{Config: key, K: done, Executions: last.leaves.Load(), States: last.states.Load(), MachTuples: last.tupleCount(),
				Transitions: last.transitions.Load(), Deviations: last.devsTaken.Load(), Unstored: last.unstored.Load(), Redeliv: last.redeliv.Load(), RedelivEff: last.redelivEff.Load(), Outcomes: len(last.outcomes), Seconds: lastDur.Seconds()},
			outcomes: last.outcomes, sims: c.sims.Load(), calls: c.calls.Load(), nodes: c.nodes.Load(),
			reNoop: c.reNoop.Load(), reEff: c.reEff.Load(),
		}
	}
	c.roots, c.canon = nil, nil // release the memo DAG of this configuration
	runtime.GC()
}

func TestCheck(t *testing.T) {
	debug.SetGCPercent(150)
	r := ev.Start("C12", "model_checking")
	r.SetBudget(ev.Pick(r, 160, 1700))
	if p := os.Getenv("VERIF_C12_PROF"); p != "" {
		f, _ := os.Create(p)
		pprof.StartCPUProfile(f)
		defer pprof.StopCPUProfile()
	}
	r.Assume = append(r.Assume,
		"parts A and B: single height (0), a validator that emitted Commit receives nothing further; part A2: two heights, the next height is started at once after a commit, messages of the height left are dropped for that validator",
		"part A3: voting power is a function of the height (heights 0 and 1); in every generated configuration the Byzantine validator holds at most f = max{f: 3f < N} at both heights",
		"messages of rounds above the round bound are not delivered; nothing is claimed beyond the completed k, the round bound and the prefix catalogue",
		"re-delivery of an already delivered message (deviation R) is offered at class boundaries, for every message in the receiver's delivery record; an immediate second delivery is additionally verified to be a no-op at every memo miss; stale timeouts are not separate deviations: each is verified to be a no-op on the real machine when it becomes stale",
		"Byzantine alphabet: nil, each correct proposer's value, one valid Byzantine-only value, one invalid value (if it can propose); any valid-round; any non-empty receiver subset",
	)

	if f := os.Getenv("VERIF_REPLAY"); f != "" {
		replay(r, f)
		return
	}

	// ---- (C) thresholds, (C2) vote counter differential ---------------------------------------
	// VERIF_C12_ONLY=<part>[,<part>] (C, A, A2, A3, B) restricts a run to some parts (development aid)
	want := func(part string) bool {
		o := os.Getenv("VERIF_C12_ONLY")
		return o == "" || strings.Contains(","+o+",", ","+part+",")
	}
	if envInt("VERIF_C12_SKIP_C", 0) == 0 && want("C") {
		thresholds(r)
		voteCounterDifferential(r)
		futureHeightBuffer(r)
		t0 := time.Now()
		futureHeightReweighted(r)
		r.Set("C4_seconds", time.Since(t0).Seconds())
	}

	eq := []uint{1, 1, 1, 1}
	fromStart := func(s *searcher) (gstate, []opt, bool) { return s.start(), nil, true }
	kA := envInt("VERIF_C12_K", -1)
	kB := envInt("VERIF_C12_KB", 2)

	// ---- (A) from the initial state ---------------------------------------------------------------
	// byz = proposer of round 0 / of round 1 / of no explored round (byz=3 is symmetric to byz=2 for R=1).
	// The silent-proposer configuration byz=0 has ~9x more deviation sites (every timeout class is a quiescent
	// boundary where the whole alphabet is offered), hence one level less in the quick tier.
	aCfg := func(b int) *cfg { return newCfg(fmt.Sprintf("n4 equal byz=%d R=1", b), eq, b, 1) }
	for _, b := range []int{0, 1, 2} {
		if ob := envInt("VERIF_C12_ONLYBYZ", -1); (ob >= 0 && ob != b) || !want("A") {
			continue
		}
		k := ev.Pick(r, 2, 3) // quick: byz=1,2 are deepened to k=3 after the scenarios
		if kA >= 0 {
			k = kA
		}
		searchFrom(r, aCfg(b), "A", fromStart, 0, k)
	}
	if r.Thorough() && kA < 0 && want("A") {
		// three rounds from the initial state, every Byzantine position
		for _, b := range []int{0, 1, 2, 3} {
			searchFrom(r, newCfg(fmt.Sprintf("n4 equal byz=%d R=2", b), eq, b, 2), "A", fromStart, 0, 2)
		}
		// weighted voting power: N=5 (2,1,1,1) q=4 f=1 ; N=7 (3,2,1,1) q=5 f=2 with the Byzantine validator holding 2 or 1
		for _, w := range []struct {
			p   []uint
			byz int
		}{{[]uint{2, 1, 1, 1}, 1}, {[]uint{2, 1, 1, 1}, 3}, {[]uint{1, 2, 1, 1}, 0}, {[]uint{3, 2, 1, 1}, 1}, {[]uint{3, 1, 2, 1}, 2}, {[]uint{1, 3, 1, 2}, 0}} {
			searchFrom(r, newCfg(fmt.Sprintf("n4 powers=%v byz=%d R=1", w.p, w.byz), w.p, w.byz, 1), "A", fromStart, 0, 2)
		}
	}

	// ---- (A2) two heights: the machines continue into height 1 after committing height 0 ----------------------
	// proposer(h, r) = (h+r) mod 4 rotates across heights; messages of height 1 reach validators still at height 0
	// (future-height buffer) both naturally (validators commit at different times) and from the Byzantine validator.
	type twoH struct {
		rh []int
		k  int
	}
	plan := []twoH{{[]int{0, 0}, 2}}
	if r.Thorough() {
		plan = []twoH{{[]int{0, 0}, 3}, {[]int{1, 1}, 2}}
	}
	for _, p := range plan {
		for _, b := range []int{0, 1, 2, 3} {
			if ob := envInt("VERIF_C12_ONLYBYZ", -1); (ob >= 0 && ob != b) || !want("A2") {
				continue
			}
			searchFrom(r, newCfgH(fmt.Sprintf("n4 equal byz=%d heights=2 R=%v", b, p.rh), eq, b, p.rh), "A2", fromStart, 0, envInt("VERIF_C12_K2", p.k))
		}
	}

	// ---- (A3) two heights with a validator set that is re-weighted at the height boundary ---------------------
	// The validator set given to the real machines is a function of the height (reweight_test.go); monitors weigh every
	// message with the power of the message's own height.
	runA3 := func(last bool) {
		for _, w := range reweightPlan(r) {
			if f := os.Getenv("VERIF_C12_A3FILTER"); f != "" && !strings.Contains(fmt.Sprintf("%s byz=%d R=%v k=%d", w.tag, w.byz, w.rh, w.k), f) {
				continue
			}
			if !want("A3") || w.last != last {
				continue
			}
			kmin := 0
			if old := entries["A3 "+w.name()]; old != nil {
				if old.res.K >= w.k {
					continue // already run (the quick family is part of the wide thorough family)
				}
				kmin = old.res.K + 1 // the lower levels were completed by an earlier layer of the same configuration
			}
			searchFrom(r, newCfgHP(w.name(), w.p0, w.p1, w.byz, w.rh), "A3", fromStart, kmin, envInt("VERIF_C12_K3", w.k))
		}
	}
	runA3(false)

	// ---- (B) scripted prefixes ----------------------------------------------------------------------
	runScenario := func(sc scenario, kmin, kmax int) {
		c := newCfg(sc.name, sc.powers, sc.byz, sc.R)
		searchFrom(r, c, "B", func(s *searcher) (gstate, []opt, bool) {
			g, tr, ok := s.script(sc.script)
			if ok && sc.expect != nil {
				if why := sc.expect(c, &g); why != "" {
					// never on the unchanged tree; under a mutant the script may lead elsewhere: not a verdict, and
					// it must not hide the verdicts of the other parts
					fmt.Printf("NOTE scenario %q reached an unexpected configuration: %s\n", sc.name, why)
					return g, tr, false
				}
			}
			return g, tr, ok
		}, kmin, kmax)
	}
	for _, sc := range scenarios() {
		if f := os.Getenv("VERIF_C12_SCEN"); f != "" && !strings.HasPrefix(sc.name, f) { // development aid
			continue
		}
		if want("B") {
			k := kB
			if os.Getenv("VERIF_C12_KB") == "" {
				k = max(kB, ev.Pick(r, 0, sc.kT)) // a scenario may state a deeper base level for the thorough tier
			}
			runScenario(sc, 0, k)
		}
	}

	// ---- deepening (thorough): one more deviation, cheapest first; a deadline cut only loses these ------------
	if r.Quick() && kA < 0 && want("A") {
		searchFrom(r, aCfg(2), "A", fromStart, 3, 3)
		searchFrom(r, aCfg(1), "A", fromStart, 3, 3)
	}
	if r.Thorough() && kA < 0 && envInt("VERIF_C12_KB", -1) < 0 && want("A") && want("B") {
		var scs []scenario
		for _, sc := range scenarios() {
			if entries["B "+sc.name] != nil { // base level completed (else the cut is already recorded)
				scs = append(scs, sc)
			}
		}
		sort.SliceStable(scs, func(i, j int) bool { return entries["B "+scs[i].name].res.States < entries["B "+scs[j].name].res.States })
		for len(scs) < 2 {
			scs = append(scs, scenario{})
		}
		for _, sc := range scs[:2] {
			if sc.name == "" {
				continue
			}
			runScenario(sc, max(3, sc.kT+1), max(3, sc.kT+1))
		}
		searchFrom(r, aCfg(2), "A", fromStart, 4, 4)
		searchFrom(r, aCfg(1), "A", fromStart, 4, 4)
		for _, sc := range scs[2:] {
			if sc.name != "" {
				runScenario(sc, max(3, sc.kT+1), max(3, sc.kT+1))
			}
		}
	}

	runA3(true)

	outcomes := map[string]int64{}
	var results []aResult
	for _, key := range order {
		e := entries[key]
		results = append(results, e.res)
		r.Add("states", e.res.States)
		r.Add("distinct_machine_state_tuples", e.res.MachTuples)
		r.Add("transitions", e.res.Transitions)
		r.Add("executions", e.res.Executions)
		r.Add("traces_validated_against_impl", e.res.Executions)
		r.Add("real_simulations_memo_misses", e.sims)
		r.Add("real_process_calls", e.calls)
		r.Add("distinct_validator_states", e.nodes)
		r.Add("redelivery_branches", e.res.Redeliv)
		r.Add("redelivery_branches_that_changed_the_receiver", e.res.RedelivEff)
		r.Add("redelivery_pairs_(validator_state,delivered_message)_run_on_real_machine_noop", e.reNoop)
		r.Add("redelivery_pairs_(validator_state,delivered_message)_run_on_real_machine_effective", e.reEff)
		for l, n := range e.outcomes {
			outcomes[l] += n
		}
	}

	// ---- report -----------------------------------------------------------------------------------------
	r.Set("searches", results)
	minK := 99
	for _, x := range results {
		if strings.HasPrefix(x.Config, "A n4 equal") && strings.HasSuffix(x.Config, "R=1") {
			minK = min(minK, x.K)
		}
	}
	r.Set("A_equal_power_R1_largest_k_completed_in_all_configs", int64(minK))
	var ls []string
	for l := range outcomes {
		ls = append(ls, l)
	}
	sort.Strings(ls)
	hist := map[string]int64{}
	for _, l := range ls {
		r.Outcome(l)
		hist[l] = outcomes[l]
	}
	r.Set("execution_outcomes", hist)
	r.Set("distinct_nontrivial", int64(len(ls)))
	r.Set("rule", "every schedule with <= k deviations (withhold / Byzantine multicast / early timeout / late delivery / re-delivery of an already delivered message) from the benign phase-by-phase schedule, k iterated; outcome = multiset of decisions (value@round), number undecided, highest round entered")
	for i, x := range results {
		if i < 6 {
			r.Sample(x)
		}
	}
	if len(ls) < 4 && r.Violations() == 0 && !cutAny && os.Getenv("VERIF_C12_ONLY") == "" {
		r.Infra("vacuous exploration: only %d distinct outcomes %v", len(ls), ls)
	}
	pprof.StopCPUProfile()
	r.Finish()
}

// replay re-runs one recorded violation of parts A/B (bin/check C12 --replay <file>): the recorded deviations are
// applied to the benign schedule of the recorded configuration and every scheduler step is printed.
func replay(r *ev.Run, file string) {
	b, err := os.ReadFile(file)
	if err != nil {
		r.Infra("replay: %v", err)
	}
	var rec struct {
		Key    string `json:"key"`
		Detail struct {
			Config string   `json:"config"`
			Powers []uint   `json:"powers"`
			Pow1   []uint   `json:"powers_next_height"`
			Byz    int      `json:"byzantine"`
			R      int      `json:"round_bound"`
			RH     []int    `json:"round_bounds_per_height"`
			Devs   []string `json:"deviations_from_benign_schedule"`
		} `json:"detail"`
	}
	if err := json.Unmarshal(b, &rec); err != nil || len(rec.Detail.Powers) == 0 {
		r.Infra("replay: not a search violation record (threshold / vote-counter records carry their case in the detail): %v", err)
	}
	os.Setenv("VERIF_C12_DEBUG", "1")
	if len(rec.Detail.RH) == 0 {
		rec.Detail.RH = []int{rec.Detail.R}
	}
	if len(rec.Detail.Pow1) == 0 {
		rec.Detail.Pow1 = rec.Detail.Powers
	}
	c := newCfgHP(rec.Detail.Config, rec.Detail.Powers, rec.Detail.Pow1, rec.Detail.Byz, rec.Detail.RH)
	s := newSearcher(c, r, "replay "+rec.Detail.Config)
	fmt.Printf("replaying %q on %s: %v\n", rec.Key, rec.Detail.Config, rec.Detail.Devs)
	g, tr, ok := s.script(rec.Detail.Devs)
	if !ok {
		fmt.Println("NOTE: the recorded deviations could not all be applied on this tree")
	}
	for { // benign continuation
		D, cls := s.dflt(&g)
		if D.t == oEnd {
			break
		}
		s.apply(&g, D, cls, tr)
		fmt.Printf("  [default] %-27s %s\n", c.label(D), s.describe(&g))
	}
	// no evidence file is written in replay mode (it would overwrite the tier's evidence)
	fmt.Printf("REPLAY property=C12 violations_reproduced=%d\n", r.Violations())
	if r.Violations() > 0 {
		os.Exit(1)
	}
	os.Exit(0)
}
