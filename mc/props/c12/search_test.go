package c12

// Deviation-bounded exhaustive search over the composition of the three real machines and the
// Byzantine adversary (DESIGN §4 C12 (A)), plus scripted prefixes (B).
//
// Default adversary (cost 0): deliver every in-flight message in the canonical order
// (round, kind, sender, receiver) — which is the phase-by-phase benign schedule —; when nothing is
// in flight fire the lowest pending timeout; the Byzantine validator is silent.
// Deviations (cost 1 each):
//   W  withhold the delivery that is due next (it joins the withheld set),
//   B  Byzantine multicast of one message to any non-empty subset of undecided correct validators:
//      at the first delivery of a class (round,kind) a message of that class ("on time"); at a quiescent
//      point (nothing in flight) a message of any class of a round entered so far (late / silent phase),
//   T  fire a pending timeout although deliveries are pending (or another than the lowest one),
//   L  deliver one withheld message / LA all withheld messages of one receiver (late delivery),
//   HS withhold a validator's ProcessStart (messages reaching it meanwhile are buffered) / LS start it late,
//   R  RE-DELIVER to one receiver one message it has already received (network duplicate, own echo, Byzantine
//      resend): any message of any earlier or the current phase / round of its current height in the receiver's
//      delivery record (monitor: proposals from the round's proposer, prevotes, precommits, own broadcasts included;
//      messages of the next height that were buffered while it was still at the previous one count once it is there).
//      On a correct machine every R is a no-op (the successor state is the state itself and the branch ends there);
//      the counters redelivery_* report how many were taken and how many changed the receiver.
// B, T, L, R are offered at class boundaries only (the class of the default action differs from the
// class of the previous default action); W at every delivery. Every execution with <= k deviations
// is run; states are cached on (machine states, network state, remaining budget).

import (
	"fmt"
	"math/bits"
	"os"
	"sort"
	"strings"
	"sync"
	"sync/atomic"

	"verif/mc/ev"

	"github.com/NethermindEth/juno/consensus/types"
)

const nC = 3 // correct validators (n=4, f=1 configurations)

const leafCap = 6_000_000

type gstate struct {
	nd   [nC]*node
	infl []uint32 // msg.pack()<<2 | receiver slot, ascending
	wh   []uint32
	tmo  [nC]uint32 // pending timeouts, bit round*3+step
	last int16
	unst uint8 // validators whose ProcessStart is still due (default: all start first)
	late uint8 // validators whose start was withheld (messages delivered meanwhile are buffered by the machine)
}

func (g *gstate) clone() gstate {
	x := *g
	x.infl = append(make([]uint32, 0, len(g.infl)+6), g.infl...)
	x.wh = append(make([]uint32, 0, len(g.wh)+2), g.wh...)
	return x
}

const (
	oDeliver = iota
	oFire
	oEnd
	oWithhold
	oByz
	oLate
	oLateAll
	oStart
	oHoldStart
	oLateStart
	oRedeliver
)

const clsStart = 300

type opt struct {
	t    uint8
	fl   uint32
	slot int8
	tm   uint8
	m    msg
	sub  uint8
}

func (c *cfg) label(o opt) string {
	switch o.t {
	case oDeliver:
		return fmt.Sprintf("D %s>%d", unpack(o.fl>>2), c.correct[o.fl&3])
	case oWithhold:
		return fmt.Sprintf("W %s>%d", unpack(o.fl>>2), c.correct[o.fl&3])
	case oLate:
		return fmt.Sprintf("L %s>%d", unpack(o.fl>>2), c.correct[o.fl&3])
	case oRedeliver:
		return fmt.Sprintf("R %s>%d", unpack(o.fl>>2), c.correct[o.fl&3])
	case oLateAll:
		return fmt.Sprintf("LA >%d", c.correct[o.slot])
	case oFire:
		return fmt.Sprintf("T %d %d.%s", c.correct[o.slot], o.tm/3, types.Step(o.tm%3))
	case oStart:
		return fmt.Sprintf("start %d", c.correct[o.slot])
	case oHoldStart:
		return fmt.Sprintf("HS %d", c.correct[o.slot])
	case oLateStart:
		return fmt.Sprintf("LS %d", c.correct[o.slot])
	case oByz:
		var to []string
		for s := 0; s < nC; s++ {
			if o.sub&(1<<uint(s)) != 0 {
				to = append(to, fmt.Sprint(c.correct[s]))
			}
		}
		return fmt.Sprintf("B %s>%s", o.m, strings.Join(to, ","))
	}
	return "END"
}

type task struct {
	g      gstate
	budget int
	trace  []opt
}

type searcher struct {
	c      *cfg
	r      *ev.Run
	what   string
	k      int
	shards [256]struct {
		mu sync.Mutex
		m  map[[2]uint64]int8
	}
	tupMu       [64]sync.Mutex
	tuples      [64]map[[nC]int64]struct{}
	states      atomic.Int64
	transitions atomic.Int64
	leaves      atomic.Int64
	pruned      atomic.Int64
	devsTaken   atomic.Int64
	unstored    atomic.Int64
	redeliv     atomic.Int64 // R branches taken
	redelivEff  atomic.Int64 // R branches after which the receiver was in another state
	abort       atomic.Bool
	tasks       []task
	outMu       sync.Mutex
	outcomes    map[string]int64
	byzAlpha    map[int][]msg
	future      []msg
}

func newSearcher(c *cfg, r *ev.Run, what string) *searcher {
	s := &searcher{c: c, r: r, what: what, outcomes: map[string]int64{}, byzAlpha: map[int][]msg{}}
	for i := range s.shards {
		s.shards[i].m = map[[2]uint64]int8{}
	}
	for i := range s.tuples {
		s.tuples[i] = map[[nC]int64]struct{}{}
	}
	for rk := 0; rk < (c.H+1)*hStride; rk++ {
		if !c.inBound(rk) {
			continue
		}
		for k := 0; k < 3; k++ {
			s.byzAlpha[rk*3+k] = c.byzMsgs(rk, k)
		}
	}
	// future-height alphabet (sent while the receivers are still at height 0): a proposal of the Byzantine-only value
	// for every round of height 1 (legitimate or forged, depending on who proposes there) and, for round 0 of height 1,
	// a prevote / precommit for that value and for the value the round's proposer will propose if it is a correct
	// validator (early votes that can meet a legitimate proposal once the receiver gets there)
	if c.H >= 1 {
		w, b := vid(c.byz), int8(c.byz)
		for r := 0; r <= c.RH[1]; r++ {
			s.future = append(s.future, msg{kind: kProp, round: rkOf(1, r), sender: b, val: w, vr: -1})
		}
		fv := []vid{w}
		if p := c.proposer(int(rkOf(1, 0))); p != c.byz {
			fv = append(fv, vid(p))
		}
		for _, v := range fv {
			s.future = append(s.future, msg{kind: kPrevote, round: rkOf(1, 0), sender: b, val: v, vr: -1},
				msg{kind: kPrecommit, round: rkOf(1, 0), sender: b, val: v, vr: -1})
		}
	}
	return s
}

func (s *searcher) reset() {
	for i := range s.shards {
		s.shards[i].m = map[[2]uint64]int8{}
	}
}

func mix(h, x, k uint64) uint64 {
	h ^= x
	h *= k
	h ^= h >> 29
	return h
}

func (s *searcher) visit(g *gstate, budget int) bool {
	h1, h2 := uint64(0xcbf29ce484222325), uint64(0x84222325cbf29ce4)
	add := func(x uint64) {
		h1 = mix(h1, x, 0x9E3779B97F4A7C15)
		h2 = mix(h2, x+0x1234567, 0xC2B2AE3D27D4EB4F)
	}
	for i := 0; i < nC; i++ {
		add(uint64(g.nd[i].id))
		add(uint64(g.tmo[i]) | 1<<40)
	}
	add(uint64(len(g.infl)) | 2<<40)
	for _, f := range g.infl {
		add(uint64(f))
	}
	add(uint64(len(g.wh)) | 3<<40)
	for _, f := range g.wh {
		add(uint64(f))
	}
	add(uint64(uint16(g.last)) | uint64(g.unst)<<16 | uint64(g.late)<<24 | 4<<40)
	key := [2]uint64{h1, h2}
	sh := &s.shards[h1>>56]
	sh.mu.Lock()
	old, ok := sh.m[key]
	if ok && int(old) >= budget {
		sh.mu.Unlock()
		return false
	}
	sh.m[key] = int8(budget)
	sh.mu.Unlock()
	if !ok {
		s.states.Add(1)
		t := [nC]int64{g.nd[0].id, g.nd[1].id, g.nd[2].id}
		i := uint64(t[0]*31+t[1]*17+t[2]) % 64
		s.tupMu[i].Lock()
		s.tuples[i][t] = struct{}{}
		s.tupMu[i].Unlock()
	}
	return true
}

func (s *searcher) tupleCount() int64 {
	var n int64
	for i := range s.tuples {
		n += int64(len(s.tuples[i]))
	}
	return n
}

// ---- Byzantine alphabet ----------------------------------------------------------------------

func (c *cfg) byzVals() []vid {
	seen := map[vid]bool{}
	var out []vid
	byzProposes := false
	for r := 0; r < (c.H+1)*hStride; r++ {
		if !c.inBound(r) {
			continue
		}
		p := c.proposer(r)
		if p == c.byz {
			byzProposes = true
		} else if !seen[vid(p)] {
			seen[vid(p)] = true
			out = append(out, vid(p))
		}
	}
	out = append(out, vid(c.byz)) // W: a valid value only the Byzantine validator brings up
	if byzProposes {
		out = append(out, c.zVal) // Z: Valid()==false
	}
	sort.Slice(out, func(i, j int) bool { return out[i] < out[j] })
	return out
}

func (c *cfg) byzMsgs(round, kind int) []msg {
	var out []msg
	b := int8(c.byz)
	if kind == kProp {
		if c.proposer(round) == c.byz {
			for _, v := range c.byzVals() {
				for vr := -1; vr < round%hStride; vr++ {
					out = append(out, msg{kind: kProp, round: int8(round), sender: b, val: v, vr: int8(vr)})
				}
			}
		} else {
			// forged proposal (not this round's proposer): must be ignored by every correct validator
			out = append(out, msg{kind: kProp, round: int8(round), sender: b, val: vid(c.byz), vr: -1})
		}
		return out
	}
	out = append(out, msg{kind: uint8(kind), round: int8(round), sender: b, val: nilV, vr: -1})
	for _, v := range c.byzVals() {
		out = append(out, msg{kind: uint8(kind), round: int8(round), sender: b, val: v, vr: -1})
	}
	return out
}

// ---- transitions -------------------------------------------------------------------------------

func insertSorted(a []uint32, x uint32) []uint32 {
	i := sort.Search(len(a), func(i int) bool { return a[i] >= x })
	if i < len(a) && a[i] == x {
		return a
	}
	a = append(a, 0)
	copy(a[i+1:], a[i:])
	a[i] = x
	return a
}

func removeAt(a []uint32, i int) []uint32 { return append(a[:i], a[i+1:]...) }

func (s *searcher) start() gstate {
	// last = clsStart: the start phase is not a boundary (no Byzantine traffic before anybody started, unless a
	// start is withheld, after which the next class boundary offers everything as usual)
	g := gstate{last: clsStart, unst: 1<<nC - 1}
	for i := 0; i < nC; i++ {
		g.nd[i] = s.c.roots[i]
	}
	return g
}

// step feeds one input to one validator and absorbs the outputs into the network state.
func (s *searcher) step(g *gstate, slot int, in uint32, trace []opt) {
	c := s.c
	if g.nd[slot].decided {
		return
	}
	e := c.next(g.nd[slot], in)
	if s.transitions.Add(1)&0x3fff == 0 && s.r.OutOfTime() {
		s.abort.Store(true) // internal deadline: the current k is abandoned and reported as not completed
	}
	prevH := g.nd[slot].hgt
	g.nd[slot] = e.to
	n := e.to
	for _, o := range e.out {
		if !c.inBound(int(o >> 13 & 15)) {
			continue
		}
		for s2 := 0; s2 < nC; s2++ {
			if s2 != slot && !g.nd[s2].decided {
				g.infl = insertSorted(g.infl, o<<2|uint32(s2))
			}
		}
	}
	for _, t := range e.tmo {
		if c.inBound(int(t) / 3) {
			g.tmo[slot] |= 1 << t
		}
	}
	if len(n.viol) > 0 {
		for _, v := range n.viol {
			s.report(v.key, v.what, g, trace, slot)
		}
	}
	if n.hgt > prevH {
		// committed: agreement per height
		h := prevH
		for s2 := 0; s2 < nC; s2++ {
			if o := g.nd[s2]; s2 != slot && o.dec[h] != none && o.dec[h] != n.dec[h] {
				s.report("agreement two-correct-validators-decided-differently",
					fmt.Sprintf("height %d: validator %d decided V%d@%d, validator %d decided V%d@%d", h, c.correct[slot], n.dec[h], n.decR[h]%hStride, c.correct[s2], o.dec[h], o.decR[h]%hStride), g, trace, slot)
			}
		}
		if n.decided {
			// finished the last height run: nothing more is delivered to it
			g.tmo[slot] = 0
			g.infl = dropTo(g.infl, slot)
			g.wh = dropTo(g.wh, slot)
			return
		}
		// it left height h: messages and timeouts of that height are dead for it (the vote counter refuses them); the
		// driver starts the next height at once
		lim := uint32(n.hgt) * hStride
		g.infl = dropOld(g.infl, slot, lim)
		g.wh = dropOld(g.wh, slot, lim)
		g.tmo[slot] &^= 1<<(lim*3) - 1
		s.step(g, slot, inStart, trace)
		return
	}
	// Stale timeouts (older round, or propose/prevote timeout after the step moved on) are verified to be
	// no-ops on the real machine at the moment they become stale and then dropped from the pending set.
	for b := g.tmo[slot]; b != 0; {
		t := uint32(bits.TrailingZeros32(b))
		b &^= 1 << t
		r, st := int8(t/3), int8(t%3)
		if n.sum.rk > r || (n.sum.rk == r && st < 2 && n.sum.step > st) {
			if e2 := c.next(n, inTmo|t); e2.to == n && len(e2.out) == 0 && len(e2.tmo) == 0 {
				g.tmo[slot] &^= 1 << t
			}
		}
	}
}

func dropOld(a []uint32, slot int, lim uint32) []uint32 {
	out := a[:0]
	for _, f := range a {
		if int(f&3) != slot || f>>2>>13&15 >= lim {
			out = append(out, f)
		}
	}
	return out
}

func dropTo(a []uint32, slot int) []uint32 {
	out := a[:0]
	for _, f := range a {
		if int(f&3) != slot {
			out = append(out, f)
		}
	}
	return out
}

func (s *searcher) dflt(g *gstate) (opt, int16) {
	if g.unst != 0 {
		return opt{t: oStart, slot: int8(bits.TrailingZeros8(g.unst))}, clsStart
	}
	if len(g.infl) > 0 {
		f := g.infl[0]
		m := f >> 2
		return opt{t: oDeliver, fl: f}, int16(m>>13&15)*3 + int16(m>>11&3)
	}
	best, bs := uint32(99), -1
	for i := 0; i < nC; i++ {
		if g.tmo[i] != 0 {
			if t := uint32(bits.TrailingZeros32(g.tmo[i])); t < best {
				best, bs = t, i
			}
		}
	}
	if bs >= 0 {
		return opt{t: oFire, slot: int8(bs), tm: uint8(best)}, 64 + int16(best)
	}
	return opt{t: oEnd}, 255
}

func (s *searcher) devs(g *gstate, D opt, cls int16, buf []opt) []opt {
	out := buf[:0]
	if D.t == oDeliver {
		out = append(out, opt{t: oWithhold, fl: D.fl})
	}
	if D.t == oStart {
		out = append(out, opt{t: oHoldStart, slot: D.slot})
	}
	if cls == g.last {
		return out
	}
	c := s.c
	// liveAt[h]: undecided validators whose height is <= h (a message of height h is dead for the others)
	var liveAt [2]uint8
	maxEntered, minH := 0, 9
	for i := 0; i < nC; i++ {
		if n := g.nd[i]; !n.decided {
			for h := int(n.hgt); h <= c.H; h++ {
				liveAt[h] |= 1 << uint(i)
			}
			minH = min(minH, int(n.hgt))
		}
		maxEntered = max(maxEntered, int(g.nd[i].maxRound))
	}
	inject := func(ms []msg) {
		for _, m := range ms {
			live := liveAt[m.round/hStride]
			for sub := uint8(1); sub < 1<<nC; sub++ {
				if sub&live == sub {
					out = append(out, opt{t: oByz, m: m, sub: sub})
				}
			}
		}
	}
	if D.t == oDeliver {
		inject(s.byzAlpha[int(cls)])
		if c.H >= 1 && cls < hStride*3 && cls%3 == kPrecommit {
			inject(s.future) // just before height 0 can be decided
		}
	} else if minH <= c.H {
		for cl := minH * hStride * 3; cl < (maxEntered+1)*3; cl++ {
			inject(s.byzAlpha[cl]) // empty for classes out of bound
		}
		if c.H >= 1 && minH == 0 && maxEntered < hStride {
			inject(s.future)
		}
	}
	for i := 0; i < nC; i++ {
		for b := g.tmo[i]; b != 0; {
			t := uint8(bits.TrailingZeros32(b))
			b &^= 1 << t
			if D.t == oFire && int(D.slot) == i && D.tm == t {
				continue
			}
			out = append(out, opt{t: oFire, slot: int8(i), tm: t})
		}
	}
	for i := 0; i < nC; i++ {
		if g.late&(1<<uint(i)) != 0 {
			out = append(out, opt{t: oLateStart, slot: int8(i)})
		}
	}
	var cnt [nC]int
	for _, f := range g.wh {
		out = append(out, opt{t: oLate, fl: f})
		cnt[f&3]++
	}
	for i := 0; i < nC; i++ {
		if cnt[i] >= 2 {
			out = append(out, opt{t: oLateAll, slot: int8(i)})
		}
	}
	for i := 0; i < nC; i++ {
		if n := g.nd[i]; !n.decided {
			c.ensureDups(n) // one replay of the real machine resolves all of them (no-ops become self-loops)
			for _, pk := range n.redeliv {
				out = append(out, opt{t: oRedeliver, fl: pk<<2 | uint32(i)})
			}
		}
	}
	return out
}

func (s *searcher) apply(g *gstate, o opt, cls int16, trace []opt) {
	switch o.t {
	case oDeliver:
		g.infl = removeAt(g.infl, 0)
		g.last = cls
		s.step(g, int(o.fl&3), inMsg|o.fl>>2, trace)
	case oWithhold:
		g.infl = removeAt(g.infl, 0)
		g.last = cls
		g.wh = insertSorted(g.wh, o.fl)
	case oFire:
		g.tmo[o.slot] &^= 1 << o.tm
		if cls >= 0 {
			g.last = cls
		}
		s.step(g, int(o.slot), inTmo|uint32(o.tm), trace)
	case oStart:
		g.unst &^= 1 << uint(o.slot)
		g.last = cls
		s.step(g, int(o.slot), inStart, trace)
	case oHoldStart:
		g.unst &^= 1 << uint(o.slot)
		g.late |= 1 << uint(o.slot)
		g.last = cls
	case oLateStart:
		g.late &^= 1 << uint(o.slot)
		s.step(g, int(o.slot), inStart, trace)
	case oByz:
		in := inMsg | o.m.pack()
		for i := 0; i < nC; i++ {
			if o.sub&(1<<uint(i)) != 0 {
				s.step(g, i, in, trace)
			}
		}
	case oLate:
		for i, f := range g.wh {
			if f == o.fl {
				g.wh = removeAt(g.wh, i)
				break
			}
		}
		s.step(g, int(o.fl&3), inMsg|o.fl>>2, trace)
	case oRedeliver:
		slot := int(o.fl & 3)
		before := g.nd[slot]
		s.step(g, slot, inMsg|o.fl>>2, trace)
		s.redeliv.Add(1)
		if g.nd[slot] != before {
			s.redelivEff.Add(1)
		}
	case oLateAll:
		var mine []uint32
		for _, f := range g.wh {
			if int(f&3) == int(o.slot) {
				mine = append(mine, f)
			}
		}
		g.wh = dropTo(g.wh, int(o.slot))
		for _, f := range mine {
			s.step(g, int(o.slot), inMsg|f>>2, trace)
		}
	}
}

// ---- search ------------------------------------------------------------------------------------

func (s *searcher) dfs(g gstate, budget int, trace []opt, split int) {
	var buf []opt
	for {
		if s.abort.Load() {
			return
		}
		// States with no budget left have a single (deterministic) continuation; they are cached like all others
		// until the cache holds leafCap states, after which only states that still branch are stored (bounds memory;
		// costs re-walking some benign suffixes, loses nothing).
		if budget > 0 || s.states.Load() < leafCap {
			if !s.visit(&g, budget) {
				s.pruned.Add(1)
				return
			}
		} else {
			s.unstored.Add(1)
		}
		D, cls := s.dflt(&g)
		if budget > 0 {
			buf = s.devs(&g, D, cls, buf)
			for _, o := range buf {
				g2 := g.clone()
				tr := append(trace[:len(trace):len(trace)], o)
				s.devsTaken.Add(1)
				dcls := int16(-1)
				if o.t == oWithhold || o.t == oHoldStart {
					dcls = cls
				}
				s.apply(&g2, o, dcls, tr)
				if split == 1 {
					s.tasks = append(s.tasks, task{g2, budget - 1, tr})
				} else {
					s.dfs(g2, budget-1, tr, max(split-1, 0))
				}
			}
		}
		if D.t == oEnd {
			s.leaf(&g)
			return
		}
		s.apply(&g, D, cls, trace)
	}
}

// run explores every execution with <= k deviations from g0. Returns false if cut by the deadline.
func (s *searcher) run(g0 gstate, k int, pre []opt) bool {
	s.reset()
	s.k = k
	s.tasks = nil
	split := 0
	if k >= 2 {
		split = 1
	}
	if k >= 3 {
		split = 2
	}
	s.dfs(g0.clone(), k, pre, split)
	ev.Par(len(s.tasks), 16, func(i int) {
		t := s.tasks[i]
		s.dfs(t.g, t.budget, t.trace, 0)
	})
	s.tasks = nil
	return !s.abort.Load()
}

func (s *searcher) leaf(g *gstate) {
	s.leaves.Add(1)
	// outcome class: multiset of decisions + number undecided + highest round entered
	var dec []string
	und, mr := 0, int8(0)
	for i := 0; i < nC; i++ {
		n := g.nd[i]
		for h := 0; h <= s.c.H; h++ {
			if n.dec[h] != none {
				if h == 0 {
					dec = append(dec, fmt.Sprintf("V%d@r%d", n.dec[h], n.decR[h]))
				} else {
					dec = append(dec, fmt.Sprintf("h%d:V%d@r%d", h, n.dec[h], n.decR[h]%hStride))
				}
			}
		}
		if !n.decided {
			und++
		}
		mr = max(mr, n.maxRound)
	}
	sort.Strings(dec)
	l := fmt.Sprintf("decided[%s] undecided=%d maxround=%d", strings.Join(dec, " "), und, mr)
	s.outMu.Lock()
	s.outcomes[l]++
	s.outMu.Unlock()
}

func (s *searcher) report(key, what string, g *gstate, trace []opt, slot int) {
	var tr []string
	for _, o := range trace {
		tr = append(tr, s.c.label(o))
	}
	paths := map[string][]string{}
	for i := 0; i < nC; i++ {
		paths[fmt.Sprint("validator ", s.c.correct[i])] = s.c.pathStrings(g.nd[i])
	}
	s.r.Violate(key, map[string]any{
		"what": what, "part": s.what, "config": s.c.name, "powers": s.c.powers, "powers_next_height": s.c.powersH[1], "byzantine": s.c.byz, "round_bound": s.c.R, "round_bounds_per_height": s.c.RH,
		"k": s.k, "validator": s.c.correct[slot], "deviations_from_benign_schedule": tr,
		"inputs_per_validator_(equivalent_representative)": paths,
	})
}

// ---- scripted prefixes -------------------------------------------------------------------------

// script drives the default scheduler and takes the listed deviations, each at the first point where it is
// offered; an item "until:<pred>" follows the default schedule until the predicate holds
// (round>=N: every undecided validator reached round N; v<i>.step>=N / v<i>.round>=N for one validator).
// The reached configuration is therefore reachable by construction.
func (s *searcher) script(items []string) (gstate, []opt, bool) {
	g := s.start()
	var trace []opt
	var buf []opt
	dbg := os.Getenv("VERIF_C12_DEBUG") != ""
	i := 0
	for steps := 0; i < len(items) && steps < 10000; steps++ {
		D, cls := s.dflt(&g)
		if strings.HasPrefix(items[i], "until:") {
			if s.pred(&g, items[i][6:]) {
				i++
				continue
			}
		} else {
			buf = s.devs(&g, D, cls, buf)
			found := false
			for _, o := range buf {
				if s.c.label(o) == items[i] {
					dcls := int16(-1)
					if o.t == oWithhold || o.t == oHoldStart {
						dcls = cls
					}
					trace = append(trace, o)
					s.apply(&g, o, dcls, trace)
					if dbg {
						fmt.Printf("  [script] %-28s %s\n", items[i], s.describe(&g))
					}
					i++
					found = true
					break
				}
			}
			if found {
				continue
			}
		}
		if D.t == oEnd {
			if dbg {
				fmt.Printf("  [script] END reached while waiting for %q\n", items[i])
			}
			return g, trace, false
		}
		s.apply(&g, D, cls, trace)
		if dbg {
			fmt.Printf("  [default] %-27s %s\n", s.c.label(D), s.describe(&g))
		}
	}
	return g, trace, i == len(items)
}

func (s *searcher) pred(g *gstate, p string) bool {
	var a, b int
	if n, _ := fmt.Sscanf(p, "round>=%d", &a); n == 1 {
		for i := 0; i < nC; i++ {
			if !g.nd[i].decided && int(g.nd[i].sum.round) < a {
				return false
			}
		}
		return true
	}
	if n, _ := fmt.Sscanf(p, "v%d.step>=%d", &a, &b); n == 2 {
		return int(g.nd[s.c.slot[a]].sum.step) >= b
	}
	if n, _ := fmt.Sscanf(p, "v%d.round>=%d", &a, &b); n == 2 {
		return int(g.nd[s.c.slot[a]].sum.round) >= b
	}
	panic("bad predicate " + p)
}

func (s *searcher) describe(g *gstate) string {
	var b strings.Builder
	for i := 0; i < nC; i++ {
		n := g.nd[i]
		if n.decided {
			fmt.Fprintf(&b, "v%d[DECIDED V%d@%d] ", s.c.correct[i], n.decVal, n.decRound)
			continue
		}
		fmt.Fprintf(&b, "v%d[r%d %s lock=V%d@%d valid=V%d@%d tmo=%b] ", s.c.correct[i], n.sum.round, types.Step(n.sum.step), n.sum.lockedVal, n.sum.lockedRound, n.sum.validVal, n.sum.validRound, g.tmo[i])
	}
	fmt.Fprintf(&b, "infl=%d wh=%d", len(g.infl), len(g.wh))
	return b.String()
}
