package c12

// (C4) the real VoteCounter under a validator set that is a FUNCTION OF THE HEIGHT (re-weighted at a height boundary).
//
// `Validators` takes the height as an argument, so voting power may change between consecutive heights. A vote is
// always to be weighed with what its sender holds at the vote's OWN height - also when it arrives early, while the
// receiving counter is still one or two heights behind (future-height buffer), and the thresholds in force are those of
// the height the counter is in. Enumerated exhaustively:
//
//	old, new   every ordered pair of power vectors of the 4 validators, each power in {1,3} (quick) / {1,2,3} (thorough),
//	           incl. old == new
//	(d, b)     the votes are for height cur+d (d = 1, 2); the set changes from old to new at height cur+b (1 <= b <= d)
//	kind       prevote | precommit
//	prop       the proposer of (cur+d, round) has / has not sent its proposal early (its power counts once among
//	           the senders of the round)
//	per validator: absent | votes A, sent early (buffered while the counter is at height cur) | votes A, sent once the
//	           counter has reached cur+d | votes nil, sent early
//
// Oracle (plain sums in the harness): with w = new, N = sum(new), q = min{q: 3q >= 2N}, f = max{f: 3f < N}, after the
// counter has advanced d heights: quorum for A iff sum w(voters of A) >= q, for nil likewise, for any iff
// sum w(voters) >= q, nothing for the other vote kind, f+1 senders iff sum w(voters or early proposer) > f.
// Not checked here on purpose: HasFuturePrecommitQuorum (queried BEFORE the counter advances) compares a future height's
// precommits with the quorum of the height the counter is in; it only feeds the TriggerSync hint, which decides nothing
// (C12 is about commits), so no expectation is placed on it under a changed total.
// The "< 1/3 Byzantine" assumption plays no part here (no validator is faulty at this level; this is arithmetic).

import (
	"fmt"
	"sync"
	"sync/atomic"

	"verif/mc/ev"

	"github.com/NethermindEth/juno/consensus/starknet"
	"github.com/NethermindEth/juno/consensus/types"
	"github.com/NethermindEth/juno/consensus/votecounter"
	"github.com/NethermindEth/juno/core/felt"
)

// stepVals: old powers below the boundary height, new powers from it on.
type stepVals struct {
	addrs    []starknet.Address
	old, new []uint
	boundary types.Height
}

func (v *stepVals) at(h types.Height) []uint {
	if h >= v.boundary {
		return v.new
	}
	return v.old
}

func (v *stepVals) TotalVotingPower(h types.Height) types.VotingPower {
	var t uint
	for _, p := range v.at(h) {
		t += p
	}
	return types.VotingPower(t)
}

func (v *stepVals) ValidatorVotingPower(h types.Height, a *starknet.Address) types.VotingPower {
	for i := range v.addrs {
		if v.addrs[i] == *a {
			return types.VotingPower(v.at(h)[i])
		}
	}
	return 0
}

func (v *stepVals) Proposer(h types.Height, r types.Round) starknet.Address {
	return v.addrs[(uint(h)+uint(r))%uint(len(v.addrs))]
}

const (
	vsAbsent = iota
	vsEarlyA
	vsOnTimeA
	vsEarlyNil
	vsStates
)

var vsName = [vsStates]string{"absent", "A-early", "A-on-time", "nil-early"}

func futureHeightReweighted(r *ev.Run) {
	const n = 4
	levels := ev.Pick(r, []uint{1, 3}, []uint{1, 2, 3}) // power of one validator at one height
	curs := ev.Pick(r, []int{0}, []int{0, 2})
	rounds := []int{0} // the round plays no part in the weighing; the proposer of (height, round) rotates with cur
	var vecs [][]uint
	for code := 0; ; code++ {
		v, c := make([]uint, n), code
		for i := range v {
			v[i] = levels[c%len(levels)]
			c /= len(levels)
		}
		if c != 0 {
			break
		}
		vecs = append(vecs, v)
	}
	addrs := make([]starknet.Address, n)
	for i := range addrs {
		addrs[i] = felt.FromUint64[starknet.Address](uint64(10 + i))
	}
	valA := felt.FromUint64[starknet.Value](500)
	hA := valA.Hash()
	nStates := 1
	for i := 0; i < n; i++ {
		nStates *= vsStates
	}
	var cases, reweighted, crossing, mismatches atomic.Int64
	var perKey sync.Map // key -> *atomic.Int64 (only the first few cases of a key are written out)
	ev.Par(len(vecs), 16, func(oi int) {
		old := vecs[oi]
		var lc, lrw, lx int64
		for _, nw := range vecs {
			var N, q, f uint
			N, q, f = thresholdsOf(nw)
			_ = N
			differ := false
			for i := range nw {
				differ = differ || nw[i] != old[i]
			}
			for _, cur := range curs {
				for d := 1; d <= 2; d++ {
					for b := 1; b <= d; b++ {
						vals := &stepVals{addrs: addrs, old: old, new: nw, boundary: types.Height(cur + b)}
						fh := types.Height(cur + d)
						for _, round := range rounds {
							prop := (int(fh) + round) % n
							for kind := 0; kind < 2; kind++ {
								for withProp := 0; withProp < 2; withProp++ {
									for code := 1; code < nStates; code++ {
										var st [n]int
										c := code
										for i := range st {
											st[i] = c % vsStates
											c /= vsStates
										}
										vc := votecounter.New[starknet.Value](vals, types.Height(cur))
										add := func(i int, id *starknet.Hash) {
											h := starknet.MessageHeader{Height: fh, Round: types.Round(round), Sender: addrs[i]}
											if kind == 0 {
												vc.AddPrevote(&starknet.Prevote{MessageHeader: h, ID: id})
											} else {
												vc.AddPrecommit(&starknet.Precommit{MessageHeader: h, ID: id})
											}
										}
										if withProp == 1 {
											vc.AddProposal(&starknet.Proposal{MessageHeader: starknet.MessageHeader{Height: fh, Round: types.Round(round), Sender: addrs[prop]}, ValidRound: -1, Value: &valA})
										}
										var wA, wNil, wOld, wNilOld uint // w..Old: early votes weighed with the power of the height of arrival
										voted := [n]bool{}
										for i, x := range st {
											switch x {
											case vsEarlyA:
												add(i, &hA)
												wA += nw[i]
												wOld += old[i]
											case vsEarlyNil:
												add(i, nil)
												wNil += nw[i]
												wNilOld += old[i]
											}
											voted[i] = x != vsAbsent
										}
										for i := 0; i < d; i++ {
											vc.StartNewHeight()
										}
										for i, x := range st {
											if x == vsOnTimeA {
												add(i, &hA)
												wA += nw[i]
												wOld += nw[i]
											}
										}
										senders, sendersOld := wA+wNil, wOld+wNilOld
										if withProp == 1 && !voted[prop] {
											senders += nw[prop]
											sendersOld += old[prop]
										}
										vt, other := votecounter.VoteType(kind), votecounter.VoteType(1-kind)
										// alt = what the answer would be if early messages were weighed with the sender's power at the
										// height of ARRIVAL: only used to name the defect class in the key, never to accept a result
										chk := func(what string, got, want, alt bool) {
											if got == want {
												return
											}
											mismatches.Add(1)
											key := "future-height-buffer wrong-threshold-or-count-under-re-weighted-validator-set [" + what + "]"
											if got == alt {
												key = "future-height-buffer vote-not-weighed-with-its-own-height's-power [" + what + "]"
											}
											ctr, _ := perKey.LoadOrStore(key, new(atomic.Int64))
											if ctr.(*atomic.Int64).Add(1) > 50 {
												r.Violate(key, nil) // counted; only the first cases of a key are written out
												return
											}
											var sts []string
											for i, x := range st {
												sts = append(sts, fmt.Sprintf("validator %d: %s", i, vsName[x]))
											}
											r.Violate(key, map[string]any{"part": "C4", "check": what, "got": got, "want": want,
												"counter_created_at_height": cur, "votes_for_height": int(fh), "round": round, "kind": []string{"prevote", "precommit"}[kind],
												"powers_below_boundary": old, "powers_from_boundary": nw, "boundary_height": cur + b,
												"early_proposal_from_proposer": withProp == 1, "proposer": prop, "voters": sts,
												"power_for_A_at_the_votes'_height": wA, "power_for_A_weighed_at_the_height_of_arrival": wOld, "quorum_at_the_votes'_height": q, "f_at_the_votes'_height": f})
										}
										chk("quorum-for-value", vc.HasQuorumForVote(types.Round(round), vt, &hA), wA >= q, wOld >= q)
										chk("quorum-for-nil", vc.HasQuorumForVote(types.Round(round), vt, nil), wNil >= q, wNilOld >= q)
										chk("quorum-any", vc.HasQuorumForAny(types.Round(round), vt), wA+wNil >= q, wOld+wNilOld >= q)
										chk("counted-for-the-other-vote-kind", vc.HasQuorumForAny(types.Round(round), other), false, false)
										chk("f+1-senders", vc.HasNonFaultyFutureMessage(types.Round(round)), senders > f, sendersOld > f)
										lc++
										if differ {
											lrw++
										}
										if (wA >= q) != (wOld >= q) {
											lx++
										}
									}
								}
							}
						}
					}
				}
			}
		}
		cases.Add(lc)
		reweighted.Add(lrw)
		crossing.Add(lx)
	})
	r.Set("C4_reweighted_buffer_power_levels_per_validator", fmt.Sprint(levels))
	r.Set("C4_reweighted_buffer_power_vector_pairs", int64(len(vecs)*len(vecs)))
	r.Set("C4_reweighted_buffer_cases", cases.Load())
	r.Set("C4_cases_with_a_changed_validator_set", reweighted.Load())
	// non-vacuity: cases in which weighing the early votes with the power of the height of ARRIVAL would decide the
	// quorum for A differently
	r.Set("C4_cases_where_the_height_of_weighing_decides_the_quorum", crossing.Load())
	r.Set("C4_mismatches", mismatches.Load())
	r.Add("evaluations", cases.Load()*5)
}
