package c12

// (A3) height-dependent validator sets for the two-height composition: the family of (power at height 0, power at
// height 1) assignments that the deviation-bounded search is run on. `Validators` is a function of the height; the real
// machines are given vals{c} (sim_test.go), which answers with powersH[height].
//
// One height's validator set: every correct validator holds baseW = 4, except one designated correct validator X that
// holds x; the Byzantine validator holds d.
//
//	x = 4  unchanged
//	x = 3  the other two correct validators are EXACTLY a quorum without X (N=12: q=8 ; N=16: q=11 needs the third)
//	x = 1  the other two correct validators are more than a quorum without X
//	d = 1  the smallest power
//	d = 5  the largest power below one third next to correct validators of 4 (5 of 17, 5 of 16)
//
// Sets in which the Byzantine validator would hold more than f = max{f: 3f < N} are not generated: "faulty validators
// hold less than one third of the voting power" is the property's assumption at EVERY height, so the generator is
// restricted, not the oracle. A configuration is an ordered pair of different sets (height 0 -> height 1): the
// Byzantine validator loses / gains weight, a correct validator loses / gains weight, both, the total changes.

import (
	"fmt"

	"verif/mc/ev"
)

const baseW = 4

type hset struct{ x, d uint }

func (h hset) vec(n, byz, xi int) []uint {
	v := make([]uint, n)
	for i := range v {
		v[i] = baseW
	}
	v[xi], v[byz] = h.x, h.d
	return v
}

func (h hset) admissible(n int) bool {
	_, _, f := thresholdsOf(h.vec(n, 0, 1))
	return h.d <= f
}

func hsets(levelsX, levelsD []uint) (sets []hset) {
	for _, x := range levelsX {
		for _, d := range levelsD {
			if s := (hset{x, d}); s.admissible(4) {
				sets = append(sets, s)
			}
		}
	}
	return
}

// orderedPairs: every (height 0, height 1) pair of different sets.
func orderedPairs(sets []hset) (out [][2]hset) {
	for _, a := range sets {
		for _, b := range sets {
			if a != b {
				out = append(out, [2]hset{a, b})
			}
		}
	}
	return
}

func trend(a, b uint) string {
	switch {
	case b < a:
		return "loses"
	case b > a:
		return "gains"
	}
	return "keeps"
}

type reweight struct {
	tag    string
	p0, p1 []uint
	byz    int
	rh     []int
	k      int
	last   bool // thorough-only layer: run after everything else (a deadline cut only loses these)
}

func (w reweight) name() string {
	return fmt.Sprintf("n4 powers h0=%v h1=%v (%s) byz=%d heights=2 R=%v", w.p0, w.p1, w.tag, w.byz, w.rh)
}

// reweightPlan:
//
//	quick     L1: sets {(4,1),(4,5),(3,1)} -> 6 ordered pairs, Byzantine position 1 (the proposer of height 1 round 0) and
//	              2 (never a proposer; 3 is symmetric to it while only round 0 of each height is run; with position 0 the
//	              silent proposer of height 0 leaves at most one deviation for height 1: thorough only),
//	              X = the first correct validator, rounds [0,0], k=2
//	thorough  the quick L1 in place, then after all other parts (a deadline cut only loses these):
//	          L2: the quick pairs, every Byzantine position, X = first correct, rounds [0,1], k=2
//	          L1w: sets x in {4,3,1} x d in {1,5} (admissible: 5) -> 20 ordered pairs, every Byzantine position, every X,
//	              rounds [0,0], k=2
//	          L3: those of L2 in which the Byzantine validator LOSES weight - the direction in which a vote weighed at
//	              another height than its own counts for more than it is worth -, k=3
func reweightPlan(r *ev.Run) []reweight {
	var out []reweight
	add := func(pairs [][2]hset, byzs []int, allX bool, rh []int, k int, last bool, keep func(p [2]hset) bool) {
		for _, pr := range pairs {
			if keep != nil && !keep(pr) {
				continue
			}
			for _, b := range byzs {
				nx := 0
				for xi := 0; xi < 4; xi++ {
					if xi == b {
						continue
					}
					if nx > 0 && (!allX || (pr[0].x == baseW && pr[1].x == baseW)) {
						break // X = first correct validator only / no correct validator is re-weighted: X is immaterial
					}
					nx++
					out = append(out, reweight{
						tag: fmt.Sprintf("byz %s, correct %d %s", trend(pr[0].d, pr[1].d), xi, trend(pr[0].x, pr[1].x)),
						p0:  pr[0].vec(4, b, xi), p1: pr[1].vec(4, b, xi), byz: b, rh: rh, k: k, last: last,
					})
				}
			}
		}
	}
	quickPairs := orderedPairs([]hset{{4, 1}, {4, 5}, {3, 1}})
	add(quickPairs, []int{1, 2}, false, []int{0, 0}, 2, false, nil) // L1 of the quick tier (both tiers)
	if r.Quick() {
		return out
	}
	// thorough: everything else runs after all other parts (a deadline cut only loses these), cheapest layer first;
	// configurations of the wide L1 that were already run above are skipped by the caller
	all := []int{0, 1, 2, 3}
	add(quickPairs, all, false, []int{0, 1}, 2, true, nil)
	add(orderedPairs(hsets([]uint{4, 3, 1}, []uint{1, 5})), all, true, []int{0, 0}, 2, true, nil)
	add(quickPairs, all, false, []int{0, 1}, 3, true, func(p [2]hset) bool { return p[1].d < p[0].d })
	return out
}
