package c12

// Per-validator monitors. They read only what the validator EMITTED (actions) and what the
// harness DELIVERED to it (its inputs) — never the machine's internal state.

import (
	"bytes"
	"fmt"
	"sort"
)

const none int8 = -2

type mon struct {
	pv, pc  []int8 // value emitted per round (none = nothing yet)
	lastPCr int8   // round of the latest non-nil precommit (the lock), -1 = none
	lastPCv vid
	props   [][]uint16 // per round: (val<<4 | vr+1) of proposals received from / sent as that round's proposer
	pvRecv  [][]uint8  // [round][val+1] bitmask of senders whose prevote was received (own included)
	pcRecv  [][]uint8  // the same for precommits; props / pvRecv / pcRecv together are the record of what was delivered (re-delivery alphabet)
}

func newMon(c *cfg) *mon {
	nr := (c.H+1)*hStride + 1
	m := &mon{pv: make([]int8, nr), pc: make([]int8, nr), lastPCr: -1, lastPCv: nilV, props: make([][]uint16, nr), pvRecv: make([][]uint8, nr), pcRecv: make([][]uint8, nr)}
	for i := range m.pv {
		m.pv[i], m.pc[i] = none, none
		m.pvRecv[i] = make([]uint8, c.n+2)
		m.pcRecv[i] = make([]uint8, c.n+2)
	}
	return m
}

func (m *mon) clone() *mon {
	x := &mon{pv: append([]int8(nil), m.pv...), pc: append([]int8(nil), m.pc...), lastPCr: m.lastPCr, lastPCv: m.lastPCv,
		props: make([][]uint16, len(m.props)), pvRecv: make([][]uint8, len(m.pvRecv)), pcRecv: make([][]uint8, len(m.pcRecv))}
	for i := range m.props {
		x.props[i] = append([]uint16(nil), m.props[i]...)
		x.pvRecv[i] = append([]uint8(nil), m.pvRecv[i]...)
		x.pcRecv[i] = append([]uint8(nil), m.pcRecv[i]...)
	}
	return x
}

func (m *mon) dump(w *bytes.Buffer) {
	fmt.Fprintf(w, "|mon %v %v %d %d %v %v", m.pv, m.pc, m.lastPCr, m.lastPCv, m.props, m.pvRecv)
	fmt.Fprintf(w, " %v", m.pcRecv)
}

// receive records a delivered (or own) message.
func (m *mon) receive(c *cfg, x msg) {
	r := int(x.round)
	if r < 0 || r >= len(m.pv) {
		return
	}
	switch x.kind {
	case kProp:
		if int(x.sender) != c.proposer(r) {
			return // forged proposal: never counts as "proposed by that round's proposer"
		}
		e := uint16(x.val)<<4 | uint16(x.vr+1)
		for _, y := range m.props[r] {
			if y == e {
				return
			}
		}
		m.props[r] = append(m.props[r], e)
	case kPrevote:
		if x.val >= nilV {
			m.pvRecv[r][x.val+1] |= 1 << uint(x.sender)
		}
	case kPrecommit:
		if x.val >= nilV {
			m.pcRecv[r][x.val+1] |= 1 << uint(x.sender)
		}
	}
}

// delivered lists (packed, ascending) every message this validator has received so far - from the network, from the
// Byzantine validator, or as its own broadcast (own echo) -: the alphabet of the re-delivery deviation R. Forged
// proposals (not from the round's proposer) are not recorded: they are refused on every delivery (monitored by
// "validity forged-proposal-processed") and the Byzantine validator can resend them through deviation B anyway.
//
// Only messages of rounds >= from (the first round of the receiver's current height) are listed: once a validator has
// left a height its messages are dead for it (assumption of part A2, checked at the VoteCounter level by C3), and
// leaveHeight forgets the precommit record of the height left so that validators that decided a height from
// different precommit sets still merge.
func (m *mon) delivered(c *cfg, from int) []uint32 {
	var out []uint32
	for r := from; r < len(m.props); r++ {
		for _, p := range m.props[r] {
			out = append(out, msg{kind: kProp, round: int8(r), sender: int8(c.proposer(r)), val: vid(p >> 4), vr: int8(p&15) - 1}.pack())
		}
		for k, rec := range [2][]uint8{m.pvRecv[r], m.pcRecv[r]} {
			for v, mask := range rec {
				for s := 0; s < c.n; s++ {
					if mask&(1<<uint(s)) != 0 {
						out = append(out, msg{kind: uint8(kPrevote + k), round: int8(r), sender: int8(s), val: vid(v) - 1, vr: -1}.pack())
					}
				}
			}
		}
	}
	sort.Slice(out, func(i, j int) bool { return out[i] < out[j] })
	return out
}

// power of a set of senders AT HEIGHT h (the height of the messages that are being weighed).
func (m *mon) power(c *cfg, mask uint8, h int) uint {
	var p uint
	for i := 0; i < c.n; i++ {
		if mask&(1<<uint(i)) != 0 {
			p += c.powersH[h][i]
		}
	}
	return p
}

func (m *mon) leaveHeight(h int) {
	for r := 0; r < (h+1)*hStride && r < len(m.pcRecv); r++ {
		clear(m.pcRecv[r])
	}
}

func (m *mon) onPrevote(c *cfg, x msg) (string, string) {
	r := int(x.round)
	if r >= len(m.pv) {
		return "", ""
	}
	if x.val == -2 {
		return "prevote-unknown-value", x.String()
	}
	if m.pv[r] != none && m.pv[r] != x.val {
		return "equivocation prevote", fmt.Sprintf("round %d: prevoted V%d then V%d", r, m.pv[r], x.val)
	}
	m.pv[r] = x.val
	m.receive(c, x)
	// lock rule: after precommitting v at round lr, a prevote for v' != v at r > lr needs a proposal (v', vr) of
	// round r with lr <= vr < r and a prevote quorum for v' at vr among the messages received.
	if x.val >= 0 && m.lastPCr >= 0 && int(m.lastPCr) < r && m.lastPCv != x.val {
		ok := false
		for _, p := range m.props[r] {
			pv, vr := vid(p>>4), int(p&15)-1
			if vr >= 0 {
				vr += r / hStride * hStride // the proposal's valid round is a round of the same height
			}
			if pv == x.val && vr >= int(m.lastPCr) && vr < r && m.power(c, m.pvRecv[vr][x.val+1], vr/hStride) >= c.qH[vr/hStride] {
				ok = true
			}
		}
		if !ok {
			return "lock-rule prevote-conflicts-with-lock", fmt.Sprintf("locked V%d@%d (own precommit) but prevoted V%d at round %d without proposal(vr>=%d)+polka", m.lastPCv, m.lastPCr, x.val, r, m.lastPCr)
		}
	}
	return "", ""
}

func (m *mon) onPrecommit(c *cfg, x msg) (string, string) {
	r := int(x.round)
	if r >= len(m.pc) {
		return "", ""
	}
	if x.val == -2 {
		return "precommit-unknown-value", x.String()
	}
	if m.pc[r] != none && m.pc[r] != x.val {
		return "equivocation precommit", fmt.Sprintf("round %d: precommitted V%d then V%d", r, m.pc[r], x.val)
	}
	m.pc[r] = x.val
	m.receive(c, x) // own echo
	if x.val >= 0 {
		m.lastPCr, m.lastPCv = x.round, x.val
	}
	return "", ""
}

func (m *mon) onCommit(c *cfg, r int, v vid, sender int, h any) (string, string) {
	if v < 0 || v == c.zVal {
		m.lastPCr, m.lastPCv = -1, nilV
		return "validity committed-invalid-value", fmt.Sprintf("committed V%d (Valid=false or unknown) at round %d", v, r)
	}
	m.lastPCr, m.lastPCv = -1, nilV // the lock does not survive the height
	if sender != c.proposer(r) {
		return "validity committed-proposal-not-from-proposer", fmt.Sprintf("height %d round %d: committed proposal was sent by validator %d, proposer is %d", r/hStride, r%hStride, sender, c.proposer(r))
	}
	if r < len(m.props) {
		for _, p := range m.props[r] {
			if vid(p>>4) == v {
				return "", ""
			}
		}
		return "validity committed-unproposed-value", fmt.Sprintf("committed V%d at round %d; proposer %d never proposed it to this validator", v, r, c.proposer(r))
	}
	return "", ""
}
