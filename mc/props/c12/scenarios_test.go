package c12

// (B) scripted adversary prefixes. Each is executed on the real machines through the same scheduler as
// the search (so the configuration is reachable by construction), its expected shape is asserted from the
// machines' state, and the deviation-bounded search continues from there.

import "fmt"

type scenario struct {
	name   string
	powers []uint
	byz, R int
	script []string
	kT     int // thorough tier: base search depth from this prefix if deeper than the catalogue's default (0 = default)
	expect func(c *cfg, g *gstate) string
}

func sumOf(c *cfg, g *gstate, v int) summary { return g.nd[c.slot[v]].sum }

func scenarios() []scenario {
	eq := []uint{1, 1, 1, 1}
	var out []scenario
	// S1: round 0 proposer 0 proposes V0; validator 1 sees only two V0 prevotes + a Byzantine nil prevote,
	// times out and precommits nil; the other two lock V0@0; nobody decides; all reach round 1 where the
	// unlocked validator 1 is the (correct) proposer. t = the third correct validator (3 or 2).
	for _, byz := range []int{2, 3} {
		t := 5 - byz
		out = append(out, scenario{
			name: fmt.Sprintf("S1 two-locked-V0@0-one-unlocked-all-in-round-1 byz=%d R=2", byz), powers: eq, byz: byz, R: 2,
			script: []string{fmt.Sprintf("B v0.%d:nil>1", byz), fmt.Sprintf("W v0.%d:V0>1", t), "until:round>=1"},
			expect: func(c *cfg, g *gstate) string {
				a, b, u := sumOf(c, g, 0), sumOf(c, g, t), sumOf(c, g, 1)
				if a.lockedVal != 0 || a.lockedRound != 0 || b.lockedVal != 0 || b.lockedRound != 0 || u.lockedRound != -1 || u.validRound != -1 {
					return fmt.Sprintf("%+v %+v %+v", a, b, u)
				}
				return ""
			},
		})
	}
	// S2: as S1, and validator 0 decides V0 in round 0 with a Byzantine precommit; the locked validator t and the
	// unlocked validator 1 move on to round 1.
	out = append(out, scenario{
		name: "S2 one-decided-V0@0-one-locked-one-unlocked-in-round-1 byz=2 R=2", powers: eq, byz: 2, R: 2,
		script: []string{"B v0.2:nil>1", "W v0.3:V0>1", "B c0.2:V0>0", "until:round>=1"},
		expect: func(c *cfg, g *gstate) string {
			d, l, u := g.nd[c.slot[0]], sumOf(c, g, 3), sumOf(c, g, 1)
			if !d.decided || d.decVal != 0 || l.lockedVal != 0 || l.round != 1 || u.lockedRound != -1 || u.round != 1 {
				return fmt.Sprintf("decided=%v %+v %+v", d.decided, l, u)
			}
			return ""
		},
	})
	// S3: nobody sees the V0 polka of round 0 in time (everyone precommits nil), everyone locks V1 in round 1 but
	// nobody decides, everyone reaches round 2 (Byzantine proposer), and validator 3 then receives the withheld
	// round-0 prevote: it now knows a polka for V0 at round 0 while locked on V1@1 (line 28/29 territory).
	out = append(out, scenario{
		name: "S3 polka-V0@0-known-late-locked-V1@1-all-in-round-2 byz=2 R=2", powers: eq, byz: 2, R: 2,
		script: []string{
			"B v0.2:nil>0,1,3", "W v0.0:V0>1", "W v0.1:V0>3", "W v0.3:V0>0", "until:round>=1",
			"B c1.2:nil>0,1,3", "W c1.0:V1>1", "W c1.1:V1>3", "W c1.3:V1>0", "until:round>=2",
			"L v0.1:V0>3",
		},
		expect: func(c *cfg, g *gstate) string {
			for _, v := range []int{0, 1, 3} {
				if x := sumOf(c, g, v); x.lockedVal != 1 || x.lockedRound != 1 || x.round != 2 {
					return fmt.Sprintf("v%d %+v", v, x)
				}
			}
			return ""
		},
	})
	// S4: validator 1 learns the V0 polka of round 0 only after its prevote timeout (step precommit): valid value
	// set without a lock; in round 1 it is the proposer and re-proposes (V0, vr=0).
	out = append(out, scenario{
		name: "S4 valid-value-without-lock-reproposes-with-valid-round byz=2 R=2", powers: eq, byz: 2, R: 2,
		script: []string{"B v0.2:nil>1", "W v0.3:V0>1", "until:v1.step>=2", "L v0.3:V0>1", "until:round>=1"},
		expect: func(c *cfg, g *gstate) string {
			if u := sumOf(c, g, 1); u.lockedRound != -1 || u.validVal != 0 || u.validRound != 0 || u.round != 1 {
				return fmt.Sprintf("%+v", u)
			}
			return ""
		},
	})
	// S5 (four rounds): validator 0 locks V0@0; in round 1 a polka for V1 forms that only validator 3 sees (it locks
	// V1@1), validator 2 keeps valid V0@0 without a lock; in round 2 validator 2 re-proposes (V0, vr=0), validator 0
	// prevotes it and RE-LOCKS the same value (its lock must now carry round 2), validator 2 decides V0 with a Byzantine
	// precommit nobody else gets; validators 0 and 3 reach round 3, whose proposer 3 re-proposes (V1, vr=1). From here
	// one late Byzantine prevote completes validator 0's knowledge of the round-1 polka: a lock whose round is stale lets
	// it prevote V1 against its lock, and then V1 is decided next to V0.
	out = append(out, scenario{
		name: "S5 relock-same-value-then-older-polka-offered byz=1 R=3", powers: eq, byz: 1, R: 3,
		script: []string{
			"B v0.1:nil>2,3", "W v0.2:V0>3", "W v0.3:V0>2", "until:v2.step>=2", "L v0.3:V0>2", "until:round>=1",
			"B P1.1:V1/-1>2,3", "B v1.1:V1>3", "until:round>=2",
			"B v2.1:V0>0,2", "B c2.1:V0>2", "until:round>=3",
		},
		expect: func(c *cfg, g *gstate) string {
			d, a, b := g.nd[c.slot[2]], sumOf(c, g, 0), sumOf(c, g, 3)
			if !d.decided || d.decVal != 0 || a.lockedVal != 0 || a.round != 3 || b.lockedVal != 1 || b.lockedRound != 1 || b.round != 3 {
				return fmt.Sprintf("decided=%v/%d v0=%+v v3=%+v", d.decided, d.decVal, a, b)
			}
			return ""
		},
	})
	// S6 (mirror of S1): ONE validator (0) sees the V0 polka of round 0, locks V0@0 and precommits it, and holds one more
	// precommit for V0 from the Byzantine validator (2 of 4, below the quorum); the other two correct validators miss the
	// polka and precommit nil (t never got the proposal and prevoted nil after its propose timeout); nobody decides,
	// everybody moves on to round 1, whose proposer 1 is correct and not locked. From here the network can legitimately
	// decide V1, so everything validator 0 still does with what it received in round 0 is safety-critical: old-round
	// votes arriving late, arriving AGAIN (deviation R) or being resent. Two rounds only; the thorough tier goes one
	// deviation deeper than with the three-round prefixes (carrying V1 through round 1 without validator 0 takes the
	// Byzantine validator two deviations).
	for _, byz := range []int{2, 3} {
		t := 5 - byz
		out = append(out, scenario{
			name: fmt.Sprintf("S6 one-locked-V0@0-with-byz-precommit-two-unlocked-all-in-round-1 byz=%d R=1", byz), powers: eq, byz: byz, R: 1, kT: 3,
			script: []string{fmt.Sprintf("W P0.0:V0/-1>%d", t), fmt.Sprintf("B v0.%d:V0>0", byz), fmt.Sprintf("B c0.%d:V0>0", byz), "until:round>=1"},
			expect: func(c *cfg, g *gstate) string {
				a, u1, u2 := sumOf(c, g, 0), sumOf(c, g, 1), sumOf(c, g, t)
				if a.lockedVal != 0 || a.lockedRound != 0 || a.round != 1 || u1.lockedRound != -1 || u2.lockedRound != -1 || u1.round != 1 || u2.round != 1 ||
					g.nd[c.slot[0]].decided || g.nd[c.slot[1]].decided || g.nd[c.slot[t]].decided {
					return fmt.Sprintf("%+v %+v %+v", a, u1, u2)
				}
				return ""
			},
		})
	}
	return out
}
