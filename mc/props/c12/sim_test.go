package c12

// Per-validator simulation of the REAL tendermint.StateMachine, memoised as a DAG:
// node = canonical machine state (reflective dump of every field) + monitor state,
// edge = (input -> outputs). A machine's outputs are a function of its own input sequence, so
// a global transition is a map lookup and the real code only runs on a miss (replay of the
// representative input path on a fresh machine).

import (
	"bytes"
	"crypto/sha256"
	"fmt"
	"reflect"
	"strconv"
	"sync"
	"sync/atomic"

	"github.com/NethermindEth/juno/consensus/starknet"
	"github.com/NethermindEth/juno/consensus/tendermint"
	"github.com/NethermindEth/juno/consensus/types"
	"github.com/NethermindEth/juno/consensus/types/actions"
	"github.com/NethermindEth/juno/core/felt"
	"github.com/NethermindEth/juno/utils/log"
)

type vid = int8 // value id, -1 = nil

const nilV vid = -1

const (
	kProp = iota
	kPrevote
	kPrecommit
)

var kindName = [3]string{"P", "v", "c"}

// Two heights are folded into one "virtual round" axis: rk = height*hStride + round (round <= hStride-1). Everything that is
// indexed or ordered by round (message classes, timeout bits, monitor tables) uses rk, so height-0 classes sort
// before height-1 classes and single-height configurations are unchanged (rk == round).
const hStride = 5

func rkOf(h, r int) int8 { return int8(h*hStride + r) }

// msg is the harness' compact message.
type msg struct {
	kind   uint8
	round  int8 // virtual round rk
	sender int8
	val    vid
	vr     int8
}

// pack: [round:4][kind:2][sender:3][val+1:4][vr+1:4]  (ordered by (round,kind,sender,val,vr))
func (m msg) pack() uint32 {
	return uint32(m.round)<<13 | uint32(m.kind)<<11 | uint32(m.sender)<<8 | uint32(m.val+1)<<4 | uint32(m.vr+1)
}

func unpack(p uint32) msg {
	return msg{kind: uint8(p >> 11 & 3), round: int8(p >> 13 & 15), sender: int8(p >> 8 & 7), val: vid(p>>4&15) - 1, vr: int8(p&15) - 1}
}

func (m msg) String() string {
	v := "nil"
	if m.val >= 0 {
		v = "V" + strconv.Itoa(int(m.val))
	}
	rd := strconv.Itoa(int(m.round))
	if m.round >= hStride {
		rd = fmt.Sprintf("h%dr%d", m.round/hStride, m.round%hStride)
	}
	s := fmt.Sprintf("%s%s.%d:%s", kindName[m.kind], rd, m.sender, v)
	if m.kind == kProp {
		s += "/" + strconv.Itoa(int(m.vr))
	}
	return s
}

// inputs: 0 = start ; 1<<20|msg ; 2<<20|round*3+step
const (
	inStart = uint32(0)
	inMsg   = uint32(1) << 20
	inTmo   = uint32(2) << 20
)

func inputString(in uint32) string {
	switch in >> 20 {
	case 0:
		return "start"
	case 1:
		return unpack(in & 0xfffff).String()
	default:
		t := in & 0xfffff
		if t/3 >= hStride {
			return fmt.Sprintf("Th%dr%d.%s", t/3/hStride, t/3%hStride, types.Step(t%3))
		}
		return fmt.Sprintf("T%d.%s", t/3, types.Step(t%3))
	}
}

type cfg struct {
	name    string
	n       int
	powers  []uint
	byz     int
	R       int   // highest round processed at height 0
	RH      []int // per height
	H       int   // last height run (0 or 1)
	total   uint
	q, f    uint // harness' own thresholds: q = min{q: 3q>=2N}, f = max{f: 3f<N} (of height 0)
	// The validator set is a function of the height: powersH[h][i] = voting power of validator i at height h
	// (h = 0, 1; single-height configurations and unchanged sets have powersH[1] == powersH[0]); totalH / qH / fH
	// are the total and the harness' own thresholds of that height. Everything that weighs a message (the
	// Validators given to the real machines, the lock-rule monitor) uses the power of the MESSAGE's own height.
	powersH        [2][]uint
	totalH, qH, fH [2]uint
	correct []int
	slot    []int // validator index -> correct slot or -1
	zVal    vid   // the invalid value
	addrs   []starknet.Address
	valOf   []starknet.Value
	idOf    map[starknet.Value]vid
	addrIdx map[starknet.Address]int
	logger  log.Logger

	roots []*node
	canon []map[[16]byte]*node
	cmu   []sync.Mutex
	nodes atomic.Int64
	sims  atomic.Int64 // real re-simulations (memo misses)
	calls atomic.Int64 // real Process* calls
	dupNo atomic.Int64 // duplicate deliveries that were not no-ops
	reNoop atomic.Int64 // (state, delivered message) pairs whose re-delivery was run on the real machine and changed nothing
	reEff  atomic.Int64 // ... and those that changed the machine or produced actions (then treated as a normal transition)
}

func newCfg(name string, powers []uint, byz, R int) *cfg { return newCfgH(name, powers, byz, []int{R}) }

// newCfgH: RH[h] = highest round processed at height h; len(RH) heights are run (1 or 2).
func newCfgH(name string, powers []uint, byz int, RH []int) *cfg {
	return newCfgHP(name, powers, powers, byz, RH)
}

// thresholdsOf: the harness' own thresholds from their definitions: q = min{q: 3q >= 2N}, f = max{f: 3f < N}.
func thresholdsOf(powers []uint) (total, q, f uint) {
	for _, p := range powers {
		total += p
	}
	for q = 0; 3*q < 2*total; q++ {
	}
	for f = 0; 3*(f+1) < total; f++ {
	}
	return
}

// newCfgHP: powers = voting power at height 0, powers1 = voting power at height 1 (the validator set is re-weighted at
// the height boundary). The Byzantine validator must hold <= f (i.e. less than one third) at EVERY height: that is
// the property's assumption, so the generator of configurations is restricted, not the oracle.
func newCfgHP(name string, powers, powers1 []uint, byz int, RH []int) *cfg {
	c := &cfg{name: name, n: len(powers), powers: powers, byz: byz, R: RH[0], RH: RH, H: len(RH) - 1, logger: log.NewNopZapLogger()}
	if len(powers1) != len(powers) {
		panic("power vectors of different length")
	}
	c.powersH = [2][]uint{powers, powers1}
	for h := 0; h < 2; h++ {
		c.totalH[h], c.qH[h], c.fH[h] = thresholdsOf(c.powersH[h])
		if c.powersH[h][byz] > c.fH[h] {
			panic(fmt.Sprintf("byzantine power exceeds f at height %d", h))
		}
	}
	for _, x := range RH {
		if x >= hStride-1 || len(RH) > 2 {
			panic("round/height bound exceeds the encoding")
		}
	}
	c.total, c.q, c.f = c.totalH[0], c.qH[0], c.fH[0]
	c.slot = make([]int, c.n)
	c.idOf = map[starknet.Value]vid{}
	c.addrIdx = map[starknet.Address]int{}
	for i := 0; i < c.n; i++ {
		c.slot[i] = -1
		if i != byz {
			c.slot[i] = len(c.correct)
			c.correct = append(c.correct, i)
		}
		a := felt.FromUint64[starknet.Address](uint64(1000 + i))
		c.addrs = append(c.addrs, a)
		c.addrIdx[a] = i
	}
	c.zVal = vid(c.n)
	for i := 0; i <= c.n; i++ {
		v := felt.FromUint64[starknet.Value](uint64(100 + i))
		c.valOf = append(c.valOf, v)
		c.idOf[v] = vid(i)
	}
	c.canon = make([]map[[16]byte]*node, len(c.correct))
	c.cmu = make([]sync.Mutex, len(c.correct))
	for s := range c.correct {
		c.canon[s] = map[[16]byte]*node{}
		root := &node{slot: int8(s), mon: newMon(c), decVal: nilV, dec: [2]int8{none, none}, sum: summary{lockedRound: -1, validRound: -1, lockedVal: nilV, validVal: nilV}}
		c.roots = append(c.roots, root)
	}
	return c
}

// proposer of virtual round rk: round robin over (height+round), i.e. the proposer rotates across heights too
// (see vals.Proposer, which is what the real code is given).
func (c *cfg) proposer(rk int) int { return (rk/hStride + rk%hStride) % c.n }

// inBound: is virtual round rk inside the explored heights / rounds?
func (c *cfg) inBound(rk int) bool {
	h, r := rk/hStride, rk%hStride
	return rk >= 0 && h <= c.H && r <= c.RH[h]
}

// ---- harness Application / Validators -----------------------------------------------------

type app struct{ val, z starknet.Value }

func (a *app) Value() starknet.Value      { return a.val }
func (a *app) Valid(v starknet.Value) bool { return v != a.z }

type vals struct{ c *cfg }

// hIdx: heights above the last one modelled keep the last validator set.
func hIdx(h types.Height) int { return int(min(h, 1)) }

func (v vals) TotalVotingPower(h types.Height) types.VotingPower {
	return types.VotingPower(v.c.totalH[hIdx(h)])
}
func (v vals) ValidatorVotingPower(h types.Height, a *starknet.Address) types.VotingPower {
	if i, ok := v.c.addrIdx[*a]; ok {
		return types.VotingPower(v.c.powersH[hIdx(h)][i])
	}
	return 0
}
func (v vals) Proposer(h types.Height, r types.Round) starknet.Address {
	return v.c.addrs[(uint(h)+uint(r))%uint(v.c.n)]
}

type machine = tendermint.StateMachine[starknet.Value, starknet.Hash, starknet.Address]

func (c *cfg) fresh(slot int) machine {
	i := c.correct[slot]
	return tendermint.New[starknet.Value, starknet.Hash, starknet.Address](c.logger, c.addrs[i],
		&app{val: c.valOf[i], z: c.valOf[c.zVal]}, vals{c}, types.Height(0))
}

func (c *cfg) hdr(m msg) starknet.MessageHeader {
	return starknet.MessageHeader{Height: types.Height(m.round / hStride), Round: types.Round(m.round % hStride), Sender: c.addrs[m.sender]}
}

func (c *cfg) idPtr(v vid) *starknet.Hash {
	if v < 0 {
		return nil
	}
	h := c.valOf[v].Hash()
	return &h
}

func (c *cfg) feed(sm machine, in uint32) []starknet.Action {
	c.calls.Add(1)
	switch in >> 20 {
	case 0:
		return sm.ProcessStart(0)
	case 1:
		m := unpack(in & 0xfffff)
		switch m.kind {
		case kProp:
			v := c.valOf[m.val]
			return sm.ProcessProposal(&starknet.Proposal{MessageHeader: c.hdr(m), ValidRound: types.Round(m.vr), Value: &v})
		case kPrevote:
			return sm.ProcessPrevote(&starknet.Prevote{MessageHeader: c.hdr(m), ID: c.idPtr(m.val)})
		default:
			return sm.ProcessPrecommit(&starknet.Precommit{MessageHeader: c.hdr(m), ID: c.idPtr(m.val)})
		}
	default:
		t := in & 0xfffff
		return sm.ProcessTimeout(types.Timeout{Step: types.Step(t % 3), Height: types.Height(t / 3 / hStride), Round: types.Round(t / 3 % hStride)})
	}
}

// ---- DAG ----------------------------------------------------------------------------------

type summary struct { // read reflectively from the machine; used by the scheduler and scenario asserts only
	round, step            int8
	lockedRound, validRound int8
	lockedVal, validVal    vid
	height                 int8
	rk                     int8 // height*hStride + round
}

type edge struct {
	to  *node
	out []uint32 // broadcast messages (packed), in emission order
	tmo []uint8  // scheduled timeouts round*3+step
}

type node struct {
	id     int64
	slot   int8
	parent *node
	in     uint32
	mu     sync.Mutex
	ch     map[uint32]*edge

	// cumulative, from OUTPUTS only
	decided  bool // committed at the LAST height run: the validator is finished
	decRound int8 // last commit
	decVal   vid
	hgt      int8    // commits so far = current height (from outputs)
	dec      [2]int8 // per height: committed value id, none = nothing yet
	decR     [2]int8
	maxRound int8 // highest virtual round entered
	viol     []violation
	mon      *mon

	sum  summary
	hash [16]byte

	redeliv []uint32  // mon.delivered(): what deviation R may deliver again to this validator
	dupOnce sync.Once // ensureDups
}

type violation struct{ key, what string }

func (n *node) path() []uint32 {
	var p []uint32
	for x := n; x.parent != nil; x = x.parent {
		p = append(p, x.in)
	}
	for i, j := 0, len(p)-1; i < j; i, j = i+1, j-1 {
		p[i], p[j] = p[j], p[i]
	}
	return p
}

func (c *cfg) pathStrings(n *node) []string {
	var s []string
	for _, in := range n.path() {
		s = append(s, inputString(in))
	}
	return s
}

// next returns the memoised transition, running the real machine on a miss.
func (c *cfg) next(p *node, in uint32) *edge {
	p.mu.Lock()
	e := p.ch[in]
	p.mu.Unlock()
	if e != nil {
		return e
	}
	c.sims.Add(1)
	sm := c.fresh(int(p.slot))
	for _, x := range p.path() {
		c.feed(sm, x)
	}
	acts := c.feed(sm, in)
	e = &edge{}
	child := &node{slot: p.slot, parent: p, in: in, decided: p.decided, decRound: p.decRound,
		decVal: p.decVal, maxRound: p.maxRound, viol: p.viol, hgt: p.hgt, dec: p.dec, decR: p.decR}
	m := p.mon.clone()
	self := int8(c.correct[p.slot])
	if in>>20 == 1 {
		m.receive(c, unpack(in&0xfffff))
	}
	addViol := func(key, what string) {
		child.viol = append(append([]violation(nil), child.viol...), violation{key, what})
	}
	if in>>20 == 1 {
		if x := unpack(in & 0xfffff); x.kind == kProp && int(x.sender) != c.proposer(int(x.round)) && len(acts) != 0 {
			addViol("validity forged-proposal-processed", fmt.Sprintf("proposal %s from a non-proposer produced %d actions", x, len(acts)))
		}
	}
	for _, a := range acts {
		switch a := a.(type) {
		case *starknet.BroadcastProposal:
			om := msg{kind: kProp, round: rkOf(int(a.Height), int(a.Round)), sender: self, val: c.vidOf(a.Value), vr: int8(a.ValidRound)}
			if k := c.checkHdr(a.Sender, a.Height, self, child.hgt); k != "" {
				addViol("bad-header proposal", k)
			}
			if a.Round >= hStride {
				continue
			}
			if om.val < 0 {
				addViol("proposal-unknown-value", fmt.Sprint(a.Value))
				continue
			}
			m.receive(c, om)
			e.out = append(e.out, om.pack())
			child.maxRound = max(child.maxRound, om.round)
		case *starknet.BroadcastPrevote:
			om := msg{kind: kPrevote, round: rkOf(int(a.Height), int(a.Round)), sender: self, val: c.vidOfHash(a.ID), vr: -1}
			if k := c.checkHdr(a.Sender, a.Height, self, child.hgt); k != "" {
				addViol("bad-header prevote", k)
			}
			if a.Round >= hStride {
				continue
			}
			if k, w := m.onPrevote(c, om); k != "" {
				addViol(k, w)
			}
			e.out = append(e.out, om.pack())
			child.maxRound = max(child.maxRound, om.round)
		case *starknet.BroadcastPrecommit:
			om := msg{kind: kPrecommit, round: rkOf(int(a.Height), int(a.Round)), sender: self, val: c.vidOfHash(a.ID), vr: -1}
			if k := c.checkHdr(a.Sender, a.Height, self, child.hgt); k != "" {
				addViol("bad-header precommit", k)
			}
			if a.Round >= hStride {
				continue
			}
			if k, w := m.onPrecommit(c, om); k != "" {
				addViol(k, w)
			}
			e.out = append(e.out, om.pack())
			child.maxRound = max(child.maxRound, om.round)
		case *actions.ScheduleTimeout:
			if int8(a.Height) != child.hgt {
				addViol("bad-header timeout", fmt.Sprintf("timeout scheduled for height %d while at height %d", a.Height, child.hgt))
			} else if a.Round >= 0 && a.Round < hStride && int(a.Height) <= c.H {
				rk := rkOf(int(a.Height), int(a.Round))
				e.tmo = append(e.tmo, uint8(int(rk)*3+int(a.Step)))
				child.maxRound = max(child.maxRound, rk)
			}
		case *starknet.Commit:
			v := c.vidOf(a.Value)
			if child.decided || int8(a.Height) != child.hgt || a.Round >= hStride {
				addViol("double-commit", fmt.Sprintf("Commit (height %d round %d value V%d) while at height %d (last decision V%d@%d, finished=%v)", a.Height, a.Round, v, child.hgt, child.decVal, child.decRound, child.decided))
				continue
			}
			rk := rkOf(int(a.Height), int(a.Round))
			child.decRound, child.decVal = rk, v
			child.dec[child.hgt], child.decR[child.hgt] = v, rk
			if k, w := m.onCommit(c, int(rk), v, c.addrIdx[a.Sender], a.Height); k != "" {
				addViol(k, w)
			}
			child.hgt++
			child.decided = int(child.hgt) > c.H
		case *starknet.WriteWAL:
		case *actions.TriggerSync:
			if c.H == 0 {
				addViol("unexpected-trigger-sync", fmt.Sprintf("%+v", *a)) // single height: never legitimate
			}
		default:
			addViol("unknown-action", fmt.Sprintf("%T", a))
		}
	}
	if child.hgt > p.hgt {
		m.leaveHeight(int(p.hgt))
	}
	child.mon = m
	var buf bytes.Buffer
	dumpMachine(&buf, sm)
	child.sum = c.readSummary(sm)
	// Immediate duplication: delivering the same message again straight away must change nothing and output nothing
	// (verified on every memo miss). A LATER second delivery - after the receiver moved on to another step, round or
	// height - is a deviation of the search (R, see ensureDups / search_test.go) and is followed like any other input.
	if in>>20 == 1 {
		acts2 := c.feed(sm, in)
		var b2 bytes.Buffer
		dumpMachine(&b2, sm)
		if len(acts2) != 0 || !bytes.Equal(b2.Bytes(), buf.Bytes()) {
			c.dupNo.Add(1)
			addViol("duplicate-delivery-not-idempotent", fmt.Sprintf("second delivery of %s produced %d actions / changed state", inputString(in), len(acts2)))
		}
	}
	m.dump(&buf)
	fmt.Fprintf(&buf, "|d%v %d %v %v|v%d", child.decided, child.hgt, child.dec, child.decR, len(child.viol))
	h := sha256.Sum256(buf.Bytes())
	copy(child.hash[:], h[:16])

	s := int(p.slot)
	c.cmu[s].Lock()
	if ex := c.canon[s][child.hash]; ex != nil {
		child = ex
	} else {
		child.id = c.nodes.Add(1)
		child.redeliv = m.delivered(c, int(child.hgt)*hStride)
		c.canon[s][child.hash] = child
	}
	c.cmu[s].Unlock()
	e.to = child
	p.mu.Lock()
	if ex := p.ch[in]; ex != nil {
		e = ex
	} else {
		if p.ch == nil {
			p.ch = map[uint32]*edge{}
		}
		p.ch[in] = e
	}
	p.mu.Unlock()
	return e
}

// ensureDups resolves, for validator state p, the re-delivery of every message it has received so far (deviation R)
// on the REAL machine: the representative input path is replayed once, then each recorded message is fed again. If
// the machine returns no action and its reflective dump is unchanged the transition is a self-loop (that is exactly
// what next() would compute: the monitor's record is a set); otherwise the machine is discarded and the transition
// goes through next() like any other input (outputs, monitors, new state).
func (c *cfg) ensureDups(p *node) {
	p.dupOnce.Do(func() {
		var sm machine
		var base, b2 bytes.Buffer
		for _, pk := range p.redeliv {
			in := inMsg | pk
			p.mu.Lock()
			e := p.ch[in]
			p.mu.Unlock()
			if e != nil {
				continue
			}
			if sm == nil {
				c.sims.Add(1)
				sm = c.fresh(int(p.slot))
				for _, x := range p.path() {
					c.feed(sm, x)
				}
				base.Reset()
				dumpMachine(&base, sm)
			}
			acts := c.feed(sm, in)
			b2.Reset()
			dumpMachine(&b2, sm)
			if len(acts) == 0 && bytes.Equal(b2.Bytes(), base.Bytes()) {
				c.reNoop.Add(1)
				p.mu.Lock()
				if p.ch == nil {
					p.ch = map[uint32]*edge{}
				}
				if p.ch[in] == nil {
					p.ch[in] = &edge{to: p}
				}
				p.mu.Unlock()
				continue
			}
			c.reEff.Add(1)
			sm = nil
			c.next(p, in)
		}
	})
}

func (c *cfg) checkHdr(sender starknet.Address, h types.Height, self, hgt int8) string {
	if sender != c.addrs[self] || int8(h) != hgt {
		return fmt.Sprintf("sender=%v height=%d", sender, h)
	}
	return ""
}

func (c *cfg) vidOf(v *starknet.Value) vid {
	if v == nil {
		return nilV
	}
	if id, ok := c.idOf[*v]; ok {
		return id
	}
	return -2
}

func (c *cfg) vidOfHash(h *starknet.Hash) vid {
	if h == nil {
		return nilV
	}
	if id, ok := c.idOf[starknet.Value(*h)]; ok {
		return id
	}
	return -2
}

// ---- reflective canonical dump of the real machine -----------------------------------------

var skipField = map[string]bool{"logger": true, "application": true, "validators": true}

func dumpMachine(w *bytes.Buffer, sm machine) {
	dumpValue(w, reflect.ValueOf(sm).Elem())
}

func dumpValue(w *bytes.Buffer, v reflect.Value) {
	switch v.Kind() {
	case reflect.Bool:
		if v.Bool() {
			w.WriteByte('t')
		} else {
			w.WriteByte('f')
		}
	case reflect.Int, reflect.Int8, reflect.Int16, reflect.Int32, reflect.Int64:
		w.WriteString(strconv.FormatInt(v.Int(), 10))
	case reflect.Uint, reflect.Uint8, reflect.Uint16, reflect.Uint32, reflect.Uint64:
		w.WriteString(strconv.FormatUint(v.Uint(), 16))
	case reflect.String:
		w.WriteString(strconv.Quote(v.String()))
	case reflect.Ptr, reflect.Interface:
		if v.IsNil() {
			w.WriteByte('~')
		} else {
			w.WriteByte('&')
			dumpValue(w, v.Elem())
		}
	case reflect.Struct:
		w.WriteByte('{')
		t := v.Type()
		for i := 0; i < v.NumField(); i++ {
			if skipField[t.Field(i).Name] {
				continue
			}
			w.WriteString(t.Field(i).Name)
			w.WriteByte(':')
			dumpValue(w, v.Field(i))
			w.WriteByte(' ')
		}
		w.WriteByte('}')
	case reflect.Slice, reflect.Array:
		w.WriteByte('[')
		for i := 0; i < v.Len(); i++ {
			dumpValue(w, v.Index(i))
			w.WriteByte(',')
		}
		w.WriteByte(']')
	case reflect.Map:
		// order-independent: every entry is dumped into a scratch buffer and hashed; the entry hashes are
		// combined commutatively (sum and xor of two independent 64-bit hashes), so no sorting is needed.
		var sum1, sum2, x1 uint64
		var b bytes.Buffer
		it := v.MapRange()
		for it.Next() {
			b.Reset()
			dumpValue(&b, it.Key())
			b.WriteString("=>")
			dumpValue(&b, it.Value())
			h1, h2 := uint64(0xcbf29ce484222325), uint64(0x9ae16a3b2f90404f)
			for _, c := range b.Bytes() {
				h1 = (h1 ^ uint64(c)) * 0x100000001b3
				h2 = (h2 + uint64(c) + 1) * 0x9E3779B97F4A7C15
				h2 ^= h2 >> 31
			}
			sum1 += h1
			sum2 += h2
			x1 ^= h1 * 0xC2B2AE3D27D4EB4F
		}
		w.WriteString("map")
		w.WriteString(strconv.Itoa(v.Len()))
		w.WriteByte('(')
		w.WriteString(strconv.FormatUint(sum1, 16))
		w.WriteByte('.')
		w.WriteString(strconv.FormatUint(sum2, 16))
		w.WriteByte('.')
		w.WriteString(strconv.FormatUint(x1, 16))
		w.WriteByte(')')
	default:
		panic("dump: unsupported kind " + v.Kind().String())
	}
}

func (c *cfg) readSummary(sm machine) summary {
	st := reflect.ValueOf(sm).Elem().FieldByName("state")
	val := func(name string) vid {
		p := st.FieldByName(name)
		if p.IsNil() {
			return nilV
		}
		var x starknet.Value
		a := p.Elem()
		for i := 0; i < 4; i++ {
			x[i] = a.Index(i).Uint()
		}
		if id, ok := c.idOf[x]; ok {
			return id
		}
		return -2
	}
	return summary{
		rk:          int8(st.FieldByName("height").Uint())*hStride + int8(st.FieldByName("round").Int()),
		height:      int8(st.FieldByName("height").Uint()),
		round:       int8(st.FieldByName("round").Int()),
		step:        int8(st.FieldByName("step").Uint()),
		lockedRound: int8(st.FieldByName("lockedRound").Int()),
		validRound:  int8(st.FieldByName("validRound").Int()),
		lockedVal:   val("lockedValue"),
		validVal:    val("validValue"),
	}
}
