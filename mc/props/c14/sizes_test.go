package c14

// Batch-size pass ("sizes"): SIZE boundaries of ONE flush.
//
// The histories of the other passes append a handful of entries per batch, so a batch is always one small
// log record inside one 32 KiB block. Here the size of the batch in flight is enumerated:
//   - record counts 1,2,3 and 2^k-1, 2^k, 2^k+1 for k = 2..12 (quick) / 2..14 (thorough);
//   - record counts whose encoded batch ends within one entry of a multiple of the 32 KiB log block
//     (m blocks, m in 1,2,4,8 quick / 1..16 thorough; the count is derived from a measured calibration flush);
//   - the batch is n entries, or n-1 entries followed by a prune record of the older height (n records);
//   - it is made durable by Flush or by Close.
// History: "a1 f" (a small durable batch) then the batch, then f | r. For the call that flushes the batch:
//   (a) every whole-op crash image (crashfs.Boundaries: op prefix x unsynced-data prefix x namespace lag);
//   (b) tail cuts of the appended region of the log file [S, E): at every 32 KiB block boundary, at the end of
//       every write the log writer issued, at a fixed stride inside, at every byte of the last tailBytes bytes and
//       at S+1; remainder absent, and at block / write boundaries also reading back as zeros / 0xFF. The region is
//       verified to be append-only (contiguous writes at offsets >= S), so every such image is an image of the
//       stated crash model (unsynced data persists as an in-order prefix, last write cut at a byte).
// Oracle unchanged: flushed batches complete, the batch in flight complete or absent; then the continuation.

import (
	"fmt"
	"sort"
	"strings"
	"sync/atomic"
	"time"

	"verif/mc/crashfs"
	"verif/mc/ev"
)

type sizeCase struct {
	n      int  // records in the batch in flight
	prune  bool // n-1 entries + one prune record (of the height of the small flushed batch)
	closeF bool // flushed by Close instead of Flush
}

func (sc sizeCase) hist() []sym {
	h := []sym{{'a', 1}, {'f', 0}}
	if sc.prune {
		if sc.n > 1 {
			h = append(h, sym{'B', sc.n - 1})
		}
		h = append(h, sym{'p', 1})
	} else {
		h = append(h, sym{'B', sc.n})
	}
	if sc.closeF {
		return append(h, sym{'r', 0})
	}
	return append(h, sym{'f', 0})
}

// imageAt returns the image of op prefix p with every issued op persisted.
func imageAt(fs *crashfs.FS, p int) *crashfs.Image {
	var out *crashfs.Image
	fs.EnumCrash(p, p, crashfs.Options{}, func(ci crashfs.CrashInfo, img *crashfs.Image) bool {
		for _, t := range ci.Tails {
			if t.OpsApplied != t.OpsPending || t.Cut >= 0 {
				return true
			}
		}
		out = img
		return false
	})
	return out
}

type sizeCut struct {
	r    *run
	ri   int
	path string
	s    int64 // synced length before the call
	cut  int64 // bytes of the file that persist
	fill byte
	fin  *crashfs.Image
	prev int // op prefix used for the report
}

func (c *checker) sizePass(name string, maxPow int, blockMults []int, stride int64, tailBytes int64, workers int) {
	t0 := time.Now()
	rec0, img0 := c.recoveries.Load(), c.images.Load()

	// calibration (measured, not assumed): bytes appended to the log by one flush of calN entries
	const calN = 1000
	cal := c.execute(sizeCase{n: calN}.hist(), baseNone, -1, 0, false)
	if cal.broken {
		return
	}
	var calBytes int64
	{
		w := cal.rows[lastStepRow(cal, len(cal.hist)-1)]
		for _, o := range cal.fs.Ops()[w.opStart:w.opEnd] {
			if o.Kind == crashfs.OpWrite && strings.HasSuffix(o.Path, ".log") {
				calBytes += int64(len(o.Data))
			}
		}
	}
	if calBytes <= 0 {
		c.r.Infra("%s", name+": calibration flush wrote nothing to a log file")
		return
	}
	counts := map[int]bool{1: true, 2: true, 3: true}
	for k := 2; k <= maxPow; k++ {
		for d := -1; d <= 1; d++ {
			counts[1<<k+d] = true
		}
	}
	for _, m := range blockMults {
		n0 := int(int64(m) * blockSize * calN / calBytes)
		for d := -1; d <= 1; d++ {
			if n0+d >= 1 {
				counts[n0+d] = true
			}
		}
	}
	var ns []int
	for n := range counts {
		ns = append(ns, n)
	}
	sort.Ints(ns)
	var cases []sizeCase
	for _, n := range ns {
		for v := 0; v < 4; v++ {
			cases = append(cases, sizeCase{n: n, prune: v&1 == 1, closeF: v&2 == 2})
		}
	}

	var skipped, nonAppend, multiBlock, maxBlocks, maxBytes, nearBlock atomic.Int64
	cuts := make([][]sizeCut, len(cases))
	ev.Par(len(cases), workers, func(i int) {
		if c.r.OutOfTime() {
			skipped.Add(1)
			return
		}
		sc := cases[i]
		h := sc.hist()
		r := c.execute(h, baseNone, -1, 0, false)
		c.histories.Add(1)
		if r.broken {
			return
		}
		ri := lastStepRow(r, len(h)-1)
		// (a) whole-op crash images of the flushing call (and of the reopen after a Close)
		c.crashCheck(r, ri, len(r.rows), func(*row) crashfs.Options { return crashfs.Boundaries }, contWanted)
		// (b) tail cuts of the appended region
		w := &r.rows[ri]
		ops := r.fs.Ops()
		path := ""
		var ends []int64
		next := int64(-1)
		appendOnly := true
		for _, o := range ops[w.opStart:w.opEnd] {
			if !strings.HasSuffix(o.Path, ".log") {
				continue
			}
			switch o.Kind {
			case crashfs.OpWrite:
				if path == "" {
					path = o.Path
				}
				if o.Path != path || (next >= 0 && o.Off != next) {
					appendOnly = false
				}
				next = o.Off + int64(len(o.Data))
				ends = append(ends, next)
			case crashfs.OpTruncate, crashfs.OpRemove, crashfs.OpRename:
				appendOnly = false
			}
		}
		if path == "" {
			return
		}
		before, fin := imageAt(r.fs, w.opStart), imageAt(r.fs, w.opEnd)
		if before == nil || fin == nil {
			appendOnly = false
		}
		var s, e int64
		if appendOnly {
			s, e = int64(len(before.Files[path])), int64(len(fin.Files[path]))
			for _, o := range ops[w.opStart:w.opEnd] {
				if o.Kind == crashfs.OpWrite && o.Path == path && o.Off < s {
					appendOnly = false
				}
			}
			if e <= s || string(fin.Files[path][:s]) != string(before.Files[path]) {
				appendOnly = false
			}
		}
		if !appendOnly {
			// not an append-only flush (never observed): the synthetic cuts would not be images of the crash
			// model; the whole-op images above still cover the call
			nonAppend.Add(1)
			return
		}
		blocks := (e-1)/blockSize - s/blockSize + 1
		if blocks > 1 {
			multiBlock.Add(1)
		}
		for {
			m := maxBlocks.Load()
			if blocks <= m || maxBlocks.CompareAndSwap(m, blocks) {
				break
			}
		}
		for {
			m := maxBytes.Load()
			if e-s <= m || maxBytes.CompareAndSwap(m, e-s) {
				break
			}
		}
		if per := calBytes / calN; e%blockSize <= per || blockSize-e%blockSize <= per {
			nearBlock.Add(1)
		}
		set := map[int64]byte{} // cut -> 1: also with zero / 0xFF remainder
		add := func(x int64, fills byte) {
			if x > s && x < e {
				set[x] |= fills
			}
		}
		add(s+1, 0)
		for b := (s/blockSize + 1) * blockSize; b < e; b += blockSize {
			add(b, 1)
		}
		for _, x := range ends {
			add(x, 1)
		}
		for x := s + stride; x < e; x += stride {
			add(x, 0)
		}
		for x := e - tailBytes; x < e; x++ {
			add(x, 0)
		}
		var keys []int64
		for x := range set {
			keys = append(keys, x)
		}
		sort.Slice(keys, func(a, b int) bool { return keys[a] < keys[b] })
		var out []sizeCut
		for _, x := range keys {
			out = append(out, sizeCut{r: r, ri: ri, path: path, s: s, cut: x, fin: fin, prev: w.opStart + 1})
			if set[x]&1 == 1 {
				out = append(out, sizeCut{r: r, ri: ri, path: path, s: s, cut: x, fill: 'z', fin: fin, prev: w.opStart + 1},
					sizeCut{r: r, ri: ri, path: path, s: s, cut: x, fill: 'f', fin: fin, prev: w.opStart + 1})
			}
		}
		cuts[i] = out
		if sc.n == ns[len(ns)-1] && !sc.prune && !sc.closeF {
			var wr []string
			for _, o := range ops[w.opStart:w.opEnd] {
				wr = append(wr, fmt.Sprintf("%s %s off=%d len=%d", o.Kind, o.Path, o.Off, len(o.Data)))
			}
			c.r.Sample(map[string]any{"pass": name, "history": histString(h), "batch_records": sc.n, "log_file": path,
				"synced_before": s, "end_after": e, "blocks_spanned": blocks, "fs_ops_of_flush": wr, "tail_cuts": len(out)})
		}
	})
	var all []sizeCut
	for _, cs := range cuts {
		all = append(all, cs...)
	}
	var cutSkipped atomic.Int64
	ev.Par(len(all), workers, func(i int) {
		if c.r.OutOfTime() {
			cutSkipped.Add(1)
			return
		}
		sc := all[i]
		r, w := sc.r, &sc.r.rows[sc.ri]
		full := sc.fin.Files[sc.path]
		var data []byte
		if sc.fill == 0 {
			data = full[:sc.cut:sc.cut]
		} else {
			data = make([]byte, len(full))
			copy(data, full[:sc.cut])
			b := byte(0)
			if sc.fill == 'f' {
				b = 0xFF
			}
			for j := sc.cut; j < int64(len(data)); j++ {
				data[j] = b
			}
		}
		img := &crashfs.Image{Dirs: sc.fin.Dirs, Files: make(map[string][]byte, len(sc.fin.Files))}
		for f, b := range sc.fin.Files {
			img.Files[f] = b
		}
		img.Files[sc.path] = data
		// described as: the appended region [s, e) taken as one write, cut after cut-s bytes
		ci := crashfs.CrashInfo{Prefix: sc.prev, Tails: []crashfs.TailCut{{Path: sc.path, OpsPending: 1, Cut: int(sc.cut - sc.s), WriteLen: len(full) - int(sc.s), Fill: sc.fill}}}
		c.images.Add(1)
		allowed := append([]string(nil), w.before...)
		for _, a := range w.alt {
			allowed = addUniq(allowed, a)
		}
		if !c.first(img.Hash(), allowed, true, w.pruned) {
			return
		}
		c.kind(ci.Variant())
		c.recoverOne(r, w, ci, img, allowed, r.fs.Ops(), true, w.pruned)
	})
	if skipped.Load() > 0 || cutSkipped.Load() > 0 || c.r.OutOfTime() {
		c.r.Incomplete(fmt.Sprintf("%s: time budget hit; %d of %d batch-size cases and %d of %d tail cuts not run", name, skipped.Load(), len(cases), cutSkipped.Load(), len(all)))
	}
	c.r.Set(name+"_batch_record_counts", int64(len(ns)))
	c.r.Set(name+"_max_batch_records", int64(ns[len(ns)-1]))
	c.r.Set(name+"_cases", int64(len(cases)))
	c.r.Set(name+"_calibration_bytes_per_1000_entries", calBytes)
	c.r.Set(name+"_flushes_spanning_several_blocks", multiBlock.Load())
	c.r.Set(name+"_flushes_ending_within_one_entry_of_a_block_boundary", nearBlock.Load())
	c.r.Set(name+"_max_blocks_in_one_flush", maxBlocks.Load())
	c.r.Set(name+"_max_bytes_in_one_flush", maxBytes.Load())
	c.r.Set(name+"_flushes_not_append_only", nonAppend.Load())
	c.r.Set(name+"_tail_cuts", int64(len(all)))
	c.r.Set(name+"_crash_images", c.images.Load()-img0)
	c.r.Set(name+"_recoveries", c.recoveries.Load()-rec0)
	c.r.Set(name+"_seconds", time.Since(t0).Seconds())
	if skipped.Load() == 0 && c.r.Violations() == 0 && (multiBlock.Load() == 0 || len(all) == 0) {
		c.r.Infra("%s", name+" is vacuous: no flush spanning several log blocks / no tail cut")
	}
}
