package c14

import (
	"fmt"
	"os"
	"strings"
	"testing"
	"time"

	"verif/mc/crashfs"
	"verif/mc/ev"
)

func parseHist(s string) []sym {
	var out []sym
	for _, f := range strings.Fields(s) {
		x := sym{k: f[0]}
		if len(f) > 1 {
			x.h = int(f[1] - '0')
		}
		out = append(out, x)
	}
	return out
}

// TestDump prints the FS op log of one history (C14_DUMP="a1 f p1 f r", C14_BASE=1 for the 255-prune base).
func TestDump(t *testing.T) {
	hs := os.Getenv("C14_DUMP")
	if hs == "" {
		t.Skip()
	}
	crashfs.Install()
	c := &checker{r: ev.Start("C14", "fault_enumeration")}
	t0 := time.Now()
	r := c.execute(parseHist(hs), baseKind(envInt("C14_BASE", 0)), -1, 0, false)
	fmt.Println("fill remaining", r.fillRemaining)
	fmt.Println("exec time", time.Since(t0), "ops", r.fs.NumOps(), "calls", r.fs.Calls())
	ops := r.fs.Ops()
	for _, w := range r.rows {
		if w.step < 0 && os.Getenv("C14_BASE") != "" && w.opStart > 40 {
			continue
		}
		fmt.Printf("%-6s step=%d ops[%d,%d) calls[%d,%d) err=%q\n   before=%q\n   alt=%q\n   after=%q\n", w.name, w.step, w.opStart, w.opEnd, w.callStart, w.callEnd, w.err, w.before, w.alt, w.after)
		for i := w.opStart; i < w.opEnd; i++ {
			fmt.Printf("      %3d %s\n", i, ops[i])
		}
		for k := w.callStart; k < w.callEnd; k++ {
			fmt.Printf(" %s", r.fs.CallName(k))
		}
		fmt.Println()
	}
	t0 = time.Now()
	lo := 0
	for i, w := range r.rows {
		if w.step >= 0 {
			lo = i
			break
		}
	}
	c.crashCheck(r, lo, len(r.rows), func(*row) crashfs.Options { return crashfs.Full }, func(crashfs.CrashInfo) bool { return os.Getenv("C14_CONT") != "" })
	d := time.Since(t0)
	fmt.Println("images", c.images.Load(), "recoveries", c.recoveries.Load(), "conts", c.conts.Load(), "time", d, "per-recovery", d/time.Duration(max(1, c.recoveries.Load())))
	fmt.Println("violations", c.r.Violations())
}
