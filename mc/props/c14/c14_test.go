// C14 — the consensus log never loses flushed entries and never revives pruned ones.
//
// System under test: the real consensus/walstore (NewTendermintWALStore, SetWALEntry, DeleteWALEntries,
// Flush, LoadAllEntries, Close) compiled from the current tree, running on crashfs (engine E4):
// pebble's vfs.Default is replaced by the crashfs router and the package's direct os.* calls are
// redirected by a mechanical import rewrite (prebuild.sh, go build -overlay).
//
// Enumerated (no sampling):
//  1. all API histories up to a depth over {append(h) h∈{1,2,3}, flush, prune-up-to(h) h∈{1,2,3},
//     close+reopen}; the entry kind of an append is a fixed function of (position, height) so that all
//     five entry kinds occur; every entry is distinguishable (round = position);
//  2. for every history, every prefix of the FS op log, every crash image of crashfs.Full (unsynced
//     data ops as an in-order prefix, last write cut at every byte, cut-off part absent / zeros / 0xFF;
//     namespace ops since the last dir sync as every in-order prefix): recover with
//     NewTendermintWALStore on a fresh FS and compare LoadAllEntries with the model; then continue
//     (append+flush+close+reopen) to show the log is usable;
//  3. for every history, every FS call failing once with EIO (without effect / after a partial write):
//     API results, live view, crash images from the fault onward, and that later operations work;
//  4. the same from a live base state with 255 prune records, so that the 256th (watermark write,
//     rotation, obsolete-file removal) happens inside the enumerated suffix;
//  5. heights spanning several log files next to the obsolete-file removal: every "layout" base (each of
//     2 (quick) / 3 (thorough) live heights has a flushed entry in any subset of three consecutive log files;
//     each of the two file boundaries made by close+reopen or by an in-session cleanup rotation; then 255
//     prune records) x every history of length <= 2 (quick) / 3 (thorough, 2-height layouts) with the
//     whole-op crash images of its last call. Counters report how many histories remove a log file while a
//     height is live, and how many do so right after pruning a multi-file height that shared a file with a
//     live one (vacuity guard: both must be > 0).
//  6. SIZE boundaries of one flush (sizes_test.go): batches of 1..4240 (quick) / ..16385 (thorough) records -
//     counts around powers of two and around multiples of the 32 KiB log block - flushed by Flush or Close, with
//     whole-op crash images and tail cuts of the appended log region at every block / write boundary, at a
//     stride, and at every byte of the tail.
//
// Oracle (the property statement): after recovery the log holds, for every unpruned height, exactly
// the entries of the batches whose Flush returned nil, in order — or that plus the complete batch in
// flight; never a partial batch, never a pruned height, never an open error.
//
// Tolerances (so that the check never demands more than the statement):
//   - A Flush/Close that returns an error may have committed the *whole* batch (walstore does this when
//     only the post-commit cleanup fails). Accepted iff the live view shows the whole batch and every
//     crash image taken afterwards recovers exactly the live view. Counted as outcome
//     "flush-error-batch-committed".
//   - NewTendermintWALStore may return the injected EIO itself; a second open must then succeed.
package c14

import (
	"crypto/sha256"
	"fmt"
	"sort"
	"strings"
	"sync"
	"sync/atomic"

	"github.com/NethermindEth/juno/consensus/starknet"
	"github.com/NethermindEth/juno/consensus/types"
	"github.com/NethermindEth/juno/consensus/types/wal"
	"github.com/NethermindEth/juno/consensus/walstore"
	"github.com/NethermindEth/juno/core/felt"
	kvdb "github.com/NethermindEth/juno/db"
	_ "github.com/NethermindEth/juno/encoder/registry"

	"verif/mc/crashfs"
	"verif/mc/ev"
)

type store = walstore.TendermintWALStore[starknet.Value, starknet.Hash, starknet.Address]

// fakeDB: NewTendermintWALStore only asks the database for its path.
type fakeDB struct {
	kvdb.KeyValueStore
	path string
}

func (f fakeDB) Path() string { return f.path }

func openStore(root string) (store, error) {
	return walstore.NewTendermintWALStore[starknet.Value, starknet.Hash, starknet.Address](fakeDB{path: root + "/db"})
}

// ---------- entries ----------

// mkEntry builds a distinguishable entry: kind = (pos+height) mod 5, round = pos.
func mkEntry(pos int, height uint64) (starknet.WALEntry, string) {
	h := types.Height(height)
	rd := types.Round(pos)
	sender := felt.FromUint64[starknet.Address](uint64(pos) + 1)
	val := felt.FromUint64[starknet.Value](1000 + uint64(pos))
	id := val.Hash()
	var e starknet.WALEntry
	switch (pos + int(height)) % 5 {
	case 0:
		s := wal.Start(h)
		e = &s
	case 1:
		p := starknet.WALProposal{MessageHeader: starknet.MessageHeader{Height: h, Round: rd, Sender: sender}, ValidRound: rd - 1}
		if pos%2 == 0 {
			p.Value = &val
		}
		e = &p
	case 2:
		p := starknet.WALPrevote{MessageHeader: starknet.MessageHeader{Height: h, Round: rd, Sender: sender}}
		if pos%2 == 1 {
			p.ID = &id
		}
		e = &p
	case 3:
		p := starknet.WALPrecommit{MessageHeader: starknet.MessageHeader{Height: h, Round: rd, Sender: sender}, ID: &id}
		e = &p
	default:
		t := starknet.WALTimeout{Step: types.StepPrecommit, Height: h, Round: rd}
		e = &t
	}
	return e, describe(e)
}

func fstr[T ~[4]uint64](p *T) string {
	if p == nil {
		return "nil"
	}
	return fmt.Sprint((*p)[0], ".", (*p)[1], ".", (*p)[2], ".", (*p)[3])
}

func describe(e starknet.WALEntry) string {
	switch x := e.(type) {
	case *wal.Start:
		return fmt.Sprintf("start@%d", uint64(*x))
	case *starknet.WALProposal:
		return fmt.Sprintf("proposal@%d/r%d/s%s/vr%d/v%s", x.Height, x.Round, fstr(&x.Sender), x.ValidRound, fstr(x.Value))
	case *starknet.WALPrevote:
		return fmt.Sprintf("prevote@%d/r%d/s%s/id%s", x.Height, x.Round, fstr(&x.Sender), fstr(x.ID))
	case *starknet.WALPrecommit:
		return fmt.Sprintf("precommit@%d/r%d/s%s/id%s", x.Height, x.Round, fstr(&x.Sender), fstr(x.ID))
	case *starknet.WALTimeout:
		return fmt.Sprintf("timeout@%d/r%d/step%d", x.Height, x.Round, x.Step)
	case nil:
		return "<nil>"
	default:
		return fmt.Sprintf("%T", e)
	}
}

func heightOf(d string) uint64 {
	var h uint64
	i := strings.IndexByte(d, '@')
	fmt.Sscanf(d[i+1:], "%d", &h)
	return h
}

// load reads the live view of a store as a list of entry descriptions.
func load(st store) ([]string, error) {
	var out []string
	for e, err := range st.LoadAllEntries() {
		if err != nil {
			return out, err
		}
		out = append(out, describe(e))
	}
	return out, nil
}

// ---------- history alphabet ----------

type sym struct {
	k byte // 'a' append, 'f' flush, 'p' prune, 'r' close+reopen
	h int
}

func (s sym) String() string {
	if s.h > 0 {
		return fmt.Sprintf("%c%d", s.k, s.h)
	}
	return string(s.k)
}

var alphabet = []sym{{'a', 1}, {'a', 2}, {'a', 3}, {'f', 0}, {'p', 1}, {'p', 2}, {'p', 3}, {'r', 0}}

func histString(h []sym) string {
	var b strings.Builder
	for i, s := range h {
		if i > 0 {
			b.WriteByte(' ')
		}
		b.WriteString(s.String())
	}
	return b.String()
}

// allHistories enumerates all sequences over the alphabet with minLen <= length <= maxLen.
func allHistories(minLen, maxLen int) [][]sym {
	var out [][]sym
	var rec func(cur []sym)
	rec = func(cur []sym) {
		if len(cur) >= minLen {
			out = append(out, append([]sym(nil), cur...))
		}
		if len(cur) == maxLen {
			return
		}
		for _, s := range alphabet {
			rec(append(cur, s))
		}
	}
	rec(nil)
	return out
}

// ---------- model ----------

type ment struct {
	d string
	h uint64
}

type model struct {
	dur       []ment
	pruned    uint64
	pend      []ment
	pendPrune uint64
}

func contentOf(dur []ment, pruned uint64) []string {
	// LoadAllEntries returns entries grouped by ascending height, append order inside a height.
	es := make([]ment, 0, len(dur))
	for _, e := range dur {
		if e.h > pruned {
			es = append(es, e)
		}
	}
	sort.SliceStable(es, func(i, j int) bool { return es[i].h < es[j].h })
	out := make([]string, len(es))
	for i, e := range es {
		out[i] = e.d
	}
	return out
}

func (m *model) content() []string { return contentOf(m.dur, m.pruned) }

// ifCommitted is the content if the pending batch became durable.
func (m *model) ifCommitted() []string {
	p := m.pruned
	if m.pendPrune > p {
		p = m.pendPrune
	}
	return contentOf(append(append([]ment(nil), m.dur...), m.pend...), p)
}

func (m *model) commit() {
	m.dur = append(m.dur, m.pend...)
	if m.pendPrune > m.pruned {
		m.pruned = m.pendPrune
	}
	kept := m.dur[:0]
	for _, e := range m.dur {
		if e.h > m.pruned {
			kept = append(kept, e)
		}
	}
	m.dur = kept
	m.pend, m.pendPrune = nil, 0
}

func (m *model) drop() { m.pend, m.pendPrune = nil, 0 }

func (m *model) hasPending() bool { return len(m.pend) > 0 || m.pendPrune > m.pruned }

func join(c []string) string { return strings.Join(c, " | ") }

// ---------- one execution of a history against the real store ----------

// row is one API call (a history symbol 'r' yields two rows: close, open).
type row struct {
	name           string // "flush", "close", "open", "append", "prune"
	step           int    // index into the history (-1: base prefix, len: epilogue)
	opStart, opEnd int
	callStart      int
	callEnd        int
	before         []string // model contents before the call (one per model alternative, usually one)
	pruned         uint64   // prune watermark before the call that holds in every alternative
	prunedAfter    uint64   // ... after the call returned
	alt            []string // contents if the batch in flight becomes durable
	after          []string // model contents after the call returned
	err            string
}

func has(set []string, x string) bool {
	for _, y := range set {
		if x == y {
			return true
		}
	}
	return false
}

func addUniq(set []string, x string) []string {
	if has(set, x) {
		return set
	}
	return append(set, x)
}

type run struct {
	c    *checker
	hist []sym
	hoff uint64 // height offset of the alphabet (0, 299 on the 255-prune base, 999 on a layout base)
	base baseKind
	fs   *crashfs.FS
	root string
	st   store
	// ms: the model alternatives consistent with everything observed so far. There is exactly one, except
	// after a Flush/Close that failed on an injected fault with a batch whose commit is not observable
	// through LoadAllEntries (a prune that removes nothing, entries of pruned heights): then both
	// "committed" and "not committed" are kept until a later observation decides.
	ms            []*model
	rows          []row
	fault         int // injected call index, -1 none
	fmode         crashfs.FaultMode
	broken        bool  // a violation made the rest of the run meaningless
	fillRemaining int64 // bytes left in the first 32 KiB block after a block-fill base
	// Observed placement of the flushed batches (fault-free runs only): for every live height the set of
	// log files its flushed entries were written to, read off the FS op log. Used for vacuity counters of the
	// multi-file pass only, never by the oracle.
	filesOf map[uint64]map[string]bool
	place   placement
	// quiet: set while a layout base issues its prune records (fault-free, heights without entries): the rows
	// of these calls are never crash-checked, so their model contents are not rendered, and the live view is
	// compared with the model after the last record of each block instead of after every one.
	quiet bool
}

// placement summarises what a run reached with respect to heights spanning several log files.
type placement struct {
	maxFilesOfLiveHeight int  // most log files a live height was spread over at any time
	removedLogs          int  // log files removed by history calls
	removedWithLive      bool // a history call removed >= 1 log file while a live height remained
	// a history call removed >= 1 log file in the flush that pruned a height spread over >= 2 files, one of
	// which also held flushed entries of a height that stays live
	removedSharedMulti bool
}

func (r *run) ctx() map[string]any {
	d := map[string]any{"history": histString(r.hist), "base": r.base.String()}
	if r.fault >= 0 {
		d["fault_call"] = r.fault
		d["fault_call_name"] = r.fs.CallName(r.fault)
		d["fault_mode"] = map[crashfs.FaultMode]string{crashfs.FailNoEffect: "no-effect", crashfs.FailPartial: "partial"}[r.fmode]
	}
	return d
}

func (r *run) violate(key string, extra map[string]any) {
	d := r.ctx()
	for k, v := range extra {
		d[k] = v
	}
	var rows []string
	for _, w := range r.rows {
		if w.step >= 0 {
			rows = append(rows, fmt.Sprintf("%s[%d] ops %d..%d err=%q", w.name, w.step, w.opStart, w.opEnd, w.err))
		}
	}
	d["calls"] = rows
	r.c.r.Violate(key, d)
}

func (r *run) faultName() string {
	if r.fault < 0 {
		return "none"
	}
	if n := r.fs.Failed(); n != "" {
		return n
	}
	return "unfired"
}

// call wraps one API call with bookkeeping. f returns the API error; decide updates the model.
func (r *run) call(name string, step int, f func() error, decide func(err error, w *row)) {
	w := row{name: name, step: step, opStart: r.fs.NumOps(), callStart: r.fs.Calls()}
	w.pruned = r.minPruned()
	if !r.quiet {
		for _, m := range r.ms {
			w.before = addUniq(w.before, join(m.content()))
			w.alt = addUniq(w.alt, join(m.ifCommitted()))
		}
	}
	r.fs.SetTag(len(r.rows))
	var err error
	if p, msg := ev.Guard(func() { err = f() }); p {
		r.violate(fmt.Sprintf("panic in %s fault=%s", name, r.faultName()), map[string]any{"panic": msg, "step": step})
		r.broken = true
		err = fmt.Errorf("panic: %s", msg)
	}
	w.opEnd, w.callEnd = r.fs.NumOps(), r.fs.Calls()
	if err != nil {
		w.err = err.Error()
	}
	decide(err, &w)
	if !r.quiet {
		for _, m := range r.ms {
			w.after = addUniq(w.after, join(m.content()))
		}
	}
	w.prunedAfter = r.minPruned()
	r.rows = append(r.rows, w)
}

// faultInside reports whether the injected fault fired during the call w.
func (r *run) faultInside(w *row) bool {
	return r.fault >= 0 && r.fault >= w.callStart && r.fault < w.callEnd
}

func (r *run) minPruned() uint64 {
	p := r.ms[0].pruned
	for _, m := range r.ms[1:] {
		if m.pruned < p {
			p = m.pruned
		}
	}
	return p
}

func (m *model) clone() *model {
	c := *m
	c.dur = append([]ment(nil), m.dur...)
	c.pend = append([]ment(nil), m.pend...)
	return &c
}

func (m *model) key() string {
	var b strings.Builder
	fmt.Fprintf(&b, "%d/%d/", m.pruned, m.pendPrune)
	for _, e := range m.dur {
		b.WriteString(e.d)
		b.WriteByte(';')
	}
	b.WriteByte('/')
	for _, e := range m.pend {
		b.WriteString(e.d)
		b.WriteByte(';')
	}
	return b.String()
}

// keep retains the alternatives whose content equals the live view.
func (r *run) keep(cands []*model, lv string) []*model {
	var out []*model
	seen := map[string]bool{}
	for _, m := range cands {
		if join(m.content()) == lv && !seen[m.key()] {
			seen[m.key()] = true
			out = append(out, m)
		}
	}
	return out
}

// settle handles a Flush/Close that returned an error: the batch must be entirely absent or entirely
// present (all-or-nothing), judged by the live view.
func (r *run) settle(name string, err error, w *row, keepPending bool) {
	if !r.faultInside(w) {
		r.violate(fmt.Sprintf("%s returned an error without an injected fault in it", name), map[string]any{"err": err.Error(), "step": w.step})
	}
	live, lerr := load(r.st)
	if lerr != nil {
		r.violate(fmt.Sprintf("live view error after failed %s", name), map[string]any{"err": lerr.Error()})
		r.broken = true
		return
	}
	lv := join(live)
	var rolled, committed []*model
	for _, m := range r.ms {
		a := m.clone()
		if !keepPending {
			a.drop()
		}
		rolled = append(rolled, a)
		b := m.clone()
		b.commit()
		committed = append(committed, b)
	}
	kr, kc := r.keep(rolled, lv), r.keep(committed, lv)
	switch {
	case len(kr) > 0 && len(kc) > 0:
		// batch without visible effect: either reading is consistent, a later observation decides
		r.c.r.Outcome(name + "-error-invisible-batch")
	case len(kr) > 0:
		r.c.r.Outcome(name + "-error-rolled-back")
	case len(kc) > 0:
		r.c.r.Outcome(name + "-error-batch-committed")
	default:
		r.violate(fmt.Sprintf("failed %s left a partial or foreign live view fault=%s", name, r.faultName()),
			map[string]any{"live": live, "before": w.before, "if_committed": w.alt, "err": err.Error()})
		r.broken = true
		return
	}
	r.ms = r.keep(append(kr, kc...), lv)
}

func (r *run) checkLive(where string, w *row) {
	live, err := load(r.st)
	var kept []*model
	if err == nil {
		kept = r.keep(r.ms, join(live))
	}
	if len(kept) == 0 {
		var want [][]string
		for _, m := range r.ms {
			want = append(want, m.content())
		}
		r.violate(fmt.Sprintf("live view differs from flushed model after %s fault=%s", where, r.faultName()),
			map[string]any{"live": live, "model": want, "step": w.step, "err": fmt.Sprint(err)})
		r.broken = true
		return
	}
	r.ms = kept
}

var bulkEntries = envInt("C14_BULK", 640)

func (r *run) doAppend(step int, height uint64) { r.doAppendPos(step, step+1, height) }

func (r *run) doAppendPos(step, pos int, height uint64) {
	e, d := mkEntry(pos, height)
	r.call("append", step, func() error { return r.st.SetWALEntry(e) }, func(err error, w *row) {
		if err != nil {
			r.violate("append returned an error", map[string]any{"err": err.Error(), "step": step})
			r.broken = true
			return
		}
		for _, m := range r.ms {
			m.pend = append(m.pend, ment{d, height})
		}
	})
}

func (r *run) doPrune(step int, height uint64) {
	r.call("prune", step, func() error { return r.st.DeleteWALEntries(types.Height(height)) }, func(err error, w *row) {
		if err != nil {
			r.violate("prune returned an error", map[string]any{"err": err.Error(), "step": step})
			r.broken = true
			return
		}
		for _, m := range r.ms {
			if height > m.pendPrune {
				m.pendPrune = height
			}
		}
	})
}

func (r *run) doFlush(step int) {
	r.call("flush", step, func() error { return r.st.Flush() }, func(err error, w *row) {
		if err != nil {
			r.settle("flush", err, w, true)
			return
		}
		r.notePlacement(w)
		for _, m := range r.ms {
			m.commit()
		}
		if !r.quiet {
			r.checkLive("flush", w)
		}
	})
}

func (r *run) doClose(step int) {
	r.call("close", step, func() error { return r.st.Close() }, func(err error, w *row) {
		if err != nil {
			r.settle("close", err, w, false)
			return
		}
		r.notePlacement(w)
		for _, m := range r.ms {
			m.commit()
		}
	})
}

func (r *run) doOpen(step int) {
	r.call("open", step, func() error {
		st, err := openStore(r.root)
		if err != nil && r.fault >= 0 && r.fs.Failed() != "" && r.fault >= r.rows0CallStart() {
			// the injected EIO may surface as an open error: a retry must work
			r.c.r.Outcome("open-error-on-injected-fault")
			st, err = openStore(r.root)
		}
		if err == nil {
			r.st = st
		}
		return err
	}, func(err error, w *row) {
		if err != nil {
			r.violate(fmt.Sprintf("open error after close fault=%s", r.faultName()), map[string]any{"err": err.Error(), "step": step})
			r.broken = true
			return
		}
		r.checkLive("reopen", w)
	})
}

// rows0CallStart: first FS call of the call being executed (the row under construction is not yet
// appended, so it is the current call counter at the end of the previous row).
func (r *run) rows0CallStart() int {
	if len(r.rows) == 0 {
		return 0
	}
	return r.rows[len(r.rows)-1].callEnd
}

const baseTopHeight = 299 // alphabet heights on the base are 300,301,302

// runBase brings a fresh store to the state "255 prune records since the last cleanup" with three log
// files: 1 = {h1 (dead), h300 (alive)}, 2 = {h2 (dead)}, 3 = 255 prune records (current writer).
func (r *run) runBase() {
	r.doAppend(-1000, 1)
	r.doAppend(-999, baseTopHeight+1)
	r.doFlush(-1)
	r.doClose(-1)
	r.doOpen(-1)
	r.doAppend(-998, 2)
	r.doFlush(-1)
	r.doClose(-1)
	r.doOpen(-1)
	for i := uint64(1); i <= 255 && !r.broken; i++ {
		r.doPrune(-1, i)
		r.doFlush(-1)
	}
}

// notePlacement is called when a Flush/Close returned nil, before the model commits the pending batch.
// It reads off the FS op log which log file the batch was written to and which log files the call
// removed, and keeps the per-height file sets (fault-free runs only).
func (r *run) notePlacement(w *row) {
	if r.fault >= 0 || len(r.ms) != 1 {
		return
	}
	m := r.ms[0]
	if !m.hasPending() {
		return
	}
	if r.filesOf == nil {
		r.filesOf = map[uint64]map[string]bool{}
	}
	batchFile, removed := "", 0
	for _, o := range r.fs.Ops()[w.opStart:w.opEnd] {
		switch {
		case o.Kind == crashfs.OpWrite && strings.HasSuffix(o.Path, ".log") && batchFile == "":
			batchFile = o.Path
		case o.Kind == crashfs.OpRemove && strings.HasSuffix(o.Path, ".log"):
			removed++
		}
	}
	// heights durable before this batch and the files they were in
	before := map[uint64]map[string]bool{}
	for h, fs := range r.filesOf {
		c := map[string]bool{}
		for f := range fs {
			c[f] = true
		}
		before[h] = c
	}
	if batchFile != "" {
		for _, e := range m.pend {
			if e.h > m.pruned {
				if r.filesOf[e.h] == nil {
					r.filesOf[e.h] = map[string]bool{}
				}
				r.filesOf[e.h][batchFile] = true
			}
		}
	}
	newPruned := m.pruned
	if m.pendPrune > newPruned {
		newPruned = m.pendPrune
	}
	surviving := 0
	for h, fs := range r.filesOf {
		if h > newPruned {
			surviving++
			if len(fs) > r.place.maxFilesOfLiveHeight {
				r.place.maxFilesOfLiveHeight = len(fs)
			}
		}
	}
	if removed > 0 && w.step >= 0 {
		r.place.removedLogs += removed
		if surviving > 0 {
			r.place.removedWithLive = true
		}
		for d, dfs := range before {
			if d > newPruned || len(dfs) < 2 {
				continue
			}
			for s, sfs := range before {
				if s <= newPruned {
					continue
				}
				for f := range sfs {
					if dfs[f] {
						r.place.removedSharedMulti = true
					}
				}
			}
		}
	}
	for h := range r.filesOf {
		if h <= newPruned {
			delete(r.filesOf, h)
		}
	}
}

// ---------- multi-file layouts ----------
//
// A layout base prepares, without faults, a live store whose live heights are spread over up to three log
// files in a chosen way, and which has 255 prune records since the last cleanup, so that the first prune
// record of the enumerated suffix triggers the watermark write, the rotation and the removal of obsolete
// files. The store writes one log file per "segment": a segment ends at a close+reopen or at an in-session
// cleanup (256 prune records; the cleanup rotates the writer). A layout is
//   - for each alphabet height i (hoff+1..hoff+3) a subset mask[i] of the segments {1,2,3}: in segment s one
//     entry of every height whose mask contains s is appended (ascending height) and the batch is flushed;
//   - for each of the two segment boundaries its kind: close+reopen, or 256 flushed prune records of
//     heights that hold no entries (in-session cleanup + rotation);
//   - after the entries of segment 3: 255 flushed prune records (again of heights without entries).
//
// All of it is driven through the public API; the live view is checked against the model after every flush
// of entries, after every reopen and after the last prune record of each block.
const (
	baseLayout0 baseKind = 1000
	layoutTop            = 999 // alphabet heights on a layout base are 1000,1001,1002
)

type layout struct {
	mask   [3]int  // mask[i] bit s-1: height hoff+1+i has a flushed entry in segment s
	rotate [2]bool // boundary after segment 1 / 2: true = 256 prune records in-session, false = close+reopen
}

func (l layout) kind() baseKind {
	c := l.mask[0] | l.mask[1]<<3 | l.mask[2]<<6
	if l.rotate[0] {
		c |= 1 << 9
	}
	if l.rotate[1] {
		c |= 1 << 10
	}
	return baseLayout0 + baseKind(c)
}

func layoutOf(b baseKind) layout {
	c := int(b - baseLayout0)
	return layout{mask: [3]int{c & 7, c >> 3 & 7, c >> 6 & 7}, rotate: [2]bool{c>>9&1 == 1, c>>10&1 == 1}}
}

// maxSpan is the largest number of segments one height is spread over.
func (l layout) maxSpan() int {
	n := 0
	for _, m := range l.mask {
		if k := m&1 + m>>1&1 + m>>2&1; k > n {
			n = k
		}
	}
	return n
}

func (l layout) String() string {
	var b strings.Builder
	b.WriteString("layout(")
	for i, m := range l.mask {
		fmt.Fprintf(&b, "h%d in segments ", i+1)
		if m == 0 {
			b.WriteByte('-')
		}
		for s := 1; s <= 3; s++ {
			if m>>(s-1)&1 == 1 {
				fmt.Fprintf(&b, "%d", s)
			}
		}
		b.WriteString("; ")
	}
	for i, rot := range l.rotate {
		fmt.Fprintf(&b, "boundary %d/%d = %s", i+1, i+2, map[bool]string{false: "reopen", true: "256-prune-records cleanup"}[rot])
		if i == 0 {
			b.WriteString(", ")
		}
	}
	b.WriteString("; then 255 prune records)")
	return b.String()
}

// allLayouts enumerates every layout over the first `heights` alphabet heights (the others have no entries).
func allLayouts(heights int) []baseKind {
	var out []baseKind
	for c := 0; c < 1<<(3*heights); c++ {
		for b := 0; b < 4; b++ {
			l := layout{mask: [3]int{c & 7, c >> 3 & 7, c >> 6 & 7}, rotate: [2]bool{b&1 == 1, b&2 == 2}}
			out = append(out, l.kind())
		}
	}
	return out
}

func (r *run) runLayout(l layout) {
	next := uint64(1) // next prune height (heights without entries, far below the alphabet)
	prunes := func(n int) {
		for i := 0; i < n && !r.broken; i++ {
			r.quiet = i < n-1
			r.doPrune(-1, next)
			next++
			r.doFlush(-1)
		}
		r.quiet = false
	}
	for s := 1; s <= 3 && !r.broken; s++ {
		any := false
		for i, m := range l.mask {
			if m>>(s-1)&1 == 1 {
				r.doAppendPos(-1, 2000+10*s+i, r.hoff+1+uint64(i))
				any = true
			}
		}
		if any {
			r.doFlush(-1)
		}
		switch {
		case s == 3:
			prunes(255)
		case l.rotate[s-1]:
			prunes(256)
		default:
			r.doClose(-1)
			if !r.broken {
				r.doOpen(-1)
			}
		}
	}
}

// baseKind selects the live prefix that is run (not enumerated) before the enumerated history.
type baseKind int

const (
	baseNone     baseKind = 0
	basePrune255 baseKind = 1 // 255 prune records since the last cleanup, three log files
	baseFill0    baseKind = 2 // baseFill0+k: one log file filled to just below the first 32 KiB block boundary with single-entry batches of entry kind k
	// baseLayout0+code (>= 1000): live heights spread over up to three log files + 255 prune records, see layout
)

func (b baseKind) String() string {
	switch {
	case b == baseNone:
		return "none"
	case b == basePrune255:
		return "prune255"
	case b >= baseLayout0:
		return layoutOf(b).String()
	default:
		return fmt.Sprintf("blockfill-kind%d", int(b-baseFill0))
	}
}

const blockSize = 32 << 10 // pebble record block

// logEnd returns the end offset of the last write to a log file.
func (r *run) logEnd() int64 {
	ops := r.fs.Ops()
	for i := len(ops) - 1; i >= 0; i-- {
		if ops[i].Kind == crashfs.OpWrite {
			return ops[i].Off + int64(len(ops[i].Data))
		}
	}
	return 0
}

// runFill flushes single-entry batches (entry kind k, height 1) into one log file until the next one
// would not fit below the 32 KiB block boundary any more, so that the batches of the enumerated
// history are written across the boundary (fragmented records, block padding).
func (r *run) runFill(kind int) {
	last, step := int64(0), int64(0)
	for j := 0; !r.broken; j++ {
		end := r.logEnd()
		if end > last {
			step, last = end-last, end
		}
		if step > 0 && end+step > blockSize {
			break
		}
		pos := 100000 + 5*j
		for (pos+1)%5 != kind {
			pos++
		}
		r.doAppendPos(-1, pos, 1)
		r.doFlush(-1)
	}
	r.fillRemaining = blockSize - r.logEnd()
}

// execute runs the history (after the optional base) and returns the run with its tables.
func (c *checker) execute(hist []sym, base baseKind, fault int, fmode crashfs.FaultMode, epilogue bool) *run {
	r := &run{c: c, hist: hist, base: base, fault: -1, fmode: fmode, ms: []*model{{}}}
	r.fs = crashfs.NewFS()
	r.root = r.fs.Mount()
	defer r.fs.Unmount()
	r.call("open", -1, func() error {
		st, err := openStore(r.root)
		r.st = st
		return err
	}, func(err error, w *row) {
		if err != nil {
			r.violate("open error on an empty directory", map[string]any{"err": err.Error()})
			r.broken = true
		}
	})
	if r.broken {
		return r
	}
	switch {
	case base == basePrune255:
		r.hoff = baseTopHeight
		r.runBase()
	case base >= baseLayout0:
		r.hoff = layoutTop
		r.runLayout(layoutOf(base))
	case base >= baseFill0:
		r.runFill(int(base - baseFill0))
	}
	if fault >= 0 {
		r.fault = fault
		r.fs.FailCall(fault, fmode)
	}
	for i, s := range hist {
		if r.broken {
			break
		}
		switch s.k {
		case 'a':
			r.doAppend(i, r.hoff+uint64(s.h))
		case 'A':
			// bulk append: one batch that spans more than one 32 KiB block of pebble's record format
			for j := 0; j < bulkEntries && !r.broken; j++ {
				r.doAppendPos(i, 1000*(i+1)+j, r.hoff+1)
			}
		case 'B':
			// sized batch (sizes pass): s.h entries at the second alphabet height in the pending batch. The rows
			// of the appends issue no FS op and are never crash-checked, so their model contents are not rendered.
			r.quiet = true
			for j := 0; j < s.h && !r.broken; j++ {
				r.doAppendPos(i, 1000*(i+1)+j, r.hoff+2)
			}
			r.quiet = false
		case 'p':
			r.doPrune(i, r.hoff+uint64(s.h))
		case 'f':
			r.doFlush(i)
		case 'r':
			r.doClose(i)
			if !r.broken {
				r.doOpen(i)
			}
		}
	}
	if epilogue && !r.broken {
		// "later operations must work": one more batch at a height above the alphabet, clean restart.
		n := len(hist)
		if p := r.minPruned(); p > 0 {
			r.doAppend(n, p) // an entry of a pruned height must never show up
		}
		r.doAppend(n, r.hoff+4)
		r.doFlush(n)
		if w := r.rows[len(r.rows)-1]; w.err != "" && !r.faultInside(&w) {
			r.broken = true
		}
		if !r.broken {
			r.doClose(n)
		}
		if !r.broken {
			r.doOpen(n)
		}
	}
	if r.st != nil {
		ev.Guard(func() { r.st.Close() })
	}
	return r
}

// ---------- crash-image checking ----------

type checker struct {
	r    *ev.Run
	seen [256]struct {
		sync.Mutex
		m map[[16]byte]struct{}
	}
	images      atomic.Int64 // crash images generated
	recoveries  atomic.Int64 // recoveries executed (distinct image x expectation)
	conts       atomic.Int64 // post-recovery continuations executed
	recoveries2 atomic.Int64 // second-level recoveries (crash during recovery)
	histories   atomic.Int64
	faultRuns   atomic.Int64
	faultFired  atomic.Int64
	opsSeen     atomic.Int64
	maxOps      atomic.Int64
	kinds       sync.Map // crash variant kind -> *atomic.Int64
}

func (c *checker) first(h [16]byte, allowed []string, cont bool, probe uint64) bool {
	// dedupe key: image content + expectation + what is done after the recovery
	d := sha256.New()
	d.Write(h[:])
	for _, a := range allowed {
		d.Write([]byte(a))
		d.Write([]byte{0})
	}
	if cont {
		fmt.Fprintf(d, "cont/%d", probe)
	}
	var x [16]byte
	copy(x[:], d.Sum(nil))
	s := &c.seen[x[0]]
	s.Lock()
	defer s.Unlock()
	if s.m == nil {
		s.m = map[[16]byte]struct{}{}
	}
	if _, ok := s.m[x]; ok {
		return false
	}
	s.m[x] = struct{}{}
	return true
}

func (c *checker) distinct() int64 {
	var n int64
	for i := range c.seen {
		c.seen[i].Lock()
		n += int64(len(c.seen[i].m))
		c.seen[i].Unlock()
	}
	return n
}

func (c *checker) kind(k string) {
	v, _ := c.kinds.LoadOrStore(k, new(atomic.Int64))
	v.(*atomic.Int64).Add(1)
}

// classify names the way a recovered content differs from the allowed ones.
func classify(got []string, before, alt string, prunedMin uint64) string {
	for _, d := range got {
		if heightOf(d) <= prunedMin {
			return "revived-pruned-entry"
		}
	}
	bs, as := strings.Split(before, " | "), strings.Split(alt, " | ")
	inB, inA := map[string]bool{}, map[string]bool{}
	for _, x := range bs {
		inB[x] = true
	}
	for _, x := range as {
		inA[x] = true
	}
	gotSet := map[string]bool{}
	foreign := false
	for _, x := range got {
		gotSet[x] = true
		if !inB[x] && !inA[x] {
			foreign = true
		}
	}
	if foreign {
		return "foreign-or-pruned-entry"
	}
	// entries present in both alternatives are "flushed and not pruned by the batch in flight"
	for _, x := range bs {
		if x != "" && inA[x] && !gotSet[x] {
			return "lost-flushed-entry"
		}
	}
	newSeen, newMissing := false, false
	for _, x := range as {
		if x != "" && !inB[x] {
			if gotSet[x] {
				newSeen = true
			} else {
				newMissing = true
			}
		}
	}
	if newSeen && newMissing {
		return "partial-batch"
	}
	return "wrong-content"
}

// crashCheck enumerates the crash images of op prefixes (from, to] of the run (to = end of row
// index hiRow) and recovers each of them.
func (c *checker) crashCheck(r *run, loRow, hiRow int, opts func(w *row) crashfs.Options, cont func(crashfs.CrashInfo) bool) {
	if r.broken || loRow >= len(r.rows) {
		return
	}
	for ri := loRow; ri < len(r.rows) && ri < hiRow; ri++ {
		w := &r.rows[ri]
		if w.opEnd == w.opStart {
			continue
		}
		// prefixes opStart+1 .. opEnd (prefix == opStart belongs to the previous call / parent history)
		c.crashCheckRange(r, ri, w.opStart+1, w.opEnd, opts(w), cont)
	}
}

// crashCheckPrefix enumerates and recovers the crash images of one op prefix p of row ri.
func (c *checker) crashCheckPrefix(r *run, ri, p int, o crashfs.Options, cont func(crashfs.CrashInfo) bool) {
	if !r.broken {
		c.crashCheckRange(r, ri, p, p, o, cont)
	}
}

func (c *checker) crashCheckRange(r *run, ri, from, to int, o crashfs.Options, cont func(crashfs.CrashInfo) bool) {
	w := &r.rows[ri]
	ops := r.fs.Ops()
	{
		r.fs.EnumCrash(from, to, o, func(ci crashfs.CrashInfo, img *crashfs.Image) bool {
			c.images.Add(1)
			var allowed []string
			if ci.Prefix == w.opEnd {
				allowed = w.after
			} else {
				allowed = append([]string(nil), w.before...)
				for _, a := range w.alt {
					allowed = addUniq(allowed, a)
				}
			}
			doCont := cont != nil && cont(ci)
			probe := w.pruned
			if ci.Prefix == w.opEnd {
				probe = w.prunedAfter
			}
			if !c.first(img.Hash(), allowed, doCont, probe) {
				return true
			}
			c.kind(ci.Variant())
			c.recoverOne(r, w, ci, img, allowed, ops, doCont, probe)
			return !c.r.OutOfTime()
		})
	}
}

func (c *checker) recoverOne(r *run, w *row, ci crashfs.CrashInfo, img *crashfs.Image, allowed []string, ops []crashfs.Op, cont bool, probe uint64) {
	c.recoveries.Add(1)
	fs := crashfs.NewFSFromImage(img)
	root := fs.Mount()
	defer fs.Unmount()
	lastOp := "start"
	if ci.Prefix > 0 {
		lastOp = ops[ci.Prefix-1].Kind.String()
	}
	// The key names the call in flight and the injected fault only: the same image can be reached through
	// several (op, variant) contexts and is recovered once, so finer labels would not be stable.
	where := fmt.Sprintf("crash-during=%s fault=%s", w.name, r.faultName())
	if ci.Prefix == w.opEnd {
		where = fmt.Sprintf("crash-after=%s fault=%s", w.name, r.faultName())
	}
	detail := func(extra map[string]any) map[string]any {
		d := map[string]any{"crash": ci, "image_kind": ci.Variant(), "last_op": lastOp, "image_files": img.Describe(), "allowed": allowed, "call": w.name, "step": w.step}
		lo := ci.Prefix - 12
		if lo < 0 {
			lo = 0
		}
		var tail []string
		for i := lo; i < ci.Prefix; i++ {
			tail = append(tail, fmt.Sprintf("%d:%s", i, ops[i]))
		}
		d["last_ops_before_crash"] = tail
		for k, v := range extra {
			d[k] = v
		}
		return d
	}
	var st store
	var err error
	if p, msg := ev.Guard(func() { st, err = openStore(root) }); p {
		r.violate("recovery panics "+where, detail(map[string]any{"panic": msg}))
		return
	}
	if err != nil {
		c.r.Outcome("recovery-open-error")
		r.violate("recovery open error "+where, detail(map[string]any{"err": err.Error()}))
		return
	}
	defer func() { ev.Guard(func() { st.Close() }) }()
	got, lerr := load(st)
	g := join(got)
	ok := lerr == nil
	if ok {
		ok = false
		if has(allowed, g) {
			ok = true
			switch {
			case ci.Prefix == w.opEnd:
				c.r.Outcome("recovered-exactly-flushed")
			case has(w.before, g) && has(w.alt, g):
				c.r.Outcome("recovered-inflight-call-without-visible-effect")
			case has(w.before, g):
				c.r.Outcome("recovered-without-inflight-batch")
			default:
				c.r.Outcome("recovered-with-complete-inflight-batch")
			}
		}
	}
	if !ok {
		// pruned watermark that holds in every allowed alternative = the one before the call
		cls := classify(got, w.before[0], w.alt[0], w.pruned)
		c.r.Outcome("recovery-" + cls)
		r.violate("recovery "+cls+" "+where, detail(map[string]any{"recovered": got, "load_err": fmt.Sprint(lerr)}))
		return
	}
	if !cont {
		return
	}
	// second crash while (or right after) the recovery repaired the log: every whole-op crash image of the
	// recovery's own FS ops must recover to the same content
	if n := fs.NumOps(); n > 0 {
		fs.EnumCrash(1, n, crashfs.Boundaries, func(ci2 crashfs.CrashInfo, img2 *crashfs.Image) bool {
			c.recoveries2.Add(1)
			fs2 := crashfs.NewFSFromImage(img2)
			root2 := fs2.Mount()
			defer fs2.Unmount()
			var st2 store
			var err2 error
			var got2 []string
			if p, msg := ev.Guard(func() {
				st2, err2 = openStore(root2)
				if err2 == nil {
					got2, err2 = load(st2)
					st2.Close()
				}
			}); p {
				err2 = fmt.Errorf("panic: %s", msg)
			}
			if err2 != nil || join(got2) != g {
				c.r.Outcome("second-recovery-differs")
				r.violate("second crash during recovery: second recovery differs or fails "+where,
					detail(map[string]any{"first_recovery": got, "second_recovery": got2, "err": fmt.Sprint(err2), "second_crash": ci2, "recovery_ops": fmt.Sprint(fs.Ops())}))
				return false
			}
			return true
		})
	}
	// the recovered log must be usable: one more batch, clean restart. The batch also carries an entry at
	// the highest height that was durably pruned before the crash: it must never show up.
	c.conts.Add(1)
	e, d := mkEntry(99, r.hoff+4)
	want := join(append(append([]string(nil), got...), d))
	var cerr error
	stage := ""
	if p, msg := ev.Guard(func() {
		if probe > 0 {
			y, _ := mkEntry(98, probe)
			if cerr = st.SetWALEntry(y); cerr != nil {
				stage = "append"
				return
			}
		}
		if cerr = st.SetWALEntry(e); cerr != nil {
			stage = "append"
			return
		}
		if cerr = st.Flush(); cerr != nil {
			stage = "flush"
			return
		}
		if cerr = st.Close(); cerr != nil {
			stage = "close"
			return
		}
		st2, err2 := openStore(root)
		if err2 != nil {
			cerr, stage = err2, "reopen"
			return
		}
		st = st2
		got2, _ := load(st2)
		for _, x := range got2 {
			if probe > 0 && heightOf(x) <= probe {
				cerr, stage = fmt.Errorf("entry %q of pruned height (<= %d) accepted after recovery", x, probe), "pruned-height-accepted"
				return
			}
		}
		if join(got2) != want {
			cerr, stage = fmt.Errorf("content after restart %q, want %q", join(got2), want), "content"
		}
	}); p {
		cerr, stage = fmt.Errorf("panic: %s", msg), "panic"
	}
	if cerr != nil {
		c.r.Outcome("continuation-failed")
		key := "log unusable after recovery stage=" + stage + " " + where
		if stage == "pruned-height-accepted" {
			key = "prune watermark forgotten by recovery (entry of a pruned height accepted and returned) " + where
		}
		r.violate(key, detail(map[string]any{"err": cerr.Error(), "recovered": got}))
	}
}
