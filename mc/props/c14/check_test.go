package c14

import (
	"fmt"
	"os"
	"runtime"
	"strconv"
	"sync"
	"sync/atomic"
	"testing"
	"time"

	"verif/mc/crashfs"
	"verif/mc/ev"
)

func envInt(k string, d int) int {
	if v, err := strconv.Atoi(os.Getenv(k)); err == nil {
		return v
	}
	return d
}

// touchesFS: only flush and close+reopen issue FS calls; append / prune are buffered in memory.
func touchesFS(s sym) bool { return s.k == 'f' || s.k == 'r' }

// contWanted: the post-recovery continuation (append+flush+close+reopen, ~6x the cost of a recovery)
// runs on every image without a byte cut and on the cuts at the first, second, middle and last byte of
// the torn write (all fill variants).
func contWanted(ci crashfs.CrashInfo) bool {
	for _, t := range ci.Tails {
		if t.Cut >= 0 && t.Cut != 0 && t.Cut != 1 && t.Cut != t.WriteLen/2 && t.Cut != t.WriteLen-1 {
			return false
		}
	}
	return true
}

func firstHistRow(r *run) int {
	for i, w := range r.rows {
		if w.step >= 0 {
			return i
		}
	}
	return len(r.rows)
}

func lastStepRow(r *run, step int) int {
	for i, w := range r.rows {
		if w.step == step {
			return i
		}
	}
	return len(r.rows)
}

// crashPass: every history with minLen..maxLen symbols that ends in an FS-touching call; the crash
// points of the *last* symbol are enumerated (those of earlier symbols belong to the shorter history).
func (c *checker) crashPass(name string, base baseKind, maxLen int, workers int) {
	t0 := time.Now()
	rec0, img0 := c.recoveries.Load(), c.images.Load()
	total, doneLen := 0, 0
	for L := 1; L <= maxLen; L++ {
		var jobs [][]sym
		for _, h := range allHistories(L, L) {
			if touchesFS(h[len(h)-1]) {
				jobs = append(jobs, h)
			}
		}
		var skipped atomic.Int64
		ev.Par(len(jobs), workers, func(i int) {
			if c.r.OutOfTime() {
				skipped.Add(1)
				return
			}
			h := jobs[i]
			r := c.execute(h, base, -1, 0, false)
			c.histories.Add(1)
			n := int64(r.fs.NumOps())
			c.opsSeen.Add(n - int64(r.rows[firstHistRow(r)-1].opEnd))
			for {
				m := c.maxOps.Load()
				if n <= m || c.maxOps.CompareAndSwap(m, n) {
					break
				}
			}
			c.crashCheck(r, lastStepRow(r, len(h)-1), len(r.rows), func(*row) crashfs.Options { return crashfs.Full }, contWanted)
			if L == maxLen && (i == len(jobs)/2 || i == len(jobs)-1) {
				var ops []string
				for _, o := range r.fs.Ops()[r.rows[firstHistRow(r)-1].opEnd:] {
					ops = append(ops, o.String())
				}
				c.r.Sample(map[string]any{"pass": name, "history": histString(h), "fs_ops_of_history": ops, "final_model": r.ms[0].content()})
			}
		})
		total += len(jobs) - int(skipped.Load())
		if skipped.Load() > 0 || c.r.OutOfTime() {
			c.r.Incomplete(fmt.Sprintf("%s: time budget hit; histories of length <= %d complete, length %d: %d of %d histories not run (or cut short), longer ones not run; target length %d",
				name, doneLen, L, skipped.Load(), len(jobs), maxLen))
			break
		}
		doneLen = L
	}
	c.r.Set(name+"_histories", int64(total))
	c.r.Set(name+"_max_len_target", int64(maxLen))
	c.r.Set(name+"_max_len_complete", int64(doneLen))
	c.r.Set(name+"_crash_images", c.images.Load()-img0)
	c.r.Set(name+"_recoveries", c.recoveries.Load()-rec0)
	c.r.Set(name+"_seconds", time.Since(t0).Seconds())
}

// faultPass: every history (ending in an FS-touching call) x every FS call of the history failing
// once with EIO (x partial-write mode for writes); then an epilogue batch + clean restart.
func (c *checker) faultPass(name string, base baseKind, maxLen int, workers int) {
	t0 := time.Now()
	rec0, img0, fr0 := c.recoveries.Load(), c.images.Load(), c.faultRuns.Load()
	total, doneLen := 0, 0
	for L := 1; L <= maxLen; L++ {
		var jobs [][]sym
		for _, h := range allHistories(L, L) {
			if touchesFS(h[len(h)-1]) {
				jobs = append(jobs, h)
			}
		}
		var cut atomic.Bool
		ev.Par(len(jobs), workers, func(i int) {
			if c.r.OutOfTime() {
				cut.Store(true)
				return
			}
			h := jobs[i]
			ref := c.execute(h, base, -1, 0, false)
			if ref.broken {
				return
			}
			f0 := firstHistRow(ref)
			lo, hi := ref.rows[f0].callStart, ref.rows[len(ref.rows)-1].callEnd
			for k := lo; k < hi; k++ {
				modes := []crashfs.FaultMode{crashfs.FailNoEffect}
				if ref.fs.CallName(k) == "write" {
					modes = append(modes, crashfs.FailPartial)
				}
				for _, mode := range modes {
					if c.r.OutOfTime() {
						cut.Store(true)
						return
					}
					r := c.execute(h, base, k, mode, true)
					c.faultRuns.Add(1)
					if r.fs.Failed() == "" {
						// cannot happen: the run is deterministic up to the fault
						r.violate("harness: injected fault did not fire", nil)
						continue
					}
					c.faultFired.Add(1)
					c.r.Outcome("fault-in-" + r.fs.Failed())
					if r.broken {
						continue
					}
					// crash images from the faulted call onward (history rows only)
					fr := -1
					for j := range r.rows {
						if r.faultInside(&r.rows[j]) {
							fr = j
							break
						}
					}
					if fr < 0 {
						continue
					}
					end := len(r.rows)
					for j, w := range r.rows {
						if w.step == len(h) {
							end = j
							break
						}
					}
					c.crashCheck(r, fr, end, func(w *row) crashfs.Options {
						if w == &r.rows[fr] {
							return crashfs.Full
						}
						return crashfs.Options{Torn: true, MetaLag: true}
					}, nil)
				}
			}
		})
		total += len(jobs)
		if cut.Load() || c.r.OutOfTime() {
			c.r.Incomplete(fmt.Sprintf("%s: time budget hit; histories of length <= %d complete, length %d (%d histories) partial, longer ones not run; target length %d", name, doneLen, L, len(jobs), maxLen))
			break
		}
		doneLen = L
	}
	c.r.Set(name+"_histories", int64(total))
	c.r.Set(name+"_max_len_target", int64(maxLen))
	c.r.Set(name+"_max_len_complete", int64(doneLen))
	c.r.Set(name+"_fault_runs", c.faultRuns.Load()-fr0)
	c.r.Set(name+"_crash_images", c.images.Load()-img0)
	c.r.Set(name+"_recoveries", c.recoveries.Load()-rec0)
	c.r.Set(name+"_seconds", time.Since(t0).Seconds())
}

// multiFilePass: every layout base (live heights spread over up to three log files, made by reopen or by an
// in-session cleanup rotation, 255 prune records since the last cleanup) x every history with 1..maxLen
// symbols that ends in an FS-touching call. The live view is checked after every flush / reopen; the crash
// images of the last symbol (those of earlier symbols belong to the shorter history) are recovered and
// compared with the model, with the post-recovery continuation.
func (c *checker) multiFilePass(name string, heights, maxLen int, o crashfs.Options, workers int) {
	t0 := time.Now()
	rec0, img0 := c.recoveries.Load(), c.images.Load()
	layouts := allLayouts(heights)
	var hists [][]sym
	for _, h := range allHistories(1, maxLen) {
		if touchesFS(h[len(h)-1]) {
			hists = append(hists, h)
		}
	}
	var done, skipped, spanning, spanning3, removing, withLive, sharedMulti, removedLogs atomic.Int64
	var sampleMu sync.Mutex
	sampleIdx, sample := -1, map[string]any(nil)
	n := len(layouts) * len(hists)
	// histories in the outer loop: a time cap cuts the longest histories of all layouts
	ev.Par(n, workers, func(i int) {
		if c.r.OutOfTime() {
			skipped.Add(1)
			return
		}
		h, b := hists[i/len(layouts)], layouts[i%len(layouts)]
		r := c.execute(h, b, -1, 0, false)
		c.histories.Add(1)
		done.Add(1)
		if r.broken {
			return
		}
		nops := int64(r.fs.NumOps())
		c.opsSeen.Add(nops - int64(r.rows[firstHistRow(r)-1].opEnd))
		for {
			m := c.maxOps.Load()
			if nops <= m || c.maxOps.CompareAndSwap(m, nops) {
				break
			}
		}
		if r.place.maxFilesOfLiveHeight >= 2 {
			spanning.Add(1)
		}
		if r.place.maxFilesOfLiveHeight >= 3 {
			spanning3.Add(1)
		}
		if r.place.removedLogs > 0 {
			removing.Add(1)
			removedLogs.Add(int64(r.place.removedLogs))
		}
		if r.place.removedWithLive {
			withLive.Add(1)
			c.r.Outcome("cleanup-removed-log-file-while-a-height-is-live")
		}
		if r.place.removedSharedMulti {
			sharedMulti.Add(1)
			c.r.Outcome("cleanup-after-pruning-multi-file-height-that-shared-a-file-with-a-live-height")
			// written-out case: the one with the lowest job index (independent of the worker schedule)
			sampleMu.Lock()
			if sampleIdx < 0 || i < sampleIdx {
				var ops []string
				for _, o := range r.fs.Ops()[r.rows[firstHistRow(r)-1].opEnd:] {
					ops = append(ops, o.String())
				}
				sampleIdx = i
				sample = map[string]any{"pass": name, "base": b.String(), "history": histString(h), "fs_ops_of_history": ops, "final_model": r.ms[0].content()}
			}
			sampleMu.Unlock()
		}
		c.crashCheck(r, lastStepRow(r, len(h)-1), len(r.rows), func(*row) crashfs.Options { return o }, contWanted)
	})
	if sample != nil {
		c.r.Sample(sample)
	}
	if skipped.Load() > 0 || c.r.OutOfTime() {
		c.r.Incomplete(fmt.Sprintf("%s: time budget hit; %d of %d (layout, history) pairs not run (or cut short); shorter histories run first", name, skipped.Load(), n))
	}
	c.r.Set(name+"_layouts", int64(len(layouts)))
	c.r.Set(name+"_layout_heights", int64(heights))
	c.r.Set(name+"_max_len_target", int64(maxLen))
	c.r.Set(name+"_histories_per_layout", int64(len(hists)))
	c.r.Set(name+"_histories", done.Load())
	c.r.Set(name+"_histories_live_height_in_2plus_files", spanning.Load())
	c.r.Set(name+"_histories_live_height_in_3_files", spanning3.Load())
	c.r.Set(name+"_histories_removing_log_files", removing.Load())
	c.r.Set(name+"_log_files_removed", removedLogs.Load())
	c.r.Set(name+"_histories_cleanup_removes_file_while_height_live", withLive.Load())
	c.r.Set(name+"_histories_cleanup_prunes_multifile_height_sharing_file_with_live_height", sharedMulti.Load())
	c.r.Set(name+"_crash_images", c.images.Load()-img0)
	c.r.Set(name+"_recoveries", c.recoveries.Load()-rec0)
	c.r.Set(name+"_seconds", time.Since(t0).Seconds())
	// vacuity guard: the pass exists to put obsolete-file removal next to live multi-file heights
	if skipped.Load() == 0 && !c.r.OutOfTime() && c.r.Violations() == 0 && (withLive.Load() == 0 || sharedMulti.Load() == 0 || spanning.Load() == 0) {
		c.r.Infra("%s", fmt.Sprintf("%s is vacuous: histories with a live height in >=2 files %d, cleanups removing a file while a height is live %d, of those after pruning a multi-file height sharing a file with a live one %d",
			name, spanning.Load(), withLive.Load(), sharedMulti.Load()))
	}
}

// bigBatchPass: a fixed list of histories with a bulk append ('A' = 320 entries at height 1 in one batch,
// ~37 KB, so the record is fragmented over two 32 KiB blocks); all crash points of all calls, full model.
var bigBatchHistories = []string{"A f", "a1 f A f", "A f a2 f", "A f r a2 f", "A p1 f", "A f p1 f"}

func (c *checker) bigBatchPass(workers int) {
	t0 := time.Now()
	rec0, img0 := c.recoveries.Load(), c.images.Load()
	type job struct {
		r  *run
		ri int
	}
	var jobs []job
	for _, hs := range bigBatchHistories {
		r := c.execute(parseHist(hs), baseNone, -1, 0, false)
		c.histories.Add(1)
		if n := int64(r.fs.NumOps()); n > c.maxOps.Load() {
			c.maxOps.Store(n)
		}
		for ri := firstHistRow(r); ri < len(r.rows); ri++ {
			if r.rows[ri].opEnd > r.rows[ri].opStart {
				jobs = append(jobs, job{r, ri})
			}
		}
	}
	// one row's images are enumerated by one worker; split the rows further by op prefix
	type pj struct {
		r     *run
		ri, p int
	}
	var pjs []pj
	for _, j := range jobs {
		w := j.r.rows[j.ri]
		for p := w.opStart + 1; p <= w.opEnd; p++ {
			pjs = append(pjs, pj{j.r, j.ri, p})
		}
	}
	var skipped atomic.Int64
	ev.Par(len(pjs), workers, func(i int) {
		if c.r.OutOfTime() {
			skipped.Add(1)
			return
		}
		c.crashCheckPrefix(pjs[i].r, pjs[i].ri, pjs[i].p, crashfs.Full, contWanted)
	})
	if skipped.Load() > 0 || c.r.OutOfTime() {
		c.r.Incomplete(fmt.Sprintf("bigbatch: time budget hit, %d of %d crash points not enumerated (or cut short)", skipped.Load(), len(pjs)))
	}
	c.r.Set("bigbatch_histories", int64(len(bigBatchHistories)))
	c.r.Set("bigbatch_crash_points", int64(len(pjs)))
	c.r.Set("bigbatch_crash_images", c.images.Load()-img0)
	c.r.Set("bigbatch_recoveries", c.recoveries.Load()-rec0)
	c.r.Set("bigbatch_seconds", time.Since(t0).Seconds())
}

func TestCheck(t *testing.T) {
	r := ev.Start("C14", "fault_enumeration")
	r.SetBudget(ev.Pick(r, 150, 1620))
	crashfs.Install()
	c := &checker{r: r}
	workers := runtime.NumCPU()

	crashLen := envInt("C14_CRASH_LEN", ev.Pick(r, 5, 7))
	faultLen := envInt("C14_FAULT_LEN", ev.Pick(r, 4, 5))
	baseCrashLen := envInt("C14_BASE_CRASH_LEN", ev.Pick(r, 3, 5))
	baseFaultLen := envInt("C14_BASE_FAULT_LEN", ev.Pick(r, 2, 3))

	// the empty log itself: recovery of the empty directory and of the images of the first open
	{
		r0 := c.execute(nil, baseNone, -1, 0, false)
		c.crashCheck(r0, 0, len(r0.rows), func(*row) crashfs.Options { return crashfs.Full }, contWanted)
	}
	// SIZE boundaries of one flush (record counts around powers of two, byte sizes around multiples of the
	// 32 KiB log block) x whole-op crash images x tail cuts at block / write boundaries and at a stride. Runs
	// first: it is cheap and must never be the part that a time cap cuts.
	if sp := envInt("C14_SIZES_POW", ev.Pick(r, 12, 14)); sp > 0 {
		mults := []int{1, 2, 4, 8}
		if sp > 12 {
			mults = []int{1, 2, 3, 4, 5, 6, 7, 8, 9, 10, 11, 12, 13, 14, 15, 16}
		}
		c.sizePass("sizes", sp, mults, int64(envInt("C14_SIZES_STRIDE", ev.Pick(r, 4099, 2053))), int64(envInt("C14_SIZES_TAIL", ev.Pick(r, 64, 128))), workers)
	}
	if envInt("C14_ONLY_SIZES", 0) > 0 {
		crashLen, faultLen, baseCrashLen, baseFaultLen = 1, 1, 0, 0
		os.Setenv("C14_MULTIFILE_LEN", "0")
		os.Setenv("C14_FILL_KINDS", "0")
	}
	// order: the passes are independent; the largest one (crash, by increasing length) runs last so that a
	// time cap only ever cuts the longest histories
	if baseCrashLen > 0 {
		c.crashPass("base255_crash", basePrune255, baseCrashLen, workers)
	}
	if baseFaultLen > 0 {
		c.faultPass("base255_fault", basePrune255, baseFaultLen, workers)
	}
	// heights spanning several log files next to the obsolete-file removal (per-file reference counts):
	// quick = layouts of 2 heights x suffixes <= 2; thorough = layouts of 2 heights x suffixes <= 3 (superset)
	// and layouts of 3 heights x suffixes <= 2. Whole-op crash images (crashfs.Boundaries: every op prefix x
	// every unsynced-data prefix x every namespace-lag prefix); byte cuts of these steps are in base255.
	if ml := envInt("C14_MULTIFILE_LEN", ev.Pick(r, 2, 3)); ml > 0 {
		mo := crashfs.Boundaries
		if envInt("C14_MULTIFILE_FULL", 0) > 0 {
			mo = crashfs.Full
		}
		c.multiFilePass("multifile", envInt("C14_MULTIFILE_HEIGHTS", 2), ml, mo, workers)
		if ml3 := envInt("C14_MULTIFILE3_LEN", ev.Pick(r, 0, 2)); ml3 > 0 {
			c.multiFilePass("multifile3h", 3, ml3, mo, workers)
		}
	}
	// block boundary: the batches of the history are written across the first 32 KiB block boundary of the
	// log file (fragmented record / block padding), for several alignments (one per filler entry kind)
	fillKinds := envInt("C14_FILL_KINDS", ev.Pick(r, 1, 5))
	fillLen := envInt("C14_FILL_LEN", ev.Pick(r, 2, 3))
	for k := 0; k < fillKinds; k++ {
		kind := (k + 1) % 5 // quick: kind 1 (68 bytes left in the block)
		c.crashPass(fmt.Sprintf("blockfill%d_crash", kind), baseFill0+baseKind(kind), fillLen, workers)
	}
	if fl := envInt("C14_FILL_FAULT_LEN", ev.Pick(r, 0, 2)); fl > 0 {
		c.faultPass("blockfill1_fault", baseFill0+1, fl, workers)
	}
	c.faultPass("fault", baseNone, faultLen, workers)
	// off by default: a torn tail inside a large record makes pebble's reader search for a single bit flip
	// (CRC of the chunk for every bit: ~4 ms for a 4 KB chunk, ~0.3 s for a 32 KB chunk), which makes
	// byte-granular enumeration of a multi-block batch impractical; fragmentation is covered by blockfill.
	if envInt("C14_BIGBATCH", 0) > 0 {
		c.bigBatchPass(workers)
	}
	c.crashPass("crash", baseNone, crashLen, workers)

	rec := c.recoveries.Load()
	r.Set("evaluations", rec+c.faultRuns.Load()+c.histories.Load())
	r.Set("distinct_nontrivial", c.distinct())
	r.Set("rule", "history = sequence over {a1,a2,a3,f,p1,p2,p3,r}, run on the empty log, on the 255-prune base, on a block-fill base, or on every multi-file layout base (height -> subset of 3 log files, boundary kind reopen / cleanup rotation, 255 prune records), plus the sized-batch histories 'a1 f <n records> f|r' (n around powers of two and around multiples of the 32 KiB log block; tail cuts of the appended region at block / write boundaries, a stride and the last bytes); crash image = (op-log prefix, namespace-lag prefix, per-file unsynced-data prefix, byte cut, fill none/zero/0xFF); images are deduplicated by (content hash, expected contents); non-trivial = distinct (image, expectation) pairs actually recovered with the real NewTendermintWALStore")
	r.Set("states", c.distinct())
	r.Set("transitions", rec)
	r.Set("traces_validated_against_impl", c.histories.Load()+c.faultRuns.Load())
	r.Set("histories_executed", c.histories.Load())
	r.Set("crash_images_generated", c.images.Load())
	r.Set("recoveries", rec)
	r.Set("post_recovery_continuations", c.conts.Load())
	r.Set("second_crash_recoveries", c.recoveries2.Load())
	r.Set("fault_runs", c.faultRuns.Load())
	r.Set("fs_ops_in_histories", c.opsSeen.Load())
	r.Set("max_fs_ops_in_one_run", c.maxOps.Load())
	kinds := map[string]int64{}
	c.kinds.Range(func(k, v any) bool { kinds[k.(string)] = v.(interface{ Load() int64 }).Load(); return true })
	r.Set("recoveries_by_image_kind", kinds)
	r.Assume = append(r.Assume,
		"crash model = crashfs.Full: per file the data ops since its last fsync persist as an in-order prefix, the last write cut at every byte with the remainder absent / zeros / 0xFF; namespace ops since the last directory sync persist as an in-order prefix; synced bytes are never damaged; no reordering",
		"a directory fsync commits all earlier namespace operations (journal order); a file fsync is not taken as a namespace barrier",
		"faults: exactly one FS call per run fails with EIO (a failing write may have written its first half)",
		"pebble's record/LogWriter and wal.Scan run for real on top of crashfs; only the OS file layer is replaced",
	)
	r.Finish()
}
