package c08

// The oracle: expected JSON-RPC answers computed from the dictionary chain model (verif/mc/chain Entry /
// State) by a field-by-field mapping written here — it shares no code with rpc/v*/adapt*.go.
//
// Only values are compared, after canonicalisation: every string that looks like a hex quantity is
// reduced to lower-case without leading zeros, numbers are json.Number, the unordered lists of a
// state diff are sorted. A field present in a response but absent from the expected object is reported
// unless it is in the explicit tolerated list below.

import (
	"encoding/hex"
	"encoding/json"
	"fmt"
	"sort"
	"strconv"
	"strings"
	"sync"

	"verif/mc/chain"

	"github.com/NethermindEth/juno/core"
	"github.com/NethermindEth/juno/core/felt"
)

type obj = map[string]any

// JSON-RPC / Starknet error codes of the read API (starknet_api_openrpc.json, identical in 0.8/0.9/0.10).
const (
	codeContractNotFound  = 20
	codeBlockNotFound     = 24
	codeInvalidTxIndex    = 27
	codeClassHashNotFound = 28
	codeTxnHashNotFound   = 29
	codeNoBlocks          = 32
	codeInvalidParams     = -32602
)

// ---- tolerated shape differences between the served API versions -------------------------------------
//
// Fields that exist only in some spec versions; they are checked against the model where they exist and
// removed before the direct v0.8 == v0.9 == v0.10 comparison.
var versionOnlyKeys = map[string]int{
	// BLOCK_HEADER of spec 0.10 added commitments and counts
	"transaction_commitment": v10, "event_commitment": v10, "receipt_commitment": v10, "state_diff_commitment": v10,
	"event_count": v10, "transaction_count": v10, "state_diff_length": v10,
	// STATE_DIFF of spec 0.10 added the CASM-hash migration list
	"migrated_compiled_classes": v10,
	// INVOKE_TXN_V3 of spec 0.10: only with response flag INCLUDE_PROOF_FACTS (requested separately)
	"proof_facts": v10,
}

// Other tolerated differences (documented here, enforced in the code that builds the requests):
//   * block tag `l1_accepted` exists from spec 0.9 on: v0.8 must refuse it with Invalid Params (-32602);
//   * `pending` (0.8) / `pre_confirmed` (0.9+) are not part of the property and are not queried (the 0.8
//     pending block carries a wall-clock timestamp);
//   * response flags (INCLUDE_PROOF_FACTS) are a 0.10 parameter and only sent to v0.10.

func fstr(f *felt.Felt) string {
	if f == nil {
		return "<nil>"
	}
	return canonHex(f.String())
}

func num(u uint64) json.Number { return json.Number(strconv.FormatUint(u, 10)) }

func canonHex(s string) string {
	if len(s) < 3 || s[0] != '0' || (s[1] != 'x' && s[1] != 'X') {
		return s
	}
	for i := 2; i < len(s); i++ {
		c := s[i]
		if !(c >= '0' && c <= '9' || c >= 'a' && c <= 'f' || c >= 'A' && c <= 'F') {
			return s
		}
	}
	t := strings.TrimLeft(strings.ToLower(s[2:]), "0")
	if t == "" {
		t = "0"
	}
	return "0x" + t
}

// canon canonicalises a decoded JSON value in place and returns it.
func canon(v any) any {
	switch x := v.(type) {
	case string:
		return canonHex(x)
	case []any:
		for i := range x {
			x[i] = canon(x[i])
		}
		return x
	case map[string]any:
		for k, e := range x {
			x[k] = canon(e)
		}
		if sd, ok := x["state_diff"].(map[string]any); ok {
			sortStateDiff(sd)
		}
		return x
	default:
		return v
	}
}

func sortBy(list any, key string) {
	l, ok := list.([]any)
	if !ok {
		return
	}
	sort.SliceStable(l, func(i, j int) bool {
		a, _ := l[i].(map[string]any)
		b, _ := l[j].(map[string]any)
		return fmt.Sprint(a[key]) < fmt.Sprint(b[key])
	})
}

// sortStateDiff: the members of a STATE_DIFF are sets (juno fills them from Go maps), so order is not compared.
func sortStateDiff(sd map[string]any) {
	sortBy(sd["storage_diffs"], "address")
	if l, ok := sd["storage_diffs"].([]any); ok {
		for _, e := range l {
			if m, ok := e.(map[string]any); ok {
				sortBy(m["storage_entries"], "key")
			}
		}
	}
	sortBy(sd["nonces"], "contract_address")
	sortBy(sd["deployed_contracts"], "address")
	sortBy(sd["declared_classes"], "class_hash")
	sortBy(sd["replaced_classes"], "contract_address")
	sortBy(sd["migrated_compiled_classes"], "class_hash")
	if l, ok := sd["deprecated_declared_classes"].([]any); ok {
		sort.SliceStable(l, func(i, j int) bool { return fmt.Sprint(l[i]) < fmt.Sprint(l[j]) })
	}
}

// diff returns the differences between the expected and the observed value ("" = equal).
func diff(path string, want, got any, out *[]string) {
	if len(*out) > 6 {
		return
	}
	switch w := want.(type) {
	case map[string]any:
		g, ok := got.(map[string]any)
		if !ok {
			*out = append(*out, fmt.Sprintf("%s: want object, got %v", path, brief(got)))
			return
		}
		for k, wv := range w {
			gv, ok := g[k]
			if !ok {
				*out = append(*out, fmt.Sprintf("%s.%s: missing (want %v)", path, k, brief(wv)))
				continue
			}
			diff(path+"."+k, wv, gv, out)
		}
		for k, gv := range g {
			if _, ok := w[k]; !ok {
				*out = append(*out, fmt.Sprintf("%s.%s: unexpected field = %v", path, k, brief(gv)))
			}
		}
	case []any:
		g, ok := got.([]any)
		if !ok {
			*out = append(*out, fmt.Sprintf("%s: want list, got %v", path, brief(got)))
			return
		}
		if len(g) != len(w) {
			*out = append(*out, fmt.Sprintf("%s: want %d elements, got %d", path, len(w), len(g)))
			return
		}
		for i := range w {
			diff(fmt.Sprintf("%s[%d]", path, i), w[i], g[i], out)
		}
	default:
		if fmt.Sprint(want) != fmt.Sprint(got) || fmt.Sprintf("%T", want) != fmt.Sprintf("%T", got) {
			*out = append(*out, fmt.Sprintf("%s: want %v, got %v", path, brief(want), brief(got)))
		}
	}
}

func brief(v any) string {
	b, _ := json.Marshal(v)
	if len(b) > 160 {
		return string(b[:160]) + "..."
	}
	return string(b)
}

// leafField names the JSON member a difference was found in, without indices / hashes, for violation keys.
func leafField(d string) string {
	p := d
	if i := strings.Index(p, ":"); i >= 0 {
		p = p[:i]
	}
	var b strings.Builder
	skip := false
	for _, c := range p {
		switch {
		case c == '[':
			skip = true
		case c == ']':
			skip = false
		case !skip:
			b.WriteRune(c)
		}
	}
	return strings.TrimPrefix(b.String(), ".")
}

func felts(fs []felt.Felt) []any {
	out := make([]any, len(fs))
	for i := range fs {
		out[i] = fstr(&fs[i])
	}
	return out
}

func daMode(m core.DataAvailabilityMode) string {
	if m == core.DAModeL1 {
		return "L1"
	}
	return "L2"
}

func wantBounds(rb map[core.Resource]core.ResourceBounds) obj {
	one := func(r core.Resource) obj {
		b, ok := rb[r]
		if !ok {
			return obj{"max_amount": "0x0", "max_price_per_unit": "0x0"}
		}
		return obj{"max_amount": fstr(chain.F(b.MaxAmount)), "max_price_per_unit": fstr(b.MaxPricePerUnit)}
	}
	return obj{"l1_gas": one(core.ResourceL1Gas), "l2_gas": one(core.ResourceL2Gas), "l1_data_gas": one(core.ResourceL1DataGas)}
}

func setIf(o obj, k string, f *felt.Felt) {
	if f != nil {
		o[k] = fstr(f)
	}
}

// wantTx: the TXN object of the spec for a stored transaction. proofFacts = the 0.10 response flag was sent.
func wantTx(tx core.Transaction, withHash, proofFacts bool) obj {
	o := obj{}
	if withHash {
		o["transaction_hash"] = fstr(tx.Hash())
	}
	switch t := tx.(type) {
	case *core.InvokeTransaction:
		o["type"] = "INVOKE"
		o["version"] = fstr(t.Version.AsFelt())
		o["signature"] = felts(t.TransactionSignature)
		o["calldata"] = felts(t.CallData)
		setIf(o, "max_fee", t.MaxFee)
		setIf(o, "contract_address", t.ContractAddress)
		setIf(o, "sender_address", t.SenderAddress)
		setIf(o, "entry_point_selector", t.EntryPointSelector)
		if !t.Version.Is(0) {
			setIf(o, "nonce", t.Nonce)
		}
		if t.Version.Is(3) {
			o["resource_bounds"] = wantBounds(t.ResourceBounds)
			o["tip"] = fstr(chain.F(t.Tip))
			o["paymaster_data"] = felts(t.PaymasterData)
			o["account_deployment_data"] = felts(t.AccountDeploymentData)
			o["nonce_data_availability_mode"] = daMode(t.NonceDAMode)
			o["fee_data_availability_mode"] = daMode(t.FeeDAMode)
		}
		if proofFacts {
			o["proof_facts"] = felts(t.ProofFacts) // empty list when the transaction carries none
		}
	case *core.DeclareTransaction:
		o["type"] = "DECLARE"
		o["version"] = fstr(t.Version.AsFelt())
		o["signature"] = felts(t.TransactionSignature)
		o["class_hash"] = fstr(t.ClassHash)
		setIf(o, "sender_address", t.SenderAddress)
		setIf(o, "max_fee", t.MaxFee)
		setIf(o, "compiled_class_hash", t.CompiledClassHash)
		if !t.Version.Is(0) {
			setIf(o, "nonce", t.Nonce)
		}
		if t.Version.Is(3) {
			o["resource_bounds"] = wantBounds(t.ResourceBounds)
			o["tip"] = fstr(chain.F(t.Tip))
			o["paymaster_data"] = felts(t.PaymasterData)
			o["account_deployment_data"] = felts(t.AccountDeploymentData)
			o["nonce_data_availability_mode"] = daMode(t.NonceDAMode)
			o["fee_data_availability_mode"] = daMode(t.FeeDAMode)
		}
	case *core.DeployTransaction:
		o["type"] = "DEPLOY"
		o["version"] = fstr(t.Version.AsFelt())
		o["class_hash"] = fstr(t.ClassHash)
		o["contract_address_salt"] = fstr(t.ContractAddressSalt)
		o["constructor_calldata"] = felts(t.ConstructorCallData)
	case *core.DeployAccountTransaction:
		o["type"] = "DEPLOY_ACCOUNT"
		o["version"] = fstr(t.Version.AsFelt())
		o["signature"] = felts(t.TransactionSignature)
		o["class_hash"] = fstr(t.ClassHash)
		o["contract_address_salt"] = fstr(t.ContractAddressSalt)
		o["constructor_calldata"] = felts(t.ConstructorCallData)
		setIf(o, "max_fee", t.MaxFee)
		setIf(o, "nonce", t.Nonce)
		if t.Version.Is(3) {
			o["resource_bounds"] = wantBounds(t.ResourceBounds)
			o["tip"] = fstr(chain.F(t.Tip))
			o["paymaster_data"] = felts(t.PaymasterData)
			o["nonce_data_availability_mode"] = daMode(t.NonceDAMode)
			o["fee_data_availability_mode"] = daMode(t.FeeDAMode)
		}
	case *core.L1HandlerTransaction:
		o["type"] = "L1_HANDLER"
		o["version"] = fstr(t.Version.AsFelt())
		o["nonce"] = fstr(t.Nonce)
		o["contract_address"] = fstr(t.ContractAddress)
		o["entry_point_selector"] = fstr(t.EntryPointSelector)
		o["calldata"] = felts(t.CallData)
	default:
		panic("unknown tx type")
	}
	return o
}

func finality(onL1 bool) string {
	if onL1 {
		return "ACCEPTED_ON_L1"
	}
	return "ACCEPTED_ON_L2"
}

// wantReceipt: TXN_RECEIPT; withBlock adds the block linkage of TXN_RECEIPT_WITH_BLOCK_INFO.
func wantReceipt(rc *core.TransactionReceipt, tx core.Transaction, onL1 bool, withBlock *core.Header) obj {
	unit := "WEI"
	if tx.TxVersion().Is(3) {
		unit = "FRI"
	}
	o := obj{
		"transaction_hash": fstr(tx.Hash()),
		"actual_fee":       obj{"amount": fstr(rc.Fee), "unit": unit},
		"finality_status":  finality(onL1),
		"execution_status": "SUCCEEDED",
	}
	if rc.Reverted {
		o["execution_status"] = "REVERTED"
		o["revert_reason"] = rc.RevertReason
	}
	evs := make([]any, len(rc.Events))
	for i, e := range rc.Events {
		evs[i] = obj{"from_address": fstr(e.From), "keys": felts(e.Keys), "data": felts(e.Data)}
	}
	o["events"] = evs
	msgs := make([]any, len(rc.L2ToL1Message))
	for i, m := range rc.L2ToL1Message {
		msgs[i] = obj{"from_address": fstr(m.From), "to_address": canonHex("0x" + hex.EncodeToString(m.To.Bytes())), "payload": felts(m.Payload)}
	}
	o["messages_sent"] = msgs
	gas := rc.ExecutionResources.TotalGasConsumed
	o["execution_resources"] = obj{"l1_gas": num(gas.L1Gas), "l2_gas": num(gas.L2Gas), "l1_data_gas": num(gas.L1DataGas)}
	switch t := tx.(type) {
	case *core.InvokeTransaction:
		o["type"] = "INVOKE"
	case *core.DeclareTransaction:
		o["type"] = "DECLARE"
	case *core.DeployTransaction:
		o["type"] = "DEPLOY"
		o["contract_address"] = fstr(t.ContractAddress)
	case *core.DeployAccountTransaction:
		o["type"] = "DEPLOY_ACCOUNT"
		o["contract_address"] = fstr(t.ContractAddress)
	case *core.L1HandlerTransaction:
		o["type"] = "L1_HANDLER"
		o["message_hash"] = canonHex("0x" + hex.EncodeToString(t.MessageHash()))
	}
	if withBlock != nil {
		o["block_hash"] = fstr(withBlock.Hash)
		o["block_number"] = num(withBlock.Number)
	}
	return o
}

// commitments of a reference block, computed once per block hash with the protocol function in core
// (the same one chain.Build used for the hash; the RPC layer under test only reads what was stored).
var (
	commitMu   sync.Mutex
	commitMemo = map[felt.Felt]*core.BlockCommitments{}
)

func commitmentsOf(e *chain.Entry) *core.BlockCommitments {
	commitMu.Lock()
	defer commitMu.Unlock()
	if c, ok := commitMemo[*e.Block.Hash]; ok {
		return c
	}
	_, c, err := core.BlockHash(e.Block, e.SU.StateDiff, chain.Net, nil, core.TrieBackend)
	if err != nil {
		panic(err)
	}
	commitMemo[*e.Block.Hash] = c
	return c
}

const (
	blockHashes = iota
	blockTxs
	blockReceipts
)

func price(wei, fri *felt.Felt) obj { return obj{"price_in_wei": fstr(wei), "price_in_fri": fstr(fri)} }

func wantBlock(e *chain.Entry, onL1 bool, kind, version int, proofFacts bool) obj {
	h := e.Block.Header
	da := "CALLDATA"
	if h.L1DAMode == core.Blob {
		da = "BLOB"
	}
	o := obj{
		"status":            finality(onL1),
		"block_hash":        fstr(h.Hash),
		"parent_hash":       fstr(h.ParentHash),
		"block_number":      num(h.Number),
		"new_root":          fstr(h.GlobalStateRoot),
		"timestamp":         num(h.Timestamp),
		"sequencer_address": fstr(h.SequencerAddress),
		"starknet_version":  h.ProtocolVersion,
		"l1_da_mode":        da,
		"l1_gas_price":      price(h.L1GasPriceETH, h.L1GasPriceSTRK),
		"l1_data_gas_price": price(h.L1DataGasPrice.PriceInWei, h.L1DataGasPrice.PriceInFri),
		"l2_gas_price":      price(h.L2GasPrice.PriceInWei, h.L2GasPrice.PriceInFri),
	}
	if version == v10 {
		c := commitmentsOf(e)
		o["transaction_commitment"] = fstr(c.TransactionCommitment)
		o["event_commitment"] = fstr(c.EventCommitment)
		o["receipt_commitment"] = fstr(c.ReceiptCommitment)
		o["state_diff_commitment"] = fstr(c.StateDiffCommitment)
		o["state_diff_length"] = num(stateDiffLength(e.SU.StateDiff))
		o["transaction_count"] = num(uint64(len(e.Block.Transactions)))
		var nev uint64
		for _, r := range e.Block.Receipts {
			nev += uint64(len(r.Events))
		}
		o["event_count"] = num(nev)
	}
	txs := make([]any, len(e.Block.Transactions))
	for i, tx := range e.Block.Transactions {
		switch kind {
		case blockHashes:
			txs[i] = fstr(tx.Hash())
		case blockTxs:
			txs[i] = wantTx(tx, true, proofFacts)
		case blockReceipts:
			txs[i] = obj{"transaction": wantTx(tx, false, proofFacts), "receipt": wantReceipt(e.Block.Receipts[i], tx, onL1, nil)}
		}
	}
	o["transactions"] = txs
	return o
}

// stateDiffLength as defined by the protocol for the state-diff commitment (number of updated entries).
func stateDiffLength(d *core.StateDiff) uint64 {
	var n uint64
	for _, kv := range d.StorageDiffs {
		n += uint64(len(kv))
	}
	n += uint64(len(d.Nonces) + len(d.DeployedContracts) + len(d.ReplacedClasses) + len(d.DeclaredV0Classes) + len(d.DeclaredV1Classes))
	n += uint64(len(d.MigratedClasses))
	return n
}

func wantStateUpdate(e *chain.Entry, version int) obj {
	d := e.SU.StateDiff
	sd := obj{}
	var l []any
	for a, kv := range d.StorageDiffs {
		a := a
		var ents []any
		for k, v := range kv {
			k := k
			ents = append(ents, obj{"key": fstr(&k), "value": fstr(v)})
		}
		l = append(l, obj{"address": fstr(&a), "storage_entries": ents})
	}
	sd["storage_diffs"] = orEmpty(l)
	l = nil
	for a, n := range d.Nonces {
		a := a
		l = append(l, obj{"contract_address": fstr(&a), "nonce": fstr(n)})
	}
	sd["nonces"] = orEmpty(l)
	l = nil
	for a, c := range d.DeployedContracts {
		a := a
		l = append(l, obj{"address": fstr(&a), "class_hash": fstr(c)})
	}
	sd["deployed_contracts"] = orEmpty(l)
	l = nil
	for _, c := range d.DeclaredV0Classes {
		l = append(l, fstr(c))
	}
	sd["deprecated_declared_classes"] = orEmpty(l)
	l = nil
	for c, casm := range d.DeclaredV1Classes {
		c := c
		l = append(l, obj{"class_hash": fstr(&c), "compiled_class_hash": fstr(casm)})
	}
	sd["declared_classes"] = orEmpty(l)
	l = nil
	for a, c := range d.ReplacedClasses {
		a := a
		l = append(l, obj{"contract_address": fstr(&a), "class_hash": fstr(c)})
	}
	sd["replaced_classes"] = orEmpty(l)
	if version == v10 {
		l = nil
		for c, casm := range d.MigratedClasses {
			c, casm := felt.Felt(c), felt.Felt(casm)
			l = append(l, obj{"class_hash": fstr(&c), "compiled_class_hash": fstr(&casm)})
		}
		sd["migrated_compiled_classes"] = orEmpty(l)
	}
	sortStateDiff(sd)
	return obj{"block_hash": fstr(e.Block.Hash), "new_root": fstr(e.SU.NewRoot), "old_root": fstr(e.SU.OldRoot), "state_diff": sd}
}

func orEmpty(l []any) []any {
	if l == nil {
		return []any{}
	}
	return l
}

// ---- classes ------------------------------------------------------------------------------------------

type classInfo struct {
	hash felt.Felt
	def  core.ClassDefinition // nil: never declared by any alphabet block
	name string
}

func classUniverse() []classInfo {
	c0, h0 := chain.Cairo0(0)
	_, h1c := chain.Cairo0(1) // referenced by declare1/deployacc1 transactions only; never in a state diff
	s1, sh1, _, _ := chain.Sierra(1)
	s2, sh2, _, _ := chain.Sierra(2)
	return []classInfo{{h0, c0, "cairo0#0"}, {sh1, s1, "sierra#1"}, {sh2, s2, "sierra#2"}, {h1c, nil, "cairo0#1(undeclared)"}, {chain.FV(0xBADC1A55), nil, "unknown"}}
}

func wantClass(def core.ClassDefinition) obj {
	switch c := def.(type) {
	case *core.DeprecatedCairoClass:
		eps := func(l []core.DeprecatedEntryPoint) []any {
			out := make([]any, len(l))
			for i, e := range l {
				out[i] = obj{"offset": fstr(e.Offset), "selector": fstr(e.Selector)}
			}
			return out
		}
		var abi any
		if err := json.Unmarshal(c.Abi, &abi); err != nil {
			panic(err)
		}
		return obj{"program": c.Program, "abi": abi,
			"entry_points_by_type": obj{"CONSTRUCTOR": eps(c.Constructors), "EXTERNAL": eps(c.Externals), "L1_HANDLER": eps(c.L1Handlers)}}
	case *core.SierraClass:
		eps := func(l []core.SierraEntryPoint) []any {
			out := make([]any, len(l))
			for i, e := range l {
				out[i] = obj{"function_idx": num(e.Index), "selector": fstr(e.Selector)}
			}
			return out
		}
		return obj{"sierra_program": felts(c.Program), "contract_class_version": c.SemanticVersion, "abi": c.Abi,
			"entry_points_by_type": obj{"CONSTRUCTOR": eps(c.EntryPoints.Constructor), "EXTERNAL": eps(c.EntryPoints.External), "L1_HANDLER": eps(c.EntryPoints.L1Handler)}}
	}
	panic("unknown class kind")
}
