package c08

// A scripted history whose blocks carry all 12 transaction kinds / versions of chain.TxKinds (the hist
// alphabet uses six of them), with events, L2->L1 messages, reverted receipts, a CASM migration, and a
// revert followed by a different block at the same height that re-includes one of the reverted transactions.

import (
	"verif/mc/chain"
	"verif/mc/ev"

	"github.com/NethermindEth/juno/core"
	"github.com/NethermindEth/juno/core/felt"
	"github.com/NethermindEth/juno/db/memory"
)

type scripted struct {
	nc *nodeCase
	db *memory.Database
}

func evs(n int) []chain.EvSpec {
	var out []chain.EvSpec
	for i := 0; i < n; i++ {
		from := chain.AddrA
		if i%2 == 1 {
			from = chain.AddrB
		}
		out = append(out, chain.EvSpec{From: from, Keys: []felt.Felt{chain.Key1, chain.FV(uint64(i))}, Data: []felt.Felt{chain.FV(0xDA7A), chain.FV(uint64(i))}})
	}
	return out
}

func scriptedCases(r *ev.Run, newState bool) []scripted {
	c0, h0 := chain.Cairo0(0)
	s1, sh1, c1v1, c1v2 := chain.Sierra(1)

	d0 := core.EmptyStateDiff()
	d0.DeclaredV0Classes = []*felt.Felt{&h0}
	d0.DeployedContracts[chain.AddrA] = &h0
	d0.StorageDiffs[chain.Sys1] = map[felt.Felt]*felt.Felt{chain.FV(0): chain.F(0xB10C)}
	b0 := chain.BlockSpec{Version: "0.14.0", Timestamp: 500, Diff: &d0, Classes: map[felt.Felt]core.ClassDefinition{h0: c0}, Txs: []chain.TxSpec{
		{Kind: "invoke0", Salt: 1, Events: evs(1)},
		{Kind: "invoke1", Salt: 2, Events: evs(3), Msgs: 2},
		{Kind: "invoke3", Salt: 3, Reverted: true},
		{Kind: "declare0", Salt: 4, Msgs: 1},
	}}
	d1 := core.EmptyStateDiff()
	d1.DeclaredV1Classes[sh1] = &c1v1
	d1.StorageDiffs[chain.AddrA] = map[felt.Felt]*felt.Felt{chain.Slot0: chain.F(5), chain.Slot1: chain.F(6)}
	d1.Nonces[chain.AddrA] = chain.F(1)
	b1 := chain.BlockSpec{Version: "0.14.0", Timestamp: 510, Blob: true, Diff: &d1, Classes: map[felt.Felt]core.ClassDefinition{sh1: s1}, Txs: []chain.TxSpec{
		{Kind: "declare1", Salt: 5, Events: evs(2)},
		{Kind: "declare2", Salt: 6, Reverted: true, Events: evs(1)},
		{Kind: "declare3", Salt: 7},
		{Kind: "deploy0", Salt: 8, Events: evs(1), Msgs: 1},
	}}
	d2 := core.EmptyStateDiff()
	d2.DeployedContracts[chain.AddrB] = &sh1
	d2.Nonces[chain.AddrB] = chain.F(1)
	d2.StorageDiffs[chain.AddrA] = map[felt.Felt]*felt.Felt{chain.Slot0: chain.F(0)}
	d2.ReplacedClasses[chain.AddrA] = &sh1
	d2.MigratedClasses = map[felt.SierraClassHash]felt.CasmClassHash{felt.SierraClassHash(sh1): felt.CasmClassHash(c1v2)}
	b2 := chain.BlockSpec{Version: "0.14.1", Timestamp: 520, Diff: &d2, Txs: []chain.TxSpec{
		{Kind: "deployacc1", Salt: 9, Events: evs(1)},
		{Kind: "deployacc3", Salt: 10, Reverted: true},
		{Kind: "l1handler0", Salt: 11, Events: evs(2), Msgs: 1},
		{Kind: "invoke3proof", Salt: 12, Events: evs(1)},
	}}
	d2b := core.EmptyStateDiff()
	d2b.StorageDiffs[chain.Sys2] = map[felt.Felt]*felt.Felt{chain.FV(7): chain.F(1)}
	b2b := chain.BlockSpec{Version: "0.14.1", Timestamp: 521, Blob: true, Diff: &d2b, Txs: []chain.TxSpec{
		{Kind: "invoke3proof", Salt: 13},
		{Kind: "deployacc1", Salt: 9, Events: evs(1)}, // same transaction as in the reverted block, other index
		{Kind: "l1handler0", Salt: 14, Reverted: true},
	}}

	db := memory.New()
	bc := chain.NewNode(db, newState)
	var cur, reverted []*chain.Entry
	var path []string
	var out []scripted
	snap := func() {
		nc := &nodeCase{chain: append([]*chain.Entry{}, cur...), reverted: append([]*chain.Entry{}, reverted...), path: "scripted: " + join(path)}
		out = append(out, scripted{nc, db.Copy()})
	}
	store := func(name string, spec chain.BlockSpec) {
		var parent *chain.Entry
		if len(cur) > 0 {
			parent = cur[len(cur)-1]
		}
		e, err := chain.Build(parent, spec)
		if err != nil {
			r.Infra("scripted block %s invalid: %v", name, err)
		}
		if err := chain.StoreSync(bc, e.Fresh(parent)); err != nil {
			r.Infra("scripted block %s refused: %v", name, err)
		}
		cur = append(cur, e)
		path = append(path, "store:"+name)
		snap()
	}
	revert := func() {
		if err := bc.RevertHead(); err != nil {
			r.Infra("scripted revert failed: %v", err)
		}
		reverted = append(reverted, cur[len(cur)-1])
		cur = cur[:len(cur)-1]
		path = append(path, "revert")
		snap()
	}
	store("B0", b0)
	store("B1", b1)
	store("B2", b2)
	revert()
	store("B2'", b2b)
	revert()
	revert()
	return out
}

func join(p []string) string {
	s := ""
	for i, x := range p {
		if i > 0 {
			s += " ; "
		}
		s += x
	}
	return s
}
