package c08

// OPTIONAL request parameters of the read methods that restrict / reshape the answer.
//
// starknet_getStateUpdate of the 0.10 table takes an optional `contract_addresses` list: the answer is the block's
// state update with the per-contract members of the state diff (storage_diffs, nonces, deployed_contracts,
// replaced_classes) restricted to the listed contracts; the class-level members (declared / deprecated declared /
// migrated classes), the roots and the block hash are unaffected; an empty list = no filter.
//
// Enumerated: for every block identifier of every node the sweep visits, EVERY ORDERED selection of up to k distinct
// addresses of the 6-address universe (incl. addresses without any diff in the block, system contracts and an
// address that never exists), the empty list and every one-address list with the address repeated; k = 1 on the
// long-lived / uncommitted sweeps, 2 on the history nodes (thorough: 3), 3 on the "dense" nodes below.
//
// The block alphabet never changes more than one contract's storage in one block, so a filter naming several
// contracts of one block was never non-trivial: the dense chain below has blocks in which up to five contracts carry
// storage diffs of DIFFERENT sizes together with nonces, deployments and class replacements, with a revert and a
// different block stored at the same height.

import (
	"fmt"
	"strings"

	"verif/mc/chain"
	"verif/mc/ev"

	"github.com/NethermindEth/juno/core"
	"github.com/NethermindEth/juno/core/felt"
	"github.com/NethermindEth/juno/db/memory"
)

type addrFilter struct {
	json  string
	shape string
	set   map[string]bool // nil: no restriction
}

// addrFilters: every ordered selection of 1..k distinct universe addresses, [] and [a,a] for every a.
func addrFilters(k int) []addrFilter {
	out := []addrFilter{{json: `[]`, shape: "empty-list"}}
	n := len(universeAddrs)
	var rec func(sel []int)
	rec = func(sel []int) {
		if len(sel) > 0 {
			parts := make([]string, len(sel))
			set := map[string]bool{}
			for i, x := range sel {
				parts[i] = `"` + universeAddrs[x].String() + `"`
				set[fstr(&universeAddrs[x])] = true
			}
			shape := fmt.Sprintf("%d-addresses", len(sel))
			if len(sel) == 1 {
				shape = "1-address"
			}
			out = append(out, addrFilter{json: `[` + strings.Join(parts, ",") + `]`, shape: shape, set: set})
		}
		if len(sel) == k {
			return
		}
	next:
		for x := 0; x < n; x++ {
			for _, y := range sel {
				if x == y {
					continue next
				}
			}
			rec(append(sel[:len(sel):len(sel)], x))
		}
	}
	rec(nil)
	for i := range universeAddrs {
		a := `"` + universeAddrs[i].String() + `"`
		out = append(out, addrFilter{json: `[` + a + `,` + a + `]`, shape: "repeated-address", set: map[string]bool{fstr(&universeAddrs[i]): true}})
	}
	return out
}

var filterSets = map[int][]addrFilter{1: addrFilters(1), 2: addrFilters(2), 3: addrFilters(3)}

// restrictStateUpdate: the model's answer with the per-contract members restricted to set.
func restrictStateUpdate(su obj, set map[string]bool) obj {
	if set == nil {
		return su
	}
	sd := su["state_diff"].(obj)
	nd := obj{}
	for k, v := range sd {
		nd[k] = v
	}
	for member, field := range map[string]string{"storage_diffs": "address", "nonces": "contract_address",
		"deployed_contracts": "address", "replaced_classes": "contract_address"} {
		kept := []any{}
		for _, it := range sd[member].([]any) {
			if set[it.(obj)[field].(string)] {
				kept = append(kept, it)
			}
		}
		nd[member] = kept
	}
	out := obj{}
	for k, v := range su {
		out[k] = v
	}
	out["state_diff"] = nd
	return out
}

func (c *check) filterDepth() int {
	if c.nc.filterMax > 0 {
		return c.nc.filterMax
	}
	return 1
}

// filterQueries: starknet_getStateUpdate with every address filter, on the 0.10 table (the only one that has it).
func (c *check) filterQueries(id blockID) {
	const method = "starknet_getStateUpdate+contract_addresses"
	var full obj
	notFound := 0
	if id.ent == nil {
		notFound = codeBlockNotFound
	} else {
		full = wantStateUpdate(id.ent, v10)
	}
	for _, f := range filterSets[c.filterDepth()] {
		params := `{"block_id":` + id.json + `,"contract_addresses":` + f.json + `}`
		rp, ok := c.do(v10, "starknet_getStateUpdate", params, id.kind)
		if !ok {
			continue
		}
		var want any
		nontrivial := 0
		if full != nil {
			w := restrictStateUpdate(full, f.set)
			want = w
			nontrivial = len(w["state_diff"].(obj)["storage_diffs"].([]any))
		}
		c.expect(v10, method, params, id.kind+",filter="+f.shape, rp, notFound, want)
		c.filterReqs++
		if nontrivial >= 2 {
			c.filterMulti++
		}
	}
}

// ---- dense chain ----------------------------------------------------------------------------------------

func denseCases(r *ev.Run, newState bool) []scripted {
	c0, h0 := chain.Cairo0(0)
	s1, sh1, c1v1, c1v2 := chain.Sierra(1)
	s2, sh2, c2v1, _ := chain.Sierra(2)
	kv := func(p ...uint64) map[felt.Felt]*felt.Felt {
		m := map[felt.Felt]*felt.Felt{}
		for i := 0; i+1 < len(p); i += 2 {
			m[chain.FV(p[i])] = chain.F(p[i+1])
		}
		return m
	}
	txs := func(salt uint64) []chain.TxSpec {
		return []chain.TxSpec{{Kind: "invoke3", Salt: salt, Events: evs(1)}, {Kind: "invoke1", Salt: salt + 1}}
	}

	d0 := core.EmptyStateDiff()
	d0.DeclaredV0Classes = []*felt.Felt{&h0}
	d0.DeclaredV1Classes[sh1] = &c1v1
	d0.DeployedContracts[chain.AddrA] = &h0
	d0.DeployedContracts[chain.AddrB] = &sh1
	d0.StorageDiffs[chain.AddrA] = kv(0, 1, 1, 2, 2, 3)
	d0.StorageDiffs[chain.AddrB] = kv(7, 0x70)
	d0.StorageDiffs[chain.Sys1] = kv(0, 0xB10C)
	d0.Nonces[chain.AddrA] = chain.F(1)
	d0.Nonces[chain.AddrB] = chain.F(1)
	b0 := chain.BlockSpec{Version: "0.14.0", Timestamp: 700, Diff: &d0, Classes: map[felt.Felt]core.ClassDefinition{h0: c0, sh1: s1}, Txs: txs(100)}

	d1 := core.EmptyStateDiff()
	d1.DeclaredV1Classes[sh2] = &c2v1
	d1.DeployedContracts[chain.AddrC] = &sh2
	d1.ReplacedClasses[chain.AddrA] = &sh1
	d1.StorageDiffs[chain.AddrA] = kv(0, 0)
	d1.StorageDiffs[chain.AddrB] = kv(0, 0x20, 1, 0x21, 2, 0x22, 3, 0x23)
	d1.StorageDiffs[chain.AddrC] = kv(0, 0x30, 1, 0x31)
	d1.StorageDiffs[chain.Sys1] = kv(1, 0xB10D, 0, 0)
	d1.StorageDiffs[chain.Sys2] = kv(7, 1, 3, 2, 2, 9)
	d1.Nonces[chain.AddrA] = chain.F(2)
	d1.Nonces[chain.AddrC] = chain.F(1)
	b1 := chain.BlockSpec{Version: "0.14.0", Timestamp: 710, Blob: true, Diff: &d1, Classes: map[felt.Felt]core.ClassDefinition{sh2: s2}, Txs: txs(110)}

	d2 := core.EmptyStateDiff()
	d2.ReplacedClasses[chain.AddrA] = &sh2
	d2.ReplacedClasses[chain.AddrC] = &sh1
	d2.StorageDiffs[chain.AddrA] = kv(1, 0x41, 2, 0x42, 3, 0x43, 7, 0x47, 0x999, 0x49)
	d2.StorageDiffs[chain.AddrB] = kv(0, 0x50, 7, 0)
	d2.StorageDiffs[chain.AddrC] = kv(3, 0x63)
	d2.StorageDiffs[chain.Sys2] = kv(7, 0)
	d2.Nonces[chain.AddrB] = chain.F(2)
	d2.Nonces[chain.AddrC] = chain.F(2)
	d2.MigratedClasses = map[felt.SierraClassHash]felt.CasmClassHash{felt.SierraClassHash(sh1): felt.CasmClassHash(c1v2)}
	b2 := chain.BlockSpec{Version: "0.14.1", Timestamp: 720, Diff: &d2, Txs: txs(120)}

	d2b := core.EmptyStateDiff()
	d2b.StorageDiffs[chain.AddrC] = kv(0, 0x70, 1, 0x71, 2, 0x72)
	d2b.StorageDiffs[chain.AddrA] = kv(0, 0x80)
	d2b.Nonces[chain.AddrA] = chain.F(3)
	d2b.ReplacedClasses[chain.AddrB] = &h0
	b2b := chain.BlockSpec{Version: "0.14.1", Timestamp: 721, Blob: true, Diff: &d2b, Txs: txs(130)}

	db := memory.New()
	bc := chain.NewNode(db, newState)
	var cur, reverted []*chain.Entry
	var path []string
	var out []scripted
	snap := func() {
		nc := &nodeCase{chain: append([]*chain.Entry{}, cur...), reverted: append([]*chain.Entry{}, reverted...), path: "dense: " + join(path), filterMax: 3}
		out = append(out, scripted{nc, db.Copy()})
	}
	store := func(name string, spec chain.BlockSpec) {
		var parent *chain.Entry
		if len(cur) > 0 {
			parent = cur[len(cur)-1]
		}
		e, err := chain.Build(parent, spec)
		if err != nil {
			r.Infra("dense block %s invalid: %v", name, err)
		}
		if err := chain.StoreSync(bc, e.Fresh(parent)); err != nil {
			r.Infra("dense block %s refused: %v", name, err)
		}
		cur = append(cur, e)
		path = append(path, "store:"+name)
		snap()
	}
	revert := func() {
		if err := bc.RevertHead(); err != nil {
			r.Infra("dense revert failed: %v", err)
		}
		reverted = append(reverted, cur[len(cur)-1])
		cur = cur[:len(cur)-1]
		path = append(path, "revert")
		snap()
	}
	store("D0", b0)
	store("D1", b1)
	store("D2", b2)
	revert()
	store("D2'", b2b)
	return out
}
