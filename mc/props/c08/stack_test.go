package c08

// The stack under test, assembled the way node.New does it (node itself cannot be imported: jemalloc):
//
//	jsonrpc.Server.HandleReader  <- rpc.Handler.MethodsV0_8 / V0_9 / V0_10 (+ the per-version validator)
//	  <- real blockchain.Blockchain on db/memory <- state (legacy | new) <- trie
//
// VM = nil (never reached by read methods), sync.Reader = sync.NoopSynchronizer (no pre_confirmed data).

import (
	"bytes"
	"context"
	"encoding/json"
	"fmt"
	"strings"

	"github.com/NethermindEth/juno/blockchain"
	"github.com/NethermindEth/juno/jsonrpc"
	"github.com/NethermindEth/juno/rpc"
	rpcv10 "github.com/NethermindEth/juno/rpc/v10"
	rpcv8 "github.com/NethermindEth/juno/rpc/v8"
	rpcv9 "github.com/NethermindEth/juno/rpc/v9"
	junosync "github.com/NethermindEth/juno/sync"
	"github.com/NethermindEth/juno/utils/log"

	"verif/mc/chain"
)

const (
	v8 = iota
	v9
	v10
	nVersions
)

var versionName = [nVersions]string{"v0_8", "v0_9", "v0_10"}

type stack struct {
	bc      *blockchain.Blockchain
	servers [nVersions]*jsonrpc.Server
}

func newStack(bc *blockchain.Blockchain) (*stack, error) {
	logger := log.NewNopZapLogger()
	h := rpc.New(bc, new(junosync.NoopSynchronizer), nil, "verif", logger, chain.Net)
	s := &stack{bc: bc}
	type table struct {
		methods   func() ([]jsonrpc.Method, string)
		validator jsonrpc.Validator
		path      string
	}
	for v, t := range [nVersions]table{
		{h.MethodsV0_8, rpcv8.Validator(), "/v0_8"},
		{h.MethodsV0_9, rpcv9.Validator(), "/v0_9"},
		{h.MethodsV0_10, rpcv10.Validator(), "/v0_10"},
	} {
		methods, path := t.methods()
		if path != t.path {
			return nil, fmt.Errorf("method table %d is mounted at %q, expected %q", v, path, t.path)
		}
		srv := jsonrpc.NewServer(4, logger).WithValidator(t.validator)
		if err := srv.RegisterMethods(methods...); err != nil {
			return nil, err
		}
		s.servers[v] = srv
	}
	return s, nil
}

// reply is a decoded JSON-RPC response: exactly one of Result / Err is set.
type reply struct {
	Result any // decoded with UseNumber
	Code   int // error code, 0 if none
	ErrMsg string
}

func (r *reply) isErr() bool { return r.Result == nil && r.Code != 0 }

// call issues one request through HandleReader. params is a JSON object given as ordered key/value text.
func (s *stack) call(v int, method, params string) (*reply, error) {
	req := `{"jsonrpc":"2.0","id":1,"method":"` + method + `"`
	if params != "" {
		req += `,"params":` + params
	}
	req += `}`
	out, _, err := s.servers[v].HandleReader(context.Background(), strings.NewReader(req))
	if err != nil {
		return nil, fmt.Errorf("HandleReader: %w", err)
	}
	var env struct {
		Jsonrpc string      `json:"jsonrpc"`
		ID      json.Number `json:"id"`
		Result  any         `json:"result"`
		Error   *struct {
			Code    int    `json:"code"`
			Message string `json:"message"`
		} `json:"error"`
	}
	dec := json.NewDecoder(bytes.NewReader(out))
	dec.UseNumber()
	if err := dec.Decode(&env); err != nil {
		return nil, fmt.Errorf("response is not JSON: %v: %s", err, out)
	}
	if env.Jsonrpc != "2.0" || env.ID != "1" {
		return nil, fmt.Errorf("bad envelope: %s", out)
	}
	rp := &reply{}
	switch {
	case env.Error != nil && env.Result == nil:
		rp.Code, rp.ErrMsg = env.Error.Code, env.Error.Message
		if rp.Code == 0 {
			return nil, fmt.Errorf("error with code 0: %s", out)
		}
	case env.Error == nil && env.Result != nil:
		rp.Result = env.Result
	default: // also a null result: no read method of the property has a null answer
		return nil, fmt.Errorf("response has neither/both result and error: %s", out)
	}
	return rp, nil
}
