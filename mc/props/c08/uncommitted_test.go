package c08

// Uncommitted state transitions as members of the history alphabet of the long-lived node.
//
// A node computes the state transition of a block in four situations in which it then does NOT commit it:
//
//	store(new_root mismatch)        Store of a block whose state_update.new_root (= header root, block hash recomputed over
//	                                it, so SanityCheckNewHeight accepts it) is not what its diff yields: refused after Update ran
//	store(commit fails)             Store of a valid block whose single durable commit returns an error (verif/mc/faultdb)
//	simulate                        Blockchain.Simulate (what the block builder does with every proposal)
//	finalise(signer fails)          Blockchain.Finalise whose signer fails after the state update ran
//
// None of them changes the chain the node holds, so after any of them - and after every later operation - every read
// method must still answer from that chain: in particular neither the hash, the transactions, the classes, the contracts
// nor the storage values of the uncommitted block may be served.
//
// Enumeration (exhaustive): every history of at most N real operations {store(block of the alphabet), revertHead} with
// exactly ONE uncommitted operation inserted at every position 0..len, for every block of the alphabet that is valid at
// that position and each of the four ways, replayed on ONE long-lived Blockchain + RPC stack; the whole read sweep
// (checkLongLived's: all methods x all ids x 3 versions, L1 head none) runs after the uncommitted operation and after every
// later operation. N = 1 (quick) / 2 (thorough). Only the maximal histories are replayed (every shorter one is a prefix
// of one of them and its sweeps are part of that replay).
//
// Attribution: the sweep's oracle is the dictionary model, exactly as everywhere else in this check. A deviation that
// the SAME history WITHOUT the uncommitted operation shows at the same point (on a twin long-lived node; memoised per
// real-operation history) is reported under its plain key - it is not caused by the operation (that is how the known
// findings of this property keep their keys). A deviation only the history with the operation shows gets the key suffix
// " [after uncommitted <way>]".

import (
	"errors"
	"fmt"
	"strings"
	"sync"

	"verif/mc/chain"
	"verif/mc/ev"
	"verif/mc/faultdb"
	"verif/mc/hist"

	"github.com/NethermindEth/juno/blockchain"
	"github.com/NethermindEth/juno/core"
	"github.com/NethermindEth/juno/core/felt"
	"github.com/NethermindEth/juno/db/memory"
)

const (
	wayReal = iota // a real (committing) operation
	wayRootMismatch
	wayCommitFails
	waySimulate
	wayFinaliseSigner
)

var wayName = map[int]string{
	wayRootMismatch:   "store(new_root mismatch)",
	wayCommitFails:    "store(commit fails)",
	waySimulate:       "simulate",
	wayFinaliseSigner: "finalise(signer fails)",
}

var uncommittedWays = []int{wayRootMismatch, wayCommitFails, waySimulate, wayFinaliseSigner}

var errSigner = errors.New("scripted signer failure")

// ucStep is one operation of a history: way == wayReal: store e (revert if e == nil); otherwise the uncommitted operation.
type ucStep struct {
	e    *chain.Entry
	way  int
	name string
}

func (s ucStep) label() string {
	switch {
	case s.way != wayReal:
		return "uncommitted " + wayName[s.way] + ":" + s.name
	case s.e == nil:
		return "revert"
	}
	return "store:" + s.name
}

// ucHistories enumerates the maximal histories: exactly maxReal real operations and one uncommitted operation.
func ucHistories(r *ev.Run, cfg vcfg, maxReal int) [][]ucStep {
	var out [][]ucStep
	var rec func(ch []*chain.Entry, steps []ucStep, real int, used bool)
	rec = func(ch []*chain.Entry, steps []ucStep, real int, used bool) {
		if real == maxReal && used {
			out = append(out, append([]ucStep{}, steps...))
			return
		}
		var head *chain.Entry
		var st *chain.State
		var number uint64
		if len(ch) > 0 {
			head = ch[len(ch)-1]
			st, number = head.State, head.Block.Number+1
		}
		alpha := chain.Alphabet(st, number, cfg.at(number))
		build := func(nm chain.Named) *chain.Entry {
			e, err := chain.Build(head, nm.Spec)
			if err != nil {
				r.Infra("alphabet produced an invalid block %s: %v", nm.Name, err)
			}
			return e
		}
		if !used {
			for _, nm := range alpha {
				e := build(nm)
				for _, w := range uncommittedWays {
					rec(ch, append(steps[:len(steps):len(steps)], ucStep{e, w, nm.Name}), real, true)
				}
			}
		}
		if real < maxReal {
			for _, nm := range alpha {
				e := build(nm)
				rec(append(ch[:len(ch):len(ch)], e), append(steps[:len(steps):len(steps)], ucStep{e, wayReal, nm.Name}), real+1, used)
			}
			if len(ch) > 0 {
				rec(ch[:len(ch)-1], append(steps[:len(steps):len(steps)], ucStep{nil, wayReal, ""}), real+1, used)
			}
		}
	}
	rec(nil, nil, 0, false)
	return out
}

// ucNode is one long-lived node with the model of the chain it holds.
type ucNode struct {
	fdb                  *faultdb.DB
	bc                   *blockchain.Blockchain
	s                    *stack
	newState             bool
	ch, rev, uncommitted []*chain.Entry
}

func newUcNode(r *ev.Run, newState bool) *ucNode {
	fdb := faultdb.Wrap(memory.New())
	bc := chain.NewNode(fdb, newState)
	s, err := newStack(bc)
	if err != nil {
		r.Infra("cannot assemble the RPC stack: %v", err)
	}
	return &ucNode{fdb: fdb, bc: bc, s: s, newState: newState}
}

func (n *ucNode) head() *chain.Entry {
	if len(n.ch) == 0 {
		return nil
	}
	return n.ch[len(n.ch)-1]
}

// real applies a committing operation; false = juno refused it (owned by C01 / C02 / C04).
func (n *ucNode) real(st ucStep) bool {
	if st.e == nil {
		if err := n.bc.RevertHead(); err != nil {
			return false
		}
		n.rev = append(n.rev, n.head())
		n.ch = n.ch[:len(n.ch)-1]
		return true
	}
	if err := chain.StoreSync(n.bc, st.e.Fresh(n.head())); err != nil {
		return false
	}
	n.ch = append(n.ch, st.e)
	kept := n.rev[:0:0]
	for _, x := range n.rev {
		if !x.Block.Hash.Equal(st.e.Block.Hash) {
			kept = append(kept, x)
		}
	}
	n.rev = kept
	return true
}

// withWrongRoot returns the block with a state root its diff does not yield; the block hash is recomputed over the wrong
// root, so the block is self-consistent (what a faulty feeder / peer would serve) and only Update can tell.
func withWrongRoot(f *chain.Entry) error {
	wrong := new(felt.Felt).Add(f.Block.GlobalStateRoot, chain.F(1))
	f.Block.GlobalStateRoot, f.SU.NewRoot = wrong, wrong
	h, _, err := core.BlockHash(f.Block, f.SU.StateDiff, chain.Net, nil, core.TrieBackend)
	if err != nil {
		return err
	}
	f.Block.Hash, f.SU.BlockHash = &h, &h
	return nil
}

// uncommitted performs the operation; outcome != "" : it did not behave as an uncommitted transition (the history ends;
// which property that concerns is noted in the outcome label).
func (n *ucNode) uncommittedOp(r *ev.Run, st ucStep) (outcome string) {
	f := st.e.Fresh(n.head())
	var err error
	reachedCommit := true
	before := faultdb.Hash(n.fdb.Inner())
	pan, msg := ev.Guard(func() {
		switch st.way {
		case wayRootMismatch:
			if e := withWrongRoot(f); e != nil {
				r.Infra("cannot rehash the block with the wrong root: %v", e)
			}
			err = chain.StoreSync(n.bc, f)
		case wayCommitFails:
			c0 := n.fdb.Commits()
			n.fdb.FailAt(c0+1, nil)
			err = chain.StoreSync(n.bc, f)
			reachedCommit = n.fdb.Commits() > c0
		case waySimulate:
			f.Block.Signatures = nil
			_, err = n.bc.Simulate(f.Block, f.SU, f.Classes, nil)
		case wayFinaliseSigner:
			f.Block.Signatures = nil
			err = n.bc.Finalise(f.Block, f.SU, f.Classes, func(_, _ *felt.Felt) ([]*felt.Felt, error) { return nil, errSigner })
		}
	})
	switch {
	case pan:
		return "operation panics (" + msg + ")"
	case !reachedCommit:
		return fmt.Sprintf("store of a valid block ends before its commit, err=%v (owned by C01)", err) // the armed fault stays: the history ends
	case st.way == waySimulate && err != nil:
		return "simulate of a valid block fails"
	case st.way != waySimulate && err == nil:
		return "operation reports success (owned by C01/C05)"
	case faultdb.Hash(n.fdb.Inner()) != before:
		return "durable image changed (owned by C03/C05)"
	}
	// neither the reference block nor the variant juno was handed is part of the chain
	n.uncommitted = append(n.uncommitted, st.e)
	if f.Block.Hash != nil && !f.Block.Hash.Equal(st.e.Block.Hash) {
		n.uncommitted = append(n.uncommitted, f)
	}
	return ""
}

// ucOutcomes: how the uncommitted operations behaved (evidence: coverage.uncommitted_operation_outcomes)
var ucOutcomes = tally{outcomes: map[string]int64{}}

type ucViolation struct {
	key    string
	detail any
}

// sweep runs the whole read grid (L1 head none) on the node and returns the deviations from the model.
func (n *ucNode) sweep(r *ev.Run, label, backend, path, exotic string, local map[string]int64) (vs []ucViolation, reqs int64) {
	nc := &nodeCase{chain: append([]*chain.Entry{}, n.ch...), reverted: append([]*chain.Entry{}, n.rev...),
		uncommitted: append([]*chain.Entry{}, n.uncommitted...), path: path, exotic: exotic}
	c := &check{r: r, label: label, backend: backend, nc: nc, s: n.s, local: local, l1: -1, full: true}
	c.sink = func(key string, detail any) { vs = append(vs, ucViolation{key, detail}) }
	if panicked, msg := ev.Guard(c.run); panicked {
		vs = append(vs, ucViolation{"panic-while-serving-read-requests" + backend, obj{"config": label, "history": path, "panic": msg}})
	}
	return vs, c.reqs
}

func ucExotic(steps []ucStep) string {
	var p []string
	for _, s := range steps {
		if s.way == wayReal {
			p = append(p, s.label())
		}
	}
	return (&hist.Node{Path: p}).Exotic()
}

// ---- the twin: the same history without the uncommitted operation ------------------------------------------------

type twinResult struct {
	once sync.Once
	keys []map[string]bool // per sweep point
}

var (
	twinMu   sync.Mutex
	twinMemo = map[string]*twinResult{}
)

// twinKeys: the plain violation keys the history WITHOUT its uncommitted operation shows at the sweep points of the
// history with it (point 0 = where the operation would have been, then after every later operation).
func twinKeys(r *ev.Run, label, backend string, newState bool, steps []ucStep, at int) []map[string]bool {
	var realPath []string
	for i, s := range steps {
		if i == at {
			realPath = append(realPath, "|")
			continue
		}
		realPath = append(realPath, s.label())
	}
	mk := label + "\x00" + strings.Join(realPath, " ; ")
	twinMu.Lock()
	tr := twinMemo[mk]
	if tr == nil {
		tr = &twinResult{}
		twinMemo[mk] = tr
	}
	twinMu.Unlock()
	tr.once.Do(func() {
		n := newUcNode(r, newState)
		local := map[string]int64{}
		path := strings.Join(realPath, " ; ") + " [twin: the history without the uncommitted operation]"
		var reqs int64
		for i, s := range steps {
			if i < at {
				if !n.real(s) {
					return
				}
				continue
			}
			if i > at && !n.real(s) {
				return
			}
			vs, q := n.sweep(r, label, backend, path, ucExotic(steps), local)
			reqs += q
			set := map[string]bool{}
			for _, v := range vs {
				set[v.key] = true
			}
			tr.keys = append(tr.keys, set)
		}
		r.Add("uncommitted_twin_requests", reqs)
		r.Add("uncommitted_twin_histories", 1)
	})
	return tr.keys
}

// runUncommitted replays one history and reports.
func runUncommitted(r *ev.Run, label, backend string, newState bool, steps []ucStep) {
	n := newUcNode(r, newState)
	local := map[string]int64{}
	var path []string
	at := -1
	var way string
	type point struct {
		vs   []ucViolation
		path string
	}
	var points []point
	var reqs int64
	exotic := ucExotic(steps)
	for i, s := range steps {
		path = append(path, s.label())
		if s.way == wayReal {
			if !n.real(s) {
				ucOutcomes.merge(map[string]int64{"a real operation of the history is refused (owned by C01/C04)": 1})
				break
			}
		} else {
			at, way = i, wayName[s.way]
			if o := n.uncommittedOp(r, s); o != "" {
				ucOutcomes.merge(map[string]int64{way + ": " + o: 1})
				r.Sample(obj{"uncommitted_operation_not_as_expected": o, "config": label, "history": strings.Join(path, " ; ")})
				if strings.HasPrefix(o, "operation panics") {
					r.Violate("uncommitted-operation-panics "+way+backend, obj{"config": label, "history": strings.Join(path, " ; "), "panic": o})
				}
				at = -1
				break
			}
			ucOutcomes.merge(map[string]int64{way + ": chain and durable image unchanged": 1})
			r.Add("uncommitted_operations", 1)
		}
		if at < 0 {
			continue
		}
		p := strings.Join(path, " ; ") + " [one long-lived node, reads after the uncommitted operation and after every later one]"
		vs, q := n.sweep(r, label+" uncommitted", backend, p, exotic, local)
		reqs += q
		points = append(points, point{vs, p})
		r.Add("uncommitted_sweeps", 1)
	}
	r.Add("evaluations", reqs)
	r.Add("uncommitted_requests", reqs)
	r.Add("uncommitted_histories", 1)
	tal.merge(local)
	deviates := false
	for _, p := range points {
		deviates = deviates || len(p.vs) > 0
	}
	if !deviates {
		return
	}
	twin := twinKeys(r, label+" uncommitted", backend, newState, steps, at)
	for i, p := range points {
		for _, v := range p.vs {
			if i < len(twin) && twin[i][v.key] {
				r.Violate(v.key, v.detail) // the history without the operation shows it too
				continue
			}
			r.Violate(fmt.Sprintf("%s [after uncommitted %s]", v.key, way), v.detail)
		}
	}
}

// checkUncommitted runs the enumeration for one protocol-version configuration on both backends.
func checkUncommitted(r *ev.Run, cfg vcfg, maxReal int, cuttable bool) string {
	hs := ucHistories(r, cfg, maxReal)
	for _, newState := range []bool{false, true} {
		backend := hist.Backend(newState)
		label := cfg.name + backend
		ev.Par(len(hs), 16, func(i int) {
			if cuttable && r.OutOfTime() {
				r.Incomplete(fmt.Sprintf("%s: uncommitted-operation histories cut", label))
				return
			}
			runUncommitted(r, label, backend, newState, hs[i])
		})
	}
	return fmt.Sprintf("%s: %d histories of %d real ops + 1 uncommitted op", cfg.name, len(hs), maxReal)
}
