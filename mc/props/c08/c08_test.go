package c08

// C08 — JSON-RPC read methods answer from the chain the node actually holds.
//
// Enumeration (exhaustive within the stated bounds, nothing sampled):
//   histories   every history of {store(block of the mc/chain alphabet), revertHead} up to depth d on the real
//               Blockchain (verif/mc/hist, fresh Blockchain per op); EVERY transition's target is checked (not
//               only the distinct KV images) because the set of reverted block / transaction hashes belongs to
//               the history, not to the image; plus a scripted chain whose blocks carry all 12 tx kinds;
//   L1 head     none, every block number 0..head, head+1 (L1 ahead of the local chain), written with
//               Blockchain.SetL1Head on a private copy of the image;
//   block ids   every number 0..head+1, every stored hash, every reverted hash, one unknown hash, `latest`,
//               `l1_accepted` (v0.9/v0.10; v0.8 must refuse the tag);
//   requests    all 16 read methods of the property x every block id x every (block, index 0..n) x every
//               transaction hash (stored, reverted, unknown) x every (contract, slot) / contract / class of the
//               universe, through jsonrpc.Server.HandleReader with the real method tables of rpc.Handler,
//               for v0.8, v0.9, v0.10 and both state backends.
//   uncommitted every history of N real operations with ONE uncommitted state transition (Store refused for a new_root
//               mismatch, Store whose commit fails, Simulate, Finalise with a failing signer) of every alphabet block at
//               every position, on one long-lived node with the read sweep after it and after every later operation
//               (uncommitted_test.go); the block ids / transaction hashes of the uncommitted block are part of the sweep.
// Oracle: model_test.go (dictionary chain) + direct equality of the three versions' answers after removing the
// listed version-only fields.

import (
	"fmt"
	"sort"
	"strings"
	"sync"
	"testing"

	"verif/mc/chain"
	"verif/mc/ev"
	"verif/mc/hist"

	"github.com/NethermindEth/juno/core"
	"github.com/NethermindEth/juno/core/felt"
	"github.com/NethermindEth/juno/db/memory"
)

type vcfg struct {
	name string
	at   func(uint64) string
}

var (
	cfgOld   = vcfg{"0.13.2", func(uint64) string { return "0.13.2" }}
	cfgMixed = vcfg{"0.14.0->0.14.1@2", func(n uint64) string {
		if n < 2 {
			return "0.14.0"
		}
		return "0.14.1"
	}}
)

var (
	universeAddrs = []felt.Felt{chain.AddrA, chain.AddrB, chain.AddrC, chain.Sys1, chain.Sys2, chain.FV(0xDEAD)}
	universeSlots = []felt.Felt{chain.Slot0, chain.Slot1, chain.FV(7), chain.FV(0), chain.FV(1), chain.FV(2), chain.FV(3), chain.FV(0x999)}
	classes       = classUniverse()
)

// ---- global tallies -------------------------------------------------------------------------------------

type tally struct {
	mu       sync.Mutex
	outcomes map[string]int64
}

var tal = tally{outcomes: map[string]int64{}}

func (t *tally) merge(m map[string]int64) {
	t.mu.Lock()
	for k, v := range m {
		t.outcomes[k] += v
	}
	t.mu.Unlock()
}

// ---- one (history node, backend) -------------------------------------------------------------------------

type nodeCase struct {
	chain    []*chain.Entry
	reverted []*chain.Entry
	// uncommitted: blocks whose state transition the node computed without committing it (uncommitted_test.go): neither
	// their hashes nor their transactions belong to the chain held
	uncommitted []*chain.Entry
	path        string
	exotic      string
	// filterMax: largest address selection of the starknet_getStateUpdate filter enumeration (optparams_test.go); 0 = 1
	filterMax int
}

type blockID struct {
	json       string
	kind       string
	ent        *chain.Entry // nil: the chain holds no such block
	minVersion int
}

type check struct {
	r       *ev.Run
	label   string // protocol-version config + backend
	backend string
	nc      *nodeCase
	s       *stack
	l1      int // -1: no L1 head recorded
	local   map[string]int64
	reqs    int64
	// filterReqs / filterMulti: filtered state-update requests / those whose expected answer keeps >= 2 contracts' storage
	filterReqs, filterMulti int64
	full                    bool // issue the L1-independent requests too
	// sink, if set, receives the violations instead of the run (uncommitted_test.go attributes them first)
	sink func(key string, detail any)
}

func (c *check) violate(key string, detail any) {
	if c.sink != nil {
		c.sink(key, detail)
		return
	}
	c.r.Violate(key, detail)
}

func (c *check) onL1(num uint64) bool { return c.l1 >= 0 && num <= uint64(c.l1) }

func (c *check) detail(v int, method, params string, extra obj) obj {
	d := obj{"config": c.label, "history": c.nc.path, "l1_head": c.l1, "api": versionName[v], "method": method, "params": params}
	for k, x := range extra {
		d[k] = x
	}
	return d
}

func (c *check) key(class, method, idKind string, v int) string {
	return fmt.Sprintf("%s %s id=%s %s%s%s", class, method, idKind, versionName[v], c.backend, c.nc.exotic)
}

// do issues the request on version v. ok=false: transport-level problem already reported.
func (c *check) do(v int, method, params, idKind string) (*reply, bool) {
	c.reqs++
	rp, err := c.s.call(v, method, params)
	if err != nil {
		c.violate(c.key("malformed-response", method, idKind, v), c.detail(v, method, params, obj{"err": err.Error()}))
		return nil, false
	}
	if rp.Result != nil {
		rp.Result = canon(rp.Result)
	}
	return rp, true
}

func (c *check) tallyOutcome(method, idKind string, rp *reply) {
	o := "ok"
	if rp.isErr() {
		o = fmt.Sprintf("error %d", rp.Code)
	}
	c.local[method+" id="+idKind+" -> "+o]++
}

// expect compares one reply with the model: wantCode != 0 means that error, otherwise the value want.
func (c *check) expect(v int, method, params, idKind string, rp *reply, wantCode int, want any) {
	c.tallyOutcome(method, idKind, rp)
	switch {
	case wantCode != 0:
		if !rp.isErr() {
			c.violate(c.key(fmt.Sprintf("answers-instead-of-error-%d", wantCode), method, idKind, v),
				c.detail(v, method, params, obj{"got": brief(rp.Result)}))
		} else if rp.Code != wantCode {
			c.violate(c.key(fmt.Sprintf("error-%d-instead-of-%d", rp.Code, wantCode), method, idKind, v),
				c.detail(v, method, params, obj{"got": rp.ErrMsg}))
		}
	case rp.isErr():
		c.violate(c.key(fmt.Sprintf("error-%d-instead-of-answer", rp.Code), method, idKind, v),
			c.detail(v, method, params, obj{"got": rp.ErrMsg, "want": brief(want)}))
	default:
		var ds []string
		diff("", want, rp.Result, &ds)
		if len(ds) > 0 {
			c.violate(c.key("wrong-answer field="+leafField(ds[0]), method, idKind, v), c.detail(v, method, params, obj{"diffs": ds}))
		}
	}
}

// cross compares the answers of the versions that were asked the same question.
func (c *check) cross(method, params, idKind string, rps [nVersions]*reply) {
	base := -1
	for v := 0; v < nVersions; v++ {
		if rps[v] == nil {
			continue
		}
		if base < 0 {
			base = v
			continue
		}
		a, b := rps[base], rps[v]
		switch {
		case a.isErr() != b.isErr() || a.Code != b.Code:
			c.violate(fmt.Sprintf("versions-disagree outcome %s id=%s %s-vs-%s%s", method, idKind, versionName[base], versionName[v], c.backend),
				c.detail(v, method, params, obj{versionName[base]: outcomeOf(a), versionName[v]: outcomeOf(b)}))
		case !a.isErr():
			var ds []string
			diff("", stripVersionOnly(a.Result, base), stripVersionOnly(b.Result, v), &ds)
			if len(ds) > 0 {
				c.violate(fmt.Sprintf("versions-disagree field=%s %s id=%s %s-vs-%s%s", leafField(ds[0]), method, idKind, versionName[base], versionName[v], c.backend),
					c.detail(v, method, params, obj{"diffs": ds}))
			}
		}
	}
}

func outcomeOf(r *reply) string {
	if r.isErr() {
		return fmt.Sprintf("error %d %s", r.Code, r.ErrMsg)
	}
	return brief(r.Result)
}

// stripVersionOnly returns a copy of x without the members that only exist in the spec of version v.
func stripVersionOnly(x any, v int) any {
	switch t := x.(type) {
	case map[string]any:
		out := make(map[string]any, len(t))
		for k, e := range t {
			if _, only := versionOnlyKeys[k]; only {
				continue
			}
			out[k] = stripVersionOnly(e, v)
		}
		return out
	case []any:
		out := make([]any, len(t))
		for i := range t {
			out[i] = stripVersionOnly(t[i], v)
		}
		return out
	}
	return x
}

// ask issues one question to every version that knows the id kind, checks each against the model and the
// versions against each other. wantFn gives the expected value for a version.
func (c *check) ask(method, params, idKind string, minVersion, wantCode int, wantFn func(v int) any) {
	var rps [nVersions]*reply
	for v := minVersion; v < nVersions; v++ {
		rp, ok := c.do(v, method, params, idKind)
		if !ok {
			continue
		}
		var want any
		if wantCode == 0 {
			want = wantFn(v)
		}
		c.expect(v, method, params, idKind, rp, wantCode, want)
		rps[v] = rp
	}
	c.cross(method, params, idKind, rps)
}

func constant(x any) func(int) any { return func(int) any { return x } }

func (c *check) blockIDs() []blockID {
	var ids []blockID
	n := len(c.nc.chain)
	for i := 0; i <= n; i++ {
		id := blockID{json: fmt.Sprintf(`{"block_number":%d}`, i), kind: "number"}
		if i < n {
			id.ent = c.nc.chain[i]
		} else {
			id.kind = "number-beyond-head"
		}
		ids = append(ids, id)
	}
	seen := map[felt.Felt]bool{}
	for _, e := range c.nc.chain {
		seen[*e.Block.Hash] = true
		ids = append(ids, blockID{json: `{"block_hash":"` + e.Block.Hash.String() + `"}`, kind: "hash", ent: e})
	}
	for _, e := range c.nc.reverted {
		if seen[*e.Block.Hash] {
			continue // the same block was stored again: it is a stored hash
		}
		seen[*e.Block.Hash] = true
		ids = append(ids, blockID{json: `{"block_hash":"` + e.Block.Hash.String() + `"}`, kind: "reverted-hash"})
	}
	for _, e := range c.nc.uncommitted {
		if seen[*e.Block.Hash] {
			continue // the same block is (or was) part of the chain: classified above
		}
		seen[*e.Block.Hash] = true
		ids = append(ids, blockID{json: `{"block_hash":"` + e.Block.Hash.String() + `"}`, kind: "hash-of-uncommitted-block"})
	}
	ids = append(ids, blockID{json: `{"block_hash":"0xbadb10c"}`, kind: "unknown-hash"})
	latest := blockID{json: `"latest"`, kind: "latest"}
	if n > 0 {
		latest.ent = c.nc.chain[n-1]
	} else {
		latest.kind = "latest-on-empty-chain"
	}
	ids = append(ids, latest)
	l1a := blockID{json: `"l1_accepted"`, kind: "l1_accepted", minVersion: v9}
	switch {
	case c.l1 < 0:
		l1a.kind = "l1_accepted-without-l1-head"
	case n == 0:
		l1a.kind = "l1_accepted-on-empty-chain"
	case c.l1 >= n:
		l1a.kind = "l1_accepted-l1-ahead-of-head"
		l1a.ent = c.nc.chain[n-1]
	default:
		l1a.ent = c.nc.chain[c.l1]
	}
	ids = append(ids, l1a)
	return ids
}

// run issues every request for the current L1-head position.
func (c *check) run() {
	n := len(c.nc.chain)
	// --- chain-level methods
	if n == 0 {
		c.ask("starknet_blockNumber", "", "empty-chain", v8, codeNoBlocks, nil)
		c.ask("starknet_blockHashAndNumber", "", "empty-chain", v8, codeNoBlocks, nil)
	} else {
		h := c.nc.chain[n-1].Block
		c.ask("starknet_blockNumber", "", "head", v8, 0, constant(num(h.Number)))
		c.ask("starknet_blockHashAndNumber", "", "head", v8, 0, constant(obj{"block_hash": fstr(h.Hash), "block_number": num(h.Number)}))
	}
	// the 0.8 table must not know the 0.9 tag
	if rp, ok := c.do(v8, "starknet_getBlockWithTxHashes", `{"block_id":"l1_accepted"}`, "l1_accepted"); ok {
		c.expect(v8, "starknet_getBlockWithTxHashes", `{"block_id":"l1_accepted"}`, "l1_accepted-tag-unknown-to-0.8", rp, codeInvalidParams, nil)
	}

	for _, id := range c.blockIDs() {
		l1dep := strings.HasPrefix(id.kind, "l1_accepted")
		bid := `"block_id":` + id.json
		notFound := 0
		if id.ent == nil {
			notFound = codeBlockNotFound
		}
		e := id.ent
		var onL1 bool
		if e != nil {
			onL1 = c.onL1(e.Block.Number)
		}
		// --- block-shaped answers (carry the finality status: always L1 dependent)
		c.ask("starknet_getBlockWithTxHashes", `{`+bid+`}`, id.kind, id.minVersion, notFound, func(v int) any { return wantBlock(e, onL1, blockHashes, v, false) })
		c.ask("starknet_getBlockWithTxs", `{`+bid+`}`, id.kind, id.minVersion, notFound, func(v int) any { return wantBlock(e, onL1, blockTxs, v, false) })
		c.ask("starknet_getBlockWithReceipts", `{`+bid+`}`, id.kind, id.minVersion, notFound, func(v int) any { return wantBlock(e, onL1, blockReceipts, v, false) })
		// 0.10 response flag
		for _, m := range []struct {
			method string
			kind   int
		}{{"starknet_getBlockWithTxs", blockTxs}, {"starknet_getBlockWithReceipts", blockReceipts}} {
			params := `{` + bid + `,"response_flags":["INCLUDE_PROOF_FACTS"]}`
			if rp, ok := c.do(v10, m.method, params, id.kind); ok {
				var want any
				if e != nil {
					want = wantBlock(e, onL1, m.kind, v10, true)
				}
				c.expect(v10, m.method+"+INCLUDE_PROOF_FACTS", params, id.kind, rp, notFound, want)
			}
		}
		if !c.full && !l1dep {
			continue
		}
		c.ask("starknet_getBlockTransactionCount", `{`+bid+`}`, id.kind, id.minVersion, notFound, func(int) any { return num(uint64(len(e.Block.Transactions))) })
		c.ask("starknet_getStateUpdate", `{`+bid+`}`, id.kind, id.minVersion, notFound, func(v int) any { return wantStateUpdate(e, v) })
		// 0.10 optional address filter (optparams_test.go)
		c.filterQueries(id)
		// --- (block, index)
		ntx := 0
		if e != nil {
			ntx = len(e.Block.Transactions)
		}
		for i := 0; i <= ntx; i++ {
			params := fmt.Sprintf(`{%s,"index":%d}`, bid, i)
			switch {
			case e == nil:
				c.ask("starknet_getTransactionByBlockIdAndIndex", params, id.kind, id.minVersion, codeBlockNotFound, nil)
			case i == ntx:
				c.ask("starknet_getTransactionByBlockIdAndIndex", params, id.kind+",index=count", id.minVersion, codeInvalidTxIndex, nil)
			default:
				tx := e.Block.Transactions[i]
				c.ask("starknet_getTransactionByBlockIdAndIndex", params, id.kind, id.minVersion, 0, constant(wantTx(tx, true, false)))
				p2 := fmt.Sprintf(`{%s,"index":%d,"response_flags":["INCLUDE_PROOF_FACTS"]}`, bid, i)
				if rp, ok := c.do(v10, "starknet_getTransactionByBlockIdAndIndex", p2, id.kind); ok {
					c.expect(v10, "starknet_getTransactionByBlockIdAndIndex+INCLUDE_PROOF_FACTS", p2, id.kind, rp, 0, wantTx(tx, true, true))
				}
			}
		}
		// --- state at the block
		c.stateQueries(id)
	}
	c.txQueries()
}

func (c *check) stateQueries(id blockID) {
	bid := `"block_id":` + id.json
	var st *chain.State
	if id.ent != nil {
		st = id.ent.State
	}
	for i := range universeAddrs {
		a := &universeAddrs[i]
		as := a.String()
		sys := a.Equal(&chain.Sys1) || a.Equal(&chain.Sys2)
		var ct *chain.Contract
		if st != nil {
			ct = st.Contracts[*a]
		}
		kindOf := func() string {
			switch {
			case st == nil:
				return id.kind
			case ct == nil && sys:
				return id.kind + ",absent-system-contract"
			case ct == nil:
				return id.kind + ",absent-contract"
			case sys:
				return id.kind + ",system-contract"
			}
			return id.kind
		}()
		// account-like attributes: a system contract (0x1/0x2) has storage only, no class and no nonce
		code := 0
		switch {
		case st == nil:
			code = codeBlockNotFound
		case ct == nil || ct.System:
			code = codeContractNotFound
		}
		pa := `{` + bid + `,"contract_address":"` + as + `"}`
		c.ask("starknet_getNonce", pa, kindOf, id.minVersion, code, func(int) any { return fstr(&ct.Nonce) })
		c.ask("starknet_getClassHashAt", pa, kindOf, id.minVersion, code, func(int) any { return fstr(&ct.Class) })
		c.ask("starknet_getClassAt", pa, kindOf, id.minVersion, code, func(int) any { return wantClass(classDef(ct.Class)) })
		// storage
		scode := 0
		switch {
		case st == nil:
			scode = codeBlockNotFound
		case ct == nil:
			scode = codeContractNotFound
		}
		for j := range universeSlots {
			k := &universeSlots[j]
			ps := `{"contract_address":"` + as + `","key":"` + k.String() + `",` + bid + `}`
			c.ask("starknet_getStorageAt", ps, kindOf, id.minVersion, scode, func(int) any {
				v := ct.Storage[*k]
				return fstr(&v)
			})
		}
	}
	for _, ci := range classes {
		code := 0
		kind := id.kind
		switch {
		case st == nil:
			code = codeBlockNotFound
		case st.Classes[ci.hash] == nil:
			code = codeClassHashNotFound
			kind += ",undeclared-class"
		}
		pc := `{` + bid + `,"class_hash":"` + ci.hash.String() + `"}`
		c.ask("starknet_getClass", pc, kind, id.minVersion, code, func(int) any { return wantClass(ci.def) })
	}
}

func classDef(h felt.Felt) core.ClassDefinition {
	for _, ci := range classes {
		if ci.hash.Equal(&h) {
			if ci.def == nil {
				break
			}
			return ci.def
		}
	}
	panic("model: contract with a class outside the class universe: " + h.String())
}

// txQueries: by-hash methods for every transaction hash the history has ever seen + an unknown one.
func (c *check) txQueries() {
	type loc struct {
		e   *chain.Entry
		idx int
	}
	where := map[felt.Felt]loc{}
	var order []felt.Felt
	kind := map[felt.Felt]string{}
	for _, e := range c.nc.chain {
		for i, tx := range e.Block.Transactions {
			h := *tx.Hash()
			if _, dup := where[h]; dup {
				panic("model: duplicate transaction hash in one chain")
			}
			where[h] = loc{e, i}
			order = append(order, h)
			kind[h] = "stored"
		}
	}
	for _, e := range c.nc.reverted {
		for _, tx := range e.Block.Transactions {
			h := *tx.Hash()
			if _, ok := kind[h]; ok {
				if kind[h] == "stored" {
					kind[h] = "stored-again-after-revert"
				}
				continue
			}
			kind[h] = "reverted"
			order = append(order, h)
		}
	}
	for _, e := range c.nc.uncommitted {
		for _, tx := range e.Block.Transactions {
			h := *tx.Hash()
			if _, ok := kind[h]; ok {
				continue // also carried by a stored / reverted block: classified above
			}
			kind[h] = "in-uncommitted-block"
			order = append(order, h)
		}
	}
	unknown := chain.FV(0xBAD7)
	order = append(order, unknown)
	kind[unknown] = "unknown"
	for _, h := range order {
		p := `{"transaction_hash":"` + h.String() + `"}`
		l, stored := where[h]
		k := kind[h]
		if !stored {
			c.ask("starknet_getTransactionByHash", p, k, v8, codeTxnHashNotFound, nil)
			c.ask("starknet_getTransactionReceipt", p, k, v8, codeTxnHashNotFound, nil)
			c.ask("starknet_getTransactionStatus", p, k, v8, codeTxnHashNotFound, nil)
			continue
		}
		tx, rc := l.e.Block.Transactions[l.idx], l.e.Block.Receipts[l.idx]
		onL1 := c.onL1(l.e.Block.Number)
		c.ask("starknet_getTransactionReceipt", p, k, v8, 0, constant(wantReceipt(rc, tx, onL1, l.e.Block.Header)))
		st := obj{"finality_status": finality(onL1), "execution_status": "SUCCEEDED"}
		if rc.Reverted {
			st["execution_status"] = "REVERTED"
			st["failure_reason"] = rc.RevertReason
		}
		c.ask("starknet_getTransactionStatus", p, k, v8, 0, constant(st))
		if !c.full {
			continue
		}
		c.ask("starknet_getTransactionByHash", p, k, v8, 0, constant(wantTx(tx, true, false)))
		p2 := `{"transaction_hash":"` + h.String() + `","response_flags":["INCLUDE_PROOF_FACTS"]}`
		if rp, ok := c.do(v10, "starknet_getTransactionByHash", p2, k); ok {
			c.expect(v10, "starknet_getTransactionByHash+INCLUDE_PROOF_FACTS", p2, k, rp, 0, wantTx(tx, true, true))
		}
	}
}

// checkNode runs the whole request grid on one history node for every L1-head position.
// reduce=true (quick tier): the requests whose answer cannot mention the L1 head (state reads, state update,
// transaction bodies, counts - by number / hash / latest) are issued for the position "none" only; everything
// that carries a finality status or goes through `l1_accepted` is issued for every position. The thorough tier
// issues the full product.
func checkNode(r *ev.Run, label, backend string, newState bool, nc *nodeCase, db *memory.Database, reduce bool) {
	d := db.Copy() // private: SetL1Head writes
	bc := chain.NewNode(d, newState)
	s, err := newStack(bc)
	if err != nil {
		r.Infra("cannot assemble the RPC stack: %v", err)
	}
	n := len(nc.chain)
	c := &check{r: r, label: label, backend: backend, nc: nc, s: s, local: map[string]int64{}}
	for l1 := -1; l1 <= n; l1++ {
		if l1 >= 0 {
			h := &core.L1Head{BlockNumber: uint64(l1), BlockHash: chain.F(0x11EAD), StateRoot: chain.F(0x11EAD + 1)}
			if l1 < n {
				h.BlockHash, h.StateRoot = nc.chain[l1].Block.Hash, nc.chain[l1].Block.GlobalStateRoot
			}
			if err := bc.SetL1Head(h); err != nil {
				r.Infra("SetL1Head: %v", err)
			}
		}
		c.l1 = l1
		c.full = !reduce || l1 == -1
		if panicked, msg := ev.Guard(c.run); panicked {
			r.Violate("panic-while-serving-read-requests"+backend, obj{"config": label, "history": nc.path, "l1_head": l1, "panic": msg})
		}
		r.Add("l1_positions", 1)
	}
	r.Add("evaluations", c.reqs)
	r.Add("state_update_filter_requests", c.filterReqs)
	r.Add("state_update_filter_requests_keeping_2+_contracts_storage", c.filterMulti)
	r.Add("nodes_checked", 1)
	tal.merge(c.local)
}

// checkLongLived replays a history that contains a revert on ONE long-lived Blockchain + RPC stack and runs the read
// sweep after EVERY operation, so that whatever the node memoises while answering (hash -> number, filters, LRU caches)
// is filled by reads of the earlier states and must not leak into the answers of the later ones.
func checkLongLived(r *ev.Run, label, backend string, newState bool, n *hist.Node) {
	hasRevert := false
	for _, e := range n.Ops {
		hasRevert = hasRevert || e == nil
	}
	if !hasRevert || len(n.Ops) < 2 {
		return
	}
	d := memory.New()
	bc := chain.NewNode(d, newState)
	s, err := newStack(bc)
	if err != nil {
		r.Infra("cannot assemble the RPC stack: %v", err)
	}
	var ch, rev []*chain.Entry
	local := map[string]int64{}
	var reqs int64
	for i, e := range n.Ops {
		if e == nil {
			if err := bc.RevertHead(); err != nil {
				return // reported by the property that owns reverts (C04)
			}
			rev = append(rev, ch[len(ch)-1])
			ch = ch[:len(ch)-1]
		} else {
			var parent *chain.Entry
			if len(ch) > 0 {
				parent = ch[len(ch)-1]
			}
			if err := chain.StoreSync(bc, e.Fresh(parent)); err != nil {
				return // C01 / C02 own this
			}
			ch = append(ch, e)
			kept := rev[:0:0]
			for _, x := range rev {
				if !x.Block.Hash.Equal(e.Block.Hash) {
					kept = append(kept, x)
				}
			}
			rev = kept
		}
		nc := &nodeCase{chain: append([]*chain.Entry{}, ch...), reverted: append([]*chain.Entry{}, rev...),
			path: strings.Join(n.Path[:i+1], " ; ") + " [one long-lived node, reads after every operation]", exotic: n.Exotic()}
		c := &check{r: r, label: label + " long-lived", backend: backend, nc: nc, s: s, local: local}
		c.l1, c.full = -1, true
		if panicked, msg := ev.Guard(c.run); panicked {
			r.Violate("panic-while-serving-read-requests"+backend, obj{"config": label, "history": nc.path, "panic": msg})
		}
		reqs += c.reqs
		c.reqs = 0
	}
	r.Add("evaluations", reqs)
	r.Add("long_lived_histories", 1)
	tal.merge(local)
}

// histFilterMax: address-selection size of the state-update filter enumeration on the history nodes (set by TestCheck)
var histFilterMax = 2

func fromHist(n *hist.Node) *nodeCase {
	return &nodeCase{chain: n.Chain, reverted: n.Reverted, path: n.PathString(), exotic: n.Exotic(), filterMax: histFilterMax}
}

func TestCheck(t *testing.T) {
	r := ev.Start("C08", "exploration")
	r.SetBudget(ev.Pick(r, 170, 1700))
	type run struct {
		cfg   vcfg
		depth int
	}
	runs := ev.Pick(r, []run{{cfgMixed, 3}, {cfgOld, 2}}, []run{{cfgMixed, 4}, {cfgOld, 3}})
	reduce := r.Quick()
	var states, transitions int64
	var rule []string
	histFilterMax = ev.Pick(r, 2, 3)
	// dense chain (several contracts changed per block) with the full request grid and the address-filter enumeration
	// up to 3 addresses in every order (optparams_test.go), both backends. First: it is small and must never be cut.
	for _, newState := range []bool{false, true} {
		backend := hist.Backend(newState)
		dcs := denseCases(r, newState)
		ev.Par(len(dcs), 8, func(i int) {
			checkNode(r, "dense"+backend, backend, newState, dcs[i].nc, dcs[i].db, false)
			r.Add("dense_nodes", 1)
		})
	}
	r.Set("state_update_filters_per_block_id", obj{"dense nodes (<=3 addresses)": len(filterSets[3]), "history nodes": len(filterSets[histFilterMax]), "long-lived / uncommitted sweeps": len(filterSets[1])})
	// scripted chain with every transaction kind, both backends
	for _, newState := range []bool{false, true} {
		backend := hist.Backend(newState)
		scs := scriptedCases(r, newState)
		ev.Par(len(scs), 8, func(i int) {
			checkNode(r, "all-tx-kinds"+backend, backend, newState, scs[i].nc, scs[i].db, false)
			r.Add("scripted_nodes", 1)
		})
	}
	for _, ru := range runs {
		for _, newState := range []bool{false, true} {
			backend := hist.Backend(newState)
			label := ru.cfg.name + backend
			var reverts int64
			var mu sync.Mutex
			// the empty node (root of the search) is not the target of any transition
			checkNode(r, label, backend, newState, &nodeCase{}, memory.New(), reduce)
			st := hist.Explore(hist.Config{
				NewState: newState, Depth: ru.depth, VersionAt: ru.cfg.at, Run: r, Label: label, Workers: 16,
				OnStore: func(_, child *hist.Node, _ chain.Named) {
					checkNode(r, label, backend, newState, fromHist(child), child.DB, reduce)
					checkLongLived(r, label, backend, newState, child)
				},
				OnRevert: func(_, child *hist.Node) {
					mu.Lock()
					reverts++
					mu.Unlock()
					checkNode(r, label, backend, newState, fromHist(child), child.DB, reduce)
					checkLongLived(r, label, backend, newState, child)
				},
			})
			states += int64(st.States)
			transitions += int64(st.Transitions)
			r.Add("revert_transitions", reverts)
			r.Sample(obj{"config": label, "depth": ru.depth, "distinct_images": st.States, "transitions_checked": st.Transitions, "per_depth": st.PerDepth})
			rule = append(rule, fmt.Sprintf("%s depth %d", label, ru.depth))
		}
	}
	// uncommitted state transitions on the long-lived node (uncommitted_test.go). quick: the mixed-version configuration
	// with 1 real operation; thorough: also the 0.13.2 configuration and the mixed configuration with 2 real operations.
	// It runs after the main search so that a slow machine does not take budget away from that; the 1-operation
	// enumerations are small and fixed (~1.3M requests each) and are NOT cut by the internal deadline, the 2-operation one is.
	var ucRule []string
	ucRule = append(ucRule, checkUncommitted(r, cfgMixed, 1, false))
	if r.Thorough() {
		ucRule = append(ucRule, checkUncommitted(r, cfgOld, 1, false))
		ucRule = append(ucRule, checkUncommitted(r, cfgMixed, 2, true))
	}
	// outcome histogram (vacuity guard): one line per (method, id kind, outcome)
	tal.mu.Lock()
	keys := make([]string, 0, len(tal.outcomes))
	for k := range tal.outcomes {
		keys = append(keys, k)
	}
	sort.Strings(keys)
	hm := map[string]int64{}
	byMethod := map[string]int64{}
	for _, k := range keys {
		hm[k] = tal.outcomes[k]
		byMethod[strings.SplitN(k, " ", 2)[0]] += tal.outcomes[k]
		r.Outcome(k)
	}
	tal.mu.Unlock()
	r.Set("outcomes", hm)
	ucOutcomes.mu.Lock()
	uo := map[string]int64{}
	for k, v := range ucOutcomes.outcomes {
		uo[k] = v
		r.Outcome("uncommitted " + k)
	}
	ucOutcomes.mu.Unlock()
	r.Set("uncommitted_operation_outcomes", uo)
	r.Set("requests_by_method", byMethod)
	r.Set("distinct_images", states)
	r.Set("transitions", transitions)
	r.Set("distinct_nontrivial", r.Get("nodes_checked"))
	red := "full product"
	if reduce {
		red = "quick-tier reduction: requests without finality status and not via l1_accepted are issued for L1 position {none} only"
	}
	r.Set("rule", "every target of every {store(block alphabet), revertHead} transition ("+strings.Join(rule, "; ")+") + scripted all-tx-kinds chain with revert/re-store; "+
		"x L1 head in {none, 0..head, head+1} x block ids {0..head+1, stored/reverted/unknown hash, latest, l1_accepted} x 16 read methods x "+
		"{(block,index), tx hashes stored/reverted/unknown, 6 contracts x 8 slots, 5 classes} x API v0.8/v0.9/v0.10 through jsonrpc.Server.HandleReader; "+red+
		"; 0.10 starknet_getStateUpdate additionally with the optional contract_addresses filter for every block id: every ordered selection of <=k distinct universe addresses + [] + [a,a] (k=3 on the dense several-contracts-per-block chain, "+fmt.Sprint(histFilterMax)+" on history nodes, 1 on long-lived / uncommitted sweeps), expected = model state update restricted to the selection"+
		"; every history with a revert additionally on ONE long-lived node with the whole read sweep after every operation (memoised lookups must not survive a reorg)"+
		"; a node is non-trivial = one history target with its own reverted-hash set")
	r.Assume = append(r.Assume,
		"block alphabet of mc/chain/alphabet.go + scripted all-tx-kinds blocks; memory DB; VM absent (never reached by read methods); sync reader = NoopSynchronizer (no pre_confirmed data)",
		"pending / pre_confirmed block ids are outside the property and not queried",
		"version-only response fields (model_test.go versionOnlyKeys) are checked against the model where they exist and excluded from the cross-version equality")
	r.Finish()
}
