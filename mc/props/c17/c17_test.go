package c17

// C17 — the recorded L1 head is always a finalised, still-canonical L1 state commit.
//
// System under test: the real l1.Client (Run -> ensureChainID -> catchUpL1HeadUpdates -> watchL1StateUpdates ->
// receiveL1StateUpdates / applyStateUpdate / setL1Head) on a real blockchain.Blockchain over an in-memory DB.
// Environment: a scripted, purely REACTIVE l1.L1StateProvider: every call parks on an in-bubble channel
// (testing/synctest) and is answered, whatever its kind and whenever it comes, from the scripted L1 chain as it is at
// the moment of the answer - the harness does not know or predict the order in which the client talks to its provider
// (subscribe-then-scan and scan-then-subscribe are both just sequences of parked calls). What the client is doing is
// OBSERVED through the provider surface only: parked calls, items taken from the update channel, Subscription.Err()
// being asked for (= the client waits in its select). Each provider call, each block mined between the start-up calls,
// each subscription item, each subscription error and each timer expiry is an *event the explorer chooses*. The search
// is explicit-state BFS over all event sequences; a successor is computed by replaying the whole path from scratch in a
// fresh bubble plus one event; states are merged by a canonical key (harness/model world + reflected nonFinalisedLogs +
// stored head + observed client mode + timer phase).
//
// The L1 "script" is generated online (one more item is one more explorer choice), which is the same set of runs
// as "for every script, every interleaving", but shares prefixes. The well-behavedness assumptions of the property
// restrict which items / finalised heights are *enabled*; they never weaken the oracle (see enabled()).
//
// This BFS reads the stored head only between the client's steps and on the Blockchain object that wrote it. Reads
// that OVERLAP a commit (RPC handlers call Blockchain.L1Head() at any time), on a process that started on a database
// already holding a head, are part R (reader_test.go); the eth_getLogs adapter is adapter_test.go.
//
// Replays are executed by GOMAXPROCS=1 worker processes (pool_test.go); the BFS, the visited set and all verdicts
// live in the parent. Development aids: VERIF_C17_N, VERIF_C17_SELFCHECK_N, VERIF_C17_FULLKEY, VERIF_C17_TRACE,
// VERIF_C17_PROF, VERIF_C17_WORKERS.

import (
	"context"
	"crypto/sha256"
	"errors"
	"fmt"
	"math/big"
	"os"
	"reflect"
	"runtime/pprof"
	"sort"
	"strings"
	"sync"
	"testing"
	"testing/synctest"
	"time"
	"unsafe"

	"verif/mc/ev"

	"github.com/NethermindEth/juno/blockchain"
	"github.com/NethermindEth/juno/blockchain/networks"
	"github.com/NethermindEth/juno/core"
	"github.com/NethermindEth/juno/core/felt"
	"github.com/NethermindEth/juno/db"
	"github.com/NethermindEth/juno/db/memory"
	_ "github.com/NethermindEth/juno/encoder/registry"
	"github.com/NethermindEth/juno/l1"
	"github.com/NethermindEth/juno/l1/geth/contract"
	"github.com/NethermindEth/juno/utils/log"
	"github.com/ethereum/go-ethereum/core/types"
)

// mineMax bounds the number of blocks mined while the client is between its start-up calls (quick 2, thorough 3).
var mineMax = func() int {
	n := 2
	if os.Getenv("VERIF_TIER") == "thorough" {
		n = 3
	}
	if s := os.Getenv("VERIF_C17_MINE"); s != "" {
		fmt.Sscan(s, &n)
	}
	return n
}()

var thorough = os.Getenv("VERIF_TIER") == "thorough"

// mineWindowMax: how many of them may be mined while no subscription is open (quick 1, thorough 2).
var mineWindowMax = func() int {
	n := 1
	if os.Getenv("VERIF_TIER") == "thorough" {
		n = 2
	}
	if s := os.Getenv("VERIF_C17_MINEWIN"); s != "" {
		fmt.Sscan(s, &n)
	}
	return n
}()

const (
	pollInterval = 10 * time.Second
	resubDelay   = 5 * time.Second
	quantum      = 5 * time.Second // gcd of the two; "advance" sleeps in quanta until the client calls the provider
)

// ---------------------------------------------------------------------------------------------------------------
// events

type evt struct {
	K byte   // 'o' ok, 'x' fail, 'L' latest ok(+delta), 'F' finalised ok(value), 'a' advance time to next timer,
	A uint64 // 'U' deliver update(d), 'R' deliver removal(l1 block), 'E' subscription error,
	//          'M' a block with a state update (d) is mined while the client is between its start-up calls,
	//          'P' the live stream hands over the oldest mined-but-not-yet-pushed log
}

func (e evt) String() string {
	switch e.K {
	case 'o':
		return "ok"
	case 'x':
		return "fail"
	case 'L':
		return fmt.Sprintf("latest=top+%d", e.A)
	case 'F':
		return fmt.Sprintf("finalised=%d", e.A)
	case 'a':
		return "advance"
	case 'U':
		return fmt.Sprintf("update(+%d)", e.A)
	case 'R':
		return fmt.Sprintf("removal(l1=%d)", e.A)
	case 'E':
		return "sub-error"
	case 'M':
		return fmt.Sprintf("mine(+%d)", e.A)
	case 'P':
		return "push-next"
	}
	return "?"
}

type config struct {
	hist  []uint8 // L1-block increments of the logs already on chain when the client starts
	chunk uint64
	prior int // index of the history log a previous run stored as L1 head, or -1
	n     int // total number of script items (history logs + logs mined during start-up + live items)
}

func (c *config) String() string {
	return fmt.Sprintf("hist=%v chunk=%d prior=%d", c.hist, c.chunk, c.prior)
}

// ---------------------------------------------------------------------------------------------------------------
// scripted provider

type reply struct {
	err error
	v   uint64
	evs []*l1.StateUpdate
	sub l1.Subscription
}

type call struct {
	kind     byte // 'c' ChainID, 'l' LatestHeight, 'f' FinalisedHeight, 'g' FilterStateUpdate, 'w' WatchStateUpdate
	from, to uint64
	sink     chan<- *l1.StateUpdate
	reply    chan reply
}

// The provider is purely REACTIVE: it has no idea which call the client will make next. Every call of the
// L1StateProvider / Subscription surface is stamped with a sequence number (the order in which the client touched the
// environment); parked calls are answered by kind from the scripted L1 chain as it is at the moment of the answer.
type prov struct {
	calls  chan *call
	closed int

	seq      uint64     // interactions of the client with the environment so far
	lastCall uint64     // stamp of the latest provider call (incl. the parked Unsubscribe of a failed subscription)
	lastErr  uint64     // stamp of the latest Subscription.Err() call ...
	errSub   *scriptSub // ... and the subscription it was made on
}

func (p *prov) do(ctx context.Context, c *call) reply {
	c.reply = make(chan reply, 1)
	p.seq++
	p.lastCall = p.seq
	p.calls <- c
	select {
	case r := <-c.reply:
		return r
	case <-ctx.Done():
		return reply{err: ctx.Err()}
	}
}

func (p *prov) ChainID(ctx context.Context) (*big.Int, error) {
	r := p.do(ctx, &call{kind: 'c'})
	if r.err != nil {
		return nil, r.err
	}
	return new(big.Int).Set(networks.Mainnet.L1ChainID), nil
}

func (p *prov) FinalisedHeight(ctx context.Context) (uint64, error) {
	r := p.do(ctx, &call{kind: 'f'})
	return r.v, r.err
}

func (p *prov) LatestHeight(ctx context.Context) (uint64, error) {
	r := p.do(ctx, &call{kind: 'l'})
	return r.v, r.err
}

func (p *prov) WatchStateUpdate(ctx context.Context, ch chan<- *l1.StateUpdate) (l1.Subscription, error) {
	r := p.do(ctx, &call{kind: 'w', sink: ch})
	if r.err != nil {
		return nil, r.err
	}
	return r.sub, nil
}

func (p *prov) FilterStateUpdate(ctx context.Context, from, to uint64) ([]*l1.StateUpdate, error) {
	r := p.do(ctx, &call{kind: 'g', from: from, to: to})
	return r.evs, r.err
}

func (p *prov) Close() { p.closed++ }

type scriptSub struct {
	errCh  chan error
	unsub  int
	failed bool
	p      *prov
	quit   chan struct{} // closed at teardown
}

func (s *scriptSub) Err() <-chan error { return s.errCh }

// Unsubscribe of a subscription that has reported an error parks (first call only): the window between the client
// reading the error and the subscription being torn down is a scheduling point of its own. What the explorer may do
// there is push further items into the (old) sink. For the client this is indistinguishable from the legal real-node
// execution "item pushed, then error raised, both pending, Go's select happens to take the error first" - a runtime
// coin flip the explorer cannot steer directly. (The other outcome of that coin flip is the sequential order item,
// error, which is explored anyway.)
func (s *scriptSub) Unsubscribe() {
	s.unsub++
	if !s.failed || s.unsub > 1 {
		return
	}
	c := &call{kind: 'u', reply: make(chan reply, 1)}
	s.p.seq++
	s.p.lastCall = s.p.seq
	s.p.calls <- c
	select {
	case <-c.reply:
	case <-s.quit:
	}
}

// The delivery path BELOW the L1StateProvider interface is the real one: what the scripted L1 node emits are contract
// events (contract.StarknetLogStateUpdate); a live subscription is the geth provider's real forwarder goroutine
// (l1.forwardStateUpdates, exported to the harness by prebuild.sh's overlay file) between the scripted geth-side
// subscription and the client's channel, and catch-up results are decoded by the provider's real decoder.
//
// gethSide is the geth-side subscription handed to the forwarder: its error channel is the scripted one; its
// Unsubscribe (called by the forwarder goroutine when it ends) is not a scheduling point.
type gethSide struct{ errCh chan error }

func (g gethSide) Err() <-chan error { return g.errCh }
func (g gethSide) Unsubscribe()      {}

// fwdSub is what the client holds: the forwarder's subscription, with the scripted Unsubscribe scheduling point (see
// scriptSub.Unsubscribe) in front of the real teardown.
type fwdSub struct {
	inner l1.Subscription
	s     *scriptSub
}

// Err is the one thing the environment can see of a client that is not inside a provider call: a Go select evaluates
// its channel operands every time it is entered, so a client that waits for subscription items / errors asks for the
// error channel each time it starts to wait. "The latest interaction is an Err() on the current subscription and no
// call is parked" is how the harness OBSERVES that the client is listening (world.listening) - it does not predict it
// from the call sequence.
func (f *fwdSub) Err() <-chan error {
	p := f.s.p
	p.seq++
	p.lastErr, p.errSub = p.seq, f.s
	return f.inner.Err()
}
func (f *fwdSub) Unsubscribe() { f.s.Unsubscribe(); f.inner.Unsubscribe() }

// ---------------------------------------------------------------------------------------------------------------
// world = the scripted L1 chain + reference model + what the harness has OBSERVED of the client
//
// Nothing in here assumes an order of the client's calls. The L1 chain is a list of logs (each in its L1 block); it can
// grow at any scheduling point, also while the client is parked in one of its start-up calls. The sources a well-behaved
// L1 node offers answer from that chain at the moment of the answer:
//   - FilterStateUpdate(from,to): the canonical (not reorged) logs of blocks from..to;
//   - LatestHeight: the block of the newest log (+0 | +1 empty block);
//   - FinalisedHeight: any monotone height (see enabled);
//   - a subscription delivers exactly the logs of blocks mined after it was opened, in chain order, each some time after
//     its block was mined (the live stream may lag what eth_getLogs already shows: `backlog`), plus removal notices.
// So one log may reach the client through the scan, through the live stream, through both, or (mined after the scan's
// LatestHeight snapshot and before a subscription exists) through neither.

type logRec struct {
	l1, l2    uint64
	delivered bool // the client HAS it: it was in a FilterStateUpdate result, or the client has taken it from its update channel
	alive     bool // canonical on the scripted L1 chain (not reorged)
	noticed   bool // the client has taken a removal notice that covers it from its update channel
	consumed  bool // already <= the finalised height of a completed FinalisedHeight answer while delivered (model side)
}

func hashOf(id int) felt.Felt { return felt.FromUint64[felt.Felt](uint64(0x1000 + id)) }
func rootOf(id int) felt.Felt { return felt.FromUint64[felt.Felt](uint64(0x2000 + id)) }

// pushedItem is a subscription item that sits in the client's update channel and has not been taken out yet.
type pushedItem struct {
	removed bool
	l1      uint64
	id      int   // the log the item is about
	kills   []int // removal notice: the logs it reports as reorged
}

type violation struct {
	key    string
	detail map[string]any
}

type world struct {
	c     *config
	view  []logRec
	F     uint64 // highest finalised height the L1 node has reported (successful answers only)
	items int
	lastU bool

	chainObserved bool  // the client has been shown the chain (LatestHeight / FilterStateUpdate answered, or a subscription opened)
	mined         int   // logs mined while the client was between its start-up calls
	lastM         bool  // the previous event was such a block
	backlog       []int // logs mined since the current subscription was opened that the live stream has not handed over yet

	expHead int   // model: id of the log that must be the recorded head (-1: none)
	expEmit []int // model: emissions expected during the current step

	// what the harness has observed of the client (never predicted from the call order)
	pending     *call
	listen      bool // the client waits for subscription items / errors (see fwdSub.Err)
	lastFail    byte // kind of the latest call that was answered with an error
	failedStep  byte // kind of the call answered with an error in the current step
	retry       byte // the client is neither parked in a call nor listening: it sleeps before repeating call `retry`
	catchup     bool // start-up: the client has not listened to a subscription yet
	stepCatchup bool
	subscribed  bool
	sink        chan<- *l1.StateUpdate
	gethCh      chan *contract.StarknetLogStateUpdate // input of the live forwarder of the current subscription
	sub         *scriptSub
	t0          time.Time // moment the client first listened = creation time of its poll ticker (cross-checked, see settle)
	t0set       bool
	leftSelect  time.Time
	inExc       bool   // the client is away from its main select (handling a tick or a subscription error)
	stamp       uint64 // provider sequence number when the current step started
	exited      bool
	exitErr     string

	// implementation observations
	p          *prov
	chain      *blockchain.Blockchain
	client     *l1.Client
	done       chan error
	quit       chan struct{}
	pushed     []pushedItem // items pushed into the sink that the client has not read yet (oldest first)
	emitted    []*core.L1Head
	feedCh     <-chan *core.L1Head
	storedID   int
	storedL2   uint64
	lastChange bool
	stats      map[string]int64
	infra      string
}

func (w *world) topAlive() int {
	best := -1
	for i := range w.view {
		r := &w.view[i]
		if r.alive && (best < 0 || r.l1 >= w.view[best].l1) {
			best = i
		}
	}
	return best
}

func (w *world) maxL1() uint64 {
	var m uint64
	for i := range w.view {
		if w.view[i].l1 > m {
			m = w.view[i].l1
		}
	}
	return m
}

// addLog mines a block (or, d=0, extends the newest one) with the next Starknet state update.
func (w *world) addLog(d uint64) int {
	var base, l2 uint64
	if t := w.topAlive(); t >= 0 {
		base, l2 = w.view[t].l1, w.view[t].l2
	}
	w.view = append(w.view, logRec{l1: base + d, l2: l2 + 1, alive: true})
	w.items++
	w.lastU = true
	return len(w.view) - 1
}

func (w *world) su(id int, removed bool) *l1.StateUpdate {
	r := w.view[id]
	return &l1.StateUpdate{
		L2BlockNumber: r.l2, L2BlockHash: hashOf(id), StateRoot: rootOf(id), L1RefHeight: r.l1, Removed: removed,
	}
}

// raw is the contract event of log id as the L1 node emits it.
func (w *world) raw(id int, removed bool) *contract.StarknetLogStateUpdate {
	r := w.view[id]
	h, g := hashOf(id), rootOf(id)
	return &contract.StarknetLogStateUpdate{
		GlobalRoot: g.BigInt(new(big.Int)), BlockNumber: new(big.Int).SetUint64(r.l2), BlockHash: h.BigInt(new(big.Int)),
		Raw: types.Log{BlockNumber: r.l1, Removed: removed},
	}
}

// healthy: a subscription is open and has not failed.
func (w *world) healthy() bool { return w.sub != nil && !w.sub.failed && w.gethCh != nil }

// push delivers one subscription item: through the real forwarder while the subscription is healthy; straight into the
// client's channel once the subscription has failed (the forwarder has ended; see scriptSub.Unsubscribe for what such
// an item stands for).
func (w *world) push(id int, removed bool) {
	if w.healthy() {
		w.gethCh <- w.raw(id, removed)
		w.stats["items_through_real_forwarder"]++
		return
	}
	w.sink <- w.su(id, removed)
}

// enabled lists the explorer's choices in the current quiescent state: the possible answers to the call that is parked
// (whatever its kind), or, with no call parked, a timer expiry and - only while the client is observed to listen -
// subscription items / a subscription error. While the client is between its start-up calls the chain may also grow
// (chainEvents).
//
// Well-behavedness of the L1 node (property quantifier) is encoded HERE and only here:
//   - finalised heights are monotone (answers >= w.F);
//   - a removal notice for a live log is only enabled for an L1 block above every finalised height reported so far
//     ("never un-finalises"); it stands for the reorg of that block, hence of every log at or above it;
//   - a late ("stale") notice for an already-dead log is only enabled while no live log sits at or above it (geth
//     sends the removed logs of a reorg before the logs of the new branch);
//   - updates arrive in chain order: a new log is in the block of the highest live log (+0, only directly after an
//     update = "second update in the same L1 block") or 1..2 blocks above it, with the next Starknet number;
//   - a subscription hands over the logs mined since it was opened in the order they were mined.
func (w *world) enabled() []evt {
	if w.exited {
		return nil
	}
	if c := w.pending; c != nil {
		var out []evt
		switch c.kind {
		case 'c', 'g':
			out = []evt{{'o', 0}, {'x', 0}}
		case 'w':
			// While items the client has not read yet sit in the update channel, a failure whose retry sleep would
			// swallow a poll tick is not offered: on return both the item and the tick would be ready and Go's select
			// would flip a coin the explorer cannot control (replays would stop being deterministic). Both orders of
			// item and tick are explored as sequential deliveries.
			if w.unread() > 0 && w.t0set &&
				int64(w.now().Add(resubDelay).Sub(w.t0)/pollInterval) > int64(w.leftSelect.Sub(w.t0)/pollInterval) {
				out = []evt{{'o', 0}}
			} else {
				out = []evt{{'o', 0}, {'x', 0}}
			}
		case 'u':
			out = append([]evt{{'o', 0}}, w.itemEvents()...)
		case 'l':
			out = []evt{{'L', 0}, {'L', 1}, {'x', 0}}
		case 'f':
			out = []evt{{'x', 0}}
			hi := w.maxL1() + 2*uint64(w.c.n-w.items)
			if hi < w.F {
				hi = w.F
			}
			for v := w.F; v <= hi; v++ {
				out = append(out, evt{'F', v})
			}
		}
		return append(out, w.chainEvents()...)
	}
	if !w.listen {
		return []evt{{'a', 0}} // asleep before a retry
	}
	// listening in the main select with a live subscription
	out := []evt{{'a', 0}, {'E', 0}}
	if len(w.backlog) > 0 {
		return append(out, evt{'P', 0}) // the stream is in chain order: what was mined first comes first
	}
	return append(out, w.itemEvents()...)
}

// chainEvents: what the L1 chain / the live stream may do while the client is parked in one of its START-UP calls
// (from the moment it has been shown the chain - blocks mined earlier than that are the start-up history, hist - until
// it first listens to a subscription): a block with the next state update is mined ('M'; with a healthy subscription
// it joins the stream's backlog), the stream hands over its oldest backlog entry ('P'). At most mineMax blocks per run.
// Reorgs and subscription failures are not scripted during start-up (r.Assume).
func (w *world) chainEvents() []evt {
	if !w.catchup || !w.chainObserved || w.pending == nil || w.pending.kind == 'u' {
		return nil
	}
	var out []evt
	lim := mineMax
	if !w.healthy() {
		lim = mineWindowMax // nobody will ever show these logs to the client
	}
	if w.items < w.c.n && w.mined < lim {
		// +0 = the block just mined carries a second state update (only directly after an 'M': once anything else has
		// happened the block is sealed - it may already have been reported as latest, scanned or finalised)
		if t := w.topAlive(); w.lastM && t >= 0 && t == len(w.view)-1 {
			out = append(out, evt{'M', 0})
		}
		out = append(out, evt{'M', 1})
		if w.healthy() || thorough {
			out = append(out, evt{'M', 2}) // quick: a block no source will show is always the next one (only the numbering differs)
		}
	}
	if w.healthy() && len(w.backlog) > 0 {
		out = append(out, evt{'P', 0})
	}
	return out
}

func (w *world) unread() int {
	if w.sink == nil {
		return 0
	}
	return len(w.sink)
}

// itemEvents lists the subscription items the L1 node may deliver next (see enabled for the rules).
func (w *world) itemEvents() []evt {
	var out []evt
	if w.items < w.c.n {
		t := w.topAlive()
		if w.lastU && t >= 0 && t == len(w.view)-1 {
			out = append(out, evt{'U', 0})
		}
		out = append(out, evt{'U', 1}, evt{'U', 2})
		seen := map[uint64]bool{}
		var xs []uint64
		for i := range w.view {
			if !seen[w.view[i].l1] {
				seen[w.view[i].l1] = true
				xs = append(xs, w.view[i].l1)
			}
		}
		sort.Slice(xs, func(i, j int) bool { return xs[i] < xs[j] })
		for _, x := range xs {
			aliveAt, aliveAbove := false, false
			for i := range w.view {
				if w.view[i].alive && w.view[i].l1 == x {
					aliveAt = true
				}
				if w.view[i].alive && w.view[i].l1 >= x {
					aliveAbove = true
				}
			}
			if (aliveAt && x > w.F) || (!aliveAt && !aliveAbove) {
				out = append(out, evt{'R', x})
			}
		}
	}
	return out
}

func (w *world) now() time.Time { return time.Now() }

func (w *world) tickBuffered() bool {
	if !w.t0set || !w.inExc {
		return false
	}
	return int64(w.now().Sub(w.t0)/pollInterval) > int64(w.leftSelect.Sub(w.t0)/pollInterval)
}

// observe collects what became visible at the quiescent point.
func (w *world) observe() {
	for {
		select {
		case c := <-w.p.calls:
			if w.pending != nil {
				w.infra = "two provider calls pending at once"
			}
			w.pending = c
			continue
		default:
		}
		break
	}
	select {
	case err := <-w.done:
		w.exited = true
		if err != nil {
			w.exitErr = err.Error()
		}
	default:
	}
}

func (w *world) answer(r reply) {
	w.pending.reply <- r
	w.pending = nil
}

var errScripted = errors.New("scripted failure")

// apply performs one explorer-chosen event (model side effects first, then the real interaction).
func (w *world) apply(e evt) {
	w.expEmit = nil
	w.failedStep = 0
	w.lastM = e.K == 'M'
	w.stepCatchup = w.catchup
	w.stamp = w.p.seq
	c := w.pending
	switch e.K {
	case 'x':
		kind := c.kind
		w.answer(reply{err: errScripted})
		w.lastFail, w.failedStep = kind, kind
	case 'o':
		switch c.kind {
		case 'c', 'u':
			w.answer(reply{})
		case 'g':
			// eth_getLogs: the canonical logs of the range as the chain is now
			var evs []*l1.StateUpdate
			for i := range w.view {
				r := &w.view[i]
				if r.alive && r.l1 >= c.from && r.l1 <= c.to {
					if w.inStream(i) {
						w.stats["logs_in_scan_result_and_in_live_stream"]++
					}
					r.delivered = true
					evs = append(evs, l1.VerifStateUpdateFromGethContract(w.raw(i, false)))
				}
			}
			w.chainObserved = true
			w.stats["filter_calls"]++
			w.answer(reply{evs: evs})
		case 'w':
			// a subscription opened now delivers the logs of blocks mined from now on
			w.sub = &scriptSub{errCh: make(chan error, 1), p: w.p, quit: w.quit}
			w.sink = c.sink
			w.gethCh = make(chan *contract.StarknetLogStateUpdate)
			w.backlog = nil
			fwd := &fwdSub{l1.VerifForwardStateUpdates(gethSide{w.sub.errCh}, w.gethCh, c.sink), w.sub}
			w.subscribed = true
			w.chainObserved = true
			w.answer(reply{sub: fwd})
		}
	case 'L':
		w.chainObserved = true
		w.answer(reply{v: w.maxL1() + e.A})
	case 'F':
		if e.A < w.F {
			w.infra = "non-monotone finalised height chosen"
		}
		w.F = e.A
		// Whatever the client wanted this height for: from now on the L1 node has reported w.F as finalised, so every
		// event the client holds (delivered, no removal notice read) at or below it counts. The recorded head must be the
		// highest of them - and must never step back to an event below the one already recorded.
		best := -1
		for i := range w.view {
			r := &w.view[i]
			if r.delivered && !r.noticed && r.l1 <= w.F && !r.consumed {
				r.consumed = true
				if best < 0 || r.l1 >= w.view[best].l1 {
					best = i
				}
			}
		}
		if best >= 0 {
			if w.expHead >= 0 && (w.view[w.expHead].l1 > w.view[best].l1 || (w.view[w.expHead].l1 == w.view[best].l1 && w.expHead > best)) {
				// an older event that reached the client only after a newer one had been finalised and recorded
				w.stats["late_older_event_must_not_move_head"]++
			} else {
				w.expHead = best
				w.expEmit = []int{best}
			}
		}
		w.answer(reply{v: e.A})
	case 'a':
		wasListening := w.listen
		for i := 0; i < 3 && w.pending == nil && !w.exited; i++ {
			time.Sleep(quantum)
			synctest.Wait()
			w.observe()
		}
		if w.pending == nil {
			w.infra = "advance produced no provider call"
		}
		if wasListening {
			w.inExc, w.leftSelect = true, w.now()
			w.stats["poll_ticks"]++
		}
	case 'U':
		id := w.addLog(e.A)
		if w.pending != nil {
			w.stats["items_pushed_during_error_handling"]++
		}
		w.pushed = append(w.pushed, pushedItem{false, w.view[id].l1, id, nil})
		w.push(id, false)
	case 'M':
		id := w.addLog(e.A)
		w.lastU = false // a live 'U' never extends a block mined during start-up
		w.mined++
		w.stats["blocks_mined_between_startup_calls"]++
		if w.healthy() {
			w.backlog = append(w.backlog, id)
		}
	case 'P':
		id := w.backlog[0]
		w.backlog = append([]int(nil), w.backlog[1:]...)
		if w.view[id].delivered {
			w.stats["live_items_already_seen_in_scan"]++
		}
		if w.pending != nil {
			w.stats["items_pushed_between_startup_calls"]++
		}
		w.pushed = append(w.pushed, pushedItem{false, w.view[id].l1, id, nil})
		w.push(id, false)
	case 'R':
		x := e.A
		target, killed := -1, 0
		var kills []int
		for i := range w.view {
			r := &w.view[i]
			if r.l1 == x && (target < 0 || r.alive) {
				target = i
			}
			if r.alive && r.l1 >= x {
				if r.l1 <= w.F {
					w.infra = "generator removed a finalised log"
				}
				r.alive = false
				kills = append(kills, i)
				if (r.delivered || w.inPushed(i)) && !r.consumed {
					killed++
				}
			}
		}
		w.items++
		w.lastU = false
		if w.pending != nil {
			w.stats["items_pushed_during_error_handling"]++
		}
		switch {
		case killed == 0:
			w.stats["removals_noop"]++
		case killed == 1:
			w.stats["removals_single"]++
		default:
			w.stats["removals_multi"]++
		}
		w.pushed = append(w.pushed, pushedItem{true, x, target, kills})
		w.push(target, true)
	case 'E':
		w.subscribed = false
		w.inExc, w.leftSelect = true, w.now()
		w.sub.failed = true
		w.backlog = nil // what the stream had not handed over yet is never delivered live
		w.sub.errCh <- errScripted
		w.stats["sub_errors"]++
	}
}

func (w *world) inPushed(id int) bool {
	for _, it := range w.pushed {
		if !it.removed && it.id == id {
			return true
		}
	}
	return false
}

// inStream: the live stream of the current subscription has handed the log over or still will.
func (w *world) inStream(id int) bool {
	if w.inPushed(id) {
		return true
	}
	for _, b := range w.backlog {
		if b == id {
			return true
		}
	}
	return false
}

// settle runs the client to quiescence after an event and records what the environment can observe of it: which
// items it took from its channel, whether it now listens, whether it passed through its waiting select.
func (w *world) settle() {
	predicted := w.tickBuffered()
	synctest.Wait()
	w.observe()
	if n := w.unread(); n < len(w.pushed) {
		k := len(w.pushed) - n
		for _, it := range w.pushed[:k] {
			if it.removed {
				for _, id := range it.kills {
					w.view[id].noticed = true
				}
			} else {
				w.view[it.id].delivered = true
			}
		}
		w.pushed = w.pushed[k:]
	}
	w.listen = w.pending == nil && !w.exited && w.sub != nil && w.p.errSub == w.sub && w.p.lastErr > w.p.lastCall
	passed := w.p.lastErr > w.stamp // the client (re-)entered its waiting select during this step
	switch {
	case w.listen && !w.t0set:
		// end of start-up. The client's poll ticker is taken to start now; every later tick is checked against that
		// (the two infra errors below), so a client that arms it elsewhere is noticed instead of mis-scheduled.
		w.t0set, w.t0, w.catchup, w.inExc = true, w.now(), false, false
		for i := range w.view {
			if r := &w.view[i]; r.alive && !r.delivered && !w.inStream(i) && i >= len(w.c.hist) {
				w.stats["startup_logs_seen_by_neither_scan_nor_stream"]++
			}
		}
	case w.inExc && passed && w.listen:
		if predicted {
			w.infra = "buffered tick predicted but the client went idle"
		}
		w.inExc = false
	case w.inExc && passed && w.pending != nil:
		// back in the select and out again at once: a tick that expired during the excursion
		if !predicted || w.pending.kind != 'f' {
			w.infra = "tick consumed although none was predicted to be buffered"
		}
		w.leftSelect = w.now()
		w.stats["buffered_ticks"]++
	}
	w.retry = 0
	if w.pending == nil && !w.listen && !w.exited {
		w.retry = w.lastFail
		if w.retry == 0 {
			w.retry = '?'
		}
	}
	if w.failedStep != 0 && w.retry == 0 && (w.pending == nil || w.pending.kind != w.failedStep) {
		w.stats["catchup_aborted"]++ // a failed call the client did not repeat
	}
}

func (w *world) buffer() map[uint64]*l1.StateUpdate {
	f := reflect.ValueOf(w.client).Elem().FieldByName("nonFinalisedLogs")
	return *(*map[uint64]*l1.StateUpdate)(unsafe.Pointer(f.UnsafeAddr()))
}

func idOfHash(h *felt.Felt, n int) int {
	for i := 0; i < n; i++ {
		x := hashOf(i)
		if h != nil && h.Equal(&x) {
			return i
		}
	}
	return -2
}

func (w *world) phaseTag() string {
	if w.catchup {
		return "catchup"
	}
	return "live"
}

// stepPhase is the phase the client was in when the current step started (the start-up scan's own setL1Head ends with
// the client already parked in WatchStateUpdate, which must still be reported as a catch-up step).
func (w *world) stepPhaseTag() string {
	if w.stepCatchup {
		return "catchup"
	}
	return "live"
}

// check is the oracle, evaluated at every quiescent point.
func (w *world) check(path []evt) *violation {
	mk := func(class string, extra map[string]any) *violation {
		d := map[string]any{"config": w.c.String(), "path": pathStrings(path), "finalised": w.F, "model_head": w.expHead,
			"stored_head": w.storedID, "view": w.viewStrings(), "buffer": w.bufferStrings()}
		for k, v := range extra {
			d[k] = v
		}
		return &violation{key: class + " phase=" + w.stepPhaseTag(), detail: d}
	}
	prevID, prevL2 := w.storedID, w.storedL2
	h, err := w.chain.L1Head()
	switch {
	case err == nil:
		w.storedID, w.storedL2 = idOfHash(h.BlockHash, len(w.view)), h.BlockNumber
		if w.storedID >= 0 {
			x := rootOf(w.storedID)
			if h.BlockNumber != w.view[w.storedID].l2 || h.StateRoot == nil || !h.StateRoot.Equal(&x) {
				return mk("head-fields-mixed", map[string]any{"got_l2": h.BlockNumber})
			}
		}
	case errors.Is(err, db.ErrKeyNotFound):
		w.storedID, w.storedL2 = -1, 0
	default:
		w.infra = "L1Head: " + err.Error()
		return nil
	}
	w.lastChange = w.storedID != prevID
	if w.lastChange {
		w.stats["head_changes"]++
	}
	// emissions: listener callback and blockchain feed
	var gotL, gotF []int
	for _, e := range w.emitted {
		gotL = append(gotL, idOfHash(e.BlockHash, len(w.view)))
	}
	w.emitted = nil
	for {
		select {
		case e := <-w.feedCh:
			gotF = append(gotF, idOfHash(e.BlockHash, len(w.view)))
			continue
		default:
		}
		break
	}
	// never regresses (pure implementation-side check, independent of the model)
	if prevID != -1 && (w.storedID == -1 || w.storedL2 < prevL2) {
		return mk("l2-regress", map[string]any{"from_l2": prevL2, "to_l2": w.storedL2})
	}
	if w.storedID != w.expHead {
		switch {
		case w.storedID < 0:
			if w.storedID == -2 {
				return mk("head-unknown-event", nil)
			}
			return mk("head-missed-finalised-event", nil)
		case w.view[w.storedID].l1 > w.F:
			return mk("head-above-finalised", map[string]any{"head_l1": w.view[w.storedID].l1})
		case !w.view[w.storedID].alive:
			return mk("head-is-removed-log", map[string]any{"head_l1": w.view[w.storedID].l1})
		case !w.view[w.storedID].delivered && w.storedID != w.c.prior:
			return mk("head-undelivered-event", nil)
		case !w.lastChange:
			return mk("head-missed-finalised-event", nil)
		case w.expHead >= 0 && (w.view[w.storedID].l1 < w.view[w.expHead].l1 || w.storedID < w.expHead):
			return mk("head-not-highest-finalised", map[string]any{"head_l1": w.view[w.storedID].l1, "want_l1": w.view[w.expHead].l1})
		default:
			return mk("head-mismatch", nil)
		}
	}
	if !sameInts(gotL, w.expEmit) || !sameInts(gotF, w.expEmit) {
		return mk("feed-mismatch", map[string]any{"listener": gotL, "feed": gotF, "want": w.expEmit})
	}
	return nil
}

func sameInts(a, b []int) bool {
	if len(a) != len(b) {
		return false
	}
	for i := range a {
		if a[i] != b[i] {
			return false
		}
	}
	return true
}

func pathStrings(p []evt) []string {
	out := make([]string, len(p))
	for i, e := range p {
		out[i] = e.String()
	}
	return out
}

func (w *world) viewStrings() []string {
	var out []string
	for i, r := range w.view {
		out = append(out, fmt.Sprintf("#%d l1=%d l2=%d delivered=%v alive=%v", i, r.l1, r.l2, r.delivered, r.alive))
	}
	return out
}

func (w *world) bufferStrings() []string {
	var out []string
	for k, v := range w.buffer() {
		out = append(out, fmt.Sprintf("l1=%d->#%d", k, idOfHash(&v.L2BlockHash, len(w.view))))
	}
	sort.Strings(out)
	return out
}

// fullKey identifies a state by everything the harness knows (absolute L1 numbers, the whole script so far).
func (w *world) fullKey() string {
	var b strings.Builder
	if w.catchup {
		// chunking parameters only matter until the client has left its start-up
		fmt.Fprintf(&b, "C%d.%d|", w.c.chunk, w.c.prior)
	}
	fmt.Fprintf(&b, "i%d F%d u%v|", w.c.n-w.items, w.F, w.lastU)
	for _, r := range w.view {
		fmt.Fprintf(&b, "%d:%v%v%v%v,", r.l1, r.delivered, r.alive, r.consumed, r.noticed)
	}
	fmt.Fprintf(&b, "|h%d s%d k%v|", w.expHead, w.storedID, w.backlog)
	b.WriteString(w.modeKey())
	for _, it := range w.pushed {
		fmt.Fprintf(&b, "u%v%d,", it.removed, it.l1)
	}
	b.WriteString(strings.Join(w.bufferStrings(), ","))
	return b.String()
}

func (w *world) modeKey() string {
	var b strings.Builder
	if w.pending != nil {
		fmt.Fprintf(&b, "p%c%d-%d", w.pending.kind, w.pending.from, w.pending.to)
	}
	fmt.Fprintf(&b, "r%d c%v s%v x%v%s n%d k%d|", w.retry, w.catchup, w.subscribed, w.exited, w.exitErr, w.unread(), len(w.backlog))
	if w.catchup {
		// what decides whether the chain may still grow between the start-up calls
		fmt.Fprintf(&b, "q%v m%d%v h%v|", w.chainObserved, w.mined, w.lastM, w.healthy())
	}
	if w.t0set {
		fmt.Fprintf(&b, "t%d e%v b%v|", int64(w.now().Sub(w.t0)%pollInterval/quantum), w.inExc, w.tickBuffered())
	}
	return b.String()
}

// canonKey is the key the search merges on. During catch-up it is the full key (chunk boundaries depend on absolute
// L1 numbers). Once the live subscription phase has begun, nothing depends on absolute numbers or on logs that can no
// longer play a role, so the state is projected onto what still can influence client, model or generator:
//   - L1 numbers relative to ref = block of the highest live log (the base for future logs);
//   - live logs that are above the finalised height (removable, not yet finalisable), or delivered and not yet
//     counted by a completed setL1Head, or the highest live log, or the highest live log at/below the finalised
//     height (absolute numbers are kept when there is none); identified by position, not by id;
//   - dead-log blocks above that floor log (the only ones a late removal notice may ever name again);
//   - the finalised height, capped at the highest block any remaining item could reach;
//   - model head / stored head / reflected buffer expressed through those positions;
//   - remaining item budget, client mode, timer phase.
//
// Soundness of this projection is cross-checked at run time: (a) every re-arrival at a key must offer the same
// canonical enabled-event list, (b) selfCheck explores a smaller bound twice, merging on fullKey and on canonKey,
// and requires the same set of canonical classes.
func (w *world) canonKey() (string, int64) {
	if w.catchup {
		return w.fullKey(), 0
	}
	var b strings.Builder
	t := w.topAlive()
	var ref uint64
	if t >= 0 {
		ref = w.view[t].l1
	}
	rem := w.c.n - w.items
	capF := w.maxL1() + 2*uint64(rem)
	f := w.F
	if f > capF {
		f = capF
	}
	fmt.Fprintf(&b, "L i%d F%d d%v|", rem, int64(f)-int64(ref), w.lastU && t >= 0 && t == len(w.view)-1)
	// floor = highest live log at or below the finalised height: it can never be removed, so it is what the generator
	// falls back to as base for new logs once everything above it has been reorged away. Without such a log the
	// fallback is L1 block 0 and the absolute position matters (found by selfCheck: merging these was unsound).
	floor := -1
	for i := range w.view {
		r := &w.view[i]
		if r.alive && r.l1 <= w.F && (floor < 0 || r.l1 >= w.view[floor].l1) {
			floor = i
		}
	}
	if floor < 0 {
		fmt.Fprintf(&b, "abs%d|", ref)
	}
	pos := map[int]int{}
	for i := range w.view {
		r := &w.view[i]
		// on its way to the client: still in the stream's backlog ('b') or unread in the client's channel ('q')
		way := byte(0)
		if !r.delivered {
			switch {
			case w.inPushed(i):
				way = 'q'
			case w.inStream(i):
				way = 'b'
			}
		}
		if r.alive && (r.l1 > w.F || (r.delivered && !r.consumed) || i == t || i == floor || way != 0) {
			pos[i] = len(pos)
			// status: above the finalised height only "delivered or not" matters; at or below it only "still to be
			// counted by the next setL1Head" (delivered, not consumed) vs inert (consumed, or never delivered)
			st := 'i'
			switch {
			case way != 0 && r.l1 > w.F:
				st = rune(way)
			case way != 0:
				st = rune(way - 'a' + 'A')
			case r.l1 > w.F && r.delivered:
				st = 'd'
			case r.l1 > w.F:
				st = 'n'
			case r.delivered && !r.consumed:
				st = 'p'
			}
			fmt.Fprintf(&b, "%d:%c,", int64(r.l1)-int64(ref), st)
		}
	}
	b.WriteString("|D")
	seen := map[uint64]bool{}
	var dead []int
	for i := range w.view {
		r := &w.view[i]
		// dead blocks above the floor log: a late notice may name them as soon as no live log sits at/above them,
		// which can become true again after further removals (found by selfCheck at n=5)
		if !r.alive && (floor < 0 || r.l1 > w.view[floor].l1) && !seen[r.l1] {
			seen[r.l1] = true
			dead = append(dead, int(int64(r.l1)-int64(ref)))
		}
	}
	sort.Ints(dead)
	fmt.Fprintf(&b, "%v|", dead)
	rel := func(id int) string {
		if id < 0 {
			return "none"
		}
		if p, ok := pos[id]; ok {
			return fmt.Sprint(p)
		}
		return "older"
	}
	fmt.Fprintf(&b, "h%s s%s|", rel(w.expHead), rel(w.storedID))
	b.WriteString(w.modeKey())
	for _, it := range w.pushed {
		fmt.Fprintf(&b, "u%v%d,", it.removed, int64(it.l1)-int64(ref))
	}
	buf := w.buffer()
	var ks []uint64
	for k := range buf {
		ks = append(ks, k)
	}
	sort.Slice(ks, func(i, j int) bool { return ks[i] < ks[j] })
	for _, k := range ks {
		fmt.Fprintf(&b, "%d>%s,", int64(k)-int64(ref), rel(idOfHash(&buf[k].L2BlockHash, len(w.view))))
	}
	return b.String(), int64(ref)
}

func h16(s string) [16]byte {
	sum := sha256.Sum256([]byte(s))
	var k [16]byte
	copy(k[:], sum[:16])
	return k
}

// ---------------------------------------------------------------------------------------------------------------
// one execution of the real client along a path

var (
	dumpOnce sync.Once
	dumpF    *os.File
)

type result struct {
	key     [16]byte // canonical class
	full    [16]byte // full (unprojected) state
	ensig   [16]byte // canonical rendering of the enabled-event list
	enabled []evt
	viol    *violation
	infra   string
	label   string
	stats   map[string]int64
	depth   int
	script  string
}

func replay(t *testing.T, c *config, path []evt) (res result) {
	synctest.Test(t, func(t *testing.T) {
		w := &world{c: c, expHead: -1, storedID: -1, catchup: true, stepCatchup: true, stats: map[string]int64{}}
		for _, d := range c.hist {
			w.addLog(uint64(d))
		}
		w.chain = blockchain.New(memory.New(), &networks.Mainnet)
		if c.prior >= 0 {
			r := w.view[c.prior]
			hh, rr := hashOf(c.prior), rootOf(c.prior)
			if err := w.chain.SetL1Head(&core.L1Head{BlockNumber: r.l2, BlockHash: &hh, StateRoot: &rr}); err != nil {
				res.infra = err.Error()
				return
			}
			w.expHead, w.storedID, w.storedL2, w.F = c.prior, c.prior, r.l2, r.l1
		}
		fs := w.chain.SubscribeL1Head()
		defer fs.Unsubscribe()
		w.feedCh = fs.Recv()
		w.p = &prov{calls: make(chan *call, 4)}
		w.client = l1.NewClient(w.p, w.chain, log.NewNopZapLogger(),
			l1.WithEventListener(l1.SelectiveListener{OnNewL1HeadCb: func(h *core.L1Head) { w.emitted = append(w.emitted, h) }}),
			l1.WithResubscribeDelay(resubDelay), l1.WithPollFinalisedInterval(pollInterval), l1.WithCatchUpChunkSize(c.chunk))
		ctx, cancel := context.WithCancel(context.Background())
		w.done = make(chan error, 1)
		w.quit = make(chan struct{})
		go func() { w.done <- w.client.Run(ctx) }()
		synctest.Wait()
		w.observe()
		if v := w.check(nil); v != nil {
			res.viol = v
		}
		var script strings.Builder
		for i, e := range path {
			if res.viol != nil || w.infra != "" {
				break
			}
			if i == len(path)-1 {
				res.label = w.modeLabel() + ">" + string(e.K)
				w.stats = map[string]int64{}
			}
			if e.K == 'U' || e.K == 'R' {
				fmt.Fprintf(&script, "%c%d", e.K, e.A)
			}
			w.apply(e)
			w.settle()
			res.viol = w.check(path[:i+1])
		}
		res.infra = w.infra
		if res.viol == nil && w.infra == "" {
			ck, ref := w.canonKey()
			if d := os.Getenv("VERIF_C17_DUMP"); d != "" { // development aid: canonical keys in clear text
				dumpOnce.Do(func() { dumpF, _ = os.Create(fmt.Sprintf("%s/keys.%d", d, os.Getpid())) })
				fmt.Fprintf(dumpF, "%s\t%s %v\n", ck, c, pathStrings(path))
			}
			res.key, res.full = h16(ck), h16(w.fullKey())
			res.enabled = w.enabled()
			var sig strings.Builder
			capF := int64(w.maxL1()) + 2*int64(w.c.n-w.items)
			for _, e := range res.enabled {
				a := int64(e.A)
				if e.K == 'F' && a > capF && !w.catchup {
					a = capF
				}
				if e.K == 'F' || e.K == 'R' {
					a -= ref
				}
				fmt.Fprintf(&sig, "%c%d,", e.K, a)
			}
			res.ensig = h16(sig.String())
			if w.lastChange {
				res.label += " head-moved"
			}
		}
		res.stats = w.stats
		res.depth = len(path)
		res.script = fmt.Sprintf("%v|%s", c.hist, script.String())
		cancel()
		close(w.quit)
		if !w.exited {
			<-w.done
		}
	})
	return res
}

func (w *world) modeLabel() string {
	switch {
	case w.exited:
		return "exited"
	case w.pending != nil:
		return w.phaseTag() + ":call-" + string(w.pending.kind)
	case w.retry != 0:
		return w.phaseTag() + ":retry-" + string(w.retry)
	}
	return "idle"
}

// ---------------------------------------------------------------------------------------------------------------
// search

type node struct {
	root int32
	path []evt
}

func roots(n int, chunks []uint64) []*config {
	var out []*config
	var rec func(h []uint8)
	rec = func(h []uint8) {
		for _, ch := range chunks {
			for prior := -1; prior < len(h); prior++ {
				out = append(out, &config{hist: append([]uint8(nil), h...), chunk: ch, prior: prior, n: n})
			}
		}
		if len(h) == n {
			return
		}
		for d := uint8(0); d <= 2; d++ {
			if d == 0 && len(h) == 0 {
				continue
			}
			rec(append(h, d))
		}
	}
	rec(nil)
	return out
}

const layerSlice = 1 << 18

type exploration struct {
	states, transitions, classes int64
	classDigest                  [16]byte // xor of all canonical class keys: order-independent identity of the class set
	maxDepth                     int
	scripts                      map[string]struct{}
}

// explore runs the BFS for item bound n. mergeFull=true merges on the unprojected key (used by selfCheck only).
func explore(t *testing.T, r *ev.Run, pl *pool, n int, mergeFull, report bool) exploration {
	cfgs := roots(n, chunkSizes)
	if report {
		r.Set("root_configurations", int64(len(cfgs)))
	}
	ex := exploration{scripts: map[string]struct{}{}}
	visited := map[[16]byte][16]byte{} // merge key -> enabled signature
	classes := map[[16]byte]struct{}{}
	var frontier []node
	for i := range cfgs {
		frontier = append(frontier, node{root: int32(i)})
	}
	samples := 0
	sampleCat := map[string]int{}
	stop := false
	var parDur time.Duration
	for layer := 0; len(frontier) > 0 && !stop; layer++ {
		whole := frontier
		var next []node
		if os.Getenv("VERIF_C17_TRACE") != "" {
			fmt.Printf("layer %d: %d nodes, %d states so far, replay time so far %.1fs\n", layer, len(whole), len(visited), parDur.Seconds())
		}
		for off := 0; off < len(whole) && !stop; off += layerSlice { // bounded memory: a layer is replayed and merged in slices
			frontier := whole[off:min(off+layerSlice, len(whole))]
			tp := time.Now()
			results, err := pl.run(n, frontier, r.OutOfTime)
			if err != nil {
				r.Infra("%v", err)
			}
			parDur += time.Since(tp)
			for i := range results {
				res := &results[i]
				if res.infra == "timeout" {
					r.Incomplete(fmt.Sprintf("time budget hit in BFS layer %d of bound n=%d (%d nodes in that layer)", layer, n, len(whole)))
					stop = true
					continue
				}
				if res.infra != "" {
					msg := fmt.Sprintf("%s at %s path=%v", res.infra, cfgs[frontier[i].root], pathStrings(frontier[i].path))
					if r.Violations() > 0 {
						// a verdict exists already; a harness inconsistency further down must not replace it
						r.Incomplete("search stopped at a harness inconsistency after a violation had been found: " + msg)
						stop = true
						continue
					}
					r.Infra("%s", msg)
				}
				ex.transitions++
				if report {
					for k, v := range res.stats {
						r.Add("steps_"+k, v) // what the last transition of each execution exercised
					}
				}
				if res.viol != nil {
					res.viol.detail["depth"] = res.depth
					r.Violate(res.viol.key, res.viol.detail)
					if report {
						r.Outcome("violation")
					}
					continue
				}
				if report {
					r.Outcome(res.label)
				}
				if report && res.depth >= 7 {
					// up to two written-out executions per category (first ones met in BFS order)
					ps := strings.Join(pathStrings(frontier[i].path), " ")
					moved := strings.Contains(res.label, "head-moved")
					cat := ""
					switch {
					case res.stats["buffered_ticks"] > 0 && strings.Contains(ps, "sub-error") && strings.Contains(ps, "update"):
						cat = "resubscribe-sleep-swallows-poll-tick"
					case moved && strings.Contains(ps, "mine("):
						cat = "block-mined-between-startup-calls"
					case moved && strings.Contains(ps, "removal"):
						cat = "reorg"
					case moved && strings.HasPrefix(res.label, "catchup") && cfgs[frontier[i].root].chunk == 1 && cfgs[frontier[i].root].prior >= 0:
						cat = "restart-catchup-chunked"
					}
					if cat != "" && sampleCat[cat] < 2 {
						sampleCat[cat]++
						samples++
						r.Sample(map[string]any{"category": cat, "config": cfgs[frontier[i].root].String(), "path": pathStrings(frontier[i].path)})
					}
				}
				mk := res.key
				if mergeFull {
					mk = res.full
				}
				if _, ok := classes[res.key]; !ok {
					classes[res.key] = struct{}{}
					for j := range ex.classDigest {
						ex.classDigest[j] ^= res.key[j]
					}
				}
				if sig, ok := visited[mk]; ok {
					if sig != res.ensig {
						msg := fmt.Sprintf("state key is not canonical: same key, different enabled events; second arrival %s path=%v",
							cfgs[frontier[i].root], pathStrings(frontier[i].path))
						if r.Violations() > 0 {
							r.Incomplete("search stopped at a harness inconsistency after a violation had been found: " + msg)
							stop = true
							continue
						}
						r.Infra("%s", msg)
					}
					continue
				}
				visited[mk] = res.ensig
				ex.scripts[res.script] = struct{}{}
				if res.depth > ex.maxDepth {
					ex.maxDepth = res.depth
				}
				if report {
					if len(res.enabled) == 0 {
						r.Add("terminal_states", 1)
					}
				}
				for _, e := range res.enabled {
					p := make([]evt, len(frontier[i].path)+1)
					copy(p, frontier[i].path)
					p[len(p)-1] = e
					next = append(next, node{root: frontier[i].root, path: p})
				}
			}
		}
		frontier = next
	}
	if report && samples == 0 {
		r.Sample(map[string]any{"config": cfgs[len(cfgs)-1].String(), "note": "no deep head-moving path sampled"})
	}
	ex.states, ex.classes = int64(len(visited)), int64(len(classes))
	return ex
}

func TestCheck(t *testing.T) {
	if os.Getenv("VERIF_C17_WORKER") != "" {
		workerMain(t)
		return
	}
	r := ev.Start("C17", "model_checking")
	pl, err := newPool()
	if err != nil {
		r.Infra("cannot start worker processes: %v", err)
	}
	r.SetBudget(ev.Pick(r, 150, 1620))
	n := ev.Pick(r, 5, 7)
	if s := os.Getenv("VERIF_C17_N"); s != "" {
		fmt.Sscan(s, &n)
	}
	r.Set("script_items_max", int64(n))
	r.Set("startup_mined_blocks_max", int64(mineMax))
	r.Set("startup_mined_blocks_without_subscription_max", int64(mineWindowMax))
	r.Set("rule", "explicit-state BFS; every enabled event of every reachable quiescent state of the real l1.Client is executed "+
		"(replay of the path from scratch in a fresh synctest bubble + that event); states merged by canonical key")
	r.Assume = append(r.Assume,
		"L1 node well-behaved (generator restriction only): finalised height monotone; removal notices only for blocks above every "+
			"reported finalised height and meaning 'this block and everything above it was reorged'; late notices for dead logs only "+
			"before new-branch logs at/above them; logs arrive in chain order with increasing Starknet numbers",
		fmt.Sprintf("while the client is between its start-up calls (from the first answer that shows it the chain until it first listens to "+
			"a subscription) at most %d blocks with a state update are mined (at most %d of them, always the next block, while no "+
			"subscription is open), a subscription delivers the logs mined since it was opened in order but possibly later than "+
			"eth_getLogs shows them; reorgs and subscription failures during start-up are not scripted; provider calls fail by "+
			"returning an error (deadline expiry of a parked call is not scripted); ChainID mismatch (fatal exit) is out of scope", mineMax, mineWindowMax),
		"the poll ticker is taken to start when the client is first observed listening to a subscription; every later tick is checked "+
			"against that (a contradiction is an INFRA-ERROR, not a verdict)",
		"scheduler granularity = provider calls (incl. Unsubscribe of a failed subscription), subscription items/errors and timer "+
			"expiries (quiescence points of the bubble); two cases of the client's main select are never made ready together (Go's "+
			"pick would be an uncontrollable coin flip): item-vs-error races are reached through the equivalent 'item pushed while the "+
			"client is between reading the error and finishing Unsubscribe' schedule, item/error-vs-poll-tick races only as the two "+
			"sequential orders; "+
			"finalised-height answers range over every integer between the last answer and the highest L1 block any remaining item could use",
		fmt.Sprintf("poll interval %s, resubscribe delay %s (so a retry sleep may or may not swallow a poll tick); chunk sizes 1,2,1000; "+
			"LatestHeight = highest log block at the time of the call + {0,1}; previous-run head = none or any history log", pollInterval, resubDelay))

	// self-check of the state projection at a smaller bound: same canonical classes whichever key the search merges on
	sn := ev.Pick(r, 4, 5)
	if os.Getenv("VERIF_C17_SELFCHECK_N") != "" {
		fmt.Sscan(os.Getenv("VERIF_C17_SELFCHECK_N"), &sn)
	}
	if sn > 0 && r.Violations() == 0 {
		a := explore(t, r, pl, sn, true, false)
		b := explore(t, r, pl, sn, false, false)
		r.Set("selfcheck_bound", int64(sn))
		r.Set("selfcheck_fullkey_states", a.states)
		r.Set("selfcheck_canonical_states", b.states)
		r.Set("selfcheck_classes", b.classes)
		if r.Violations() == 0 && (a.classes != b.classes || a.classDigest != b.classDigest) {
			r.Infra("state projection unsound at n=%d: merging on the full key reaches %d canonical classes, merging on the canonical key %d",
				sn, a.classes, b.classes)
		}
	}

	if pf := os.Getenv("VERIF_C17_PROF"); pf != "" { // development aid: ev.Finish exits the process, so -test.cpuprofile is lost
		f, _ := os.Create(pf)
		pprof.StartCPUProfile(f)
		defer pprof.StopCPUProfile()
	}
	adapterSweep(r)
	if os.Getenv("VERIF_C17_NO_READER") == "" {
		readerSweep(r) // part R (reader_test.go): the head read while it is committed, over process lifetimes
	}
	ex := explore(t, r, pl, n, os.Getenv("VERIF_C17_FULLKEY") != "", true)
	pprof.StopCPUProfile()
	pl.close()
	r.Set("worker_processes", int64(len(pl.ws)))
	r.Set("states", ex.states)
	r.Set("transitions", ex.transitions)
	r.Set("traces_validated_against_impl", ex.transitions)
	r.Set("executions", ex.transitions)
	r.Set("distinct_scripts_reaching_new_states", int64(len(ex.scripts)))
	r.Set("max_depth_events", int64(ex.maxDepth))
	r.Finish()
}
